/-
  C02 — All-predecessor (DAG/Workflow) nodes run at most once, exactly when triggered.
  Property theorems: channel level (firing condition, input, reset, skip), run level
  (`dag_at_most_once`, `dag_fuel_never_binds`, for every well-formed acyclic runner, input and
  completion schedule), workflow lowering, eager execution (partial).
  Model: EinoV/Model/Engine.lean.  Facts: EinoV/Gen/FactsC02.lean.
-/
import EinoV.Model.Engine
import EinoV.Proofs.C02
import EinoV.Proofs.C02Run
import EinoV.Proofs.C02Compile
import EinoV.Proofs.C02CompileWF
import EinoV.Proofs.C02CompileWWF
import EinoV.Proofs.C02Settled
import EinoV.Proofs.C02EndWaits
import EinoV.Proofs.C02LockStep
import EinoV.Proofs.C02Eager
import EinoV.Proofs.C02Just
import EinoV.Proofs.C02Complete
import EinoV.Proofs.C02Exact
import EinoV.Proofs.C02EagerComplete
import EinoV.Proofs.C02EagerExact
import EinoV.Gen.FactsC02
import EinoV.Expected.C02
import EinoV.Proofs.C02Workflow
import EinoV.Proofs.C02Rerun
import EinoV.Expected.C02Workflow
import EinoV.Proofs.TransDag
import EinoV.Proofs.TransMgrInit
import EinoV.Proofs.TransStep
import EinoV.Proofs.TransTab

namespace EinoV.C02
open EinoV.Engine EinoV.Gen

theorem facts_match :
    FactsC02.reportSkipMarksData = Expected.C02.reportSkipMarksData ∧
    FactsC02.skippedIffAllSkipped = Expected.C02.skippedIffAllSkipped ∧
    FactsC02.getResetsAll = Expected.C02.getResetsAll ∧
    FactsC02.workflowIsEagerDag = Expected.C02.workflowIsEagerDag := by decide

/-- the readiness predicate of the property: not skipped, it has predecessors at all, every
    control predecessor has finished or been skipped, every data predecessor has reported
    (or been skipped) -/
def Triggered {V} (c : Chan V) : Prop :=
  c.skipped = false ∧ ¬ (c.ctrl = [] ∧ c.data = []) ∧
  (∀ p ∈ c.ctrl, p.2 ≠ Dep.waiting) ∧ (∀ p ∈ c.data, p.2 = true)

theorem triggered_iff {V} (c : Chan V) : c.triggered = true ↔ Triggered c := by
  simp only [Chan.triggered, Triggered, Bool.and_eq_true, Bool.not_eq_eq_eq_not, Bool.not_true,
    List.any_eq_false, beq_iff_eq, and_assoc, List.isEmpty_iff, Bool.and_eq_false_imp]
  constructor
  · rintro ⟨h1, h0, h2, h3⟩
    refine ⟨h1, ?_, fun p hp => h2 p hp, fun p hp => ?_⟩
    · rintro ⟨e1, e2⟩
      have := h0 (by simp [e1])
      simp [e2] at this
    · have := h3 p hp
      cases hb : p.2 <;> simp_all
  · rintro ⟨h1, h0, h2, h3⟩
    refine ⟨h1, ?_, fun p hp => h2 p hp, fun p hp => ?_⟩
    · intro e1
      by_cases e2 : c.data = []
      · exact absurd ⟨by simpa using e1, e2⟩ h0
      · simpa using e2
    · simp [h3 p hp]

/-- **dag_fires_iff_triggered.** A DAG channel hands out an input (or fails to merge one)
    exactly when it is triggered: not skipped, all control predecessors finished or
    skipped, all data predecessors reported. Otherwise it is left untouched. -/
theorem dag_fires_iff_triggered {V} (ops : ValOps V) (c : Chan V) :
    ((c.get ops true).2 ≠ .notReady ↔ Triggered c) ∧
    (¬ Triggered c → (c.get ops true).1 = c) := by
  rw [← triggered_iff]
  unfold Chan.get
  by_cases h : c.triggered = true
  · simp only [h, ↓reduceIte, not_true_eq_false, false_implies, and_true, iff_true]
    by_cases hv : c.values.isEmpty = true
    · simp [hv]
    · simp only [hv, Bool.false_eq_true, ↓reduceIte]
      apply collect_ne_notReady
      intro hm
      simp [List.isEmpty_iff] at hv hm
      exact hv hm
  · simp [h]

/-- **dag_input_is_merge.** When it fires, the input is the zero value if no data arrived,
    the single value if one arrived, and the merge of exactly the reported values otherwise. -/
theorem dag_input_is_merge {V} (ops : ValOps V) (c : Chan V) (v : V)
    (h : (c.get ops true).2 = .ready v) :
    (c.values = [] ∧ v = ops.zero) ∨ (c.values.map (·.2) = [v]) ∨
    (2 ≤ c.values.length ∧ ops.merge (c.values.map (·.2)) = some v) := by
  unfold Chan.get at h
  by_cases ht : c.triggered = true
  · simp only [ht, ↓reduceIte] at h
    by_cases hv : c.values.isEmpty = true
    · simp only [hv, ↓reduceIte, GetResult.ready.injEq] at h
      exact Or.inl ⟨by simpa [List.isEmpty_iff] using hv, h.symm⟩
    · simp only [hv, Bool.false_eq_true, ↓reduceIte] at h
      rcases collect_ready ops _ v h with h1 | ⟨h2, h3⟩
      · exact Or.inr (Or.inl h1)
      · exact Or.inr (Or.inr ⟨by simpa using h2, h3⟩)
  · simp [ht] at h

/-- **dag_fire_resets.** Firing resets the channel completely (values cleared, every
    control predecessor waiting again, every data predecessor unreported): together with
    acyclicity this is what makes a node run at most once. -/
theorem dag_fire_resets {V} (ops : ValOps V) (c : Chan V)
    (h : (c.get ops true).2 ≠ .notReady) :
    (c.get ops true).1.values = [] ∧
    (∀ p ∈ (c.get ops true).1.ctrl, p.2 = Dep.waiting) ∧
    (∀ p ∈ (c.get ops true).1.data, p.2 = false) := by
  unfold Chan.get at h ⊢
  by_cases ht : c.triggered = true
  · simp only [ht, ↓reduceIte]
    simp only [Chan.reset, List.mem_map, true_and]
    constructor
    · rintro p ⟨q, _, rfl⟩; rfl
    · rintro p ⟨q, _, rfl⟩; rfl
  · simp [ht] at h

/-- **skipped_iff_all_skipped.** After a skip report the channel is skipped exactly when
    every one of its control predecessors is skipped. -/
theorem skipped_iff_all_skipped {V} (c : Chan V) (keys : List Key) :
    (c.reportSkip true keys).1.skipped = (c.reportSkip true keys).1.ctrl.all (fun p => p.2 == Dep.skipped) := by
  simp [Chan.reportSkip]

/-- a skipped channel never fires -/
theorem skipped_never_fires {V} (ops : ValOps V) (c : Chan V) (h : c.skipped = true) :
    (c.get ops true).2 = .notReady := by
  simp [Chan.get, Chan.triggered, h]

/-! non-vacuity -/
example : Triggered ({ ctrl := [("p", Dep.ready), ("q", Dep.skipped)], data := [("p", true)], values := [("p", 3)] } : Chan Nat) := by
  simp [Triggered]


/-! ## run level -/

open EinoV.Engine.DagRun in
/-- **dag_at_most_once.** In all-predecessor mode every node of a well-formed acyclic runner
    (`DagWF`: distinct keys, START is no node, every node is a declared predecessor of its
    successors, the predecessor relation is acyclic — what `compile` / `validateDAG` guarantee) is
    started at most once per run: for every wiring (control-only, data-only and combined
    dependencies, any number of single and multi-way branches, branches converging on one node,
    nested skips), all node functions and branch outcomes, every input and every fair completion
    schedule.  No bound on the size of the graph. -/
theorem dag_at_most_once {V} (ops : ValOps V) (r : Runner V) (wf : DagWF r) (sched : Sched V)
    (hf : sched.Fair) (x : V) (k : Key) :
    ((runS ops r sched x).trace.flatten.map (·.1)).count k ≤ 1 :=
  run_at_most_once ops r wf sched hf x k

open EinoV.Engine.DagRun in
/-- **dag_fuel_never_binds.** The model's loop bound for all-predecessor runs (`nodes + 2`
    rounds; the Go loop has none) is never what ends a run: with any larger bound the run is the
    same.  (Every round starts a node, and no node starts twice.) -/
theorem dag_fuel_never_binds {V} (ops : ValOps V) (r : Runner V) (wf : DagWF r) (sched : Sched V)
    (hf : sched.Fair) (x : V) (cm : Chans V) (ts : List (Key × V))
    (hc : calcNext ops r (initChans r) [(START, x)] = .ok (cm, .tasks ts)) (extra : Nat) :
    loop ops r sched (r.fuel + extra) cm ts [] = loop ops r sched r.fuel cm ts [] :=
  run_fuel_enough ops r wf sched hf x cm ts hc extra

open EinoV.Engine.DagRun in
/-- **dag_wf_check_sound.** The executable well-formedness check the oracle evaluates on every
    generated all-predecessor case implies the hypothesis of the run-level theorems. -/
theorem dag_wf_check_sound {V} (r : Runner V) (h : dagWFb r = true) : DagWF r := dagWFb_sound r h

open EinoV.Engine.DagRun in
/-- **compiled_graph_declares_predecessors.** Whatever `AddEdge` / `AddBranch` recorded, the
    compiled runner lists every node as a control predecessor of each of its successors (one of
    the clauses of `DagWF`, here for every graph definition). -/
theorem compiled_graph_declares_predecessors {V} (slack : Nat) (g : GraphDef V) (hd : g.dag = true) :
    SuccOK (compile slack g) := compile_succOK slack g hd

/-! non-vacuity: a diamond with a two-way branch and a converging node satisfies `DagWF` -/
def gDiamond : GraphDef Nat :=
  { dag := true, nodes := [("a", fun v => .ok (v + 1)), ("b", fun v => .ok (v * 2)), ("c", fun v => .ok v), ("d", fun v => .ok v)],
    edges := [(START, "a"), ("b", "d"), ("c", "d"), ("d", END)],
    branches := [("a", { ends := ["b", "c", "d"], cond := fun v => .ok (if v % 2 == 0 then ["b"] else ["c", "d"]) })] }

example : EinoV.Engine.DagRun.dagWFb (compile 0 gDiamond) = true := by decide

open EinoV.Engine.DagRun in
/-- **dag_starts_are_justified.** In a run of a well-formed acyclic all-predecessor runner, under
    any fair completion schedule, *every task of every step is justified by the completions of
    the older steps* (`Spec/DagStatus.lean`, `Justified`): each control predecessor has completed
    and routed to the node (control edge or selecting branch), or is skipped (recursively: all
    its control predecessors skipped or deselecting), or completed and deselected it; at least
    one actually routed; and the input is the zero value / the single value / the merge of
    values that data predecessors which completed and routed to it produced.  The trace is read
    newest step first; `histOf r x older` are START's completion and the outputs of the older
    steps.  (The converse — a justified node does start — is not proved; see DESIGN.md.) -/
theorem dag_starts_are_justified {V} (ops : ValOps V) (r : Runner V) (wf : DagWF r) (sched : Sched V)
    (hf : sched.Fair) (x : V) : JustTr ops r x (runS ops r sched x).trace.reverse :=
  (run_justified ops r wf sched hf x).1

open EinoV.Engine.DagRun in
/-- **dag_result_is_end_input.** A returned value is the justified input of END: assembled from
    the outputs of exactly data predecessors of END that completed and routed to it, with every
    control predecessor of END completed-and-routed, skipped or deselecting. -/
theorem dag_result_is_end_input {V} (ops : ValOps V) (r : Runner V) (wf : DagWF r) (sched : Sched V)
    (hf : sched.Fair) (x v : V) (h : (runS ops r sched x).result = .ok v) :
    Justified ops r (histOf r x (runS ops r sched x).trace.reverse) END v :=
  (run_justified ops r wf sched hf x).2 v h

open EinoV.Engine.DagRun in
/-- **dag_enabled_nodes_start** (the converse of `dag_starts_are_justified`).  In a run of a
    well-formed acyclic all-predecessor runner (`DagWF`, and `DagWF2`: every declared predecessor
    lists the node among its control / data successors, every key with control predecessors is a
    node), under any fair completion schedule: at every step, every node that is *enabled* by
    the completions of the older steps — it has control predecessors, each of them completed or
    is skipped, at least one completed and routed to it, every data predecessor completed or is
    skipped (`Spec/DagStatus.lean`, `Enabled`) — is among the tasks started by then.  Together
    with at-most-once and justification: a node with control predecessors executes exactly once,
    exactly when it is enabled, as long as the run goes on.  (Nodes with data predecessors only
    are outside `Enabled`; the eager loop is not covered by this theorem.) -/
theorem dag_enabled_nodes_start {V} (ops : ValOps V) (r : Runner V) (wf : DagWF r) (wf2 : DagWF2 r)
    (sched : Sched V) (hf : sched.Fair) (x : V) : CompTr r x (runS ops r sched x).trace.reverse :=
  run_complete ops r wf wf2 sched hf x

open EinoV.Engine.DagRun in
/-- **dag_input_is_exact.** In a run of a well-formed acyclic all-predecessor runner (`DagWF`,
    `DagWF2`) under any fair completion schedule, the input of every task of every step is the
    zero value, the single value, or the merge of the outputs of *exactly* those data
    predecessors that completed in older steps and routed to it (`ExactIn`: the list of merged
    values is, as a set, `{(p, w) | p completed with output w and routed w to the node as data}`). -/
theorem dag_input_is_exact {V} (ops : ValOps V) (r : Runner V) (wf : DagWF r) (wf2 : DagWF2 r)
    (sched : Sched V) (hf : sched.Fair) (x : V) : ExactTr ops r x (runS ops r sched x).trace.reverse :=
  run_exact ops r wf wf2 sched hf x

open EinoV.Engine.DagRun in
/-- **dag_wf2_check_sound.** The second executable check the oracle evaluates on every generated
    all-predecessor case implies `DagWF2`. -/
theorem dag_wf2_check_sound {V} (r : Runner V) (h : dagWF2b r = true) : DagWF2 r := dagWF2b_sound r h

example : EinoV.Engine.DagRun.dagWF2b (compile 0 gDiamond) = true := by decide

/-! the justification predicate discriminates: on the diamond, with `a`'s output 3 (odd: the
    branch selects `c` and `d`), starting the deselected `b` is NOT justified -/
def sumOps : ValOps Nat := { merge := fun l => some (l.foldl (· + ·) 0), zero := 0 }
def rDiamond : Runner Nat := compile 0 gDiamond

open EinoV.Engine.DagRun in
example : ¬ Justified sumOps rDiamond [(START, 2), ("a", 3)] "b" 3 := by
  intro h
  obtain ⟨_, h2, _⟩ := h
  have : lookupList "b" rDiamond.ctrlPreds ≠ [] := by decide
  obtain ⟨p, hp, o, ho, nd, hc, hr⟩ := h2 this
  have hp' : p = "a" := by
    have : lookupList "b" rDiamond.ctrlPreds = ["a"] := by decide
    rw [this] at hp; simpa using hp
  subst hp'
  simp only [List.mem_cons, Prod.mk.injEq, List.mem_nil_iff, or_false] at ho
  rcases ho with ⟨h1, _⟩ | ⟨_, rfl⟩
  · exact absurd h1 (by decide)
  · have e : rDiamond.call? "a" = rDiamond.nodes[0]? := by rfl
    rw [e] at hc
    have e2 : rDiamond.nodes[0]? = some (rDiamond.nodes[0]'(by decide)) := by simp
    rw [e2] at hc
    cases hc
    rcases hr with h | ⟨sel, hs, hb⟩
    · exact absurd h (by decide)
    · have e3 : selectOf (rDiamond.nodes[0]'(by decide)) 3 = .ok ["c", "d"] := by rfl
      rw [e3] at hs
      cases hs
      exact absurd hb (by decide)

/-- and the run on that input starts `a`, then `c` (and returns through `d`), never `b` -/
example : ((run sumOps rDiamond 2).trace.map (·.map (·.1))) = [["a"], ["c"], ["d"]] := by decide

end EinoV.C02

/-! # Workflows: lowering, eager execution

  Model: EinoV/Model/C02Workflow.lean (`WorkflowDef`, `compileW`, the eager loop `runEager`
  built from the engine's own `calcNext`); proofs: EinoV/Proofs/C02Workflow.lean. -/
namespace EinoV.C02
open EinoV.Engine EinoV.Gen

theorem workflow_facts_match :
    FactsC02.wfAddInputEdge = Expected.C02Workflow.wfAddInputEdge ∧
    FactsC02.wfAddDependencyEdge = Expected.C02Workflow.wfAddDependencyEdge ∧
    FactsC02.wfNoDirectEdge = Expected.C02Workflow.wfNoDirectEdge ∧
    FactsC02.wfOptionsSelectBranches = Expected.C02Workflow.wfOptionsSelectBranches ∧
    FactsC02.wfBranchSkipsData = Expected.C02Workflow.wfBranchSkipsData ∧
    FactsC02.edgeFlagsGuardAppends = Expected.C02Workflow.edgeFlagsGuardAppends ∧
    FactsC02.skipDataSetsNoDataFlow = Expected.C02Workflow.skipDataSetsNoDataFlow ∧
    FactsC02.eagerWaitsForOne = Expected.C02Workflow.eagerWaitsForOne := by decide

/-- the three ways of declaring a dependency are the flag pairs `workflow.go` passes to
    `addEdgeWithMappings` (regenerated from the source on every run) -/
theorem workflow_dependency_kinds (f t : Key) :
    WDep.input f t = WDep.ofFlags f t FactsC02.wfAddInputEdge ∧
    WDep.dependency f t = WDep.ofFlags f t FactsC02.wfAddDependencyEdge ∧
    WDep.noDirect f t = WDep.ofFlags f t FactsC02.wfNoDirectEdge := ⟨rfl, rfl, rfl⟩

/-- **workflow_lowering.** `compileW` (= `Workflow.compile` → `graph.compile`) yields an
    all-predecessor, eager runner whose predecessor tables and edge lists are exactly the
    declared ones: control predecessors = sources of control dependencies ∪ nodes with a
    branch ending here; data predecessors = sources of data dependencies (never a branch);
    `writeTo` / `controls` of every node likewise; every branch is `noDataFlow`. -/
theorem workflow_lowering {V} (ops : ValOps V) (w : WorkflowDef V) :
    ((compileW ops w).dag = FactsC02.workflowIsEagerDag ∧ (compileW ops w).eager = FactsC02.workflowIsEagerDag) ∧
    (∀ t x, x ∈ lookupList t (compileW ops w).ctrlPreds ↔
      (∃ d ∈ w.deps, d.control = true ∧ d.to = t ∧ d.from_ = x) ∨ (∃ b ∈ w.branches, b.1 = x ∧ t ∈ b.2.ends)) ∧
    (∀ t x, x ∈ lookupList t (compileW ops w).dataPreds ↔ ∃ d ∈ w.deps, d.data = true ∧ d.to = t ∧ d.from_ = x) ∧
    (∀ n, (n ∈ (compileW ops w).nodes ∨ n = (compileW ops w).start) →
      (∀ t, t ∈ n.writeTo ↔ ∃ d ∈ w.deps, d.data = true ∧ d.from_ = n.key ∧ d.to = t) ∧
      (∀ t, t ∈ n.controls ↔ ∃ d ∈ w.deps, d.control = true ∧ d.from_ = n.key ∧ d.to = t) ∧
      (∀ b ∈ n.branches, b.noData = FactsC02.wfBranchSkipsData) ∧
      n.branches.map (·.ends) = (w.branches.filter (·.1 == n.key)).map (·.2.ends)) := by
  refine ⟨⟨rfl, rfl⟩, compileW_ctrlPreds ops w, compileW_dataPreds ops w, ?_⟩
  intro n hn
  obtain ⟨h1, h2, h3, h4⟩ := compileW_node ops w n hn
  exact ⟨fun t => by rw [h1]; exact mem_dataOut w n.key t, fun t => by rw [h2]; exact mem_ctrlOut w n.key t, h3, h4⟩

/-- **workflow_lowering_kinds.** Per declaration: `AddInput` = control + data predecessor,
    `AddDependency` = control only, `WithNoDirectDependency` = data only, a branch = control
    only — and a pair (f, t) with no data (control) declaration is no data (control) predecessor. -/
theorem workflow_lowering_kinds {V} (ops : ValOps V) (w : WorkflowDef V) (f t : Key) :
    (WDep.input f t ∈ w.deps → f ∈ lookupList t (compileW ops w).ctrlPreds ∧ f ∈ lookupList t (compileW ops w).dataPreds) ∧
    (WDep.dependency f t ∈ w.deps → f ∈ lookupList t (compileW ops w).ctrlPreds) ∧
    (WDep.noDirect f t ∈ w.deps → f ∈ lookupList t (compileW ops w).dataPreds) ∧
    (∀ b, (f, b) ∈ w.branches → t ∈ b.ends → f ∈ lookupList t (compileW ops w).ctrlPreds) ∧
    ((∀ d ∈ w.deps, d.from_ = f → d.to = t → d.data = false) → f ∉ lookupList t (compileW ops w).dataPreds) ∧
    ((∀ d ∈ w.deps, d.from_ = f → d.to = t → d.control = false) → (∀ b ∈ w.branches, b.1 = f → t ∉ b.2.ends) →
      f ∉ lookupList t (compileW ops w).ctrlPreds) := by
  refine ⟨?_, ?_, ?_, ?_, ?_, ?_⟩
  · intro h
    exact ⟨(compileW_ctrlPreds ops w t f).mpr (Or.inl ⟨_, h, rfl, rfl, rfl⟩),
           (compileW_dataPreds ops w t f).mpr ⟨_, h, rfl, rfl, rfl⟩⟩
  · intro h; exact (compileW_ctrlPreds ops w t f).mpr (Or.inl ⟨_, h, rfl, rfl, rfl⟩)
  · intro h; exact (compileW_dataPreds ops w t f).mpr ⟨_, h, rfl, rfl, rfl⟩
  · intro b hb ht; exact (compileW_ctrlPreds ops w t f).mpr (Or.inr ⟨_, hb, rfl, ht⟩)
  · intro h hm
    obtain ⟨d, hd, h1, h2, h3⟩ := (compileW_dataPreds ops w t f).mp hm
    rw [h d hd h3 h2] at h1; cases h1
  · intro h hb hm
    rcases (compileW_ctrlPreds ops w t f).mp hm with ⟨d, hd, h1, h2, h3⟩ | ⟨b, hbm, h1, h2⟩
    · rw [h d hd h3 h2] at h1; cases h1
    · exact hb b hbm h1 h2

/-- `calculateNextTasks` is `calcCore` (resolve, update, hand out) followed by the END check -/
theorem calcNext_is_core_then_classify {V} (ops : ValOps V) (r : Runner V) (cm : Chans V) (done : List (Done V)) :
    calcNext ops r cm done = (calcCore ops r cm done).bind classify := calcNext_eq_core ops r cm done

/-- **eager_batch_agree_partial** (one step of "the eager run executes what the batch run
    executes"). In an all-predecessor runner let `a`, `b` be completed tasks of different nodes
    whose completions report no skip (no branch, or every branch end selected), `b` still
    pending. Taking `a` alone (resolve, hand out the ready inputs — the eager loop), then `b`,
    reaches exactly the channels that the batch `[a, b]` reaches (`waitAll`), hands out the
    same (node, input) pairs as a multiset, and sees a merge failure iff the batch does.
    Partial: completions that report skips are not covered (see `EagerConfluenceGoal`). -/
theorem eager_batch_agree_partial {V} (ops : ValOps V) (r : Runner V) (hdag : r.dag = true) (cm : Chans V)
    (na nb : Node V) (a b : Done V) (selA selB : List Key)
    (ha : SkipFree r na a selA) (hb : SkipFree r nb b selB) (hne : a.1 ≠ b.1)
    (hpend : Pending r nb selB b cm) (hpred : AllHavePreds cm) :
    ∃ cmA rdA badA cmAB rdB badB rdAB,
      calcCore ops r cm [a] = .ok (cmA, rdA, badA) ∧
      calcCore ops r cmA [b] = .ok (cmAB, rdB, badB) ∧
      calcCore ops r cm [a, b] = .ok (cmAB, rdAB, badA || badB) ∧
      rdAB.Perm (rdA ++ rdB) :=
  calcCore_seq_eq_batch ops r hdag cm na nb a b selA selB ha hb hne hpend hpred

/-- **eager_completion_order_partial** (the diamond: one step of "for every completion
    schedule …"). Same setting, both tasks pending, `mergeValues` insensitive to the order of
    its arguments. If taking `a` then `b`, one completion at a time, neither returns a result
    nor fails (they do not race for END), then taking `b` then `a` does not either, submits
    the same tasks (same nodes, same inputs, as a multiset) and reaches the same channels up
    to the order in which values were reported; and the batch `[a, b]` does the same. -/
theorem eager_completion_order_partial {V} (ops : ValOps V) (hm : MergePerm ops) (r : Runner V)
    (hdag : r.dag = true) (cm : Chans V) (na nb : Node V) (a b : Done V) (selA selB : List Key)
    (ha : SkipFree r na a selA) (hb : SkipFree r nb b selB) (hne : a.1 ≠ b.1)
    (hpa : Pending r na selA a cm) (hpb : Pending r nb selB b cm) (hpred : AllHavePreds cm)
    (cmA cmAB : Chans V) (tsA tsB : List (Key × V))
    (h1 : calcNext ops r cm [a] = .ok (cmA, .tasks tsA))
    (h2 : calcNext ops r cmA [b] = .ok (cmAB, .tasks tsB)) :
    (∃ ts, calcNext ops r cm [a, b] = .ok (cmAB, .tasks ts) ∧ ts.Perm (tsA ++ tsB)) ∧
    (∃ cmB cmBA tsB' tsA',
      calcNext ops r cm [b] = .ok (cmB, .tasks tsB') ∧ calcNext ops r cmB [a] = .ok (cmBA, .tasks tsA') ∧
      ChansEquiv cmAB cmBA ∧ (tsA ++ tsB).Perm (tsB' ++ tsA')) :=
  calcNext_diamond ops hm r hdag cm na nb a b selA selB ha hb hne hpa hpb hpred cmA cmAB tsA tsB h1 h2

/-- the same at the level of channels / ready inputs / merge failures, END or not -/
theorem eager_completion_order_core_partial {V} (ops : ValOps V) (hm : MergePerm ops) (r : Runner V)
    (hdag : r.dag = true) (cm : Chans V) (na nb : Node V) (a b : Done V) (selA selB : List Key)
    (ha : SkipFree r na a selA) (hb : SkipFree r nb b selB) (hne : a.1 ≠ b.1)
    (hpa : Pending r na selA a cm) (hpb : Pending r nb selB b cm) (hpred : AllHavePreds cm) :
    ∃ cmA rdA badA cmAB rdB badB cmB rdB' badB' cmBA rdA' badA',
      calcCore ops r cm [a] = .ok (cmA, rdA, badA) ∧ calcCore ops r cmA [b] = .ok (cmAB, rdB, badB) ∧
      calcCore ops r cm [b] = .ok (cmB, rdB', badB') ∧ calcCore ops r cmB [a] = .ok (cmBA, rdA', badA') ∧
      ChansEquiv cmAB cmBA ∧ (rdA ++ rdB).Perm (rdB' ++ rdA') ∧ (badA || badB) = (badB' || badA') :=
  calcCore_diamond ops hm r hdag cm na nb a b selA selB ha hb hne hpa hpb hpred

/-! ### run level: Workflows (eager loop) -/

open EinoV.Engine.DagRun in
/-- **workflow_at_most_once.** Under the eager run loop of Workflows — one completion at a time,
    chosen by an arbitrary completion schedule `pick` — no node of a well-formed acyclic runner
    is submitted twice: every wiring (control-only `AddDependency`, data-only
    `WithNoDirectDependency`, `AddInput`, branches, static values), every node function and
    branch outcome, every input, every completion order. -/
theorem workflow_at_most_once {V} (ops : ValOps V) (r : Runner V) (wf : DagWF r) (pick : Pick V) (x : V) (k : Key) :
    ((runEager ops r pick x).submitted.map (·.1)).count k ≤ 1 :=
  runEager_at_most_once ops r wf pick x k

open EinoV.Engine.DagRun in
/-- **workflow_starts_are_justified.** The same for the eager loop of Workflows, whatever the
    completion order: every submitted batch is justified by the outputs of tasks submitted in
    earlier batches (a superset of the completions that had happened), and the result is END's
    justified input. -/
theorem workflow_starts_are_justified {V} (ops : ValOps V) (r : Runner V) (wf : DagWF r) (pick : Pick V) (x : V) :
    JustTr ops r x (runEager ops r pick x).batches.reverse ∧
    (∀ v, (runEager ops r pick x).result = .ok v →
      Justified ops r (histOf r x (runEager ops r pick x).batches.reverse) END v) :=
  runEager_justified ops r wf pick x

open EinoV.Engine.DagRun in
/-- **workflow_enabled_nodes_are_submitted** (completeness for the eager loop of Workflows).
    `EReach` are the states `runEager` passes through (`Spec/DagStatus.lean`); `histC` the
    completions processed so far.  Under `DagWF` and `DagWF2`, for every completion order `pick`:
    in every such state, every node enabled by the processed completions has been submitted. -/
theorem workflow_enabled_nodes_are_submitted {V} (ops : ValOps V) (r : Runner V) (wf : DagWF r) (wf2 : DagWF2 r)
    (pick : Pick V) (x : V) (cm : Chans V) (running : List (Key × V)) (bs : List (List (Key × V))) (comp : List Key)
    (h : EReach ops r pick x cm running bs comp) :
    ∀ n, Enabled r (histC r x bs comp) n → n ∈ bs.flatten.map (·.1) :=
  ereach_complete ops r wf wf2 pick x cm running bs comp h

open EinoV.Engine.DagRun in
/-- **workflow_input_is_exact.** Whenever the eager loop, in a state it passes through, processes a
    completion and submits new tasks, the input of each of them is the zero value / the single
    value / the merge of the outputs of *exactly* those data predecessors among the completions
    processed so far that routed to it (for the first batch: START's output). -/
theorem workflow_input_is_exact {V} (ops : ValOps V) (r : Runner V) (wf : DagWF r) (wf2 : DagWF2 r) (pick : Pick V) (x : V)
    (cm cm' : Chans V) (running ts : List (Key × V)) (bs : List (List (Key × V))) (comp : List Key)
    (t : Key × V) (d : Done V)
    (h : EReach ops r pick x cm running bs comp)
    (hp : running[pick running % running.length]? = some t)
    (hce : collectOne (execOne r t) = .ok d)
    (hc : calcNext ops r cm [d] = .ok (cm', .tasks ts)) :
    ∀ n v, (n, v) ∈ ts → ExactIn ops r (histC r x (bs ++ [ts]) (comp ++ [t.1])) n v :=
  ereach_exact ops r wf wf2 pick x cm cm' running ts bs comp t d h hp hce hc

open EinoV.Engine.DagRun in
/-- **workflow_run_complete.** On the outcome of `runEager`: when the run stops (result, error, or
    nothing left to run), every node enabled by the completions it had processed — all collected
    tasks, except possibly the last one, at which it stopped — is among the submitted tasks. -/
theorem workflow_run_complete {V} (ops : ValOps V) (r : Runner V) (wf : DagWF r) (wf2 : DagWF2 r) (pick : Pick V) (x : V) :
    ∃ comp', ((runEager ops r pick x).completed = comp' ∨ ∃ k, (runEager ops r pick x).completed = comp' ++ [k]) ∧
      ((runEager ops r pick x).batches = [] ∨
       ∀ n, Enabled r (histC r x (runEager ops r pick x).batches comp') n →
         n ∈ (runEager ops r pick x).submitted.map (·.1)) :=
  runEager_complete ops r wf wf2 pick x

open EinoV.Engine.DagRun in
/-- **compiled_workflow_declares_predecessors.** Every compiled Workflow lists each node as a
    control or data predecessor of each of its successors (clause `succ` of `DagWF`). -/
theorem compiled_workflow_declares_predecessors {V} (ops : ValOps V) (w : WorkflowDef V) :
    SuccOK (compileW ops w) := compileW_succOK ops w


/-! ### the full run-level statement (goal, not proved)

  `EinoV.Engine.EagerConfluenceGoal` (Proofs/C02Workflow.lean):
    ∀ V ops, MergePerm ops → ∀ w : WorkflowDef V, w.WF → ∀ x pick pick' v,
      (runEager ops (compileW ops w) pick x).result = .ok v →
        (runEager … pick' x).result = .ok v ∧ (runEager … pick x).submitted.Perm (runEager … pick' x).submitted ∧
        (runEager … pick x).abandoned = [] ∧
        (run ops (compileW ops w) x).result = .ok v ∧ (run …).trace.flatten.Perm (runEager … pick x).submitted
  `WF` excludes exactly the two shapes with known findings; without `noEdgeAndBranch` the
  statement is false (`edge_and_branch_schedule_dependent`), without `hasCtrlPred` "at most
  once" is false (`node_without_predecessor_runs_repeatedly`). The correspondence check
  (harness/props/c02_workflow.go) tests the goal on generated workflows against the real
  runtime under enforced completion orders. -/

/-! ### non-vacuity, instances of the goal, negation witnesses -/

def natOps : ValOps Nat := { merge := fun l => some (l.foldl (· + ·) 0), zero := 0 }

/-- the hypothesis `MergePerm` is satisfiable -/
theorem natOps_mergePerm : MergePerm natOps := by
  intro l l' h
  simp only [natOps, foldl_add_perm l l' h 0]

/-- START→a, START→b (inputs); c: input from a, control-only dependency on b;
    d: control-only dependency on b, data-only dependency on a; c and d feed END -/
def wDiamond : WorkflowDef Nat :=
  { nodes := [("a", fun v => .ok (v + 1)), ("b", fun v => .ok (v + 2)), ("c", fun v => .ok (v + 10)), ("d", fun v => .ok (v + 20))],
    deps := [WDep.input START "a", WDep.input START "b", WDep.input "a" "c", WDep.dependency "b" "c",
             WDep.dependency "b" "d", WDep.noDirect "a" "d", WDep.input "c" END, WDep.input "d" END],
    branches := [] }

def rD : Runner Nat := compileW natOps wDiamond
/-- the channels after START was resolved: a and b are running -/
def cmD : Chans Nat := match calcNext natOps rD (initChans rD) [(START, 5)] with | .ok (cm, _) => cm | .error _ => []
def naD : Node Nat := wDiamond.mkNode "a" (fun v => .ok (v + 1))
def nbD : Node Nat := wDiamond.mkNode "b" (fun v => .ok (v + 2))

/-- the hypotheses of the two-completion theorems hold in a reachable, non-trivial state:
    two running tasks, a shared successor with a control-only and a combined dependency, a
    successor with a data-only dependency -/
example : (match calcNext natOps rD (initChans rD) [(START, 5)] with | .ok (_, .tasks ts) => ts | _ => [])
      = [("a", 5), ("b", 5)] ∧
    SkipFree rD naD ("a", 6) [] ∧ SkipFree rD nbD ("b", 7) [] ∧
    Pending rD naD [] ("a", 6) cmD ∧ Pending rD nbD [] ("b", 7) cmD ∧ AllHavePreds cmD :=
  ⟨by decide, skipFree_of_no_branches rD naD ("a", 6) rfl rfl, skipFree_of_no_branches rD nbD ("b", 7) rfl rfl,
   by unfold Pending; decide, by unfold Pending; decide, by unfold AllHavePreds; decide⟩

/-- … and there the conclusion is not trivial: neither completion alone makes anything ready,
    both together make c (input = a's output only) and d (input = a's output, data-only) ready -/
example : (calcCore natOps rD cmD [("a", 6)]).toOption.map (·.2.1) = some [] ∧
    (calcCore natOps rD cmD [("b", 7)]).toOption.map (·.2.1) = some [] ∧
    (calcCore natOps rD cmD [("a", 6), ("b", 7)]).toOption.map (·.2.1) = some [("c", 6), ("d", 6)] := by decide

def okv (o : EOutcome Nat) : Option Nat := match o.result with | .ok v => some v | .error _ => none

/-- instance of the goal: three completion schedules and the batch run of `wDiamond` agree -/
example : okv (runEager natOps rD (fun _ => 0) 5) = some 42 ∧
    okv (runEager natOps rD (fun l => l.length - 1) 5) = some 42 ∧ okv (runEager natOps rD (fun _ => 1) 5) = some 42 ∧
    (run natOps rD 5).okVal? = some 42 ∧
    (runEager natOps rD (fun _ => 0) 5).completed = ["a", "b", "c", "d"] ∧
    (runEager natOps rD (fun l => l.length - 1) 5).completed = ["b", "a", "d", "c"] ∧
    (runEager natOps rD (fun l => l.length - 1) 5).submitted = [("a", 5), ("b", 5), ("c", 6), ("d", 6)] := by decide

/-- a branch without data flow: START→p; p's branch {u, v} picks u; u→t, v→t (dependencies);
    t takes its data from p only (data-only: the branch handles the order); t→END -/
def wBranch : WorkflowDef Nat :=
  { nodes := [("p", fun v => .ok (v + 1)), ("u", fun v => .ok (v + 100)), ("v", fun v => .ok (v + 200)), ("t", fun v => .ok (v * 2))],
    deps := [WDep.input START "p", WDep.dependency "u" "t", WDep.dependency "v" "t", WDep.noDirect "p" "t", WDep.input "t" END],
    branches := [("p", { ends := ["u", "v"], cond := fun _ => .ok ["u"] })] }

/-- the unselected end is skipped, the selected one runs on the zero value (control-only
    input), the join runs once on exactly its data-only predecessor's output -/
example : (runEager natOps (compileW natOps wBranch) (fun _ => 0) 3).submitted = [("p", 3), ("u", 0), ("t", 4)] ∧
    okv (runEager natOps (compileW natOps wBranch) (fun _ => 0) 3) = some 8 ∧
    (run natOps (compileW natOps wBranch) 3).okVal? = some 8 := by decide

/-- START→p, START→q; p→n by a dependency AND n an end of p's branch (which picks m);
    q's branch {n, x} picks x; n, m, x feed END -/
def wEdgeBranch : WorkflowDef Nat :=
  { nodes := [("p", fun v => .ok (v + 1)), ("q", fun v => .ok (v + 2)), ("n", fun _ => .ok 7),
              ("m", fun _ => .ok 1), ("x", fun _ => .ok 1)],
    deps := [WDep.input START "p", WDep.input START "q", WDep.dependency "p" "n",
             WDep.input "n" END, WDep.dependency "m" END, WDep.dependency "x" END],
    branches := [("p", { ends := ["n", "m"], cond := fun _ => .ok ["m"] }),
                 ("q", { ends := ["n", "x"], cond := fun _ => .ok ["x"] })] }

/-- **edge_beats_unselected_branch** (the shape of the former C02 finding of DESIGN.md §5,
    repaired in /repo: a successor a node also triggers through a plain control edge is never
    reported skipped by that node's branches). Whether p finishes before q or after it, n —
    reached from p by a dependency and deselected by p's branch — runs, and the result is n's
    output: the run no longer depends on the completion order. -/
theorem edge_beats_unselected_branch :
    okv (runEager natOps (compileW natOps wEdgeBranch) (fun _ => 0) 0) = some 7 ∧
    okv (runEager natOps (compileW natOps wEdgeBranch) (fun l => l.length - 1) 0) = some 7 ∧
    "n" ∈ (runEager natOps (compileW natOps wEdgeBranch) (fun _ => 0) 0).completed ∧
    "n" ∈ (runEager natOps (compileW natOps wEdgeBranch) (fun l => l.length - 1) 0).completed := by
  decide

/-- START→a→b→END and a node o that nobody declared a dependency for -/
def wOrphan : WorkflowDef Nat :=
  { nodes := [("a", fun v => .ok (v + 1)), ("b", fun v => .ok (v + 1)), ("o", fun _ => .ok 5)],
    deps := [WDep.input START "a", WDep.input "a" "b", WDep.input "b" END], branches := [] }

/-- **node_without_predecessor_never_runs** (a former finding, repaired in /repo: a
    `dagChannel` without any predecessor used to be "always ready", so the node was submitted
    again after every completion). A node nobody declared a dependency for never runs; every
    other node runs once. -/
theorem node_without_predecessor_never_runs :
    (runEager natOps (compileW natOps wOrphan) (fun _ => 0) 0).submitted = [("a", 0), ("b", 1)] ∧
    okv (runEager natOps (compileW natOps wOrphan) (fun _ => 0) 0) = some 2 := by decide

/-! ### every graph definition Compile accepts: the hypotheses of the run-level theorems discharged -/

open EinoV.Engine.DagRun in
/-- **well_formed_graph_compiles_to_well_formed_runner.** `GraphDefWF g` states what `AddNode` /
    `AddEdge` / `AddBranch` / `Compile` accept in all-predecessor mode: distinct node keys other
    than START and END, every edge target and branch end an existing node or END, and an acyclic
    edge / branch-end relation.  The compiled runner of *every* such definition satisfies `DagWF`,
    `DagWF2` and `DagWF3`, i.e. all the hypotheses of the run-level theorems of C02 and C03 — they
    are not an assumption about compiled graphs but a consequence of how `compile` builds the
    predecessor maps and the successor lists. -/
theorem well_formed_graph_compiles_to_well_formed_runner {V} (slack : Nat) (g : GraphDef V)
    (w : GraphDefWF g) : DagWF (compile slack g) ∧ DagWF2 (compile slack g) ∧ DagWF3 (compile slack g) :=
  compile_wf slack g w

open EinoV.Engine.DagRun in
/-- **compiled_graph_at_most_once.** For every well-formed acyclic graph definition, every fair
    completion schedule and every input: no node of the compiled graph starts twice. -/
theorem compiled_graph_at_most_once {V} (ops : ValOps V) (slack : Nat) (g : GraphDef V) (w : GraphDefWF g)
    (sched : Sched V) (hf : sched.Fair) (x : V) (k : Key) :
    ((runS ops (compile slack g) sched x).trace.flatten.map (·.1)).count k ≤ 1 :=
  run_at_most_once ops _ (compile_wf slack g w).1 sched hf x k

open EinoV.Engine.DagRun in
/-- **compiled_graph_runs_exactly_the_enabled_nodes.** … and the tasks of every step are justified
    by the completions of the older steps, every enabled node is among them, and each runs on
    exactly the outputs of the data predecessors that routed to it. -/
theorem compiled_graph_runs_exactly_the_enabled_nodes {V} (ops : ValOps V) (slack : Nat) (g : GraphDef V)
    (w : GraphDefWF g) (sched : Sched V) (hf : sched.Fair) (x : V) :
    JustTr ops (compile slack g) x (runS ops (compile slack g) sched x).trace.reverse ∧
    CompTr (compile slack g) x (runS ops (compile slack g) sched x).trace.reverse ∧
    ExactTr ops (compile slack g) x (runS ops (compile slack g) sched x).trace.reverse :=
  have h := compile_wf slack g w
  ⟨(run_justified ops _ h.1 sched hf x).1, run_complete ops _ h.1 h.2.1 sched hf x,
   run_exact ops _ h.1 h.2.1 sched hf x⟩

open EinoV.Engine.DagRun in
/-- **graphdef_wf_check_sound.** The executable check of `GraphDefWF` the oracle evaluates on every
    generated all-predecessor case eino compiled (a definition eino accepts and the check rejects
    is reported, signature `C02:graphdef-wf`) implies it. -/
theorem graphdef_wf_check_sound {V} (g : GraphDef V) (h : graphDefWFb g = true) : GraphDefWF g :=
  graphDefWFb_sound g h

example : EinoV.Engine.DagRun.graphDefWFb gDiamond = true := by decide

/-- non-vacuity: the diamond with a three-way branch is such a definition -/
example : EinoV.Engine.DagRun.GraphDefWF gDiamond where
  dag := rfl
  keys := by decide
  noStart := by decide
  noEnd := by decide
  edgeTo := by decide
  brTo := by decide
  acyclic := ⟨fun k => if k = START then 0 else if k = "a" then 1 else if k = "b" then 2
      else if k = "c" then 2 else if k = "d" then 3 else 4, by decide, by decide⟩

open EinoV.Engine.DagRun in
/-- **well_formed_workflow_compiles_to_well_formed_runner.** The same for Workflows
    (`Spec/WorkflowDefWF.lean`: distinct node keys other than START / END, control dependencies and
    branch ends target existing nodes or END, a node that receives data has a control predecessor,
    the dependency / branch-end relation is acyclic): the compiled runner satisfies `DagWF`,
    `DagWF2` and `DagWF3`. -/
theorem well_formed_workflow_compiles_to_well_formed_runner {V} (ops : ValOps V) (w : WorkflowDef V)
    (h : WorkflowDefWF w) :
    DagWF (compileW ops w) ∧ DagWF2 (compileW ops w) ∧ DagWF3 (compileW ops w) := compileW_wf ops w h

open EinoV.Engine.DagRun in
/-- **compiled_workflow_at_most_once.** For every well-formed acyclic Workflow definition, every
    completion order and every input, no node is submitted twice. -/
theorem compiled_workflow_at_most_once {V} (ops : ValOps V) (w : WorkflowDef V) (h : WorkflowDefWF w)
    (pick : Pick V) (x : V) (k : Key) :
    ((runEager ops (compileW ops w) pick x).submitted.map (·.1)).count k ≤ 1 :=
  runEager_at_most_once ops _ (compileW_wf ops w h).1 pick x k

open EinoV.Engine.DagRun in
/-- **workflowdef_wf_check_sound.** The executable check the oracle evaluates on every generated
    Workflow case (counted in the evidence) implies `WorkflowDefWF`. -/
theorem workflowdef_wf_check_sound {V} (ops : ValOps V) (w : WorkflowDef V)
    (h : workflowDefWFb ops w = true) : WorkflowDefWF w := workflowDefWFb_sound ops w h

example : EinoV.Engine.DagRun.workflowDefWFb natOps wDiamond = true := by decide
example : EinoV.Engine.DagRun.workflowDefWFb natOps wBranch = true := by decide

/-! ### when a run returns, nothing END depends on is still pending -/

open EinoV.Engine.DagRun in
/-- **dag_return_means_ancestors_settled.** When a run of a well-formed acyclic all-predecessor
    runner returns a value, under any fair completion schedule, *every control ancestor of END*
    (`AncEnd`: a declared control predecessor of END, or of another ancestor) has completed, or is
    skipped (`Settled`): the engine never returns while a node END transitively waits for is
    still to run.  (START has no predecessors: `hs`, a clause of `DagWF3`.) -/
theorem dag_return_means_ancestors_settled {V} (ops : ValOps V) (r : Runner V) (wf : DagWF r)
    (hs : lookupList START r.ctrlPreds = []) (sched : Sched V) (hf : sched.Fair) (x v : V)
    (hres : (runS ops r sched x).result = .ok v) (p : Key) (ha : AncEnd r p) :
    Settled r (histOf r x (runS ops r sched x).trace.reverse) p :=
  run_ancestors_settled ops r wf hs sched hf x v hres p ha

open EinoV.Engine.DagRun in
/-- **workflow_return_means_ancestors_settled.** The same for the eager loop of Workflows and every
    completion order; here the history is that of the *submitted* tasks (a task submitted whose body
    succeeds), the superset of the processed completions the justification theorem speaks about. -/
theorem workflow_return_means_ancestors_settled {V} (ops : ValOps V) (r : Runner V) (wf : DagWF r)
    (hs : lookupList START r.ctrlPreds = []) (pick : Pick V) (x v : V)
    (hres : (runEager ops r pick x).result = .ok v) (p : Key) (ha : AncEnd r p) :
    Settled r (histOf r x (runEager ops r pick x).batches.reverse) p :=
  runEager_ancestors_settled ops r wf hs pick x v hres p ha

/-- non-vacuity: in the diamond, `a` is a control ancestor of END (through `d`) -/
example : EinoV.Engine.DagRun.AncEnd rDiamond "a" :=
  .step "a" "d" (.base "d" (by decide)) (by decide)

open EinoV.Engine.DagRun in
/-- **dag_end_is_never_a_task.** END is never among the tasks of a step (any runner, any mode, any
    schedule): when END becomes ready the run returns its input. -/
theorem dag_end_is_never_a_task {V} (ops : ValOps V) (r : Runner V) (sched : Sched V) (x : V) :
    ∀ t, t ∈ (runS ops r sched x).trace.flatten → t.1 ≠ END :=
  run_no_end_task ops r sched x

open EinoV.Engine.DagRun in
/-- **dag_returns_as_soon_as_end_is_enabled.** The dual of `dag_return_means_ancestors_settled`: a
    run of a well-formed acyclic all-predecessor runner never goes on once END is enabled — at
    every step it executes (`trace = … step :: older`, newest first), END is *not* enabled by the
    completions of the older steps, under any fair completion schedule. -/
theorem dag_returns_as_soon_as_end_is_enabled {V} (ops : ValOps V) (r : Runner V) (wf : DagWF r)
    (wf2 : DagWF2 r) (sched : Sched V) (hf : sched.Fair) (x : V) (pre : Trace V) (step : List (Key × V))
    (older : Trace V) (h : (runS ops r sched x).trace.reverse = pre ++ step :: older) :
    ¬ Enabled r (histOf r x older) END :=
  run_end_never_waits ops r wf wf2 sched hf x pre step older h

open EinoV.Engine.DagRun in
/-- **dag_stuck_run_has_nothing_enabled.** A run ends with "no tasks to execute" only in a state in
    which the specification enables nothing: if the last step of the trace is empty (the loop's
    `noTasks` exit), every node enabled by the completions so far has been started already, and END
    is not enabled — the engine never gives up while something could still run. -/
theorem dag_stuck_run_has_nothing_enabled {V} (ops : ValOps V) (r : Runner V) (wf : DagWF r) (wf2 : DagWF2 r)
    (sched : Sched V) (hf : sched.Fair) (x : V) (older : Trace V)
    (h : (runS ops r sched x).trace.reverse = [] :: older) :
    (∀ n, Enabled r (histOf r x older) n → n ∈ keysOfTr older) ∧ ¬ Enabled r (histOf r x older) END := by
  refine ⟨fun n hen => ?_, run_end_never_waits ops r wf wf2 sched hf x [] [] older h⟩
  have := compTr_at r x _ (run_complete ops r wf wf2 sched hf x) [] [] older h n hen
  simpa [keysOfTr] using this

/-! ### The same compiled runnable called several times (a session)

The run-level theorems above speak about ONE call of `runner.run`.  A compiled Graph / Workflow is
called many times; the property is stated "per run", so what a node receives in one call must not
depend on the calls made before.  `Model/C02Rerun.lean` threads the channels a completed call
leaves behind to the next call, under the source fact `FactsC02.runBuildsFreshChannels`
(`runner.run` takes its channel manager from `initChannelManager`, which makes every channel with
the channel builder; the runner struct keeps no channels) and an arbitrary clean-up `recycle`. -/
section Rerun

theorem rerun_facts_match :
    FactsC02.runBuildsFreshChannels = Expected.C02.runBuildsFreshChannels := by decide

/-- **runs_are_independent** (Workflows, eager loop): calling the same compiled runner on a
    sequence of inputs, each under its own completion schedule, yields exactly the outcomes of the
    independent runs `runEager ops r pick x` — for every runner, every sequence of calls, whatever
    the previous calls left behind (`idle`) and whatever a clean-up would do (`recycle`).  So every
    statement about `runEager` (at most once, justified starts, exact inputs, the result is END's
    input) holds for the k-th call of a session with the k-th input alone. -/
theorem runs_are_independent {V} (recycle : Chans V → Chans V) (ops : ValOps V) (r : Runner V)
    (idle : Option (Chans V)) (calls : List (Pick V × V)) :
    sessionEager FactsC02.runBuildsFreshChannels recycle ops r idle calls
      = calls.map (fun c => runEager ops r c.1 c.2) :=
  sessionEager_of_start _ recycle ops r (fun i => by
    have h : FactsC02.runBuildsFreshChannels = true := by decide
    rw [h]; exact startChans_fresh recycle r i) idle calls

/-- **dag_runs_are_independent** (all-predecessor Graphs, batch loop): the same for `runS`. -/
theorem dag_runs_are_independent {V} (recycle : Chans V → Chans V) (ops : ValOps V) (r : Runner V)
    (idle : Option (Chans V)) (calls : List (Sched V × V)) :
    sessionS FactsC02.runBuildsFreshChannels recycle ops r idle calls
      = calls.map (fun c => runS ops r c.1 c.2) :=
  sessionS_of_start _ recycle ops r (fun i => by
    have h : FactsC02.runBuildsFreshChannels = true := by decide
    rw [h]; exact startChans_fresh recycle r i) idle calls

/-- a runner that keeps the channels of completed calls is equally right provided its clean-up
    restores what the channel builder creates (both loops) -/
theorem kept_channels_need_a_complete_reset {V} (recycle : Chans V → Chans V) (ops : ValOps V) (r : Runner V)
    (h : ∀ cm, recycle cm = initChans r) (idle : Option (Chans V)) :
    (∀ calls : List (Pick V × V), sessionEager false recycle ops r idle calls = calls.map (fun c => runEager ops r c.1 c.2)) ∧
    (∀ calls : List (Sched V × V), sessionS false recycle ops r idle calls = calls.map (fun c => runS ops r c.1 c.2)) := by
  have hs : ∀ i, startChans false recycle r i = initChans r := by
    intro i; cases i <;> simp [startChans, h]
  exact ⟨fun calls => sessionEager_of_start _ recycle ops r hs idle calls,
         fun calls => sessionS_of_start _ recycle ops r hs idle calls⟩

/-- START→s; s's branch {d, nd} takes d on odd inputs; d and nd precede the gate g, which reads
    s (data-only); g's branch {x, nx} takes x when bit 1 of the input is set; x reads d and s
    over data-only dependencies — its control comes from a branch decided after d has finished;
    x and nx feed END. -/
def wStale : WorkflowDef Nat :=
  { nodes := [("s", fun v => .ok v), ("d", fun v => .ok (v + 10)), ("nd", fun _ => .ok 0), ("g", fun v => .ok v),
              ("x", fun v => .ok v), ("nx", fun _ => .ok 0)],
    deps := [WDep.input START "s", WDep.noDirect "s" "d", WDep.dependency "d" "g", WDep.dependency "nd" "g",
             WDep.noDirect "s" "g", WDep.noDirect "d" "x", WDep.noDirect "s" "x",
             WDep.input "x" END, WDep.input "nx" END],
    branches := [("s", { ends := ["d", "nd"], cond := fun v => .ok [if v % 2 == 1 then "d" else "nd"] }),
                 ("g", { ends := ["x", "nx"], cond := fun v => .ok [if v / 2 % 2 == 1 then "x" else "nx"] })] }

/-- **kept_channels_with_bookkeeping_reset_leak** (non-vacuity of `runs_are_independent`: the
    hypothesis "every call starts from fresh channels" is what carries it).  Call 1 (input 1): d
    runs, x is discarded holding d's 11.  Call 2 (input 2): d is skipped, x runs.  Alone, call 2
    gives x the input 2 and returns 2; in a session whose clean-up restores only the dependency
    bookkeeping x receives 11 + 2; with the complete clean-up the session is right again. -/
theorem kept_channels_with_bookkeeping_reset_leak :
    okv (runEager natOps (compileW natOps wStale) (fun _ => 0) 2) = some 2 ∧
    (sessionEager false recycleDepsOnly natOps (compileW natOps wStale) none
        [((fun _ => 0), 1), ((fun _ => 0), 2)]).map okv = [some 0, some 13] ∧
    (sessionEager false recycleAll natOps (compileW natOps wStale) none
        [((fun _ => 0), 1), ((fun _ => 0), 2)]).map okv = [some 0, some 2] ∧
    (sessionEager FactsC02.runBuildsFreshChannels recycleDepsOnly natOps (compileW natOps wStale) none
        [((fun _ => 0), 1), ((fun _ => 0), 2)]).map okv = [some 0, some 2] := by decide

end Rerun

/-! ### The source itself: compose/dag.go translated (Gen/TransC02.lean) refines the channel model

`tools/factgen/gotrans.go` re-translates `dagChannel.{reportValues, reportDependencies, reportSkip,
get}` (and `get`'s deferred reset) from /repo's working tree on every run.  The theorems below say
that the translated text computes exactly what `Chan.reportValues / reportDeps / reportSkip / get`
compute in all-predecessor mode — so every statement of this file about the channel model (and the
run-level theorems built on it) is a statement about the code as it is now, not about a reading of
it.  A changed statement in dag.go changes the generated definitions and these proofs are re-checked. -/
section Translated
open EinoV.GoSem EinoV.TransDag EinoV.Gen.TransC02
variable {V : Type} [Inhabited V]

theorem translated_source_is_current : FactsC02.dagChannelTranslated = true := by decide

/-- `dagChannel.reportValues` -/
theorem translated_reportValues_refines (ext : Ext V) (ch : dagChannel V) (ins : GoMap V) :
    toChan (dagChannel_reportValues ext ch ins).1 = (toChan ch).reportValues true ins ∧
    (dagChannel_reportValues ext ch ins).2 = none :=
  reportValues_refines ext ch ins

/-- `dagChannel.reportDependencies` -/
theorem translated_reportDependencies_refines (ext : Ext V) (ch : dagChannel V) (deps : List String) :
    toChan (dagChannel_reportDependencies ext ch deps) = (toChan ch).reportDeps true deps :=
  reportDependencies_refines ext ch deps

/-- `dagChannel.reportSkip` (new channel and the returned "all skipped") -/
theorem translated_reportSkip_refines (ext : Ext V) (ch : dagChannel V) (keys : List String) :
    (toChan (dagChannel_reportSkip ext ch keys).1, (dagChannel_reportSkip ext ch keys).2)
      = (toChan ch).reportSkip true keys :=
  reportSkip_refines ext ch keys

/-- `dagChannel.get`, both modes of `isStream` (in stream mode the value handed out when nothing
    arrived is the empty stream), for channels with one entry per predecessor (Go maps) -/
theorem translated_get_refines (ops : ValOps V) (es : V) (ch : dagChannel V) (isStream : Bool) (h : WF ch) :
    toChan (dagChannel_get (extOf ops es) ch isStream).1 = ((toChan ch).get (opsFor ops es isStream) true).1 ∧
    getResult (dagChannel_get (extOf ops es) ch isStream).2 = ((toChan ch).get (opsFor ops es isStream) true).2 :=
  get_refines ops es ch isStream h

/-- the hypothesis `WF` is what `dagChannelBuilder` establishes and every translated operation keeps -/
theorem translated_ops_keep_wf (ext : Ext V) (ch : dagChannel V) (h : WF ch) :
    (∀ ins, WF (dagChannel_reportValues ext ch ins).1) ∧
    (∀ deps, WF (dagChannel_reportDependencies ext ch deps)) ∧
    (∀ keys, WF (dagChannel_reportSkip ext ch keys).1) ∧
    (∀ cp dp : List Key, WF (ofChan (Chan.init (V := V) true cp dp))) :=
  ⟨fun ins => reportValues_wf ext ch ins h, fun d => reportDependencies_wf ext ch d h,
   fun k => reportSkip_wf ext ch k h, fun cp dp => init_wf cp dp⟩

/-- the property clause, read off the translated `get`: the Go function reports ready (or a merge
    error) exactly when the channel is `Triggered`, and leaves an untriggered channel untouched -/
theorem translated_get_fires_iff_triggered (ops : ValOps V) (es : V) (ch : dagChannel V) (isStream : Bool)
    (h : WF ch) :
    (getResult (dagChannel_get (extOf ops es) ch isStream).2 ≠ .notReady ↔ Triggered (toChan ch)) ∧
    (¬ Triggered (toChan ch) → (dagChannel_get (extOf ops es) ch isStream).1 = ch) := by
  obtain ⟨h1, h2⟩ := get_refines ops es ch isStream h
  obtain ⟨g1, g2⟩ := dag_fires_iff_triggered (opsFor ops es isStream) (toChan ch)
  refine ⟨by rw [h2]; exact g1, fun hn => ?_⟩
  have := g2 hn
  rw [← h1] at this
  have e := congrArg ofChan this
  simpa [ofChan_toChan] using e

def exChan : dagChannel Nat :=
  { ControlPredecessors := [("a", Dep.ready), ("b", Dep.skipped)], Values := [("a", 1)],
    DataPredecessors := [("a", true)], Skipped := false }
example : WF exChan := by unfold WF KeysNodup exChan; decide
example : (dagChannel_get (extOf natOps 0) exChan false).2 = (1, true, none) := by decide

end Translated

/-! ### The translated channel manager (compose/graph_manager.go → Gen/TransMgr.lean)

  `channelManager.{updateValues, updateDependencies, getFromReadyChannels, updateAndGet, reportBranch}` and the
  interface `channel` (a sum of `dagChannel | pregelChannel`, checked from the source to be its only
  implementations) are re-translated from /repo on every run; the theorems below say that the translated
  functions compute what the model's channel manager (`updateValues`, `updateDeps`, `getReady`,
  `reportBranch` with `skipOne / skipStep / propagateSkips`) computes.  They hold for both kinds of channel
  (`r.dag` is the kind of every channel: `ChansOK r.dag`); this property uses them with `r.dag = true`.

  Hypotheses (all proved for what `initChannelManager` builds, `translated_manager_hypotheses_hold`, and
  returned again by each theorem for the new manager):
    `Rel r c`      the manager's static tables are the runner's (predecessor sets, successors, channel kind)
    `ChansOK`      one channel per key (a Go map), of the runner's kind, one entry per predecessor
    `NoHandlers`   the edge / pre-node handler managers (externals) return their argument and a nil error:
                   the model has no handlers
    presence       every addressed key has a channel: `updateValues` / `updateDependencies` return an error
                   otherwise, `reportBranch` dereferences nil (the outcome `MayPanic.panic`) -/
section TranslatedManager
open EinoV.GoSem EinoV.TransMgr EinoV.GoWorkList EinoV.Gen.TransC02 EinoV.Gen.TransC01 EinoV.Gen.TransMgr
variable {V : Type} [Inhabited V]

theorem translated_manager_source_is_current : FactsC02.channelManagerTranslated = true := by decide

/-- the interface `channel`: each dispatched method is the model's operation on the channel of that kind -/
theorem translated_channel_methods_refine (ext : Ext V) (ch : channel V) :
    (∀ ins, chanOf (channel_reportValues ext ch ins).1 = (chanOf ch).reportValues (isDag ch) ins ∧
      (channel_reportValues ext ch ins).2 = none) ∧
    (∀ deps, chanOf (channel_reportDependencies ext ch deps) = (chanOf ch).reportDeps (isDag ch) deps) ∧
    (∀ keys, (chanOf (channel_reportSkip ext ch keys).1, (channel_reportSkip ext ch keys).2)
      = (chanOf ch).reportSkip (isDag ch) keys) :=
  ⟨fun ins => ⟨(ch_reportValues ext ch ins).1, (ch_reportValues ext ch ins).2.1⟩,
   fun deps => (ch_reportDependencies ext ch deps).1, fun keys => (ch_reportSkip ext ch keys).1⟩

/-- `channel.get` -/
theorem translated_channel_get_refines (ops : ValOps V) (es : V) (ch : channel V) (isStream : Bool) (h : ChWF ch) :
    chanOf (channel_get (TransDag.extOf ops es) ch isStream).1
      = ((chanOf ch).get (TransDag.opsFor ops es isStream) (isDag ch)).1 ∧
    TransDag.getResult (channel_get (TransDag.extOf ops es) ch isStream).2
      = ((chanOf ch).get (TransDag.opsFor ops es isStream) (isDag ch)).2 :=
  ⟨(ch_get ops es ch isStream h).1, (ch_get ops es ch isStream h).2.1⟩

/-- `channelManager.updateValues`: no panic, a nil error, and the model's `updateValues` (per target only
    the declared data predecessors are reported), when every target has a channel -/
theorem translated_updateValues_refines (ext : Ext V) (mext : MgrExt V) (r : Runner V) (c : channelManager V)
    (values : GoMap (GoMap V)) (hrel : Rel r c) (hok : ChansOK r.dag c.channels) (hE : NoHandlers mext)
    (hpres : ∀ w ∈ values, c.channels.has w.1 = true) (hmaps : ∀ w ∈ values, TransDag.KeysNodup w.2) :
    ∃ c', channelManager_updateValues ext mext c values = .ret (c', none) ∧
      toChans c'.channels = updateValues r (toChans c.channels) values ∧
      Frame c c' ∧ ChansOK r.dag c'.channels :=
  updateValues_refines ext mext r c values hrel hok hE hpres hmaps

/-- `channelManager.updateDependencies` -/
theorem translated_updateDependencies_refines (ext : Ext V) (mext : MgrExt V) (r : Runner V)
    (c : channelManager V) (deps : GoMap (List String)) (hrel : Rel r c) (hok : ChansOK r.dag c.channels)
    (hpres : ∀ d ∈ deps, c.channels.has d.1 = true) :
    ∃ c', channelManager_updateDependencies ext mext c deps = .ret (c', none) ∧
      toChans c'.channels = updateDeps r (toChans c.channels) deps ∧
      Frame c c' ∧ ChansOK r.dag c'.channels :=
  updateDependencies_refines ext mext r c deps hrel hok hpres

/-- `channelManager.getFromReadyChannels` against `getReady`: no `get` fails exactly when the model reports
    no merge error, and then channels and ready values are the model's; otherwise an error and a nil map
    (Go stops at the first failing channel, the model resets the others too: the run is over) -/
theorem translated_getFromReadyChannels_refines (ops : ValOps V) (es : V) (mext : MgrExt V) (dag : Bool)
    (c : channelManager V) (hok : ChansOK dag c.channels) (hE : NoHandlers mext) :
    let g := getReady (TransDag.opsFor ops es c.isStream) dag (toChans c.channels)
    let res := channelManager_getFromReadyChannels (TransDag.extOf ops es) mext c
    (g.2.2 = false → toChans res.1.channels = g.1 ∧ res.2.1 = g.2.1 ∧ res.2.2 = none ∧
        Frame c res.1 ∧ ChansOK dag res.1.channels) ∧
    (g.2.2 = true → res.2.2.isSome = true ∧ res.2.1 = []) :=
  getFromReadyChannels_refines ops es mext dag c hok hE

/-- `channelManager.updateAndGet` is the channel part of the model's `calcNext`:
    `updateValues`, then `updateDeps`, then `getReady` -/
theorem translated_updateAndGet_refines (ops : ValOps V) (es : V) (mext : MgrExt V) (r : Runner V)
    (c : channelManager V) (values : GoMap (GoMap V)) (deps : GoMap (List String))
    (hrel : Rel r c) (hok : ChansOK r.dag c.channels) (hE : NoHandlers mext)
    (hpv : ∀ w ∈ values, c.channels.has w.1 = true) (hmaps : ∀ w ∈ values, TransDag.KeysNodup w.2)
    (hpd : ∀ d ∈ deps, c.channels.has d.1 = true) :
    let g := getReady (TransDag.opsFor ops es c.isStream) r.dag
      (updateDeps r (updateValues r (toChans c.channels) values) deps)
    ∃ res, channelManager_updateAndGet (TransDag.extOf ops es) mext c values deps = .ret res ∧
      (g.2.2 = false → toChans res.1.channels = g.1 ∧ res.2.1 = g.2.1 ∧ res.2.2 = none ∧
        Frame c res.1 ∧ ChansOK r.dag res.1.channels) ∧
      (g.2.2 = true → res.2.2.isSome = true ∧ res.2.1 = []) :=
  updateAndGet_refines ops es mext r c values deps hrel hok hE hpv hmaps hpd

/-- `channelManager.reportBranch`, step 1: the translated function computes Go's work list (`goReportBranch`:
    a key is appended whenever `reportSkip` returns true) on the model's channels — for every fuel with which
    that list is exhausted (the Go loop has no fuel); no nil dereference when every successor and every
    skipped node has a channel -/
theorem translated_reportBranch_is_go_worklist (ext : Ext V) (mext : MgrExt V) (r : Runner V)
    (c : channelManager V) (fuel : Nat) (from_ : Key) (sk : List Key) (hrel : Rel r c)
    (hok : ChansOK r.dag c.channels) (hcl : SuccClosed c) (hsk : ∀ s ∈ sk, c.channels.has s = true)
    (res : Except Err (Chans V)) (hgo : goReportBranch r fuel (toChans c.channels) from_ sk = some res) :
    ∃ c' e, channelManager_reportBranch ext mext fuel c from_ sk = .ret (c', e) ∧
      match (generalizing := false) res with
      | .ok cm' => e = none ∧ toChans c'.channels = cm' ∧ Frame c c' ∧ ChansOK r.dag c'.channels
      | .error _ => e = some (GoErr.mk "unknown node: %s") :=
  reportBranch_go ext mext r c fuel from_ sk hrel hok hcl hsk res hgo

omit [Inhabited V] in
/-- step 2 (about the model alone): Go's work list and the model's (`skipOne` pushes a key only when it
    *becomes* skipped, fuel `(n+2)²`) have the same outcome — a key Go pops in addition has passed its skip
    on already, and reporting a skip twice changes nothing; the model's fuel is never exhausted.
    `SkipClosed` (every skipped channel has passed its skip on) and `AllSkImp` hold initially and are kept. -/
theorem go_worklist_is_model_worklist (r : Runner V) (fuel : Nat) (cm : Chans V) (from_ : Key) (sk : List Key)
    (R : Except Err (Chans V)) (hnd : (akeys cm).Nodup) (hsk : AllSkImp cm) (hcl : SkipClosed r cm)
    (hlen : cm.length ≤ (r.nodes.length + 2) * (r.nodes.length + 2))
    (hgo : goReportBranch r fuel cm from_ sk = some R) :
    reportBranch r cm from_ sk = R ∧
      ∀ cm', R = .ok cm' → r.dag = true → (akeys cm').Nodup ∧ AllSkImp cm' ∧ SkipClosed r cm' :=
  goReportBranch_eq r fuel cm from_ sk R hnd hsk hcl hlen hgo

/-- `channelManager.reportBranch` refines the model's `reportBranch` (both steps together): whenever the Go
    loop runs to completion, no panic, and the model's channels with a nil error — or the error
    "unknown node" exactly when the model reports `endSkipped` -/
theorem translated_reportBranch_refines (ext : Ext V) (mext : MgrExt V) (r : Runner V) (c : channelManager V)
    (fuel : Nat) (from_ : Key) (sk : List Key) (hrel : Rel r c) (hok : ChansOK r.dag c.channels)
    (hcl : SuccClosed c) (hsk : ∀ s ∈ sk, c.channels.has s = true)
    (hsi : AllSkImp (toChans c.channels)) (hsc : SkipClosed r (toChans c.channels))
    (hlen : c.channels.length ≤ (r.nodes.length + 2) * (r.nodes.length + 2))
    (R : Except Err (Chans V)) (hgo : goReportBranch r fuel (toChans c.channels) from_ sk = some R) :
    reportBranch r (toChans c.channels) from_ sk = R ∧
    ∃ c' e, channelManager_reportBranch ext mext fuel c from_ sk = .ret (c', e) ∧
      match (generalizing := false) R with
      | .ok cm' => e = none ∧ toChans c'.channels = cm' ∧ Frame c c' ∧ ChansOK r.dag c'.channels ∧
          (r.dag = true → AllSkImp cm' ∧ SkipClosed r cm')
      | .error _ => e = some (GoErr.mk "unknown node: %s") :=
  reportBranch_refines ext mext r c fuel from_ sk hrel hok hcl hsk hsi hsc hlen R hgo

/-- `channelManager.reportBranch` refines the model's `reportBranch`, without a condition on the fuel, when
    the successor relation is acyclic (`rank`; what `validateDAG` enforces, `translated_manager_acyclic`):
    the Go loop terminates — there is a fuel `N` from which on the translated loop exhausts its work list —
    and then the function does not panic and returns the model's channels with a nil error, or the error
    "unknown node" exactly when the model reports `endSkipped` (END became skipped) -/
theorem translated_reportBranch_total (ext : Ext V) (mext : MgrExt V) (r : Runner V) (c : channelManager V)
    (from_ : Key) (sk : List Key) (hrel : Rel r c) (hok : ChansOK r.dag c.channels) (hcl : SuccClosed c)
    (hsk : ∀ s ∈ sk, c.channels.has s = true)
    (hsi : AllSkImp (toChans c.channels)) (hsc : SkipClosed r (toChans c.channels))
    (hlen : c.channels.length ≤ (r.nodes.length + 2) * (r.nodes.length + 2))
    (rank : Key → Nat) (hacyc : r.dag = true → ∀ n ∈ r.nodes, ∀ s ∈ n.successors, rank n.key < rank s) :
    ∃ N, ∀ fuel, N ≤ fuel →
      ∃ c' e, channelManager_reportBranch ext mext fuel c from_ sk = .ret (c', e) ∧
        match reportBranch r (toChans c.channels) from_ sk with
        | .ok cm' => e = none ∧ toChans c'.channels = cm' ∧ Frame c c' ∧ ChansOK r.dag c'.channels ∧
            (r.dag = true → AllSkImp cm' ∧ SkipClosed r cm')
        | .error _ => e = some (GoErr.mk "unknown node: %s") :=
  reportBranch_total ext mext r c from_ sk hrel hok hcl hsk hsi hsc hlen rank hacyc

/-- the acyclicity hypothesis for a compiled all-predecessor runner -/
theorem translated_manager_acyclic (r : Runner V) (wf : DagRun.DagWF r) (hc : RunnerClosed r) :
    ∃ rank : Key → Nat, ∀ n ∈ r.nodes, ∀ s ∈ n.successors, rank n.key < rank s :=
  acyc_of_dagWF r wf hc

/-- the hypotheses are what `initChannelManager` establishes for a compiled runner: `initMgr r s` is the
    manager built from the runner (its channels are the model's `initChans`); closedness holds for every
    runner `compile` builds from a graph definition whose edges and branch ends are nodes or END -/
theorem translated_manager_hypotheses_hold (r : Runner V) (s : Bool) (hnd : (akeys (initChans r)).Nodup) :
    Rel r (initMgr r s) ∧ ChansOK r.dag (initMgr r s).channels ∧
    toChans (initMgr r s).channels = initChans r ∧
    SkipClosed r (initChans r) ∧ AllSkImp (initChans r) ∧
    (initMgr r s).channels.length ≤ (r.nodes.length + 2) * (r.nodes.length + 2) ∧
    (RunnerClosed r → SuccClosed (initMgr r s)) ∧
    (∀ (slack : Nat) (g : GraphDef V), DagRun.GraphDefWF g → RunnerClosed (compile slack g)) :=
  ⟨initMgr_rel r s, initMgr_ok r s hnd, initMgr_chans r s, (init_skipClosed r).1, (init_skipClosed r).2,
   initMgr_len r s, initMgr_closed r s, fun slack g wf => compile_closed slack g wf.edgeTo wf.brTo⟩

/-! non-vacuity: a concrete runner, the manager built for it, and runs of the translated functions -/

/-- a → branch {b, c};  b → end;  c → end  (all-predecessor mode) -/
def exR2 : Runner Nat :=
  { nodes := [{ key := "a", act := fun v => .ok v, branches := [{ ends := ["b", "c"], cond := fun _ => .ok ["c"] }] },
              { key := "b", act := fun v => .ok v, writeTo := ["end"], controls := ["end"] },
              { key := "c", act := fun v => .ok v, writeTo := ["end"], controls := ["end"] }],
    start := { key := "start", act := fun v => .ok v, writeTo := ["a"], controls := ["a"] },
    dataPreds := [("a", ["start"]), ("b", ["a"]), ("c", ["a"]), ("end", ["b", "c"])],
    ctrlPreds := [("a", ["start"]), ("b", ["a"]), ("c", ["a"]), ("end", ["b", "c"])],
    maxSteps := 0, dag := true }

def noH : MgrExt Nat := { edgeHandle := fun _ _ v _ => (v, none), preNodeHandle := fun _ v _ => (v, none) }

example : NoHandlers noH := ⟨fun _ _ _ _ => rfl, fun _ _ _ => rfl⟩
example : Rel exR2 (initMgr exR2 false) := initMgr_rel _ _
example : ChansOK exR2.dag (initMgr exR2 false).channels := initMgr_ok exR2 false (by decide)
example : SuccClosed (initMgr exR2 false) := initMgr_closed exR2 false (by unfold RunnerClosed; decide)

/-- the branch at `a` deselects `b`: `b` becomes skipped, END learns that `b` is skipped and keeps waiting for `c` -/
example : (match channelManager_reportBranch (TransDag.extOf natOps 0) noH 10 (initMgr exR2 false) "a" ["b"] with
    | .ret (c', none) => (toChans c'.channels).map (fun p => (p.1, p.2.skipped, p.2.ctrl))
    | _ => []) =
    [("a", false, [("start", Dep.waiting)]), ("b", true, [("a", Dep.skipped)]), ("c", false, [("a", Dep.waiting)]),
     ("end", false, [("b", Dep.skipped), ("c", Dep.waiting)])] := by decide

/-- both ends deselected: END becomes skipped — the error "unknown node" (Go pops b, c, end) -/
example : (match channelManager_reportBranch (TransDag.extOf natOps 0) noH 10 (initMgr exR2 false) "a" ["b", "c"] with
    | .ret (_, some (GoErr.mk s)) => s
    | _ => "") = "unknown node: %s" := by decide

/-- the Go work list of that call is exhausted with fuel 10 (it pops b, c, end, end) -/
example : (match goReportBranch exR2 10 (initChans exR2) "a" ["b", "c"] with
    | some (.error e) => e.cls == ErrClass.endSkipped
    | _ => false) = true := by decide

/-- a missing channel: the nil dereference is explicit -/
example : (match channelManager_reportBranch (TransDag.extOf natOps 0) noH 10 (initMgr exR2 false) "a" ["nope"] with
    | .panic => true
    | _ => false) = true := by decide

/-- one step of the engine through the translated `updateAndGet`: START's value reaches `a` -/
example : (match channelManager_updateAndGet (TransDag.extOf natOps 0) noH (initMgr exR2 false)
      [("a", [("start", 7)])] [("a", ["start"])] with
    | .ret r => r.2.1
    | .panic => []) = [("a", 7)] := by decide

/-- why `SkipClosed` is a hypothesis: `s` (control predecessor `a`, data-only predecessor `b`) was skipped and
    told `t`; then `t` ran (its other predecessor `u` finished) and was reset; now `b` is skipped.  Go's
    `reportSkip(s, [b])` returns true again, `s` is popped a second time and marks `t`'s (reset) entry for `s`
    skipped; the model does not pop `s` again.  (No later `get` of `t` is affected in an acyclic graph: `u`
    never completes again.) -/
def exR3 : Runner Nat :=
  { nodes := [{ key := "b", act := fun v => .ok v, writeTo := ["s"] },
              { key := "s", act := fun v => .ok v, writeTo := ["t"], controls := ["t"] },
              { key := "t", act := fun v => .ok v, writeTo := ["end"], controls := ["end"] }],
    start := { key := "start", act := fun v => .ok v },
    dataPreds := [], ctrlPreds := [], maxSteps := 0, dag := true }

def exCm3 : Chans Nat :=
  [("b", { ctrl := [("x", Dep.waiting)] }),
   ("s", { ctrl := [("a", Dep.skipped)], data := [("a", true), ("b", false)], skipped := true }),
   ("t", { ctrl := [("s", Dep.waiting), ("u", Dep.waiting)] }),
   ("end", { ctrl := [("t", Dep.waiting)] })]

def ctrlOfT (cm : Chans Nat) : List (Key × Dep) := ((alookup "t" cm).map (·.ctrl)).getD []

example : (match goReportBranch exR3 10 exCm3 "x" ["b"] with
    | some (.ok cm) => ctrlOfT cm | _ => []) = [("s", Dep.skipped), ("u", Dep.waiting)] := by decide
example : (match reportBranch exR3 exCm3 "x" ["b"] with
    | .ok cm => ctrlOfT cm | _ => []) = [("s", Dep.waiting), ("u", Dep.waiting)] := by decide

end TranslatedManager

/-! ### The translated step function (compose/graph_run.go → Gen/TransStep.lean; gotrans phase 4)

  `copyItem`, `runner.calculateBranch`, `resolveCompletedTasks`, `createTasks`, `calculateNextTasks` are
  re-translated from /repo on every run (value mode; structs `task`, `chanCall`, `GraphBranch`, `runner` by
  value; `cm *channelManager` as an in/out parameter; every slice index / slice expression with an explicit
  bounds guard whose failure is the outcome `GoOutcome.panic`).  The theorems below say that for
  `isStream = false` the translated functions compute the model's `calcBranch`, `resolve`, `calcNext` — the
  step function the run-level theorems of this property stand on (`run_at_most_once`, `run_justified`,
  `run_complete`, schedule independence) — and never return `.panic` / `.unspecified`.

  Relations / hypotheses (Proofs/TransStep.lean):
    `BranchRel`, `CallRel`, `TaskRel`   a translated GraphBranch / chanCall / completed task is the model's
                   Branch / Node / completed task: end nodes in the map's stored order (so every stored order
                   of `endNodes` is covered by the model's arbitrary list `ends`), writeTo, controls, and the
                   external `branch.invoke` is the model's condition followed by the end-node check
    `MgrInv r c`   the hypotheses of the translated channel manager (`Rel`, `ChansOK`, `SuccClosed`, the skip
                   invariants, the model's fuel bound) — kept by `calculateBranch` / `resolveCompletedTasks`
    `CallsClosed`, `SubsOK`   every successor of a node that can complete has a channel; every channel but END
                   has a `chanSubscribeTo` entry (what `compile` builds)
    `NoBranchHandlers`, `NoHandlers`   the handler managers (externals) are the identity
    fuel           Go's `reportBranch` loop has no fuel; the translated one terminates on acyclic graphs:
                   "there is N such that for every fuel ≥ N" (N depends on the model state only)
  Orders: the list handed to `reportBranch` and the created tasks are *equal* to the model's lists (not only
  up to permutation): Go's map `skippedNodes` is filled in branch order × stored end-node order and
  deletions keep the order of the rest, which is the model's `skippedOf`; the created tasks follow the
  stored order of the ready map, which is the model's `getReady` order. -/
section TranslatedStep
open EinoV.GoSem EinoV.TransMgr EinoV.TransStep EinoV.GoWorkList EinoV.Gen.TransMgr EinoV.Gen.TransStep
variable {V : Type} [Inhabited V]

theorem translated_step_source_is_current : FactsC02.stepFunctionTranslated = true := by decide

/-- `copyItem` in value mode: fewer than two copies ↦ the item alone, otherwise n copies (never a panic) -/
theorem translated_copyItem_refines (ext : Ext V) (mext : MgrExt V) (sext : StepExt V) (item : V) (n : Int) :
    copyItem ext mext sext item n = .ret (if n < 2 then [item] else List.replicate n.toNat item) :=
  copyItem_spec ext mext sext item n

/-- `delete(m, k)` (`GoMap.erase`, new in the prelude) is removal from the model's association list -/
theorem translated_delete_is_assoc_removal {α : Type} (m : GoMap α) (k k' : Key) :
    alookup k' (m.erase k) = if k' == k then none else alookup k' m :=
  alookup_erase m k k'

/-- **`calculateBranch` refines `calcBranch`.**  For every model state `cm` there is a fuel from which on, for
    every manager representing `cm`, the translated function returns the model's selected keys and channels
    (the copies it was handed unchanged), or an error exactly when the model fails. -/
theorem translated_calculateBranch_refines (ext : Ext V) (mext : MgrExt V) (sext : StepExt V) (r : Runner V)
    (gr : runner V) (cm : Chans V) (n : Node V) (out : V) (rank : Key → Nat)
    (hacyc : r.dag = true → ∀ n ∈ r.nodes, ∀ s ∈ n.successors, rank n.key < rank s)
    (hE : NoBranchHandlers sext) :
    ∃ N, ∀ (c : channelManager V) (cc : chanCall V) (fuel : Nat), N ≤ fuel → toChans c.channels = cm →
      MgrInv r c → CallRel sext cc n →
      (∀ b ∈ n.branches, ∀ e ∈ b.ends, c.channels.has e = true) →
      match calcBranch r cm n out with
      | .ok (cm', sel) => ∃ c',
          (∀ m, cc.writeToBranches.length ≤ m →
            runner_calculateBranch ext mext sext fuel gr n.key cc (List.replicate m out) false c
              = .ret (List.replicate m out, c', sel, none)) ∧
          toChans c'.channels = cm' ∧ Frame c c' ∧ MgrInv r c' ∧ (n.branches = [] → sel = [])
      | .error _ => ∃ c' e, ∀ m, cc.writeToBranches.length ≤ m →
          runner_calculateBranch ext mext sext fuel gr n.key cc (List.replicate m out) false c
            = .ret (List.replicate m out, c', [], some e) :=
  calculateBranch_refines ext mext sext r gr cm n out rank hacyc hE

/-- **`resolveCompletedTasks` refines `resolve`.** -/
theorem translated_resolveCompletedTasks_refines (ext : Ext V) (mext : MgrExt V) (sext : StepExt V)
    (r : Runner V) (gr : runner V) (rank : Key → Nat)
    (hacyc : r.dag = true → ∀ n ∈ r.nodes, ∀ s ∈ n.successors, rank n.key < rank s)
    (hE : NoBranchHandlers sext) (ts : List (task V)) (ds : List (Done V))
    (hrel : ListRel (TaskRel sext r) ts ds) (cm : Chans V) :
    ∃ N, ∀ fuel, N ≤ fuel → ∀ c, toChans c.channels = cm → MgrInv r c → EndsClosed r c →
      match resolve r cm ds with
      | .ok res => ∃ c', runner_resolveCompletedTasks ext mext sext fuel gr ts false c
            = .ret (c', res.writes, res.deps, none) ∧
          toChans c'.channels = res.cm ∧ Frame c c' ∧ MgrInv r c'
      | .error _ => ∃ c' e, runner_resolveCompletedTasks ext mext sext fuel gr ts false c
            = .ret (c', [], [], some e) :=
  resolveCompletedTasks_refines ext mext sext r gr rank hacyc hE ts ds hrel cm

/-- `createTasks`: one task per ready node, in the stored order of the map -/
theorem translated_createTasks_refines (ext : Ext V) (mext : MgrExt V) (sext : StepExt V) (gr : runner V)
    (nm : GoMap V) (om : GoMap (List V)) (h : ∀ p ∈ nm, gr.chanSubscribeTo.has p.1 = true) :
    runner_createTasks ext mext sext gr nm om = (nm.map (mkTask gr), none) :=
  createTasks_spec ext mext sext gr nm om h

/-- **`calculateNextTasks` refines `calcNext`** — the model's step function is what the code computes. -/
theorem translated_calculateNextTasks_refines (ops : ValOps V) (es : V) (mext : MgrExt V) (sext : StepExt V)
    (r : Runner V) (gr : runner V) (rank : Key → Nat)
    (hacyc : r.dag = true → ∀ n ∈ r.nodes, ∀ s ∈ n.successors, rank n.key < rank s)
    (hE : NoBranchHandlers sext) (hM : NoHandlers mext)
    (ts : List (task V)) (ds : List (Done V)) (hrel : ListRel (TaskRel sext r) ts ds) (cm : Chans V) :
    ∃ N, ∀ fuel, N ≤ fuel → ∀ c om, toChans c.channels = cm → c.isStream = false → MgrInv r c →
      CallsClosed r c → SubsOK gr c →
      match calcNext (TransDag.opsFor ops es false) r cm ds with
      | .ok (cm3, .result v) => ∃ c',
          runner_calculateNextTasks (TransDag.extOf ops es) mext sext fuel gr ts false c om = .ret (c', [], v, none) ∧
          toChans c'.channels = cm3 ∧ Frame c c' ∧ ChansOK r.dag c'.channels
      | .ok (cm3, .tasks ready) => ∃ c',
          runner_calculateNextTasks (TransDag.extOf ops es) mext sext fuel gr ts false c om
            = .ret (c', ready.map (mkTask gr), default, none) ∧
          toChans c'.channels = cm3 ∧ Frame c c' ∧ ChansOK r.dag c'.channels
      | .error _ => ∃ c' e,
          runner_calculateNextTasks (TransDag.extOf ops es) mext sext fuel gr ts false c om
            = .ret (c', [], default, some e) :=
  calculateNextTasks_refines ops es mext sext r gr rank hacyc hE hM ts ds hrel cm

/-- the step function never leaves the translated semantics (no nil dereference, no index / slice bound
    violated, no assignment into a nil map, nothing Go leaves unspecified) -/
theorem translated_step_total (ops : ValOps V) (es : V) (mext : MgrExt V) (sext : StepExt V)
    (r : Runner V) (gr : runner V) (rank : Key → Nat)
    (hacyc : r.dag = true → ∀ n ∈ r.nodes, ∀ s ∈ n.successors, rank n.key < rank s)
    (hE : NoBranchHandlers sext) (hM : NoHandlers mext)
    (ts : List (task V)) (ds : List (Done V)) (hrel : ListRel (TaskRel sext r) ts ds) (cm : Chans V) :
    ∃ N, ∀ fuel, N ≤ fuel → ∀ c om, toChans c.channels = cm → c.isStream = false → MgrInv r c →
      CallsClosed r c → SubsOK gr c →
      ∃ res, runner_calculateNextTasks (TransDag.extOf ops es) mext sext fuel gr ts false c om = .ret res :=
  step_total ops es mext sext r gr rank hacyc hE hM ts ds hrel cm

/-- the manager hypotheses hold for what `initChannelManager` builds, for every runner whose successors (of
    the nodes and of START) are nodes or END; `MgrInv` is returned again by `calculateBranch` /
    `resolveCompletedTasks` for the new manager -/
theorem translated_step_hypotheses_hold (r : Runner V) (s : Bool) (hnd : (akeys (initChans r)).Nodup)
    (hc : RunnerClosed r) (hs : ∀ k ∈ r.start.successors, k ∈ akeys (initChans r)) :
    MgrInv r (initMgr r s) ∧ CallsClosed r (initMgr r s) ∧ toChans (initMgr r s).channels = initChans r :=
  step_hypotheses_hold r s hnd hc hs

/-! non-vacuity: the runner `exR2` (a → branch {b, c}; b, c → end), its translated twin, one step -/

def exBrA : GraphBranch Nat := { endNodes := [("b", true), ("c", true)], idx := 0 }
def exCallStart : chanCall Nat := { writeTo := ["a"], writeToBranches := [], controls := ["a"] }
def exCallA : chanCall Nat := { writeTo := [], writeToBranches := [exBrA], controls := [] }
def exCallBC : chanCall Nat := { writeTo := ["end"], writeToBranches := [], controls := ["end"] }
def exGr : runner Nat := { chanSubscribeTo := [("a", exCallA), ("b", exCallBC), ("c", exCallBC)] }
def exSext : StepExt Nat :=
  { branchInvoke := fun _ _ => (["c"], none), branchCollect := fun _ _ => (["c"], none),
    preBranchHandle := fun _ _ v _ => (v, none) }

example : NoBranchHandlers exSext := fun _ _ _ _ => rfl
example : BranchRel exSext exBrA { ends := ["b", "c"], cond := fun _ => .ok ["c"] } :=
  ⟨rfl, fun _ ws h => by simp [brSel, bind, Except.bind, pure, Except.pure] at h; subst h; rfl,
   fun _ e h => by simp [brSel, bind, Except.bind, pure, Except.pure] at h⟩
example : MgrInv exR2 (initMgr exR2 false) ∧ CallsClosed exR2 (initMgr exR2 false) :=
  let h := step_hypotheses_hold exR2 false (by decide) (by unfold RunnerClosed; decide) (by decide)
  ⟨h.1, h.2.1⟩

/-- START completed with 7: the translated step function hands `a` its input -/
example : (match runner_calculateNextTasks (TransDag.extOf natOps 0) noH exSext 10 exGr
      [{ nodeKey := "start", call := exCallStart, input := 7, output := 7 }] false (initMgr exR2 false) [] with
    | .ret r => r.2.1.map (fun t => (t.nodeKey, t.input))
    | _ => []) = [("a", 7)] := by decide

/-- `a` completed on the initial manager: the branch selects `c`; `b` is reported skipped, `c` is started
    — the same tasks as the model's `calcNext` -/
example : (match runner_calculateNextTasks (TransDag.extOf natOps 0) noH exSext 10 exGr
      [{ nodeKey := "a", call := exCallA, input := 7, output := 7 }] false (initMgr exR2 false) [] with
    | .ret r => r.2.1.map (fun t => (t.nodeKey, t.input))
    | _ => []) = [("c", 7)] := by decide
example : (match calcNext natOps exR2 (initChans exR2) [("a", 7)] with
    | .ok (_, .tasks ts) => ts
    | _ => []) = [("c", 7)] := by decide

/-- the bounds guards are live: `calculateBranch` handed fewer copies than there are branches returns Go's
    "unreachable" error, and an index beyond the copies is the explicit outcome panic -/
example : (match runner_calculateBranch (TransDag.extOf natOps 0) noH exSext 10 exGr "a" exCallA [] false (initMgr exR2 false) with
    | .ret r => r.2.2.2.isSome
    | _ => false) = true := by decide
example : goIdx? [1, 2, 3] 3 = none ∧ goIdx? [1, 2, 3] (-1) = none ∧ goSlice? [1, 2, 3] 2 4 = none ∧
    goSlice? [1, 2, 3] 1 3 = some [2, 3] := by decide

end TranslatedStep

/-! ### The translated table-building code (Gen/TransTab.lean; gotrans phase 5)

  What the translated functions of phases 2–4 READ is built by code that is translated too:
  `dagChannelBuilder` / `pregelChannelBuilder` (the initial channel state), the func type `chanBuilder` as a
  source-checked closed sum, `getSuccessors`, `(*runner).initChannelManager`, and — as a *fragment*, the
  statements from `dataPredecessors := make(map[string][]string)` up to the one before
  `inputChannels := &chanCall{…}` — the part of `(*graph).compile` that builds `dataPredecessors` /
  `controlPredecessors`.  The theorems say: the fragment computes the predecessor tables of the model's
  `compile` (Model/GraphBuild.lean); the builders compute `Chan.init`; `initChannelManager` returns exactly
  the manager `initMgr r s` for which `Rel` / `ChansOK` (phase 2) and `MgrInv` / `CallsClosed` (phase 4) are
  proved — so these hypotheses hold for the manager the SOURCE builds.

  Orders.  Go ranges over the maps `g.controlEdges`, `g.dataEdges`, `g.branches` and `branch.endNodes`; the
  model folds over lists.  The theorems are equalities for every stored order: the model's lists are the
  flattened maps *in their stored order* (`flatEdges`, `flatBranches`, `ends = akeys endNodes`), and every
  theorem about the model holds for all lists.  Nothing is proved "up to permutation". -/
section TranslatedTables
open EinoV.GoSem EinoV.TransMgr EinoV.TransStep EinoV.TransTab EinoV.Gen.TransMgr EinoV.Gen.TransTab
variable {V : Type} [Inhabited V]

theorem translated_tables_source_is_current : FactsC02.tablesTranslated = true := by decide

/-- the fragment of `graph.compile`: the model's folds over the flattened edge / branch maps -/
theorem translated_compile_predecessors_refines (ext : Ext V) (mext : MgrExt V) (g : graph V) :
    graph_compile_predecessors ext mext g =
      ((flatBranches g.branches).foldl (fun m b =>
          if b.2.noDataFlow then m else (akeys b.2.endNodes).foldl (fun m e => addPred m e b.1) m)
        ((flatEdges g.dataEdges).foldl (fun m e => addPred m e.2 e.1) []),
       (flatBranches g.branches).foldl (fun m b => (akeys b.2.endNodes).foldl (fun m e => addPred m e b.1) m)
        ((flatEdges g.controlEdges).foldl (fun m e => addPred m e.2 e.1) [])) :=
  compile_predecessors_spec ext mext g

/-- **the fragment computes `dataPreds` / `ctrlPreds` of the model's `compile`** -/
theorem translated_compile_predecessors_is_model (ext : Ext V) (mext : MgrExt V) (slack : Nat) (gd : GraphDef V)
    (g : graph V) (hce : flatEdges g.controlEdges = gd.edges) (hde : flatEdges g.dataEdges = gd.edges)
    (hbr : ListRel BrTabRel (flatBranches g.branches) gd.branches) :
    graph_compile_predecessors ext mext g = ((compile slack gd).dataPreds, (compile slack gd).ctrlPreds) :=
  compile_predecessors_model ext mext slack gd g hce hde hbr

/-- the model's tables have one entry per key: they are Go maps -/
theorem translated_model_tables_are_maps (slack : Nat) (g : GraphDef V) :
    (akeys (compile slack g).dataPreds).Nodup ∧ (akeys (compile slack g).ctrlPreds).Nodup :=
  compile_tables_nodup slack g

/-- `getSuccessors` is the model's `Node.successors` (never a panic) -/
theorem translated_getSuccessors_refines (ext : Ext V) (mext : MgrExt V) (c : chanCall V) (n : Node V)
    (hw : c.writeTo = n.writeTo) (hc : c.controls = n.controls)
    (hb : c.writeToBranches.map (fun b => akeys b.endNodes) = n.branches.map (·.ends)) :
    getSuccessors ext mext c = .ret n.successors :=
  getSuccessors_is_successors ext mext c n hw hc hb

/-- the channel builders: the initial channel is the model's `Chan.init` -/
theorem translated_channelBuilders_refine (ext : Ext V) (mext : MgrExt V) (cp dp : List String) :
    chanOf (dagChannelBuilder ext mext cp dp) = Chan.init true cp dp ∧
    chanOf (pregelChannelBuilder ext mext cp dp) = Chan.init false cp dp ∧
    ChWF (dagChannelBuilder ext mext cp dp) := by
  refine ⟨?_, ?_, dagChannelBuilder_wf ext mext cp dp⟩
  · rw [dagChannelBuilder_spec]; exact chanOf_ofChanR_init true cp dp
  · rw [pregelChannelBuilder_spec]; exact chanOf_ofChanR_init false cp dp

/-- **`initChannelManager` (translated) returns `initMgr r s`** -/
theorem translated_initChannelManager_is_initMgr (ext : Ext V) (mext : MgrExt V) (gr : runner V) (r : Runner V)
    (s : Bool) (h : TabRel gr r) (hnd : (akeys (initChans r)).Nodup)
    (hdk : (akeys r.dataPreds).Nodup) (hck : (akeys r.ctrlPreds).Nodup) :
    runner_initChannelManager ext mext gr s = .ret (initMgr r s) :=
  initChannelManager_is_initMgr ext mext gr r s h hnd hdk hck

/-- **the hypotheses of the translated manager and step function hold for the manager the source builds** -/
theorem translated_init_hypotheses_from_source (ext : Ext V) (mext : MgrExt V) (gr : runner V) (r : Runner V)
    (s : Bool) (h : TabRel gr r) (hnd : (akeys (initChans r)).Nodup)
    (hdk : (akeys r.dataPreds).Nodup) (hck : (akeys r.ctrlPreds).Nodup)
    (hc : RunnerClosed r) (hs : ∀ k ∈ r.start.successors, k ∈ akeys (initChans r)) :
    ∃ c, runner_initChannelManager ext mext gr s = .ret c ∧ c.isStream = s ∧
      MgrInv r c ∧ CallsClosed r c ∧ toChans c.channels = initChans r :=
  init_hypotheses_from_source ext mext gr r s h hnd hdk hck hc hs

/-- the successors fragment of `graph.compile` (`successors := make(…)` … before `r.successors = successors`;
    the local `r` is a parameter): one entry per registered node, in stored order, holding `getSuccessors` -/
theorem translated_compile_successors_refines (ext : Ext V) (mext : MgrExt V) (g : graph V) (r : runner V)
    (hn : (akeys r.chanSubscribeTo).Nodup) :
    graph_compile_successors ext mext g r = .ret (r.chanSubscribeTo.map (fun p => (p.1, succOf p.2))) :=
  compile_successors_spec ext mext g r hn

/-- … which is the `successors` table `TabRel` asks for when every `chanCall` is the model's node of its key -/
theorem translated_compile_successors_is_model (ext : Ext V) (mext : MgrExt V) (g : graph V) (r : runner V)
    (nodes : List (Node V)) (hn : (akeys r.chanSubscribeTo).Nodup)
    (hrel : ListRel (fun (p : Key × chanCall V) (n : Node V) => p.1 = n.key ∧ p.2.writeTo = n.writeTo ∧
      p.2.controls = n.controls ∧ p.2.writeToBranches.map (fun b => akeys b.endNodes) = n.branches.map (·.ends))
      r.chanSubscribeTo nodes) :
    graph_compile_successors ext mext g r = .ret (nodes.map (fun n => (n.key, n.successors))) :=
  compile_successors_model ext mext g r nodes hn hrel

/-! non-vacuity: the Go maps of the graph `exR2` (start → a; a → branch {b, c}; b, c → end) -/

def exTabBr : GraphBranch Nat := { endNodes := [("b", true), ("c", true)], noDataFlow := false }
def exTabG : graph Nat :=
  { controlEdges := [("start", ["a"]), ("b", ["end"]), ("c", ["end"])],
    dataEdges := [("start", ["a"]), ("b", ["end"]), ("c", ["end"])],
    branches := [("a", [exTabBr])] }

/-- the translated fragment on these maps gives the tables of `exR2` (edges first, then branch ends) -/
example : graph_compile_predecessors (TransDag.extOf natOps 0) noH exTabG =
    ([("a", ["start"]), ("end", ["b", "c"]), ("b", ["a"]), ("c", ["a"])],
     [("a", ["start"]), ("end", ["b", "c"]), ("b", ["a"]), ("c", ["a"])]) := by decide

/-- a control-only branch (`noDataFlow`) is recorded in the control table only -/
example : graph_compile_predecessors (TransDag.extOf natOps 0) noH
    { exTabG with branches := [("a", [{ exTabBr with noDataFlow := true }])] }
    = ([("a", ["start"]), ("end", ["b", "c"])],
       [("a", ["start"]), ("end", ["b", "c"]), ("b", ["a"]), ("c", ["a"])]) := by decide

def exTabR : runner Nat :=
  { chanSubscribeTo := [("a", { writeTo := [], writeToBranches := [exTabBr], controls := [] }),
                        ("b", { writeTo := ["end"], writeToBranches := [], controls := ["end"] }),
                        ("c", { writeTo := ["end"], writeToBranches := [], controls := ["end"] })],
    successors := exR2.nodes.map (fun n => (n.key, n.successors)),
    dataPredecessors := exR2.dataPreds, controlPredecessors := exR2.ctrlPreds,
    chanBuilder := .of_dagChannelBuilder }

example : TabRel exTabR exR2 := ⟨by decide, rfl, rfl, rfl, ⟨fun _ => rfl, fun h => by simp [exR2] at h⟩⟩

/-- the translated `initChannelManager` on this runner: channels a, b, c, end with the model's initial state -/
example : (match runner_initChannelManager (TransDag.extOf natOps 0) noH exTabR false with
    | .ret c => (toChans c.channels).map (fun p => (p.1, p.2.ctrl, p.2.data))
    | _ => []) =
    [("a", [("start", Dep.waiting)], [("start", false)]), ("b", [("a", Dep.waiting)], [("a", false)]),
     ("c", [("a", Dep.waiting)], [("a", false)]),
     ("end", [("b", Dep.waiting), ("c", Dep.waiting)], [("b", false), ("c", false)])] := by decide

/-- the successors fragment on this runner is the table it carries -/
example : (match graph_compile_successors (TransDag.extOf natOps 0) noH exTabG exTabR with
    | .ret t => t
    | _ => []) = exTabR.successors := by decide

/-- a nil builder is the pregel builder; a call of a nil func value would be the explicit outcome panic -/
example : (chanBuilder_call (V := Nat) (TransDag.extOf natOps 0) noH .nil [] []).isNone = true := by decide

end TranslatedTables

end EinoV.C02
