/-
  C02 — All-predecessor (DAG/Workflow) nodes run at most once, exactly when triggered.
  Property theorems (channel level so far; the run-level refinement `dag_run_matches_status`
  of DESIGN.md §4 C02 is stated below as the goal and not yet proved).
  Model: EinoV/Model/Engine.lean.  Facts: EinoV/Gen/FactsC02.lean.
-/
import EinoV.Model.Engine
import EinoV.Proofs.C02
import EinoV.Gen.FactsC02
import EinoV.Expected.C02

namespace EinoV.C02
open EinoV.Engine EinoV.Gen

theorem facts_match :
    FactsC02.reportSkipMarksData = Expected.C02.reportSkipMarksData ∧
    FactsC02.skippedIffAllSkipped = Expected.C02.skippedIffAllSkipped ∧
    FactsC02.getResetsAll = Expected.C02.getResetsAll ∧
    FactsC02.workflowIsEagerDag = Expected.C02.workflowIsEagerDag := by decide

/-- the readiness predicate of the property: not skipped, every control predecessor has
    finished or been skipped, every data predecessor has reported (or been skipped) -/
def Triggered {V} (c : Chan V) : Prop :=
  c.skipped = false ∧ (∀ p ∈ c.ctrl, p.2 ≠ Dep.waiting) ∧ (∀ p ∈ c.data, p.2 = true)

theorem triggered_iff {V} (c : Chan V) : c.triggered = true ↔ Triggered c := by
  simp only [Chan.triggered, Triggered, Bool.and_eq_true, Bool.not_eq_eq_eq_not, Bool.not_true,
    List.any_eq_false, beq_iff_eq, and_assoc]
  constructor
  · rintro ⟨h1, h2, h3⟩
    refine ⟨h1, fun p hp => h2 p hp, fun p hp => ?_⟩
    have := h3 p hp
    cases hb : p.2 <;> simp_all
  · rintro ⟨h1, h2, h3⟩
    refine ⟨h1, fun p hp => h2 p hp, fun p hp => ?_⟩
    simp [h3 p hp]

/-- **dag_fires_iff_triggered.** A DAG channel hands out an input (or fails to merge one)
    exactly when it is triggered: not skipped, all control predecessors finished or
    skipped, all data predecessors reported. Otherwise it is left untouched. -/
theorem dag_fires_iff_triggered {V} (ops : ValOps V) (c : Chan V) :
    ((c.get ops true).2 ≠ .notReady ↔ Triggered c) ∧
    (¬ Triggered c → (c.get ops true).1 = c) := by
  rw [← triggered_iff]
  unfold Chan.get
  by_cases h : c.triggered = true
  · simp only [h, ↓reduceIte, not_true_eq_false, false_implies, and_true, iff_true]
    by_cases hv : c.values.isEmpty = true
    · simp [hv]
    · simp only [hv, Bool.false_eq_true, ↓reduceIte]
      apply collect_ne_notReady
      intro hm
      simp [List.isEmpty_iff] at hv hm
      exact hv hm
  · simp [h]

/-- **dag_input_is_merge.** When it fires, the input is the zero value if no data arrived,
    the single value if one arrived, and the merge of exactly the reported values otherwise. -/
theorem dag_input_is_merge {V} (ops : ValOps V) (c : Chan V) (v : V)
    (h : (c.get ops true).2 = .ready v) :
    (c.values = [] ∧ v = ops.zero) ∨ (c.values.map (·.2) = [v]) ∨
    (2 ≤ c.values.length ∧ ops.merge (c.values.map (·.2)) = some v) := by
  unfold Chan.get at h
  by_cases ht : c.triggered = true
  · simp only [ht, ↓reduceIte] at h
    by_cases hv : c.values.isEmpty = true
    · simp only [hv, ↓reduceIte, GetResult.ready.injEq] at h
      exact Or.inl ⟨by simpa [List.isEmpty_iff] using hv, h.symm⟩
    · simp only [hv, Bool.false_eq_true, ↓reduceIte] at h
      rcases collect_ready ops _ v h with h1 | ⟨h2, h3⟩
      · exact Or.inr (Or.inl h1)
      · exact Or.inr (Or.inr ⟨by simpa using h2, h3⟩)
  · simp [ht] at h

/-- **dag_fire_resets.** Firing resets the channel completely (values cleared, every
    control predecessor waiting again, every data predecessor unreported): together with
    acyclicity this is what makes a node run at most once. -/
theorem dag_fire_resets {V} (ops : ValOps V) (c : Chan V)
    (h : (c.get ops true).2 ≠ .notReady) :
    (c.get ops true).1.values = [] ∧
    (∀ p ∈ (c.get ops true).1.ctrl, p.2 = Dep.waiting) ∧
    (∀ p ∈ (c.get ops true).1.data, p.2 = false) := by
  unfold Chan.get at h ⊢
  by_cases ht : c.triggered = true
  · simp only [ht, ↓reduceIte]
    simp only [Chan.reset, List.mem_map, true_and]
    constructor
    · rintro p ⟨q, _, rfl⟩; rfl
    · rintro p ⟨q, _, rfl⟩; rfl
  · simp [ht] at h

/-- **skipped_iff_all_skipped.** After a skip report the channel is skipped exactly when
    every one of its control predecessors is skipped. -/
theorem skipped_iff_all_skipped {V} (c : Chan V) (keys : List Key) :
    (c.reportSkip true keys).1.skipped = (c.reportSkip true keys).1.ctrl.all (fun p => p.2 == Dep.skipped) := by
  simp [Chan.reportSkip]

/-- a skipped channel never fires -/
theorem skipped_never_fires {V} (ops : ValOps V) (c : Chan V) (h : c.skipped = true) :
    (c.get ops true).2 = .notReady := by
  simp [Chan.get, Chan.triggered, h]

/-! non-vacuity -/
example : Triggered ({ ctrl := [("p", Dep.ready), ("q", Dep.skipped)], data := [("p", true)], values := [("p", 3)] } : Chan Nat) := by
  simp [Triggered]

end EinoV.C02
