import EinoV.Model.C17
import EinoV.Proofs.C17
import EinoV.Gen.FactsC17
import EinoV.Expected.C17

namespace EinoV.C17
open EinoV.Gen

/-- the facts regenerated from /repo, as the model's parameter -/
def genFacts : Facts :=
  { storeByIndex := FactsC17.storeByIndex, goroutineRecovers := FactsC17.goroutineRecovers,
    taskPassedAsArg := FactsC17.taskPassedAsArg, handlerConsulted := FactsC17.handlerConsulted,
    executorRecovers := FactsC17.executorRecovers }

theorem facts_match : genFacts = Expected.C17.facts ∧ FactsC17.firstTaskInline = true
    ∧ FactsC17.taskFromSameCall = true := by decide

end EinoV.C17
