/-
  C17 — ToolsNode answers every tool call, in call order, whatever the completion order.
  Property theorems.  Model: EinoV/Model/C17.lean.  Helper lemmas: EinoV/Proofs/C17.lean.
  Source facts: EinoV/Gen/FactsC17.lean (regenerated from /repo on every run).

  Reading guide.  `invoke F tools handler assistant calls seen σ` is `ToolsNode.Invoke` when
  the runners complete in the order σ (a permutation of the call positions); `stream …` is
  `ToolsNode.Stream` (on success: the n source streams handed to `MergeStreamReaders`);
  `Interleaving srcs m` says `m` is something a reader of the merged stream can receive;
  `collect` is `concatStreamReader` with `concatMessageArray`.  `answerI/answerS … c` is what
  the tool named by call `c` (or the unknown-tool handler) gives on `c`'s arguments in the
  invokable / streamable form.  Tools and the handler are arbitrary functions.
-/
import EinoV.Model.C17
import EinoV.Model.C17Late
import EinoV.Proofs.C17
import EinoV.Proofs.C17Late
import EinoV.Model.C17Utils
import EinoV.Proofs.C17Utils
import EinoV.Model.C17Readers
import EinoV.Proofs.C17Readers
import EinoV.Gen.FactsC17
import EinoV.Expected.C17

namespace EinoV.C17
open EinoV.Gen

/-- the facts regenerated from /repo, as the model's parameter -/
def genFacts : Facts :=
  { storeByIndex := FactsC17.storeByIndex, goroutineRecovers := FactsC17.goroutineRecovers,
    taskPassedAsArg := FactsC17.taskPassedAsArg, handlerConsulted := FactsC17.handlerConsulted,
    executorRecovers := FactsC17.executorRecovers }

/-- Source fact tie: the regenerated facts are the ones the oracle runs the model with, and
    the two shape facts the model has built in (call 0 runs inline on the caller's goroutine,
    the loop starts the goroutines for 1..n-1; task i is made from call i) hold. -/
theorem facts_match : genFacts = Expected.C17.facts ∧ FactsC17.firstTaskInline = true
    ∧ FactsC17.taskFromSameCall = true := by decide

theorem genFacts_good : genFacts.Good := ⟨by decide, by decide, by decide⟩
theorem genFacts_handler : genFacts.handlerConsulted = true := by decide
theorem genFacts_executor : genFacts.executorRecovers = true := by decide

variable (tools : List (String × Tool)) (handler : Option Handler)

/-! ## completion order -/

/-- **completion_order_irrelevant.** For every input (any role, any call list, unknown
    names, failing and panicking tools) the results of Invoke and of Stream do not depend on
    the order in which the runners complete. -/
theorem completion_order_irrelevant (assistant : Bool) (calls : List Call) (seen seen' : Nat → Nat)
    (σ σ' : List Nat) (hσ : σ.Perm (List.range calls.length)) (hσ' : σ'.Perm (List.range calls.length)) :
    invoke genFacts tools handler assistant calls seen σ
      = invoke genFacts tools handler assistant calls seen' σ'
    ∧ stream genFacts tools handler assistant calls seen σ
      = stream genFacts tools handler assistant calls seen' σ' := by
  constructor
  · rcases invoke_cases genFacts_good tools handler assistant calls seen σ hσ with ⟨e, h1, h2⟩ | ⟨t, h1, h2⟩ <;>
    rcases invoke_cases genFacts_good tools handler assistant calls seen' σ' hσ' with ⟨e', h1', h2'⟩ | ⟨t', h1', h2'⟩
    · rw [h2, h2']; rw [h1] at h1'; cases h1'; rfl
    · rw [h1] at h1'; cases h1'
    · rw [h1] at h1'; cases h1'
    · rw [h2, h2']; rw [h1] at h1'; cases h1'; rfl
  · rcases stream_cases genFacts_good tools handler assistant calls seen σ hσ with ⟨e, h1, h2⟩ | ⟨t, h1, h2⟩ <;>
    rcases stream_cases genFacts_good tools handler assistant calls seen' σ' hσ' with ⟨e', h1', h2'⟩ | ⟨t', h1', h2'⟩
    · rw [h2, h2']; rw [h1] at h1'; cases h1'; rfl
    · rw [h1] at h1'; cases h1'
    · rw [h1] at h1'; cases h1'
    · rw [h2, h2']; rw [h1] at h1'; cases h1'; rfl

/-! ## exactly N messages, the i-th with the i-th id and the i-th tool's output -/

/-- **tools_by_index.** If every call's tool (or the handler) answers `v c` on the call's
    arguments, then for every completion order Invoke returns exactly one message per call,
    in call order, the i-th with the i-th call's id and that answer. -/
theorem tools_by_index (calls : List Call) (hne : calls ≠ []) (v : Call → String)
    (hall : ∀ c ∈ calls, answerI tools handler c = some (.ok (v c)))
    (seen : Nat → Nat) (σ : List Nat) (hσ : σ.Perm (List.range calls.length)) :
    invoke genFacts tools handler true calls seen σ = .ok (calls.map fun c => ⟨c.id, v c⟩) := by
  have hres : ∀ c ∈ calls, resolve tools handler c = some (pick tools handler c) :=
    fun c hc => resolve_pick (answerI_pick (hall c hc)).1
  rw [invoke_eq_spec genFacts_good genFacts_handler hne _ hres seen σ hσ]
  apply specRun_all_ok
  intro i hi
  refine ⟨v calls[i], ?_, ?_⟩
  · rw [execWith_taskFor _ _ _ _ hi]; exact (answerI_pick (hall _ (List.getElem_mem hi))).2
  · simp [idAt_taskFor _ _ _ hi]

/-! ## the streamed form concatenates to the same list -/

/-- **tools_stream_agrees.** If every call's tool streams the chunks `cs c` (at least one)
    and each tool's invokable form is the concatenation of its streamable form (automatic
    for invokable-only / streamable-only tools and the handler: `coherent_of_no_str`,
    `coherent_of_no_inv`), then for all completion orders σ, σ' of the two runs: Stream
    succeeds, Invoke returns the messages `msgs` (i-th id, concatenated chunks), and EVERY
    interleaving of the n sparse chunk streams concatenates to exactly `msgs`. -/
theorem tools_stream_agrees (calls : List Call) (hne : calls ≠ []) (cs : Call → List String)
    (hall : ∀ c ∈ calls, answerS tools handler c = some (.ok (cs c)) ∧ cs c ≠ [])
    (hcoh : ∀ c ∈ calls, Coherent (pick tools handler c))
    (seen seen' : Nat → Nat) (σ σ' : List Nat)
    (hσ : σ.Perm (List.range calls.length)) (hσ' : σ'.Perm (List.range calls.length)) :
    ∃ srcs, stream genFacts tools handler true calls seen' σ' = .ok srcs ∧
      invoke genFacts tools handler true calls seen σ
        = .ok (calls.map fun c => ⟨c.id, joinS (cs c)⟩) ∧
      ∀ m, Interleaving srcs m →
        collect m = .ok ((calls.map fun c => (⟨c.id, joinS (cs c)⟩ : Msg)).map some) := by
  have hI : ∀ c ∈ calls, answerI tools handler c = some (.ok (joinS (cs c))) := by
    intro c hc
    obtain ⟨hs, hne'⟩ := hall c hc
    obtain ⟨hr, hp⟩ := answerS_pick hs
    unfold answerI
    rw [resolve_pick hr]
    simp only [Option.map_some]
    rw [hcoh c hc, hp]
    simp [Out.bind, concatChunks_ne hne']
  have hres : ∀ c ∈ calls, resolve tools handler c = some (pick tools handler c) :=
    fun c hc => resolve_pick (answerS_pick (hall c hc).1).1
  have hn : 0 < calls.length := by cases calls <;> simp_all
  let ids : Nat → String := fun i => idAt (calls.map (taskFor (pick tools handler))) i
  let chunks : Nat → List String := fun i =>
    match calls[i]? with
    | some c => cs c
    | none => []
  have hchunks : ∀ i (h : i < calls.length), chunks i = cs calls[i] := by
    intro i h; simp [chunks, List.getElem?_eq_getElem h]
  refine ⟨(List.range calls.length).map fun i => (chunks i).map fun s => sparse calls.length i ⟨ids i, s⟩, ?_,
    tools_by_index tools handler calls hne _ hI seen σ hσ, ?_⟩
  · rw [stream_eq_spec genFacts_good genFacts_handler hne _ hres seen' σ' hσ']
    apply specRun_all_ok'
    intro i hi
    refine ⟨cs calls[i], ?_, ?_⟩
    · rw [execWith_taskFor _ _ _ _ hi]; exact (answerS_pick (hall _ (List.getElem_mem hi)).1).2
    · simp [hchunks i hi, ids]
  · intro m hm
    rw [collect_interleaving calls.length hn ids chunks
      (fun i hi => by rw [hchunks i hi]; exact (hall _ (List.getElem_mem hi)).2) m hm]
    congr 1
    apply List.ext_getElem
    · simp
    · intro i h1 h2
      have hi : i < calls.length := by simpa using h1
      simp [hchunks i hi, ids, idAt_taskFor _ _ _ hi]

/-! ## a failing tool fails the whole call with that tool's error -/

/-- **tool_failure_fails_all.** Split the calls at the first one (by position) whose tool
    does not answer: `pre` all answer, `c` fails, `post` arbitrary (but every name
    resolvable, else nothing runs at all: `unknown_tool_iff_handler`).  Then for EVERY
    completion order — also when later calls fail too and complete earlier —
    * an error `e` of `c`'s tool: the call fails with exactly that error, tagged with `c`'s
      position;
    * a panic of `c`'s tool, `c` not the first call: it ran in a goroutine with a deferred
      recover, the call fails with the panic as `c`'s error;
    * a panic of the first call (it runs inline on the caller's goroutine): the panic leaves
      `Invoke`; inside a graph the executor's recover makes it the error of the run.
    So with several failing tools the reported error is the one of least call position,
    never "the first to complete". -/
theorem tool_failure_fails_all (pre : List Call) (c : Call) (post : List Call)
    (hpre : ∀ c' ∈ pre, ∃ s, answerI tools handler c' = some (.ok s))
    (hres : ∀ c' ∈ pre ++ c :: post, (resolve tools handler c').isSome)
    (seen : Nat → Nat) (σ : List Nat) (hσ : σ.Perm (List.range (pre ++ c :: post).length)) :
    (∀ e, answerI tools handler c = some (.err e) →
      invoke genFacts tools handler true (pre ++ c :: post) seen σ = .err (.tool pre.length e)) ∧
    (∀ p, answerI tools handler c = some (.panic p) → pre ≠ [] →
      invoke genFacts tools handler true (pre ++ c :: post) seen σ
        = .err (.tool pre.length (.panicked p))) ∧
    (∀ p, answerI tools handler c = some (.panic p) → pre = [] →
      invoke genFacts tools handler true (pre ++ c :: post) seen σ = .panicEscapes p ∧
      inGraph genFacts (invoke genFacts tools handler true (pre ++ c :: post) seen σ)
        = .err (.nodePanic p)) := by
  have hne : pre ++ c :: post ≠ [] := by simp
  have hres' : ∀ c' ∈ pre ++ c :: post, resolve tools handler c' = some (pick tools handler c') :=
    fun c' hc' => resolve_pick (hres c' hc')
  rw [invoke_eq_spec genFacts_good genFacts_handler hne _ hres' seen σ hσ]
  obtain ⟨h1, h2, h3⟩ := spec_first_failure packInvoke
    (fun i s => (⟨idAt ((pre ++ c :: post).map (taskFor (pick tools handler))) i, s⟩ : Msg))
    (pick tools handler) pre c post (fun c' hc' => by
      obtain ⟨s, hs⟩ := hpre c' hc'
      exact ⟨s, (answerI_pick hs).2⟩)
  refine ⟨fun e he => h1 e (answerI_pick he).2, fun p hp hn => h2 p (answerI_pick hp).2 hn,
    fun p hp hn => ?_⟩
  have := h3 p (answerI_pick hp).2 hn
  exact ⟨this, by rw [this]; simp [inGraph, genFacts_executor]⟩

/-- **tool_failure_fails_stream.** The same for `Stream` (failures at call time: the
    streamable function returns an error / panics, or the invokable one does for an
    invokable-only tool). -/
theorem tool_failure_fails_stream (pre : List Call) (c : Call) (post : List Call)
    (hpre : ∀ c' ∈ pre, ∃ s, answerS tools handler c' = some (.ok s))
    (hres : ∀ c' ∈ pre ++ c :: post, (resolve tools handler c').isSome)
    (seen : Nat → Nat) (σ : List Nat) (hσ : σ.Perm (List.range (pre ++ c :: post).length)) :
    (∀ e, answerS tools handler c = some (.err e) →
      stream genFacts tools handler true (pre ++ c :: post) seen σ = .err (.tool pre.length e)) ∧
    (∀ p, answerS tools handler c = some (.panic p) → pre ≠ [] →
      stream genFacts tools handler true (pre ++ c :: post) seen σ
        = .err (.tool pre.length (.panicked p))) ∧
    (∀ p, answerS tools handler c = some (.panic p) → pre = [] →
      stream genFacts tools handler true (pre ++ c :: post) seen σ = .panicEscapes p ∧
      inGraph genFacts (stream genFacts tools handler true (pre ++ c :: post) seen σ)
        = .err (.nodePanic p)) := by
  have hne : pre ++ c :: post ≠ [] := by simp
  have hres' : ∀ c' ∈ pre ++ c :: post, resolve tools handler c' = some (pick tools handler c') :=
    fun c' hc' => resolve_pick (hres c' hc')
  rw [stream_eq_spec genFacts_good genFacts_handler hne _ hres' seen σ hσ]
  obtain ⟨h1, h2, h3⟩ := spec_first_failure packStream
    (fun i (cs : List String) => cs.map fun s => sparse (pre ++ c :: post).length i
      ⟨idAt ((pre ++ c :: post).map (taskFor (pick tools handler))) i, s⟩)
    (pick tools handler) pre c post (fun c' hc' => by
      obtain ⟨s, hs⟩ := hpre c' hc'
      exact ⟨s, (answerS_pick hs).2⟩)
  refine ⟨fun e he => h1 e (answerS_pick he).2, fun p hp hn => h2 p (answerS_pick hp).2 hn,
    fun p hp hn => ?_⟩
  have := h3 p (answerS_pick hp).2 hn
  exact ⟨this, by rw [this]; simp [inGraph, genFacts_executor]⟩

/-! ## unknown tool names -/

/-- **unknown_tool_iff_handler.** Let `c` be the first call whose name is not configured.
    Without a handler the call fails with "unknown tool `c.name`" (before any tool runs, for
    every σ); with a handler it never fails that way. -/
theorem unknown_tool_iff_handler (pre : List Call) (c : Call) (post : List Call)
    (hpre : ∀ c' ∈ pre, (lookup tools c'.name).isSome) (hc : lookup tools c.name = none)
    (seen : Nat → Nat) (σ : List Nat) (hσ : σ.Perm (List.range (pre ++ c :: post).length)) :
    (invoke genFacts tools handler true (pre ++ c :: post) seen σ = .err (.unknownTool c.name)
      ∧ stream genFacts tools handler true (pre ++ c :: post) seen σ = .err (.unknownTool c.name))
    ↔ handler = none := by
  constructor
  · intro ⟨hi, _⟩
    cases hh : handler with
    | none => rfl
    | some h =>
      exfalso
      subst hh
      have hres : ∀ c' ∈ pre ++ c :: post, resolve tools (some h) c' = some (pick tools (some h) c') :=
        fun c' _ => resolve_pick (resolve_isSome_of_handler tools h c')
      rw [invoke_eq_spec genFacts_good genFacts_handler (by simp) _ hres seen σ hσ] at hi
      obtain ⟨i, te, hte⟩ := specRun_err_is_tool _ _ _ _ hi
      cases hte
  · intro hh
    subst hh
    have hg := genTasks_unknown (F := genFacts) genFacts_handler (tools := tools) (handler := none)
      pre c post (fun c' hc' => by
        unfold resolve
        obtain ⟨t, ht⟩ := Option.isSome_iff_exists.1 (hpre c' hc')
        simp [ht]) (resolve_none_iff.2 ⟨hc, rfl⟩)
    constructor
    · unfold invoke; rw [hg]
    · unfold stream; rw [hg]

/-- **unknown_tool_answered_by_handler.** With a handler `h`, a call with an unknown name
    is answered by `h name args`, and that answer is placed at that call's position with
    that call's id (it is an instance of `tools_by_index`). -/
theorem unknown_tool_answered_by_handler (h : Handler) (calls : List Call) (hne : calls ≠ [])
    (v : Call → String) (hall : ∀ c ∈ calls, answerI tools (some h) c = some (.ok (v c)))
    (seen : Nat → Nat) (σ : List Nat) (hσ : σ.Perm (List.range calls.length)) :
    invoke genFacts tools (some h) true calls seen σ = .ok (calls.map fun c => ⟨c.id, v c⟩) ∧
    ∀ c ∈ calls, lookup tools c.name = none → h c.name c.args = .ok (v c) := by
  refine ⟨tools_by_index tools (some h) calls hne v hall seen σ hσ, fun c hc hl => ?_⟩
  have := hall c hc
  simpa [answerI, resolve, hl, handlerTool, packInvoke] using this

/-! ## panics -/

/-- **panic_contained.** For every input and every completion order: no panic of a tool
    kills the process (every goroutine recovers), and inside a graph run the node's result
    is a value or an error — never a panic (the executor recovers what leaves the inline
    call). -/
theorem panic_contained (assistant : Bool) (calls : List Call) (seen : Nat → Nat) (σ : List Nat)
    (hσ : σ.Perm (List.range calls.length)) :
    invoke genFacts tools handler assistant calls seen σ ≠ .crash ∧
    stream genFacts tools handler assistant calls seen σ ≠ .crash ∧
    ((∃ l, inGraph genFacts (invoke genFacts tools handler assistant calls seen σ) = .ok l) ∨
      ∃ e, inGraph genFacts (invoke genFacts tools handler assistant calls seen σ) = .err e) ∧
    ((∃ l, inGraph genFacts (stream genFacts tools handler assistant calls seen σ) = .ok l) ∨
      ∃ e, inGraph genFacts (stream genFacts tools handler assistant calls seen σ) = .err e) := by
  have key : ∀ {α : Type} (r : Res α), r ≠ .crash →
      (∃ l, inGraph genFacts r = .ok l) ∨ ∃ e, inGraph genFacts r = .err e := by
    intro α r hr
    cases r with
    | ok a => exact .inl ⟨a, rfl⟩
    | err e => exact .inr ⟨e, rfl⟩
    | panicEscapes p => exact .inr ⟨.nodePanic p, by simp [inGraph, genFacts_executor]⟩
    | crash => exact absurd rfl hr
  have hi : invoke genFacts tools handler assistant calls seen σ ≠ .crash := by
    rcases invoke_cases genFacts_good tools handler assistant calls seen σ hσ with ⟨e, _, h2⟩ | ⟨t, _, h2⟩
    · rw [h2]; simp
    · rw [h2]; exact specRun_no_crash _ _ _
  have hs : stream genFacts tools handler assistant calls seen σ ≠ .crash := by
    rcases stream_cases genFacts_good tools handler assistant calls seen σ hσ with ⟨e, _, h2⟩ | ⟨t, _, h2⟩
    · rw [h2]; simp
    · rw [h2]; exact specRun_no_crash _ _ _
  exact ⟨hi, hs, key _ hi, key _ hs⟩

/-! ## interleavings exist; the oracle's merge is one -/

/-- **merge_is_interleaving.** The executable merge the oracle uses yields an interleaving
    for every schedule (so `tools_stream_agrees` applies to what the oracle computes, and
    its hypothesis `Interleaving srcs m` is satisfiable for all `srcs`). -/
theorem merge_is_interleaving {β : Type} (sched : List Nat) (srcs : List (List β)) :
    Interleaving srcs (mergeBy sched srcs) := mergeBy_interleaving sched srcs

/-! ## non-vacuity: concrete tools, calls, an out-of-order completion -/

section Examples

def exEcho (tag : String) : Tool := ⟨some fun a => .ok (tag ++ a), none⟩
def exStr : Tool := ⟨none, some fun a => .ok ["<", a, ">"]⟩
def exFail (k : Nat) : Tool := ⟨some fun _ => .err (.user k), none⟩
def exBoom (k : Nat) : Tool := ⟨some fun _ => .panic k, none⟩
def exTools : List (String × Tool) :=
  [("a", exEcho "A"), ("s", exStr), ("f", exFail 7), ("g", exFail 8), ("p", exBoom 9)]
def exCalls : List Call := [⟨"c0", "a", "x"⟩, ⟨"c1", "s", "y"⟩, ⟨"c2", "a", "z"⟩]
def exFacts : Facts := Expected.C17.facts

end Examples

/-- three calls completing in the order 2,0,1: answers in call order, ids by position -/
example : invoke exFacts exTools none true exCalls id [2, 0, 1]
    = .ok [⟨"c0", "Ax"⟩, ⟨"c1", "<y>"⟩, ⟨"c2", "Az"⟩] := by decide

/-- the streamed form, merged by an arbitrary schedule, concatenates to the same list -/
example : (match stream exFacts exTools none true exCalls id [1, 2, 0] with
    | .ok srcs => (collect (mergeBy [1, 0, 1, 2] srcs)).toOption
    | _ => none)
    = some [some ⟨"c0", "Ax"⟩, some ⟨"c1", "<y>"⟩, some ⟨"c2", "Az"⟩] := by decide

/-- two failing calls, the later one completing first: the error is the earlier call's -/
example : invoke exFacts exTools none true [⟨"c0", "a", "x"⟩, ⟨"c1", "f", ""⟩, ⟨"c2", "g", ""⟩] id [2, 1, 0]
    = .err (.tool 1 (.user 7)) := by decide

/-- a panicking goroutine call is an error; a panicking inline call leaves the node -/
example : invoke exFacts exTools none true [⟨"c0", "a", "x"⟩, ⟨"c1", "p", ""⟩] id [1, 0]
    = .err (.tool 1 (.panicked 9)) := by decide
example : inGraph exFacts (invoke exFacts exTools none true [⟨"c0", "p", ""⟩, ⟨"c1", "a", ""⟩] id [1, 0])
    = .err (.nodePanic 9) := by decide

/-- unknown name: error without handler, the handler's answer at that position with one -/
example : invoke exFacts exTools none true [⟨"c0", "a", "x"⟩, ⟨"c1", "nope", "q"⟩] id [0, 1]
    = .err (.unknownTool "nope") := by decide
example : invoke exFacts exTools (some fun n a => .ok (n ++ "?" ++ a)) true
      [⟨"c0", "nope", "q"⟩, ⟨"c1", "a", "x"⟩] id [1, 0]
    = .ok [⟨"c0", "nope?q"⟩, ⟨"c1", "Ax"⟩] := by decide

/-! ## negation witnesses: each source fact matters -/

/-- results appended in completion order (instead of stored by index): a wrong answer -/
theorem append_order_breaks :
    invoke { exFacts with storeByIndex := false } exTools none true
        [⟨"c0", "a", "x"⟩, ⟨"c1", "a", "y"⟩] id [1, 0]
      = .ok [⟨"c0", "Ay"⟩, ⟨"c1", "Ax"⟩] := by decide

/-- no recover in the goroutine: a panicking tool kills the process -/
theorem no_recover_crashes :
    invoke { exFacts with goroutineRecovers := false } exTools none true
        [⟨"c0", "a", "x"⟩, ⟨"c1", "p", ""⟩] id [0, 1] = .crash := by decide

/-- loop variable captured (go 1.18 semantics) and read late: call 1 is never answered -/
theorem captured_loop_variable_breaks :
    invoke { exFacts with taskPassedAsArg := false } exTools none true
        [⟨"c0", "a", "x"⟩, ⟨"c1", "a", "y"⟩, ⟨"c2", "a", "z"⟩] (fun _ => 2) [0, 1, 2]
      = .err (.stale 1) := by decide

/-- handler not consulted: an unknown name fails although a handler is configured -/
theorem handler_ignored_breaks :
    invoke { exFacts with handlerConsulted := false } exTools (some fun n a => .ok (n ++ a)) true
        [⟨"c0", "nope", "q"⟩] id [0] = .err (.unknownTool "nope") := by decide

/-- no recover in the graph executor: a panic of the inline call would kill the run -/
theorem no_executor_recover_crashes :
    inGraph { exFacts with executorRecovers := false }
      (invoke exFacts exTools none true [⟨"c0", "p", ""⟩] id [0]) = .crash := by decide

/-- A streamable-only tool whose stream has NO chunk is outside `tools_stream_agrees`
    (`cs c ≠ []`): Invoke fails (`emptyStreamConcatErr`) while the streamed form
    concatenates to a list with a hole at that position. -/
theorem empty_stream_disagrees :
    let ts : List (String × Tool) := [("a", exEcho "A"), ("e", ⟨none, some fun _ => .ok []⟩)]
    let calls : List Call := [⟨"c0", "a", "x"⟩, ⟨"c1", "e", ""⟩]
    invoke exFacts ts none true calls id [0, 1] = .err (.tool 1 .emptyStream) ∧
    (match stream exFacts ts none true calls id [0, 1] with
      | .ok srcs => (collect (mergeBy [] srcs)).toOption
      | _ => none) = some [some ⟨"c0", "Ax"⟩, none] := by decide

/-! ## family `late`: tools still producing after the handover, looking at their context

  `streamL … paces prod cancel` is `ToolsNode.Stream` when the streamable tool of call `i`
  sends only its first `(paces i).hold` chunks before `StreamableRun` returns and the others
  afterwards, one per step, looking at the context it was given before each (finding it
  done it fails the stream with the context's error / ends it / goes on, `onDone`); `prod`
  orders the late steps of all producers; `cancel = some c`: the caller cancels its context
  after `c` steps.  Model: EinoV/Model/C17Late.lean. -/

/-- the context facts regenerated from /repo -/
def genCtxFacts : CtxFacts :=
  { notScoped := FactsC17.toolCtxNotScoped, fromCaller := FactsC17.toolCtxFromCaller }

/-- Source fact tie: the tools run under the caller's context (only value-derivations on the
    way), and nothing on the way derives a context that the node itself ends. -/
theorem ctx_facts_match : genCtxFacts = Expected.C17.ctxFacts := by decide

theorem genCtxFacts_good : genCtxFacts.Good := ⟨by decide, by decide⟩

/-- **late_production_invisible.** For EVERY input (any role, calls, tools, handler,
    completion order), every pacing of every call, every production order: as long as the
    caller does not cancel, the streams a tools node hands out deliver exactly the chunks of
    the eager form — a tool that is still producing when `Stream` returns, and that honours
    its context, is never cut short by anything the node does. -/
theorem late_production_invisible (assistant : Bool) (calls : List Call) (seen : Nat → Nat)
    (σ : List Nat) (paces : Nat → Option Pace) (prod : List Nat) :
    streamL genFacts genCtxFacts tools handler assistant calls seen σ paces prod none
      = (stream genFacts tools handler assistant calls seen σ).map
          (fun srcs => srcs.map (·.map .chunk)) := by
  unfold streamL
  congr 1
  funext srcs
  exact deliver_alive _ _ _ _ (fun t => by rw [ctxDone_good genCtxFacts_good, cancelledAt_none]) srcs

/-- **late_stream_agrees.** `tools_stream_agrees` for late producers: under its hypotheses,
    for every pacing, every production order and all completion orders, Stream succeeds,
    every source delivers all its chunks and no error item, and every interleaving of them
    concatenates to exactly the list Invoke returns. -/
theorem late_stream_agrees (calls : List Call) (hne : calls ≠ []) (cs : Call → List String)
    (hall : ∀ c ∈ calls, answerS tools handler c = some (.ok (cs c)) ∧ cs c ≠ [])
    (hcoh : ∀ c ∈ calls, Coherent (pick tools handler c))
    (seen seen' : Nat → Nat) (σ σ' : List Nat)
    (hσ : σ.Perm (List.range calls.length)) (hσ' : σ'.Perm (List.range calls.length))
    (paces : Nat → Option Pace) (prod : List Nat) :
    ∃ srcs, streamL genFacts genCtxFacts tools handler true calls seen' σ' paces prod none
        = .ok (srcs.map (·.map .chunk)) ∧
      invoke genFacts tools handler true calls seen σ
        = .ok (calls.map fun c => ⟨c.id, joinS (cs c)⟩) ∧
      ∀ m, Interleaving srcs m →
        collect m = .ok ((calls.map fun c => (⟨c.id, joinS (cs c)⟩ : Msg)).map some) := by
  obtain ⟨srcs, hs, hi, hm⟩ := tools_stream_agrees tools handler calls hne cs hall hcoh seen seen' σ σ' hσ hσ'
  refine ⟨srcs, ?_, hi, hm⟩
  rw [late_production_invisible, hs]
  rfl

/-- **cancelled_stream_is_prefix.** For every input and every cancellation point: each
    source still delivers a prefix of its tool's chunks containing at least the eager ones;
    a source of a tool without streamable form, or whose producer ignores its context,
    delivers everything; and a source carries the context's error only if its producer
    fails on a done context AND the caller has cancelled — the node never makes one up. -/
theorem cancelled_stream_is_prefix (assistant : Bool) (calls : List Call) (seen : Nat → Nat)
    (σ : List Nat) (paces : Nat → Option Pace) (prod : List Nat) (cancel : Option Nat)
    (srcs : List (List (List (Option Msg))))
    (hs : stream genFacts tools handler assistant calls seen σ = .ok srcs) :
    ∃ dl, streamL genFacts genCtxFacts tools handler assistant calls seen σ paces prod cancel = .ok dl ∧
      ∃ hl : dl.length = srcs.length, ∀ i (hi : i < srcs.length),
        chunksOfItems (dl[i]'(hl ▸ hi)) <+: srcs[i] ∧
        (paceOf tools handler calls paces i = none → dl[i]'(hl ▸ hi) = srcs[i].map .chunk) ∧
        ∀ p, paceOf tools handler calls paces i = some p →
          srcs[i].take p.hold <+: chunksOfItems (dl[i]'(hl ▸ hi)) ∧
          (p.onDone = .ignore → dl[i]'(hl ▸ hi) = srcs[i].map .chunk) ∧
          (Item.ctxErr ∈ dl[i]'(hl ▸ hi) → p.onDone = .fail ∧ cancel ≠ none) := by
  refine ⟨_, by unfold streamL; rw [hs]; rfl, length_deliver _ _ _ _ _, fun i hi => ?_⟩
  rw [getElem_deliver _ _ _ _ _ i hi]
  cases hp : paceOf tools handler calls paces i with
  | none =>
    refine ⟨by simp [chunks_map_chunk], fun _ => rfl, fun p h => (by cases h)⟩
  | some p =>
    simp only []
    refine ⟨(chunks_produce p _ _).1, fun h => (by cases h), fun q hq => ?_⟩
    cases hq
    refine ⟨(chunks_produce p _ _).2, fun hi' => produce_ignore p hi' _ _, fun hm => ?_⟩
    obtain ⟨hf, j, hj⟩ := ctxErr_mem_produce _ _ _ hm
    refine ⟨hf, fun hc => ?_⟩
    rw [ctxDone_good genCtxFacts_good, hc, cancelledAt_none] at hj
    cases hj

/-- **cancel_before_late_steps.** The caller's cancellation does reach the tools: if the
    caller cancels right after `Stream` returned (before any late step), every producer
    finds its context done at its first late step — the source delivers the eager chunks
    and then, if anything was left, what `onDone` says. -/
theorem cancel_before_late_steps (assistant : Bool) (calls : List Call) (seen : Nat → Nat)
    (σ : List Nat) (paces : Nat → Option Pace) (prod : List Nat) :
    streamL genFacts genCtxFacts tools handler assistant calls seen σ paces prod (some 0)
      = (stream genFacts tools handler assistant calls seen σ).map fun srcs =>
          srcs.zipIdx.map fun (src, i) =>
            match paceOf tools handler calls paces i with
            | none => src.map .chunk
            | some p =>
              (src.take p.hold).map .chunk ++
                match src.drop p.hold with
                | [] => []
                | x :: xs =>
                  match p.onDone with
                  | .fail => [.ctxErr]
                  | .stop => []
                  | .ignore => (x :: xs).map .chunk := by
  unfold streamL
  congr 1
  funext srcs
  unfold deliver
  apply List.map_congr_left
  intro ⟨src, i⟩ _
  dsimp only
  cases paceOf tools handler calls paces i with
  | none => rfl
  | some p =>
    simp only [produce]
    congr 1
    cases hd : src.drop p.hold with
    | nil => rfl
    | cons x xs =>
      exact lateSteps_done _ _ (fun j => by rw [ctxDone_good genCtxFacts_good, cancelledAt_zero]) 0 x xs

/-- non-vacuity: call 1's tool streams "<", "y", ">" — the first chunk eagerly, the others
    late; the caller cancels after one late step: "<", "y", then the context's error;
    call 0 (invokable-only) is not affected -/
example : streamL exFacts Expected.C17.ctxFacts exTools none true
      [⟨"c0", "a", "x"⟩, ⟨"c1", "s", "y"⟩] id [1, 0] (fun _ => some ⟨1, .fail⟩) [1, 0, 1] (some 1)
    = .ok [[.chunk [some ⟨"c0", "Ax"⟩, none]],
           [.chunk [none, some ⟨"c1", "<"⟩], .chunk [none, some ⟨"c1", "y"⟩], .ctxErr]] := by decide

/-- the same without cancellation: everything is delivered, whatever the script -/
example : streamL exFacts Expected.C17.ctxFacts exTools none true
      [⟨"c0", "a", "x"⟩, ⟨"c1", "s", "y"⟩] id [1, 0] (fun _ => some ⟨0, .stop⟩) [7, 1] none
    = .ok [[.chunk [some ⟨"c0", "Ax"⟩, none]],
           [.chunk [none, some ⟨"c1", "<"⟩], .chunk [none, some ⟨"c1", "y"⟩],
            .chunk [none, some ⟨"c1", ">"⟩]]] := by decide

/-- (negation witness) a context scoped to the fan-out — cancelled when the calls have
    returned — cuts a tool that is still producing: the streamed form ends in the context's
    error after the eager chunk although nobody cancelled, while Invoke returns the full
    answer. -/
theorem scoped_context_breaks :
    let CF : CtxFacts := { Expected.C17.ctxFacts with notScoped := false }
    let calls : List Call := [⟨"c0", "a", "x"⟩, ⟨"c1", "s", "y"⟩]
    streamL exFacts CF exTools none true calls id [0, 1] (fun _ => some ⟨1, .fail⟩) [1, 1] none
      = .ok [[.chunk [some ⟨"c0", "Ax"⟩, none]], [.chunk [none, some ⟨"c1", "<"⟩], .ctxErr]] ∧
    invoke exFacts exTools none true calls id [0, 1] = .ok [⟨"c0", "Ax"⟩, ⟨"c1", "<y>"⟩] := by decide

/-- (negation witness) a context detached from the caller's: the caller cancels before any
    late step and the producer, which would fail on a done context, never notices. -/
theorem detached_context_breaks :
    let CF : CtxFacts := { Expected.C17.ctxFacts with fromCaller := false }
    streamL exFacts CF exTools none true [⟨"c0", "s", "y"⟩] id [0] (fun _ => some ⟨0, .fail⟩) [] (some 0)
      = .ok [[.chunk [some ⟨"c0", "<"⟩], .chunk [some ⟨"c0", "y"⟩], .chunk [some ⟨"c0", ">"⟩]]] := by decide

/-! ## family `utils`: tools built by components/tool/utils decode each call's own arguments

  `mixed` is the configured tool list, each entry hand-written (`.inl`, a `Tool`) or built by
  `InferTool` / `NewTool` / `InferStreamTool` / `NewStreamTool` (`.inr`, a `UTool`: the user's
  function over the decoded request, request type struct / pointer / map).
  `mixedTools UF parse prior calls δ mixed` is the list as the node runs it when the calls
  `prior` of earlier messages went through the same tools and the calls of this message
  decode in the order `δ`; `parse` (arbitrary) gives the fields an argument string carries.
  Model: EinoV/Model/C17Utils.lean. -/

def genUFacts : UFacts := { freshPerCall := FactsC17.utilsFreshRequestPerCall }

/-- Source fact tie: the utils wrappers decode into an object made inside the call. -/
theorem utils_facts_match : genUFacts = Expected.C17.ufacts := by decide

theorem genUFacts_good : genUFacts.Good := by unfold UFacts.Good; decide

/-- **utils_tools_stateless.** For every tool list, every history of earlier messages, every
    call list and every order in which the overlapping calls decode: a utils-built tool is
    the pure function "the user's function on the request decoded from THIS argument string,
    absent fields zero" — nothing decoded for another call is visible. -/
theorem utils_tools_stateless (parse : String → Args) (prior calls : List Call) (δ : List Nat)
    (mixed : List (String × MixedTool)) :
    mixedTools genUFacts parse prior calls δ mixed = pureTools parse mixed :=
  mixedTools_fresh genUFacts_good parse prior calls δ mixed

/-- **utils_history_irrelevant.** Hence, for every input, Invoke and Stream return the same
    whatever went through the tools before and however the calls of the message overlap. -/
theorem utils_history_irrelevant (parse : String → Args) (mixed : List (String × MixedTool))
    (assistant : Bool) (calls prior prior' : List Call) (δ δ' : List Nat) (seen : Nat → Nat) (σ : List Nat) :
    invoke genFacts (mixedTools genUFacts parse prior calls δ mixed) handler assistant calls seen σ
      = invoke genFacts (mixedTools genUFacts parse prior' calls δ' mixed) handler assistant calls seen σ ∧
    stream genFacts (mixedTools genUFacts parse prior calls δ mixed) handler assistant calls seen σ
      = stream genFacts (mixedTools genUFacts parse prior' calls δ' mixed) handler assistant calls seen σ := by
  rw [utils_tools_stateless, utils_tools_stateless]
  exact ⟨rfl, rfl⟩

/-- **utils_by_index.** Calls naming utils-built invokable tools (the same tool any number
    of times, with any arguments): if the user's function answers `v c` on the request
    decoded from call `c`'s own arguments, then for every history, decode order and
    completion order Invoke returns one message per call, the i-th with the i-th call's id
    and `v` of the i-th call. -/
theorem utils_by_index (parse : String → Args) (mixed : List (String × MixedTool))
    (calls : List Call) (hne : calls ≠ []) (v : Call → String)
    (hall : ∀ c ∈ calls, ∃ t f, lookupM mixed c.name = some (.inr t) ∧ t.inv = some f ∧
      f (decodeFresh (parse c.args)) = .ok (v c))
    (prior : List Call) (δ : List Nat) (seen : Nat → Nat) (σ : List Nat)
    (hσ : σ.Perm (List.range calls.length)) :
    invoke genFacts (mixedTools genUFacts parse prior calls δ mixed) handler true calls seen σ
      = .ok (calls.map fun c => ⟨c.id, v c⟩) := by
  rw [utils_tools_stateless]
  apply tools_by_index _ handler calls hne v _ seen σ hσ
  intro c hc
  obtain ⟨t, f, hl, hf, hv⟩ := hall c hc
  rw [answerI_utils_inv hl hf, hv]

/-- **utils_stream_agrees.** The same for utils-built streamable tools: the streamed form
    concatenates, under every interleaving, to the list Invoke returns — the i-th message
    made of the chunks the user's function streams on call i's own decoded arguments. -/
theorem utils_stream_agrees (parse : String → Args) (mixed : List (String × MixedTool))
    (calls : List Call) (hne : calls ≠ []) (cs : Call → List String)
    (hall : ∀ c ∈ calls, ∃ t g, lookupM mixed c.name = some (.inr t) ∧ t.inv = none ∧ t.str = some g ∧
      g (decodeFresh (parse c.args)) = .ok (cs c) ∧ cs c ≠ [])
    (prior : List Call) (δ : List Nat) (seen seen' : Nat → Nat) (σ σ' : List Nat)
    (hσ : σ.Perm (List.range calls.length)) (hσ' : σ'.Perm (List.range calls.length)) :
    ∃ srcs, stream genFacts (mixedTools genUFacts parse prior calls δ mixed) handler true calls seen' σ'
        = .ok srcs ∧
      invoke genFacts (mixedTools genUFacts parse prior calls δ mixed) handler true calls seen σ
        = .ok (calls.map fun c => ⟨c.id, joinS (cs c)⟩) ∧
      ∀ m, Interleaving srcs m →
        collect m = .ok ((calls.map fun c => (⟨c.id, joinS (cs c)⟩ : Msg)).map some) := by
  rw [utils_tools_stateless]
  apply tools_stream_agrees _ handler calls hne cs _ _ seen seen' σ σ' hσ hσ'
  · intro c hc
    obtain ⟨t, g, hl, _, hg, hv, hn⟩ := hall c hc
    exact ⟨by rw [answerS_utils_str hl hg, hv], hn⟩
  · intro c hc
    obtain ⟨t, g, hl, hi, _, _, _⟩ := hall c hc
    rw [pick_utils hl]
    exact coherent_of_no_inv _ (by simp [UTool.pure, hi])

section UtilsExamples

/-- a parser for the examples: "n1" carries n = 1, "n2u" carries n = 2 and u = "F", … -/
def exParse (s : String) : Args :=
  if s == "n1" then ⟨none, some 1, none⟩
  else if s == "n2" then ⟨none, some 2, none⟩
  else if s == "n3" then ⟨none, some 3, none⟩
  else if s == "n2u" then ⟨none, some 2, some "F"⟩
  else if s == "a" then ⟨some "oslo", none, none⟩
  else ⟨none, none, none⟩

def exShow (r : Req) : String := r.a ++ "/" ++ toString r.n ++ "/" ++ r.u

/-- `scale`: a pointer-typed request, answers with what it finds in it -/
def exScale : UTool := ⟨.ptr, some fun r => .ok (exShow r), none⟩
def exScaleS : UTool := ⟨.map, none, some fun r => .ok [r.a, "/", toString r.n]⟩
def exMixed : List (String × MixedTool) := [("a", .inl (exEcho "A")), ("scale", .inr exScale), ("ss", .inr exScaleS)]

end UtilsExamples

/-- non-vacuity: the same tool three times in one message, whatever the decode order, after
    an earlier message that set `u`: each answer from its own arguments, absent fields zero -/
example : invoke exFacts (mixedTools Expected.C17.ufacts exParse [⟨"p0", "scale", "n2u"⟩]
      [⟨"c0", "scale", "n1"⟩, ⟨"c1", "a", "x"⟩, ⟨"c2", "scale", "n3"⟩, ⟨"c3", "scale", "a"⟩] [3, 2, 0, 1] exMixed)
    none true [⟨"c0", "scale", "n1"⟩, ⟨"c1", "a", "x"⟩, ⟨"c2", "scale", "n3"⟩, ⟨"c3", "scale", "a"⟩] id [2, 0, 3, 1]
    = .ok [⟨"c0", "/1/"⟩, ⟨"c1", "Ax"⟩, ⟨"c2", "/3/"⟩, ⟨"c3", "oslo/0/"⟩] := by decide

/-- (negation witness) one request object per tool instead of per call, pointer-typed
    request, the calls of a message overlapping: every call of the tool answers from the
    arguments of whichever call decoded last. -/
theorem shared_request_breaks :
    let calls : List Call := [⟨"c0", "scale", "n1"⟩, ⟨"c1", "scale", "n2"⟩, ⟨"c2", "scale", "n3"⟩]
    invoke exFacts (mixedTools { freshPerCall := false } exParse [] calls [0, 2, 1] exMixed)
      none true calls id [0, 1, 2]
      = .ok [⟨"c0", "/2/"⟩, ⟨"c1", "/2/"⟩, ⟨"c2", "/2/"⟩] := by decide

/-- (negation witness) … and without any overlap: a call that leaves a field out finds the
    value an earlier message put there. -/
theorem stale_field_breaks :
    let calls : List Call := [⟨"c0", "scale", "a"⟩]
    invoke exFacts (mixedTools { freshPerCall := false } exParse [⟨"p0", "scale", "n2u"⟩] calls [0] exMixed)
      none true calls id [0]
      = .ok [⟨"c0", "oslo/2/F"⟩] := by decide

/-! ## family `readers`: several consumers of the node's stream, each concatenating

  The chunks of a stream are shared by all its copies.  `readK CF k cells` = `k` readers, one
  after the other, each receiving every chunk of the store `cells` (in the stream's order)
  and concatenating (`collect`); a concatenation that does not allocate its result writes
  it back into the store.  Model: EinoV/Model/C17Readers.lean. -/

def genConcatFacts : ConcatFacts :=
  { arrayAllocates := FactsC17.concatArrayAllocates, msgsAllocates := FactsC17.concatMessagesAllocates }

/-- Source fact tie: `concatMessageArray` and `ConcatMessages` build their results in memory
    of their own and assign nothing through their arguments. -/
theorem concat_facts_match : genConcatFacts = Expected.C17.concatFacts := by decide

theorem genConcatFacts_good : genConcatFacts.Good := ⟨by decide, by decide⟩

/-- **readers_leave_chunks_alone.** For every chunk sequence and every number of readers:
    each reader's concatenation is the concatenation of the chunks as they were sent, and
    the chunks are afterwards what they were. -/
theorem readers_leave_chunks_alone (k : Nat) (cells : Cells) :
    readK genConcatFacts k cells = (List.replicate k (collect cells), cells) :=
  readK_good genConcatFacts_good k cells

/-- **every_reader_agrees.** `tools_stream_agrees` for any number of readers: under its
    hypotheses, whatever interleaving `m` of the n source streams the (shared) stream
    delivers, each of the `k` readers concatenates it to exactly the list Invoke returns. -/
theorem every_reader_agrees (calls : List Call) (hne : calls ≠ []) (cs : Call → List String)
    (hall : ∀ c ∈ calls, answerS tools handler c = some (.ok (cs c)) ∧ cs c ≠ [])
    (hcoh : ∀ c ∈ calls, Coherent (pick tools handler c))
    (seen seen' : Nat → Nat) (σ σ' : List Nat)
    (hσ : σ.Perm (List.range calls.length)) (hσ' : σ'.Perm (List.range calls.length)) (k : Nat) :
    ∃ srcs, stream genFacts tools handler true calls seen' σ' = .ok srcs ∧
      invoke genFacts tools handler true calls seen σ
        = .ok (calls.map fun c => ⟨c.id, joinS (cs c)⟩) ∧
      ∀ m, Interleaving srcs m →
        readK genConcatFacts k m
          = (List.replicate k (.ok ((calls.map fun c => (⟨c.id, joinS (cs c)⟩ : Msg)).map some)), m) := by
  obtain ⟨srcs, hs, hi, hm⟩ := tools_stream_agrees tools handler calls hne cs hall hcoh seen seen' σ σ' hσ hσ'
  refine ⟨srcs, hs, hi, fun m him => ?_⟩
  rw [readers_leave_chunks_alone, hm m him]

/-- non-vacuity: three readers of the merged stream of `exCalls` -/
example : (match stream exFacts exTools none true exCalls id [1, 2, 0] with
    | .ok srcs => (readK Expected.C17.concatFacts 3 (mergeBy [1, 0, 1, 2] srcs)).1.map (·.toOption)
    | _ => [])
    = List.replicate 3 (some [some ⟨"c0", "Ax"⟩, some ⟨"c1", "<y>"⟩, some ⟨"c2", "Az"⟩]) := by decide

/-- (negation witness) `concatMessageArray` building its result in the first chunk's list:
    the first reader is right, the second finds the complete answers in chunk 0 and the
    chunks again after it — doubled outputs. -/
theorem inplace_array_breaks :
    (readK { Expected.C17.concatFacts with arrayAllocates := false } 2
      [[some ⟨"c0", "A"⟩, none], [none, some ⟨"c1", "x"⟩], [none, some ⟨"c1", "y"⟩]]).1.map (·.toOption)
      = [some [some ⟨"c0", "A"⟩, some ⟨"c1", "xy"⟩], some [some ⟨"c0", "A"⟩, some ⟨"c1", "xyxy"⟩]] := by decide

/-- (negation witness) `ConcatMessages` building its result in the first message: the first
    message of a multi-chunk answer is rewritten in its chunk, the second reader gets it
    followed by the other chunks again. -/
theorem inplace_message_breaks :
    (readK { Expected.C17.concatFacts with msgsAllocates := false } 2
      [[some ⟨"c0", "A"⟩, none], [none, some ⟨"c1", "x"⟩], [none, some ⟨"c1", "y"⟩]]).1.map (·.toOption)
      = [some [some ⟨"c0", "A"⟩, some ⟨"c1", "xy"⟩], some [some ⟨"c0", "A"⟩, some ⟨"c1", "xyy"⟩]] := by decide

/-! ## call ids need not be distinct: calls are answered by position -/

/-- **answers_by_position_any_ids.** `tools_by_index` read position by position, with NO
    assumption on the ids of the message (two calls may share an id, ids may be empty): for
    every completion order Invoke returns exactly `calls.length` messages, and the i-th one
    carries the i-th call's id — whatever it is — and the i-th call's answer. -/
theorem answers_by_position_any_ids (calls : List Call) (hne : calls ≠ []) (v : Call → String)
    (hall : ∀ c ∈ calls, answerI tools handler c = some (.ok (v c)))
    (seen : Nat → Nat) (σ : List Nat) (hσ : σ.Perm (List.range calls.length)) :
    ∃ msgs, invoke genFacts tools handler true calls seen σ = .ok msgs ∧
      msgs.length = calls.length ∧
      ∀ i (h : i < calls.length), msgs[i]? = some ⟨calls[i].id, v calls[i]⟩ := by
  refine ⟨_, tools_by_index tools handler calls hne v hall seen σ hσ, by simp, fun i h => by simp [h]⟩

/-- non-vacuity: four calls, ids `["x", "y", "x", ""]` and all equal: four answers, by position -/
example : invoke exFacts exTools none true
      [⟨"x", "a", "p"⟩, ⟨"y", "s", "q"⟩, ⟨"x", "a", "r"⟩, ⟨"", "s", "t"⟩] id [3, 1, 2, 0]
    = .ok [⟨"x", "Ap"⟩, ⟨"y", "<q>"⟩, ⟨"x", "Ar"⟩, ⟨"", "<t>"⟩] := by decide
example : invoke exFacts exTools none true
      [⟨"same", "a", "p"⟩, ⟨"same", "s", "q"⟩, ⟨"same", "a", "p"⟩] id [2, 0, 1]
    = .ok [⟨"same", "Ap"⟩, ⟨"same", "<q>"⟩, ⟨"same", "Ap"⟩] := by decide

end EinoV.C17
