/-
  C18 — The ReAct agent alternates model and tools faithfully and stops.
  Property theorems.  Model: EinoV/Model/C18.lean (the agent's compose graph run superstep by
  superstep).  Source facts: EinoV/Gen/FactsC18.lean, regenerated from /repo on every run
  (rule table of the default stream tool-call checker, graph topology built by NewAgent,
  MaxStep → WithMaxRunSteps and compose's default, the history-appending pre-handlers).

  Every theorem is stated for *the facts read off the source* (`genFacts = some F`), for all
  scripts (replies × chunkings), tool functions, return-directly sets, step limits,
  message modifiers and both modes.
-/
import EinoV.Model.C18
import EinoV.Proofs.C18
import EinoV.Proofs.C18Gen
import EinoV.Proofs.C18Shared
import EinoV.Gen.FactsC18
import EinoV.Expected.C18

namespace EinoV.C18
open EinoV.Gen

/-- Source fact tie: the regenerated facts are the ones the theorems are proved for, the nil
    checker is the first-chunk checker, the tools pre-handler records the return-directly
    id, the graph runs in Pregel mode and compose's step guard is `step >= maxSteps`
    (below 1 rejected). -/
theorem facts_match :
    genFacts = some Expected.C18.facts ∧
    FactsC18.defaultCheckerIsFirstChunk = true ∧
    FactsC18.toolsPreSetsReturnDirectlyId = true ∧
    FactsC18.pregelAnyPredecessor = true ∧
    FactsC18.exportedAnyPredecessor = true ∧
    FactsC18.stepGuardGE = true ∧
    FactsC18.maxStepsBelowOneRejected = true := by decide

/-- consequence used by every theorem below: the decoded source facts are the expected record -/
theorem facts_eq {F : Facts} (hF : genFacts = some F) : F = Expected.C18.facts := by
  have := facts_match.1
  rw [hF] at this
  exact Option.some.inj this

/-! ## history -/

/-- **react_history.** The k-th model call (k = 0, 1, …) sees — through the message
    modifier — the original messages followed by, for every earlier reply j < k in order,
    the assistant message j and the tool messages answering its calls (in call order), and
    nothing else (`transcript`). In particular all those tools nodes succeeded. -/
theorem react_history {F : Facts} (hF : genFacts = some F) (cfg : Config) (mode : Mode)
    (orig : List Msg) (script : List Reply) (k : Nat) (s : List Msg)
    (hk : (run F cfg mode orig script).seen[k]? = some s) :
    ∃ t, transcript cfg (script.take k) = some t ∧ s = cfg.modifier (orig ++ t) := by
  rw [facts_eq hF, run_eq] at hk
  cases hl : stepLimit Expected.C18.facts cfg with
  | none => simp [hl] at hk
  | some l =>
    simp only [hl] at hk
    exact rounds_seen cfg _ script l orig k s hk

/-- what `transcript` is, reply by reply: assistant message, then one tool message per call
    carrying the call's id and the tool's output -/
theorem transcript_cons (cfg : Config) (r : Reply) (rest : List Reply) (res t : List Msg)
    (hres : (runTools cfg r.full).2 = .ok res) (ht : transcript cfg rest = some t) :
    transcript cfg (r :: rest) = some (r.full :: res ++ t) ∧ Answers cfg r.full.calls res := by
  refine ⟨by simp [transcript, hres, ht], runTools_spec cfg _ _ hres⟩

/-- **react_alternates.** Node executions strictly alternate chat, tools, chat, tools, …;
    the only other node, direct_return, runs at most once, last, right after a tools node. -/
theorem react_alternates {F : Facts} (hF : genFacts = some F) (cfg : Config) (mode : Mode)
    (orig : List Msg) (script : List Reply) :
    Alternates (run F cfg mode orig script).evs := by
  rw [facts_eq hF, run_eq]
  cases hl : stepLimit Expected.C18.facts cfg with
  | none => exact .nil
  | some l => exact rounds_alternates cfg _ script l orig

/-! ## result -/

/-- **react_result.** If the agent returns a message, there is a first reply `k` at which it
    stops — all earlier replies sent it to the tools node (branch decision `goes`), their
    tools ran, and none of their calls was to a return-directly tool — and the message is
    either that reply's assistant message (the branch went to END) or what direct_return
    picked out of the tools output for the recorded return-directly call id. -/
theorem react_result {F : Facts} (hF : genFacts = some F) (cfg : Config) (mode : Mode)
    (orig : List Msg) (script : List Reply) (m : Msg)
    (hm : (run F cfg mode orig script).result = .ok m) :
    ∃ k r, script[k]? = some r ∧
      (∀ (j : Nat) rj, j < k → script[j]? = some rj → Continues cfg (goes F cfg mode) rj) ∧
      ((goes F cfg mode r = false ∧ m = r.full) ∨
       (goes F cfg mode r = true ∧ returnDirectlyId cfg.returnDirectly r.full ≠ "" ∧
        ∃ res, (runTools cfg r.full).2 = .ok res ∧
          directResult (returnDirectlyId cfg.returnDirectly r.full) res = .ok m)) := by
  rw [facts_eq hF, run_eq] at hm
  rw [facts_eq hF]
  cases hl : stepLimit Expected.C18.facts cfg with
  | none => simp [hl] at hm
  | some l =>
    simp only [hl] at hm
    exact rounds_result cfg _ script l orig m hm

/-- **react_result, converse (the agent does answer).** If reply `k` is the first one the
    branch sends to END, every earlier reply went round (tools ran, no return-directly call)
    and the step limit `l` covers the `2k+1` node executions, the agent returns exactly that
    assistant message, after `k+1` model calls and `2k+1` node executions. -/
theorem react_result_complete {F : Facts} (hF : genFacts = some F) (cfg : Config) (mode : Mode)
    (orig : List Msg) (script : List Reply) (l k : Nat) (r : Reply)
    (hl : stepLimit F cfg = some l) (hk : script[k]? = some r)
    (hpre : ∀ (j : Nat) rj, j < k → script[j]? = some rj → Continues cfg (goes F cfg mode) rj)
    (hend : goes F cfg mode r = false) (hb : 2 * k + 1 ≤ l) :
    (run F cfg mode orig script).result = .ok r.full ∧
    (run F cfg mode orig script).evs.length = 2 * k + 1 ∧
    (run F cfg mode orig script).seen.length = k + 1 := by
  rw [facts_eq hF] at hl hpre hend ⊢
  rw [run_eq]; simp only [hl]
  exact rounds_complete_end cfg _ k script l orig r hk hpre hend hb

/-- … and if reply `k` is the first one with a call to a return-directly tool (non-empty
    recorded id), its tools succeed and the limit covers `2k+3` executions, the agent returns
    what direct_return picks for that id (by `react_result_direct`: the answer to the first
    such call). -/
theorem react_result_complete_direct {F : Facts} (hF : genFacts = some F) (cfg : Config)
    (mode : Mode) (orig : List Msg) (script : List Reply) (l k : Nat) (r : Reply) (res : List Msg)
    (hl : stepLimit F cfg = some l) (hk : script[k]? = some r)
    (hpre : ∀ (j : Nat) rj, j < k → script[j]? = some rj → Continues cfg (goes F cfg mode) rj)
    (hgo : goes F cfg mode r = true) (hres : (runTools cfg r.full).2 = .ok res)
    (hid : returnDirectlyId cfg.returnDirectly r.full ≠ "") (hb : 2 * k + 3 ≤ l) :
    (run F cfg mode orig script).result
      = directResult (returnDirectlyId cfg.returnDirectly r.full) res ∧
    (run F cfg mode orig script).evs.length = 2 * k + 3 := by
  rw [facts_eq hF] at hl hpre hgo ⊢
  rw [run_eq]; simp only [hl]
  exact rounds_complete_direct cfg _ k script l orig r res hk hpre hgo hres hid hb

/-- In `Generate` (and with the default or the whole-stream checker) the branch decision is
    "the assistant message has tool calls". -/
theorem goes_generate {F : Facts} (hF : genFacts = some F) (cfg : Config) (r : Reply)
    (hc : cfg.checker = none ∨ cfg.checker = some wholeStreamChecker) :
    goes F cfg .generate r = !r.full.calls.isEmpty := by
  rw [facts_eq hF]
  rcases hc with hc | hc
  · simp only [goes, Config.checkerSpec, hc, streamOf]
    exact firstChunk_single _
  · simp only [goes, Config.checkerSpec, hc, streamOf]
    exact whole_single _

/-- **react_result, return-directly half.** When the calls of the stopping reply carry
    pairwise distinct ids, what direct_return picks is the answer (tool output, call id) to
    the *first* call whose tool is in the return-directly set. -/
theorem react_result_direct (cfg : Config) (r : Reply) (res : List Msg) (m : Msg)
    (hres : (runTools cfg r.full).2 = .ok res)
    (hnd : (r.full.calls.map (·.id)).Nodup)
    (hid : returnDirectlyId cfg.returnDirectly r.full ≠ "")
    (hm : directResult (returnDirectlyId cfg.returnDirectly r.full) res = .ok m) :
    ∃ c, r.full.calls.find? (fun c => cfg.returnDirectly.contains c.name) = some c ∧
      AnswerOf cfg c m := by
  obtain ⟨c, hc, _, a, ha, hans⟩ := direct_first cfg r.full res hres hnd hid
  rw [ha] at hm
  exact ⟨c, hc, (Except.ok.inj hm) ▸ hans⟩

/-- what "went round" / "stopped for return-directly" means in terms of tool names, for
    messages whose call ids are non-empty -/
theorem return_directly_detected (cfg : Config) (r : Reply)
    (hids : ∀ c ∈ r.full.calls, c.id ≠ "") :
    returnDirectlyId cfg.returnDirectly r.full = "" ↔
      ∀ c ∈ r.full.calls, c.name ∉ cfg.returnDirectly :=
  returnDirectlyId_empty_iff _ _ hids

/-! ## termination -/

/-- **react_stops.** With step limit `l` in force (`MaxStep`, or nodes + 10 when it is 0) the
    agent executes at most `l` nodes; the step-limit error is returned exactly when all `l`
    were used without reaching END; and a run that ended otherwise is not changed by any
    larger limit (the limit only truncates). The run function is total: there is no
    script for which the agent loops forever. -/
theorem react_stops {F : Facts} (hF : genFacts = some F) (cfg : Config) (mode : Mode)
    (orig : List Msg) (script : List Reply) (l : Nat) (hl : stepLimit F cfg = some l) :
    (run F cfg mode orig script).evs.length ≤ l ∧
    ((run F cfg mode orig script).result = .error .maxSteps →
      (run F cfg mode orig script).evs.length = l) := by
  rw [facts_eq hF] at hl ⊢
  rw [run_eq]
  simp only [hl]
  exact ⟨rounds_evs_le cfg _ script l orig, rounds_maxSteps cfg _ script l orig⟩

theorem react_limit_only_truncates {F : Facts} (hF : genFacts = some F) (cfg : Config)
    (mode : Mode) (orig : List Msg) (script : List Reply) (n : Int)
    (hpos : 0 < cfg.maxStep) (hle : cfg.maxStep ≤ n)
    (hne : (run F cfg mode orig script).result ≠ .error .maxSteps) :
    run F { cfg with maxStep := n } mode orig script = run F cfg mode orig script := by
  rw [facts_eq hF] at hne ⊢
  have hl : ∀ (c : Config), 0 < c.maxStep →
      stepLimit Expected.C18.facts c = some c.maxStep.toNat := by
    intro c hn
    have h0 : (c.maxStep == 0) = false := by simp; omega
    have h1 : ¬ c.maxStep < 0 := by omega
    simp [stepLimit, Expected.C18.facts, h0, h1]
  rw [run_eq, hl cfg hpos] at hne
  rw [run_eq, run_eq, hl cfg hpos, hl { cfg with maxStep := n } (by simp only; omega)]
  simp only at hne ⊢
  have hgo : goes Expected.C18.facts { cfg with maxStep := n } mode = goes Expected.C18.facts cfg mode := rfl
  rw [hgo, rounds_setMax]
  obtain ⟨d, hd⟩ : ∃ d, n.toNat = cfg.maxStep.toNat + d := ⟨n.toNat - cfg.maxStep.toNat, by omega⟩
  rw [hd, rounds_mono_add cfg _ script _ orig hne d]

/-- the limit in force: `MaxStep` when positive; 12 (2 nodes + 10) resp. 13 (3 nodes + 10)
    when it is 0; none (the run is refused) when negative -/
theorem react_step_limit {F : Facts} (hF : genFacts = some F) (cfg : Config) :
    stepLimit F cfg =
      if cfg.maxStep = 0 then some (if cfg.returnDirectly.isEmpty then 12 else 13)
      else if cfg.maxStep < 0 then none else some cfg.maxStep.toNat := by
  rw [facts_eq hF]
  by_cases h0 : cfg.maxStep = 0
  · by_cases hrd : cfg.returnDirectly.isEmpty = true <;>
      simp [stepLimit, Expected.C18.facts, h0, topoOf, hrd, Expected.C18.topoPlain, Expected.C18.topoRD]
  · have : (cfg.maxStep == 0) = false := by simpa using h0
    simp [stepLimit, Expected.C18.facts, h0, this]

/-! ## Generate = Stream -/

/-- Generate and Stream agree whenever the configured checker decides on every reply's
    chunks as it decides on the whole message. -/
theorem generate_eq_stream_of_agree {F : Facts} (hF : genFacts = some F) (cfg : Config)
    (orig : List Msg) (script : List Reply)
    (h : ∀ r ∈ script, runChecker (cfg.checkerSpec F) r.chunks
                        = runChecker (cfg.checkerSpec F) [Chunk.ofMsg r.full]) :
    run F cfg .generate orig script = run F cfg .stream orig script := by
  rw [facts_eq hF] at h ⊢
  rw [run_eq, run_eq]
  cases hl : stepLimit Expected.C18.facts cfg with
  | none => rfl
  | some l =>
    simp only
    rw [rounds_congr cfg (goes Expected.C18.facts cfg .generate) (goes Expected.C18.facts cfg .stream)
      script l orig (fun r hr => (h r hr).symm)]

/-- **generate_eq_stream** (partial: needs the hypothesis; see the negation below).
    Full statement of the property clause: `∀ script, run F cfg .generate orig script =
    run F cfg .stream orig script` for the default configuration — FALSE for the code as it
    is (`generate_ne_stream_witness`), recorded as known finding.
    Proved: with the default checker, if in every reply the first chunk that has content or
    tool calls carries a tool call whenever the reply has any, Generate and Stream give the
    same model inputs, the same node executions and the same answer. -/
theorem generate_eq_stream_partial {F : Facts} (hF : genFacts = some F) (cfg : Config)
    (orig : List Msg) (script : List Reply) (hc : cfg.checker = none)
    (h : ∀ r ∈ script, ToolCallsInFirstNonEmptyChunk r) :
    run F cfg .generate orig script = run F cfg .stream orig script := by
  apply generate_eq_stream_of_agree hF
  intro r hr
  rw [facts_eq hF]
  simp only [Config.checkerSpec, hc]
  exact firstChunk_agree r (h r hr)

/-- Shape of every divergence under the default checker (what the harness relies on to tell
    the recorded finding from any other Generate/Stream difference): some reply of the
    script has its tool calls behind a content chunk. -/
theorem divergence_needs_late_toolcall {F : Facts} (hF : genFacts = some F) (cfg : Config)
    (orig : List Msg) (script : List Reply) (hc : cfg.checker = none)
    (hne : run F cfg .generate orig script ≠ run F cfg .stream orig script) :
    ∃ r ∈ script, ¬ ToolCallsInFirstNonEmptyChunk r := by
  apply Classical.byContradiction
  intro hno
  apply hne
  apply generate_eq_stream_partial hF cfg orig script hc
  intro r hr
  apply Classical.byContradiction
  intro hnr
  exact hno ⟨r, hr, hnr⟩

/-- With a checker that reads the stream until it finds a tool call (the remedy the doc
    comment of `StreamToolCallChecker` prescribes) the clause holds for every script. -/
theorem generate_eq_stream_whole {F : Facts} (hF : genFacts = some F) (cfg : Config)
    (orig : List Msg) (script : List Reply) (hc : cfg.checker = some wholeStreamChecker) :
    run F cfg .generate orig script = run F cfg .stream orig script := by
  apply generate_eq_stream_of_agree hF
  intro r _
  simp only [Config.checkerSpec, hc]
  rw [whole_chunks, whole_single]; rfl

/-! ## chunk metadata, and the agent embedded through `ExportGraph` -/

/-- **Provider metadata on chunks is irrelevant.** Whatever else the streamed chunks carry
    (`Extra` entries, `ResponseMeta`, `Name`, … — `Chunk.extras`), model inputs, node executions
    and the answer are those of the script with the metadata removed; in particular a head
    chunk that has neither content nor tool calls is skipped by the default checker whether or
    not it carries metadata (clauses "returns the first assistant message without tool calls",
    "Generate and Stream give the same answer" for such scripts). -/
theorem react_ignores_chunk_metadata {F : Facts} (hF : genFacts = some F) (cfg : Config)
    (mode : Mode) (orig : List Msg) (script : List Reply) :
    run F cfg mode orig (script.map Reply.bare) = run F cfg mode orig script := by
  rw [facts_eq hF, run_eq, run_eq]
  cases hl : stepLimit Expected.C18.facts cfg with
  | none => rfl
  | some l =>
    simp only
    rw [rounds_map cfg _ Reply.bare full_bare (goes_bare _ cfg mode) script l orig]

/-- two scripts that differ only in chunk metadata give the same run -/
theorem react_metadata_congr {F : Facts} (hF : genFacts = some F) (cfg : Config)
    (mode : Mode) (orig : List Msg) (s1 s2 : List Reply)
    (h : s1.map Reply.bare = s2.map Reply.bare) :
    run F cfg mode orig s1 = run F cfg mode orig s2 := by
  rw [← react_ignores_chunk_metadata hF cfg mode orig s1,
      ← react_ignores_chunk_metadata hF cfg mode orig s2, h]

/-- `ToolCallsInFirstNonEmptyChunk` does not depend on metadata: chunks in front of the first
    tool call that carry only metadata count as blank. -/
theorem toolCallsInFirstNonEmptyChunk_bare (r : Reply) :
    ToolCallsInFirstNonEmptyChunk r.bare ↔ ToolCallsInFirstNonEmptyChunk r := by
  have hagree : ∀ r : Reply, ToolCallsInFirstNonEmptyChunk r ↔
      (r.full.calls = [] ∨ runChecker Expected.C18.firstChunkChecker r.chunks = true) := by
    intro r
    constructor
    · intro h
      by_cases hc : r.full.calls = []
      · exact .inl hc
      · right
        rw [firstChunk_agree r h, firstChunk_single]
        cases hcc : r.full.calls with
        | nil => exact absurd hcc hc
        | cons x xs => rfl
    · rintro (h | h)
      · exact .inl h
      · right
        -- the checker answered true: walk to the chunk where it did
        have : ∀ cs : List Chunk, runChecker Expected.C18.firstChunkChecker cs = true →
            ∃ pre c post, cs = pre ++ c :: post ∧ (∀ x ∈ pre, x.blank) ∧ c.calls ≠ [] := by
          intro cs
          induction cs with
          | nil => intro h; simp [runChecker, Expected.C18.firstChunkChecker] at h
          | cons c cs ih =>
            intro h
            by_cases hcalls : c.calls = []
            · by_cases hcont : c.content = ""
              · have hstep : runChecker Expected.C18.firstChunkChecker (c :: cs)
                    = runChecker Expected.C18.firstChunkChecker cs := by
                  simp [runChecker, chunkAct, Expected.C18.firstChunkChecker, CheckCond.holds, hcalls, hcont]
                obtain ⟨pre, c', post, hcs, hpre, hc'⟩ := ih (hstep ▸ h)
                refine ⟨c :: pre, c', post, by simp [hcs], ?_, hc'⟩
                intro x hx
                rcases List.mem_cons.mp hx with rfl | hx
                · exact ⟨hcont, hcalls⟩
                · exact hpre x hx
              · simp [runChecker, chunkAct, Expected.C18.firstChunkChecker, CheckCond.holds, hcalls, hcont] at h
            · exact ⟨[], c, cs, rfl, by simp, hcalls⟩
        exact this r.chunks h
  rw [hagree r.bare, hagree r, full_bare]
  show (_ ∨ runChecker _ (r.chunks.map Chunk.bare) = true) ↔ _
  rw [runChecker_bare]

/-- **The embedded agent is the same agent.** Run as the graph returned by
    `Agent.ExportGraph()` inside a parent chain / graph (added with the returned options), the
    agent gives the run `Agent.Generate`/`Agent.Stream` give — same model inputs, node
    executions, answer, and in particular the same step limit (`MaxStep`, not compose's
    default): every theorem above applies to it. -/
theorem react_exported_graph_same {F : Facts} (hF : genFacts = some F) (host : Host)
    (cfg : Config) (mode : Mode) (orig : List Msg) (script : List Reply) :
    runAt F host cfg mode orig script = run F cfg mode orig script := by
  rw [facts_eq hF]
  cases host <;> rfl

/-- the step limit in force inside a parent graph is the configured one (clause "stops with
    the step-limit error", quantified over every step limit, for the exported graph) -/
theorem react_exported_step_limit {F : Facts} (hF : genFacts = some F) (cfg : Config) :
    stepLimit F.exported cfg =
      if cfg.maxStep = 0 then some (if cfg.returnDirectly.isEmpty then 12 else 13)
      else if cfg.maxStep < 0 then none else some cfg.maxStep.toNat := by
  have h : F.exported = F := by rw [facts_eq hF]; rfl
  rw [h]
  exact react_step_limit hF cfg

/-! ## tool calls streamed as deltas, interleaved across indexes -/

/-- **toolcalls_assembled_per_index.** What the assistant message reconstructed from a streamed
    reply carries as tool calls (`r.full.calls`, the list the tools node executes in order and
    `transcript` answers call by call), for every reply = every way of cutting the tool calls
    into deltas and distributing them over chunks: the deltas without `Index` are calls of
    their own, in arrival order; for every index `i` there is exactly the one call the deltas
    filed under `i` merge into (first non-empty id and name, arguments concatenated in arrival
    order — wherever those deltas sit in the stream), none if no delta carries `i`; the
    index-less calls come first, the others follow by strictly ascending index (`Canonical`). -/
theorem toolcalls_assembled_per_index (r : Reply) :
    deltasOf none r.full.calls = deltasOf none (r.chunks.flatMap (·.calls)) ∧
    (∀ i, deltasOf (some i) r.full.calls = (groupAt (r.chunks.flatMap (·.calls)) i).toList) ∧
    Canonical r.full.calls :=
  ⟨assemble_unindexed _, assemble_indexed _, assemble_sorted _⟩

/-- **toolcalls_interleaving_invariant.** Two delta streams in which every key (every `Index`,
    and "no `Index`") has the same deltas in the same order assemble to the same tool calls:
    the assembled message does not depend on how the deltas of different calls are interleaved
    (clause "streamed in arbitrary chunks"). For all streams, by `assemble_ext`. -/
theorem toolcalls_interleaving_invariant (ds ds' : List ToolCall)
    (h : ∀ k, deltasOf k ds = deltasOf k ds') : assemble ds = assemble ds' :=
  assemble_congr ds ds' h

/-- **toolcalls_interleave_all.** The delta lists `gs` of any number of parallel tool calls
    (pairwise no common key, e.g. one list per `Index`), interleaved in the stream in any way
    that keeps every list in order (`InterleaveAll`, an inductive relation; proof by induction
    on it), assemble to the same tool calls as the lists streamed back to back. -/
theorem toolcalls_interleave_all (gs : List (List ToolCall)) (l : List ToolCall)
    (h : InterleaveAll gs l) (hd : gs.Pairwise KeyDisjoint) : assemble l = assemble gs.flatten :=
  assemble_interleave_all h hd

/-- **toolcalls_assembled_fixpoint.** Assembling an assembled list changes nothing: the whole
    message `Generate` returns is the message `Stream` reconstructs, also after another pass
    through `ConcatMessages`. -/
theorem toolcalls_assembled_fixpoint (ds : List ToolCall) : assemble (assemble ds) = assemble ds :=
  assemble_idem ds

/-- **toolcalls_canonical_unchanged.** Tool calls that already have the canonical form
    (index-less calls first, then at most one call per index, ascending — the form of the calls
    of one well-formed chunk) are their own assembly; so a reply streamed as a single such
    chunk, which compose hands on as it is without `ConcatMessages`, is the assembled message. -/
theorem toolcalls_canonical_unchanged (c : Chunk) (h : Canonical c.calls) :
    concat [c] = { role := .assistant, content := c.content, calls := c.calls, callId := "" } := by
  simp [concat, String.join, assemble_canonical h]

/-- **react_interleaving_invariant.** Two scripts whose replies are, one by one, re-interleavings
    of each other (`Reply.Reinterleaved`: chunk by chunk the same content and the same "carries
    deltas or not", per key the same deltas in the same order) give the same run — model
    inputs, node executions with the tool calls started, result — in both modes, for every
    configuration: the agent loop sees only the assembled message. -/
theorem react_interleaving_invariant {F : Facts} (hF : genFacts = some F) (cfg : Config)
    (mode : Mode) (orig : List Msg) (s1 s2 : List Reply)
    (h : Pointwise Reply.Reinterleaved s1 s2) :
    run F cfg mode orig s1 = run F cfg mode orig s2 := by
  rw [facts_eq hF, run_eq, run_eq]
  cases hl : stepLimit Expected.C18.facts cfg with
  | none => rfl
  | some l =>
    simp only
    have hs : Pointwise (fun r1 r2 => r1.full = r2.full ∧
        goes Expected.C18.facts cfg mode r1 = goes Expected.C18.facts cfg mode r2) s1 s2 := by
      induction h with
      | nil => exact .nil
      | cons hr _ ih => exact .cons ⟨full_reinterleaved hr, goes_reinterleaved _ cfg mode hr⟩ ih
    rw [rounds_rel cfg _ hs l orig]

/-! ## calls to tools that do not exist (`ToolsConfig.UnknownToolsHandler`) -/

/-- Source fact tie: `genToolCallTasks` builds the task of an unknown call from values of that
    call (`newUnknownToolTask(toolCall.Function.Name, …)`, `toolCall` declared inside the loop body,
    the closure calling the handler with its own `name` parameter); without a handler an unknown
    name fails the node before any task runs; the agent hands its whole `ToolsConfig` (handler
    included) to `compose.NewToolNode`. -/
theorem tools_facts_match :
    FactsC18.unknownToolTaskGetsOwnName = true ∧
    FactsC18.unknownToolWithoutHandlerFails = true ∧
    FactsC18.toolsConfigReachesNode = true := by decide

/-- the tool message for a call of a registered tool is that tool's output on the call's arguments -/
theorem known_tool_answer (cfg : Config) (c : ToolCall) (m : Msg) (f : String → Except Nat String)
    (hf : cfg.tools c.name = some f) :
    AnswerOf cfg c m ↔ ∃ out, f c.args = .ok out ∧ m = toolMessage out c.id := by
  have ht : cfg.toolFor c.name = some f := by simp [Config.toolFor, hf]
  constructor
  · rintro ⟨g, out, hg, ho, hm⟩
    rw [ht] at hg; cases hg
    exact ⟨out, ho, hm⟩
  · rintro ⟨out, ho, hm⟩
    exact ⟨f, out, ht, ho, hm⟩

/-- **unknown_tool_answered_under_its_own_name.** With an unknown-tools handler `h` configured, the
    tool message that answers a call `c` to a name that is not a registered tool — wherever `c`
    stands among the calls of the assistant message, whatever the other calls are — is
    `h c.name c.args` under `c`'s id: the handler is asked about the name of THAT call. Together
    with `react_history` / `transcript_cons` (one `AnswerOf` per call, in call order) this is the
    clause "the k-th model call sees … the tool results for its calls" for hallucinated tools. -/
theorem unknown_tool_answered_under_its_own_name (cfg : Config)
    (h : String → String → Except Nat String) (c : ToolCall) (m : Msg)
    (hu : cfg.unknown = some h) (hc : cfg.tools c.name = none) :
    AnswerOf cfg c m ↔ ∃ out, h c.name c.args = .ok out ∧ m = toolMessage out c.id := by
  have ht : cfg.toolFor c.name = some (h c.name) := by simp [Config.toolFor, hc, hu]
  constructor
  · rintro ⟨g, out, hg, ho, hm⟩
    rw [ht] at hg; cases hg
    exact ⟨out, ho, hm⟩
  · rintro ⟨out, ho, hm⟩
    exact ⟨h c.name, out, ht, ho, hm⟩

/-- **unknown_tool_without_handler_fails.** Without a handler, an assistant message with a call to
    a name that is not a registered tool — at any position — fails the tools node before any tool
    body is started (so the run ends with that error and no later model call happens). -/
theorem unknown_tool_without_handler_fails (cfg : Config) (m : Msg) (c : ToolCall)
    (hu : cfg.unknown = none) (hm : c ∈ m.calls) (hc : cfg.tools c.name = none) :
    runTools cfg m = ([], .error .toolNotFound) := by
  have hres : ∀ calls : List ToolCall, c ∈ calls → resolveCalls cfg calls = none := by
    intro calls
    induction calls with
    | nil => intro h; cases h
    | cons d ds ih =>
      intro hmem
      simp only [resolveCalls]
      rcases List.mem_cons.mp hmem with rfl | hmem
      · have : cfg.toolFor c.name = none := by simp [Config.toolFor, hc, hu]
        rw [this]
      · rw [ih hmem]
        split <;> simp_all
  unfold runTools
  have hne : m.calls.isEmpty = false := by
    cases hcs : m.calls with
    | nil => rw [hcs] at hm; cases hm
    | cons _ _ => rfl
  simp [hne, hres m.calls hm]

/-- **unknown_tool_handler_takes_every_call.** With a handler configured the tools node never
    fails for an unknown name: every call of the message is started (registered tools and
    handler alike), and the node's error, if any, is a failure of one of them. -/
theorem unknown_tool_handler_takes_every_call (cfg : Config)
    (h : String → String → Except Nat String) (m : Msg) (hu : cfg.unknown = some h)
    (hne : m.calls ≠ []) :
    (runTools cfg m).1 = m.calls ∧ (runTools cfg m).2 ≠ .error .toolNotFound := by
  have hres : ∀ calls : List ToolCall, ∃ tasks, resolveCalls cfg calls = some tasks := by
    intro calls
    induction calls with
    | nil => exact ⟨[], rfl⟩
    | cons d ds ih =>
      obtain ⟨rest, hrest⟩ := ih
      have : ∃ f, cfg.toolFor d.name = some f := by
        unfold Config.toolFor
        cases cfg.tools d.name with
        | some f => exact ⟨f, rfl⟩
        | none => exact ⟨h d.name, by simp [hu]⟩
      obtain ⟨f, hf⟩ := this
      exact ⟨(d, f) :: rest, by simp [resolveCalls, hf, hrest]⟩
  have hcol : ∀ tasks : List (ToolCall × (String → Except Nat String)),
      collectResults tasks ≠ .error .toolNotFound := by
    intro tasks
    induction tasks with
    | nil => simp [collectResults]
    | cons t ts ih =>
      obtain ⟨d, f⟩ := t
      simp only [collectResults]
      split
      · simp
      · split
        · rename_i e he; intro heq; cases heq; exact ih he
        · simp
  obtain ⟨tasks, ht⟩ := hres m.calls
  have hemp : m.calls.isEmpty = false := by
    cases hcs : m.calls with
    | nil => exact absurd hcs hne
    | cons _ _ => rfl
  unfold runTools
  simp only [hemp, ht]
  exact ⟨rfl, hcol tasks⟩

/-- the misspelt call `tt` in front of a call of the real tool `t`: the second model call is shown
    "no tool tt(a)" for `c1` and `t`'s answer for `c2` -/
example : (run Expected.C18.facts (wCfgU [] 0) .stream wOrig [wMisspelt, wDone]).seen
    = [wOrig, wOrig ++ [⟨.assistant, "", [⟨"c1", "tt", "a", none⟩, ⟨"c2", "t", "b", none⟩], ""⟩,
                        ⟨.tool, "no tool tt(a)", [], "c1"⟩, ⟨.tool, "t(b)", [], "c2"⟩]] := by decide

/-- without a handler the same script fails in the tools node, nothing is started -/
example : run Expected.C18.facts (wCfg [] 0) .generate wOrig [wMisspelt, wDone]
    = { seen := [wOrig], evs := [.chat, .tools []], result := .error .toolNotFound } := by decide

/-- the fact matters: a closure reading a loop-shared variable (`resolveCallsSharedVar`) would
    answer the misspelt call under the name of the last call of the message -/
example : ((resolveCalls (wCfgU [] 0) wMisspelt.full.calls).map (·.map (fun t => t.2 t.1.args)))
      = some [.ok "no tool tt(a)", .ok "t(b)"] ∧
    ((resolveCallsSharedVar (wCfgU [] 0) wMisspelt.full.calls wMisspelt.full.calls).map
        (·.map (fun t => t.2 t.1.args)))
      = some [.ok "no tool t(a)", .ok "t(b)"] := by decide

/-! ## tools that stream lazily and honour their context -/

/-- **lazy_tool_result_complete.** Source fact `toolCallCtxNotScoped` (no function between the
    tools node and a tool derives a context that can end on its own — `ToolsNode.Stream` only
    opens the tool streams, they are read after it has returned): a streamable tool that produces
    its chunks lazily and looks at its context before each of them delivers, in Stream mode as in
    Generate, next to sibling calls or alone, the concatenation of all its chunks — the tool's
    output `f args` that `AnswerOf` / `transcript_cons` / `react_history` put into the history,
    `react_result_direct` returns for a return-directly tool, and `generate_eq_stream_partial` /
    `generate_eq_stream_whole` equate between the modes. (The model's tools are functions
    `args ↦ output`; this theorem is what licenses reading a lazily streamed result as one.) -/
theorem lazy_tool_result_complete (siblings : Bool) (mode : LazyMode) (chunks : List String) :
    lazyRead (!FactsC18.toolCallCtxNotScoped) siblings mode chunks = .ok (String.join chunks) := by
  have h : FactsC18.toolCallCtxNotScoped = true := by decide
  simp [lazyRead, h]

/-- the fact matters: under a context the tools node ends itself, the lazily produced result of
    one of several sibling calls is cut short or fails; a single call is not affected -/
example : lazyRead true true .stop ["alpha-", "beta-", "gamma"] = .ok "alpha-" ∧
    lazyRead true true .err ["alpha-", "beta-", "gamma"] = .error (.toolFailed 0) ∧
    lazyRead true false .stop ["alpha-", "beta-", "gamma"] = .ok "alpha-beta-gamma" ∧
    lazyRead false true .stop ["alpha-", "beta-", "gamma"] = .ok "alpha-beta-gamma" := by decide

/-! ## several runs started from one message slice of the caller, overlapping in time -/

/-- Source fact tie for the memory of the history: in package react every store into
    `state.Messages` is `state.Messages = append(state.Messages, …)`, and the state generator
    makes the slice inside its per-run closure. -/
theorem mem_facts_match : genMemFacts = Expected.C18.memFacts := by decide

/-- **react_runs_isolated.** Any number of runs (each with its own agent configuration, entry
    point Generate / Stream and model script) started from ONE message slice of the caller — the
    slice's backing array holding `orig` and any spare cells `spare` behind it (`cap > len`: built
    with `append`, or a prefix of a longer slice) — and interleaved node execution by node
    execution in ANY order `sched` (then driven to completion), with Go's `append` writing in
    place whenever the capacity allows (`goAppend`, any growth policy `slack`): every run shows
    exactly the model inputs, node executions and result of that run alone (`run`), and the
    caller's backing array — its elements and its spare cells — is as the caller left it. So
    every theorem above about `run` (history of the k-th model call, alternation, result, step
    limit) holds for each of the overlapping runs. (Holds for any topology / checker facts `F`;
    what it needs are the two memory facts.) -/
theorem react_runs_isolated (F : Facts) (slack : Nat → Nat)
    (orig spare : List Msg) (specs : List RunSpec) (sched : List Nat) :
    (runShared F genMemFacts slack orig spare specs sched).out =
      { runs := specs.map (fun p => some (run F p.cfg p.mode orig p.script)),
        callerArr := orig ++ spare } := by
  rw [mem_facts_match]
  exact runShared_isolated F slack orig spare specs sched

/-- **react_history_shared.** The clause "the k-th model call sees the original messages
    followed by every earlier assistant message and the tool results for its calls, in order",
    for run `i` of any such experiment: what its k-th model call saw is its own transcript —
    nothing of the runs it overlapped with. -/
theorem react_history_shared {F : Facts} (hF : genFacts = some F) (slack : Nat → Nat)
    (orig spare : List Msg) (specs : List RunSpec) (sched : List Nat) (i : Nat) (p : RunSpec)
    (r : Run) (k : Nat) (s : List Msg) (hp : specs[i]? = some p)
    (hr : (runShared F genMemFacts slack orig spare specs sched).out.runs[i]? = some (some r))
    (hk : r.seen[k]? = some s) :
    ∃ t, transcript p.cfg (p.script.take k) = some t ∧ s = p.cfg.modifier (orig ++ t) := by
  rw [react_runs_isolated F] at hr
  simp only [List.getElem?_map, hp, Option.map_some, Option.some.injEq] at hr
  subst hr
  exact react_history hF p.cfg p.mode orig p.script k s hk

/-- non-vacuity: runs A (Generate) and B (Stream) from a slice with two spare cells, A parked
    after its first model call while B runs its first round, then A's tools, then the rest: both
    see their own transcripts and the spare cells are untouched -/
example : (runShared Expected.C18.facts Expected.C18.memFacts (fun n => n) wOrig wSpare
            [wRunA, wRunB] [0, 1, 1, 0]).out
    = { runs := [some { seen := [wOrig, wOrig ++ [⟨.assistant, "for A", [⟨"cA", "t", "a", none⟩], ""⟩, ⟨.tool, "t(a)", [], "cA"⟩]],
                        evs := [.chat, .tools [⟨"cA", "t", "a", none⟩], .chat],
                        result := .ok ⟨.assistant, "answer A", [], ""⟩ },
                 some { seen := [wOrig, wOrig ++ [⟨.assistant, "for B", [⟨"cB", "t", "b", none⟩], ""⟩, ⟨.tool, "t(b)", [], "cB"⟩]],
                        evs := [.chat, .tools [⟨"cB", "t", "b", none⟩], .chat],
                        result := .ok ⟨.assistant, "answer B", [], ""⟩ }],
        callerArr := wOrig ++ wSpare } := by decide

/-- a changed fact changes the model: were the history to adopt the caller's slice on the first
    round (`state.Messages = input`), the same experiment would show A's second model call B's
    assistant message with A's tool result, and the caller's spare cells overwritten … -/
example : ((runShared Expected.C18.facts { Expected.C18.memFacts with historyOnlyAppended := false }
            (fun n => n) wOrig wSpare [wRunA, wRunB] [0, 1, 0, 1]).out.runs.map (Option.map (·.seen)))
    = [some [wOrig, wOrig ++ [⟨.assistant, "for B", [⟨"cB", "t", "b", none⟩], ""⟩, ⟨.tool, "t(a)", [], "cA"⟩]],
       some [wOrig, wOrig ++ [⟨.assistant, "for B", [⟨"cB", "t", "b", none⟩], ""⟩, ⟨.tool, "t(b)", [], "cB"⟩]]] := by decide

/-- … and already a single run would write into the caller's spare capacity -/
example : (runShared Expected.C18.facts { Expected.C18.memFacts with historyOnlyAppended := false }
            (fun n => n) wOrig wSpare [wRunA] []).out.callerArr
    = wOrig ++ [⟨.assistant, "for A", [⟨"cA", "t", "a", none⟩], ""⟩, ⟨.tool, "t(a)", [], "cA"⟩] := by decide

/-- a changed fact changes the model: one history array made when the agent is built (not per
    run) lets overlapping runs read each other's history -/
example : ((runShared Expected.C18.facts { Expected.C18.memFacts with stateFreshPerRun := false }
            (fun n => n) wOrig [] [{ wRunA with cfg := wCfg [] 8 }, { wRunB with cfg := wCfg [] 8 }]
            [0, 1, 0, 1]).out.runs.map (Option.map (·.seen)))
    ≠ [some (run Expected.C18.facts (wCfg [] 8) .generate wOrig wRunA.script).seen,
       some (run Expected.C18.facts (wCfg [] 8) .stream wOrig wRunB.script).seen] := by decide

/-! ## the negation witness, non-vacuity -/

/-- **Known finding (DESIGN §5, known_findings/C18.json).** Without the hypothesis the
    clause is false for the code as it is: the default first-chunk checker sends `Stream` to
    END with the assistant message that still has the tool call, while `Generate` runs the
    tool and returns "done". The harness replays exactly this script on the real agent. -/
theorem generate_ne_stream_witness :
    (run Expected.C18.facts (wCfg [] 0) .generate wOrig [wLate, wDone]).result
      = .ok ⟨.assistant, "done", [], ""⟩ ∧
    (run Expected.C18.facts (wCfg [] 0) .stream wOrig [wLate, wDone]).result
      = .ok ⟨.assistant, "thinking", [⟨"c1", "t", "x", none⟩], ""⟩ ∧
    ¬ ToolCallsInFirstNonEmptyChunk wLate := by
  refine ⟨by decide, by decide, ?_⟩
  rintro (h | ⟨pre, c, post, hch, hpre, hc⟩)
  · revert h; decide
  · cases pre with
    | nil =>
      simp only [wLate, List.nil_append, List.cons.injEq] at hch
      exact hc (hch.1 ▸ rfl)
    | cons p ps =>
      simp only [wLate, List.cons_append, List.cons.injEq] at hch
      have := (hpre p (by simp)).1
      rw [← hch.1] at this
      revert this; decide

/-- the hypothesis is satisfiable by replies with tool calls and several chunks, and then
    both modes run the tool and agree -/
example : ToolCallsInFirstNonEmptyChunk ⟨[⟨"", [], []⟩, ⟨"a", [⟨"c1", "t", "x", none⟩], []⟩, ⟨"b", [], []⟩]⟩ :=
  .inr ⟨[⟨"", [], []⟩], ⟨"a", [⟨"c1", "t", "x", none⟩], []⟩, [⟨"b", [], []⟩], rfl, by simp [Chunk.blank], by simp⟩

example : run Expected.C18.facts (wCfg [] 0) .stream wOrig
            [⟨[⟨"", [], []⟩, ⟨"a", [⟨"c1", "t", "x", none⟩], []⟩, ⟨"b", [], []⟩]⟩, wDone]
    = { seen := [wOrig, wOrig ++ [⟨.assistant, "ab", [⟨"c1", "t", "x", none⟩], ""⟩, ⟨.tool, "t(x)", [], "c1"⟩]],
        evs := [.chat, .tools [⟨"c1", "t", "x", none⟩], .chat],
        result := .ok ⟨.assistant, "done", [], ""⟩ } := by decide

/-- return-directly: three node executions, the tool's message is the answer -/
example : run Expected.C18.facts (wCfg ["t"] 0) .generate wOrig [⟨[⟨"", [⟨"c1", "t", "x", none⟩], []⟩]⟩, wDone]
    = { seen := [wOrig], evs := [.chat, .tools [⟨"c1", "t", "x", none⟩], .direct],
        result := .ok ⟨.tool, "t(x)", [], "c1"⟩ } := by decide

/-- the step limit bites: a model that always calls the tool, MaxStep 4 -/
example : (run Expected.C18.facts (wCfg [] 4) .generate wOrig
            [⟨[⟨"", [⟨"c1", "t", "x", none⟩], []⟩]⟩, ⟨[⟨"", [⟨"c2", "t", "y", none⟩], []⟩]⟩, ⟨[⟨"", [⟨"c3", "t", "z", none⟩], []⟩]⟩]).result
    = .error .maxSteps := by decide

/-- a changed fact changes the model: if the tools pre-handler did not append, the second
    model call would not see the assistant message -/
example : (run { Expected.C18.facts with toolsPreAppends := false } (wCfg [] 0) .generate wOrig
            [⟨[⟨"", [⟨"c1", "t", "x", none⟩], []⟩]⟩, wDone]).seen
    = [wOrig, wOrig ++ [⟨.tool, "t(x)", [], "c1"⟩]] := by decide

/-- a head chunk carrying only metadata is skipped: Stream runs the tool like Generate -/
example : ToolCallsInFirstNonEmptyChunk wMetaHead :=
  .inr ⟨[⟨"", [], ["extra:request_id"]⟩], ⟨"", [⟨"c1", "t", "x", none⟩], []⟩, [], rfl, by simp [Chunk.blank], by simp⟩

example : run Expected.C18.facts (wCfg [] 0) .stream wOrig [wMetaHead, wDone]
    = { seen := [wOrig, wOrig ++ [⟨.assistant, "", [⟨"c1", "t", "x", none⟩], ""⟩, ⟨.tool, "t(x)", [], "c1"⟩]],
        evs := [.chat, .tools [⟨"c1", "t", "x", none⟩], .chat],
        result := .ok ⟨.assistant, "done", [], ""⟩ } := by decide

/-- a changed fact changes the model: were `MaxStep` not among the exported compile options,
    the embedded agent would run under compose's default (12) instead of `MaxStep` = 4 -/
example : stepLimit ({ Expected.C18.facts with maxStepExported := false }).exported (wCfg [] 4) = some 12 ∧
    stepLimit Expected.C18.facts.exported (wCfg [] 4) = some 4 := by decide

example : (runAt { Expected.C18.facts with maxStepExported := false } .exported (wCfg [] 4) .generate wOrig
            [⟨[⟨"", [⟨"c1", "t", "x", none⟩], []⟩]⟩, ⟨[⟨"", [⟨"c2", "t", "y", none⟩], []⟩]⟩, wDone]).result
      = .ok ⟨.assistant, "done", [], ""⟩ ∧
    (runAt Expected.C18.facts .exported (wCfg [] 4) .generate wOrig
            [⟨[⟨"", [⟨"c1", "t", "x", none⟩], []⟩]⟩, ⟨[⟨"", [⟨"c2", "t", "y", none⟩], []⟩]⟩, wDone]).result
      = .error .maxSteps := by decide

/-- two parallel tool calls streamed as deltas, one delta of each call per chunk (heads with id
    and name, then two argument fragments each): `Stream` reconstructs the two calls, runs both
    tools with the model's arguments, in order, and feeds both results back — like `Generate` -/
example : run Expected.C18.facts (wCfg [] 0) .stream wOrig [wInterleaved, wDone]
    = { seen := [wOrig, wOrig ++ [⟨.assistant, "", [⟨"c0", "t", "{\"a\":1}", some 0⟩, ⟨"c1", "t", "{\"b\":2}", some 1⟩], ""⟩,
                                  ⟨.tool, "t({\"a\":1})", [], "c0"⟩, ⟨.tool, "t({\"b\":2})", [], "c1"⟩]],
        evs := [.chat, .tools [⟨"c0", "t", "{\"a\":1}", some 0⟩, ⟨"c1", "t", "{\"b\":2}", some 1⟩], .chat],
        result := .ok ⟨.assistant, "done", [], ""⟩ } ∧
    run Expected.C18.facts (wCfg [] 0) .generate wOrig [wInterleaved, wDone]
      = run Expected.C18.facts (wCfg [] 0) .stream wOrig [wInterleaved, wDone] := by decide

/-- the same deltas with each call's deltas back to back: a re-interleaving, same whole message -/
example : wInterleaved.Reinterleaved wContiguous ∧ wInterleaved.full = wContiguous.full := by
  refine ⟨⟨?_, ?_⟩, by decide⟩
  · exact .cons ⟨rfl, rfl⟩ (.cons ⟨rfl, rfl⟩ (.cons ⟨rfl, rfl⟩ .nil))
  · intro k
    by_cases h0 : k = some 0
    · subst h0; decide
    · by_cases h1 : k = some 1
      · subst h1; decide
      · have : ∀ ds : List ToolCall, (∀ d ∈ ds, d.index = some 0 ∨ d.index = some 1) → deltasOf k ds = [] := by
          intro ds hds
          rw [deltasOf_eq_nil_iff]
          intro d hd hk
          rcases hds d hd with h | h
          · exact h0 (hk.symm.trans h)
          · exact h1 (hk.symm.trans h)
        rw [this _ (by decide), this _ (by decide)]

/-- merging per contiguous run instead of per index would give six broken calls here: the
    assembled list is not the concatenation of the deltas -/
example : wInterleaved.full.calls.length = 2 ∧ (wInterleaved.chunks.flatMap (·.calls)).length = 6 := by decide

end EinoV.C18
