/-
  C03 — Run result is independent of node completion order; no completion lost.
  Property theorems for the task-manager hand-off protocol and for the order-independence
  of completion resolution.  Model: EinoV/Model/C03.lean.  Source facts:
  EinoV/Gen/FactsC03.lean (regenerated from /repo on every run).

  "For every interleaving" = for every event list `evs` (`Reachable` is ∃ evs, run … = some s):
  the proofs are by induction over the schedule, never by enumeration.
-/
import EinoV.Model.C03
import EinoV.Proofs.C03
import EinoV.Gen.FactsC03
import EinoV.Expected.C03
import EinoV.Proofs.C03Engine
import EinoV.Proofs.C02Confluence
import EinoV.Proofs.C02CompileWF
import EinoV.Proofs.C02CompileWWF
import EinoV.Proofs.C02LockStep
import EinoV.Proofs.C02Success
import EinoV.Proofs.C02EagerConfluence
import EinoV.Model.C03Loop
import EinoV.Proofs.C03Loop
import EinoV.Model.C03Fail
import EinoV.Proofs.C03Fail
import EinoV.Model.C03Cancel
import EinoV.Proofs.C03Cancel

namespace EinoV.C03
open EinoV.Gen

/-- the task-manager facts as regenerated from compose/graph_manager.go -/
def genFacts : Facts :=
  { waitOneRefills := FactsC03.waitOneRefills
    refillOnErrorPath := FactsC03.refillOnErrorPath
    doneCap := FactsC03.doneCap
    pushUnderLock := FactsC03.pushUnderLock
    firstTaskInline := FactsC03.firstTaskInline
    inlineRemovesFirst := FactsC03.inlineRemovesFirst }

/-! ## source-fact tie -/

/-- The regenerated facts (including `refillOnErrorPath`: the re-fill of `waitOne` precedes
    the early return of a task with an error) are the ones the oracle runs the model with.  The remaining shape
    facts justify the step granularity of the model: `needAll` is `!r.eager`; `wait` is
    `waitAll` / one `waitOne`, `waitAll` loops `waitOne` until it reports false; `waitOne` guards on `num == 0` and decrements once before the
    receive; `submit` increments `num` next to every started execution; `updateChan` is the
    FIFO non-blocking top-up; the executor converts a panic into the task's error (so every
    started execution reaches its `finish` step). -/
theorem facts_match :
    genFacts = Expected.C03.facts ∧ FactsC03.needAllIsNotEager = true ∧
    FactsC03.waitDispatch = true ∧ FactsC03.waitAllLoops = true ∧ FactsC03.waitOneCounts = true ∧
    FactsC03.submitCountsEach = true ∧ FactsC03.updateChanFifoNonBlocking = true ∧
    FactsC03.executorRecovers = true := by decide

/-- The regenerated facts satisfy what the protocol proofs need. -/
theorem facts_good : genFacts.Good := by decide

/-! ## the hand-off protocol, over all schedules -/

/-- **tm_inv_reachable.** In every reachable state, whatever the interleaving of executor
    goroutines and the run loop: `num` counts exactly the executions that are running,
    queued in the list or sitting in the channel; and whenever the collector is outside its
    receive/re-fill window a non-empty list implies a full channel (nothing waits in the
    list while the channel is empty). Also: nothing is duplicated or dropped on the way. -/
theorem tm_inv_reachable (needAll : Bool) (s : St) (h : Reachable genFacts needAll s) :
    s.num = s.running.length + s.l.length + s.ch.length ∧
    (s.coll ≠ .window → s.l ≠ [] → s.ch ≠ []) ∧
    (s.got ++ (s.ch ++ s.l) ++ s.running).Perm s.submitted := by
  have hI := reachable_inv facts_good h
  refine ⟨hI.count, ?_, hI.conserve⟩
  intro hw hl hch
  have := hI.handoff hw hl
  have hc : 1 ≤ genFacts.doneCap := facts_good.2.2.2.1
  simp [hch] at this; omega

/-- **tm_no_lost_wakeup.** Whenever something is outstanding (`num ≠ 0`) and no node body
    is still running, the collector is not stuck: the blocking receive of `waitOne` is
    enabled now, or it is enabled right after the re-fill the collector is about to do.
    (The run loop never blocks forever on `<-t.done`.) -/
theorem tm_no_lost_wakeup (needAll : Bool) (s : St) (h : Reachable genFacts needAll s)
    (hn : s.num ≠ 0) (hr : s.running = []) :
    (s.coll = .idle ∧ (step genFacts needAll s .recv).isSome = true) ∨
    (s.coll = .window ∧ ∃ s1, step genFacts needAll s .refill = some s1 ∧ s1.coll = .idle ∧
        (step genFacts needAll s1 .recv).isSome = true) :=
  inv_progress facts_good needAll (reachable_inv facts_good h) hn hr

/-- **tm_exactly_once.** When the counter is back to zero, what `waitOne` handed out is a
    permutation of what was submitted: every started execution has been collected exactly
    once (multiset equality: no loss, no duplicate), for every schedule. -/
theorem tm_exactly_once (needAll : Bool) (s : St) (h : Reachable genFacts needAll s)
    (hn : s.num = 0) : s.got.Perm s.submitted := by
  have hI := reachable_inv facts_good h
  have hc := hI.count
  rw [hn] at hc
  have hr : s.running = [] := List.eq_nil_of_length_eq_zero (by omega)
  have hl : s.l = [] := List.eq_nil_of_length_eq_zero (by omega)
  have hch : s.ch = [] := List.eq_nil_of_length_eq_zero (by omega)
  have := hI.conserve
  simpa [hr, hl, hch] using this

/-- **tm_waitAll_terminates.** From any reachable state, any schedule without a further
    `submit` (the collector loops in `waitAll`, node goroutines finish) has at most
    `measure s = 2·num + [in window] + |running|` steps, and when no step is possible any
    more the counter is zero and everything submitted has been collected exactly once.
    (With `tm_no_lost_wakeup`: `waitAll` returns, with all tasks, as soon as the node
    bodies have returned.) -/
theorem tm_waitAll_terminates (needAll : Bool) (s s' : St) (evs : List Ev)
    (h : Reachable genFacts needAll s) (hns : ∀ e ∈ evs, e.isSubmit = false)
    (hr : run genFacts needAll s evs = some s') :
    evs.length + measure s' ≤ measure s ∧
    ((∀ e, e.isSubmit = false → step genFacts needAll s' e = none) →
      s'.num = 0 ∧ s'.got.Perm s'.submitted) := by
  refine ⟨run_measure needAll evs hns hr, ?_⟩
  intro hstuck
  have hreach' := reachable_run h hr
  have hnum : s'.num = 0 := by
    apply Classical.byContradiction
    intro hn
    cases hrun : s'.running with
    | cons t rest =>
      have := hstuck (.finish t false) rfl
      simp [step, hrun] at this
    | nil =>
      rcases tm_no_lost_wakeup needAll s' hreach' hn hrun with ⟨_, h1⟩ | ⟨_, s1, h1, _, _⟩
      · rw [hstuck .recv rfl] at h1; cases h1
      · rw [hstuck .refill rfl] at h1; cases h1
  exact ⟨hnum, tm_exactly_once needAll s' hreach' hnum⟩

/-! ## collecting an execution that ended with an error, and `waitAll` after an interrupt

  `InterruptAndRerun` and the interrupt of a nested graph are errors after which the run loop
  goes on collecting (`tm.waitAll()`, compose/graph_run.go:303-311).  In the event language
  such an execution is `finish t true` (it enters `errs`) and its collection an ordinary
  `recv`; the theorems above quantify over all event lists, these included.  The two
  theorems below spell the consequence out for the erroring receive itself. -/

/-- **tm_err_collect_refills.** In every reachable state, a receive — whether the execution
    handed out ended with an error (`t ∈ errs`: node error, `InterruptAndRerun`, sub-graph
    interrupt) or not — leaves the collector inside its re-fill window; the re-fill is then
    enabled, and after it nothing waits in the list while the channel is empty. -/
theorem tm_err_collect_refills (needAll : Bool) (s s1 : St) (h : Reachable genFacts needAll s)
    (hrecv : step genFacts needAll s .recv = some s1) :
    s1.coll = .window ∧
    ∃ s2, step genFacts needAll s1 .refill = some s2 ∧ s2.coll = .idle ∧ (s2.l ≠ [] → s2.ch ≠ []) := by
  have hw := (recv_opens_window facts_good needAll hrecv).1
  have hI1 := reachable_inv facts_good (reachable_run h (run_one hrecv))
  exact ⟨hw, refill_after_recv facts_good needAll hI1 hw⟩

/-- **tm_waitAll_after_interrupt.** For every schedule reaching `s`, if the collector then
    receives an execution `t` that ended with an error (`t ∈ s.errs`; the run loop continues
    with `waitAll`), then for every continuation `evs` without a further `submit`:
    the continuation has at most `measure s1` steps; in the state it reaches the collector
    is not stuck while something is outstanding and no body runs (no lost wake-up after the
    interrupt); and once no step is possible the counter is zero and everything submitted —
    `t` included, exactly as often as it was submitted — has been collected. -/
theorem tm_waitAll_after_interrupt (needAll : Bool) (s s1 s' : St) (t : Task) (evs : List Ev)
    (h : Reachable genFacts needAll s)
    (hrecv : step genFacts needAll s .recv = some s1)
    (_hlast : s1.got = s.got ++ [t]) (_herr : t ∈ s.errs)
    (hns : ∀ e ∈ evs, e.isSubmit = false) (hr : run genFacts needAll s1 evs = some s') :
    evs.length + measure s' ≤ measure s1 ∧
    (s'.num ≠ 0 → s'.running = [] →
      (s'.coll = .idle ∧ (step genFacts needAll s' .recv).isSome = true) ∨
      (s'.coll = .window ∧ ∃ s2, step genFacts needAll s' .refill = some s2 ∧ s2.coll = .idle ∧
          (step genFacts needAll s2 .recv).isSome = true)) ∧
    ((∀ e, e.isSubmit = false → step genFacts needAll s' e = none) →
      s'.num = 0 ∧ s'.got.Perm s'.submitted ∧ s'.got.count t = s'.submitted.count t) := by
  have h1 : Reachable genFacts needAll s1 := reachable_run h (run_one hrecv)
  have hT := tm_waitAll_terminates needAll s1 s' evs h1 hns hr
  refine ⟨hT.1, fun hn hrun => tm_no_lost_wakeup needAll s' (reachable_run h1 hr) hn hrun, ?_⟩
  intro hstuck
  have := hT.2 hstuck
  exact ⟨this.1, this.2, this.2.count_eq t⟩

/-- non-vacuity of `tm_waitAll_after_interrupt` (batch mode, first task inline and last to
    finish, the rerun execution 2 received while 3 and 1 wait in the list): the hypotheses are
    satisfiable and the continuation `refill, recv, refill, recv, refill` collects everything -/
example :
    ∃ s s1, Reachable genFacts true s ∧ step genFacts true s .recv = some s1 ∧
      s1.got = s.got ++ [2] ∧ 2 ∈ s.errs ∧ s1.l = [3, 1] ∧ s1.ch = [] ∧
      ∃ s', run genFacts true s1 [.refill, .recv, .refill, .recv, .refill] = some s' ∧
        s'.num = 0 ∧ s'.got = [2, 3, 1] :=
  ⟨⟨[], [3, 1], [2], 3, .idle, [], [1, 2, 3], [2]⟩, ⟨[], [3, 1], [], 2, .window, [2], [1, 2, 3], [2]⟩,
   ⟨[.submit [1, 2, 3], .finish 2 true, .finish 3 false, .finish 1 false], by decide⟩,
   by decide, rfl, by decide, rfl, rfl,
   ⟨[], [], [], 0, .idle, [2, 3, 1], [1, 2, 3], [2]⟩, by decide, rfl, rfl⟩

/-! ## resolution of a batch of completed tasks is order independent -/

/-- **resolve_perm.** For a batch of completed tasks of distinct nodes, permuting the batch
    (= any completion order inside a `waitAll` batch) leaves every cell
    `writeChannelValues[to][from]` unchanged (including absence), and changes each
    dependency list `newDependencies[k]` only up to permutation. -/
theorem resolve_perm {V : Type} (b b' : List (CTask V)) (hp : b.Perm b')
    (hnd : (b.map (·.key)).Nodup) :
    (∀ to frm, cellOf b to frm = cellOf b' to frm) ∧ (∀ k, (depsOf b k).Perm (depsOf b' k)) :=
  ⟨fun to frm => cellOf_perm hp hnd to frm, fun k => depsOf_perm hp k⟩

/-- **batch_order_independent.** Anything computed from the resolved batch by a consumer
    that reads the value cells as a map and the dependency lists as sets/multisets (as
    `channelManager.updateAndGet` does: `dagChannel.reportDependencies` marks map entries,
    `pregelChannel` ignores them) is a function of the *multiset* of completions. -/
theorem batch_order_independent {V R : Type} (b b' : List (CTask V)) (hp : b.Perm b')
    (hnd : (b.map (·.key)).Nodup)
    (consume : (Key → Key → Option V) → (Key → List Key) → R)
    (hcons : ∀ w d d', (∀ k, (d k).Perm (d' k)) → consume w d = consume w d') :
    consume (cellOf b) (depsOf b) = consume (cellOf b') (depsOf b') := by
  have ⟨hc, hd⟩ := resolve_perm b b' hp hnd
  have : cellOf b = cellOf b' := by funext to frm; exact hc to frm
  rw [this]
  exact hcons _ _ _ hd

/-- The DAG channel's use of a dependency list is such a consumer. -/
theorem dag_ready_order_independent {V : Type} (b b' : List (CTask V)) (hp : b.Perm b')
    (ctrlPreds : List Key) (k : Key) :
    dagReady ctrlPreds (depsOf b k) = dagReady ctrlPreds (depsOf b' k) :=
  dagReady_perm (depsOf_perm hp k)

/-! ## eager execution (Workflow): what is collected when the run returns

  Reference engine `eRun` (Model part 4): one completion at a time in an arbitrary
  completion priority `order`, successors submitted at once, the run returns when END is ready.

  Full clause of the property ("every node execution that was started is collected"):
      ∀ g order, eEndReady g (eRun g order) = true → eUncollected (eRun g order) = []
  It does NOT hold for the engine as implemented (`eager_uncollected_witness`, replayed on the
  real code by the harness: known finding).  Proved instead: per node, under the hypothesis
  that the node has a path to END. -/

/-- **eager_no_early_return.** For every completion order: when the eager run returns (END is
    ready), every started node that has a path to END has been collected — the run does not
    return before the nodes feeding END have finished and been handed back. -/
theorem eager_no_early_return (g : GCase) (hk : (g.nodes.map (·.key)).Nodup)
    (hs : ∀ n ∈ g.nodes, n.key ≠ startKey) (order : List Key)
    (hready : eEndReady g (eRun g order) = true) :
    ∀ k ∈ (eRun g order).started, Reaches g k → k ∈ (eRun g order).done := by
  intro k _ hr
  apply Classical.byContradiction
  intro hnd
  have := not_ready_of_reaches (einv_run hk hs order) hr hnd
  rw [this] at hready; cases hready

/-- **eager_collects_all_partial.** If every node has a path to END, then for every completion
    order nothing started is left uncollected when the eager run returns. -/
theorem eager_collects_all_partial (g : GCase) (hk : (g.nodes.map (·.key)).Nodup)
    (hs : ∀ n ∈ g.nodes, n.key ≠ startKey) (hall : ∀ n ∈ g.nodes, Reaches g n.key)
    (order : List Key) (hready : eEndReady g (eRun g order) = true) :
    eUncollected (eRun g order) = [] := by
  have hI := einv_run hk hs order
  simp only [eUncollected, List.filter_eq_nil_iff]
  intro k hkst
  have hd : k ∈ (eRun g order).done := by
    rcases hI.startedNode k hkst with rfl | ⟨n, hn, rfl⟩
    · exact hI.startDone
    · exact eager_no_early_return g hk hs order hready n.key hkst (hall n hn)
  simp [hd]

/-- the known finding at model level: START→a1→END, START→s1 (no path to END) -/
def deadEndCase : GCase :=
  { nodes := [⟨"a1", ["start"]⟩, ⟨"s1", ["start"]⟩], endPreds := ["a1"], input := "x" }

/-- **eager_uncollected_witness** (negation of the full clause). A well-formed graph and a
    completion order in which the eager run returns while a started node has not been
    collected; with the other order the same node is collected. -/
theorem eager_uncollected_witness :
    (deadEndCase.nodes.map (·.key)).Nodup ∧ (∀ n ∈ deadEndCase.nodes, n.key ≠ startKey) ∧
    eEndReady deadEndCase (eRun deadEndCase ["a1", "s1"]) = true ∧
    eUncollected (eRun deadEndCase ["a1", "s1"]) = ["s1"] ∧
    eUncollected (eRun deadEndCase ["s1", "a1"]) = [] := by decide

/-- non-vacuity of `eager_collects_all_partial`: a graph where every node reaches END -/
example : let g : GCase := { nodes := [⟨"a1", ["start"]⟩, ⟨"a2", ["start"]⟩, ⟨"b1", ["a1", "a2"]⟩],
                             endPreds := ["b1"], input := "x" }
    (∀ n ∈ g.nodes, Reaches g n.key) ∧ eEndReady g (eRun g ["a2", "a1", "b1"]) = true ∧
    (eRun g ["a2", "a1", "b1"]).done = ["start", "a2", "a1", "b1"] := by
  intro g
  have hb : Reaches g "b1" := .direct (by decide)
  refine ⟨?_, by decide, by decide⟩
  intro n hn
  simp only [g, List.mem_cons, List.not_mem_nil, or_false] at hn
  rcases hn with rfl | rfl | rfl
  · exact .via (n := ⟨"b1", ["a1", "a2"]⟩) (by simp [g]) (by simp) hb
  · exact .via (n := ⟨"b1", ["a1", "a2"]⟩) (by simp [g]) (by simp) hb
  · exact hb

/-! ## non-vacuity -/

/-- a non-trivial reachable state (batch mode: first task inline, two goroutines, one
    completion parked in the list behind a full channel, collector inside its window) -/
example : run genFacts true St.init
      [.submit [1, 2, 3], .finish 2 false, .finish 3 false, .finish 1 false, .recv, .refill]
    = some ⟨[], [1], [3], 2, .idle, [2], [1, 2, 3], []⟩ := by decide

example : Reachable genFacts true ⟨[], [3, 1], [], 2, .window, [2], [1, 2, 3], []⟩ :=
  ⟨[.submit [1, 2, 3], .finish 2 false, .finish 3 false, .finish 1 false, .recv], by decide⟩

/-- the hypotheses of `tm_no_lost_wakeup` / `tm_exactly_once` are satisfiable -/
example : ∃ s, Reachable genFacts false s ∧ s.num ≠ 0 ∧ s.running = [] ∧ s.l ≠ [] :=
  ⟨⟨[], [2], [1], 2, .idle, [], [1, 2], []⟩, ⟨[.submit [1, 2], .finish 1 false, .finish 2 false], by decide⟩,
   by decide, rfl, by decide⟩

example : ∃ s, Reachable genFacts true s ∧ s.num = 0 ∧ s.got = [2, 1] ∧ s.submitted = [1, 2] :=
  ⟨⟨[], [], [], 0, .idle, [2, 1], [1, 2], []⟩,
   ⟨[.submit [1, 2], .finish 2 false, .finish 1 false, .recv, .refill, .recv, .refill], by decide⟩,
   rfl, rfl, rfl⟩

/-- `resolve_perm` on a concrete batch with a branch and a shared successor -/
example :
    let a : CTask Nat := ⟨"a", ["c"], ["c"], ["d"], 1⟩
    let b : CTask Nat := ⟨"b", ["c"], ["c"], [], 2⟩
    cellOf [a, b] "c" "a" = some 1 ∧ cellOf [b, a] "c" "a" = some 1 ∧
    depsOf [a, b] "c" = ["a", "b"] ∧ depsOf [b, a] "c" = ["b", "a"] := by decide

/-! ## negations: what goes wrong with the other value of a fact -/

/-- No re-fill after the receive (`waitOneRefills = false`): two completions, the second one
    parked in the list; after the first receive the channel stays empty although the list is
    not — the collector blocks forever with `num = 1` and nothing running (lost wake-up). -/
theorem lost_wakeup_without_refill :
    ∃ s, run { Expected.C03.facts with waitOneRefills := false } false St.init
          [.submit [1, 2], .finish 1 false, .finish 2 false, .recv] = some s ∧
      s.num = 1 ∧ s.running = [] ∧ s.l = [2] ∧ s.ch = [] ∧
      (∀ e, e.isSubmit = false →
        step { Expected.C03.facts with waitOneRefills := false } false s e = none) := by
  refine ⟨⟨[], [2], [], 1, .idle, [1], [1, 2], []⟩, by decide, rfl, rfl, rfl, rfl, ?_⟩
  intro e he
  cases e with
  | submit ts => cases he
  | finish t err => simp [step]
  | recv => decide
  | refill => decide

/-- The early return `if ta.err != nil { return ta, true }` *before* the re-fill
    (`refillOnErrorPath = false`), batch mode: three executions, the first one inlined and the
    last to finish; execution 2 answers `InterruptAndRerun`.  When the run loop starts
    collecting, 2 sits in the channel and 3, 1 in the list; 2 is received, the re-fill is
    skipped, and `waitAll` blocks forever on the empty channel with `num = 2` and nothing
    running.  With the facts of the unchanged tree the same schedule goes on (example above). -/
theorem lost_wakeup_after_interrupt_batch :
    ∃ s, run { Expected.C03.facts with refillOnErrorPath := false } true St.init
          [.submit [1, 2, 3], .finish 2 true, .finish 3 false, .finish 1 false, .recv] = some s ∧
      s.got = [2] ∧ s.num = 2 ∧ s.running = [] ∧ s.l = [3, 1] ∧ s.ch = [] ∧
      (∀ e, e.isSubmit = false →
        step { Expected.C03.facts with refillOnErrorPath := false } true s e = none) := by
  refine ⟨⟨[], [3, 1], [], 2, .idle, [2], [1, 2, 3], [2]⟩, by decide, rfl, rfl, rfl, rfl, rfl, ?_⟩
  intro e he
  cases e with
  | submit ts => cases he
  | finish t err => simp [step]
  | recv => decide
  | refill => decide

/-- The same fact, eager mode (Workflow): execution 1 is received first and its state
    post-handler keeps the run loop inside `waitOne` (the window) while 2 (`InterruptAndRerun`)
    and then 3 finish; the late re-fill finds the channel full; 2 is received without re-fill;
    `waitAll` blocks forever with 3 in the list. -/
theorem lost_wakeup_after_interrupt_eager :
    ∃ s, run { Expected.C03.facts with refillOnErrorPath := false } false St.init
          [.submit [1, 2, 3], .finish 1 false, .recv, .finish 2 true, .finish 3 false, .refill, .recv]
          = some s ∧
      s.got = [1, 2] ∧ s.num = 1 ∧ s.running = [] ∧ s.l = [3] ∧ s.ch = [] ∧
      (∀ e, e.isSubmit = false →
        step { Expected.C03.facts with refillOnErrorPath := false } false s e = none) := by
  refine ⟨⟨[], [3], [], 1, .idle, [1, 2], [1, 2, 3], [2]⟩, by decide, rfl, rfl, rfl, rfl, rfl, ?_⟩
  intro e he
  cases e with
  | submit ts => cases he
  | finish t err => simp [step]
  | recv => decide
  | refill => decide

/-- `updateChan` not after the push inside the executor's critical section
    (`pushUnderLock = false`): a single completion never reaches the channel. -/
theorem lost_wakeup_without_ordered_push :
    ∃ s, run { Expected.C03.facts with pushUnderLock := false } false St.init
          [.submit [1, 2], .finish 1 false] = some s ∧
      s.l = [1] ∧ s.ch = [] ∧
      step { Expected.C03.facts with pushUnderLock := false } false s .recv = none := by
  exact ⟨⟨[2], [1], [], 2, .idle, [], [1, 2], []⟩, by decide, rfl, rfl, by decide⟩

/-- The inlined task also spawned (`inlineRemovesFirst = false`): one submitted execution is
    collected twice. -/
theorem duplicate_when_inline_not_removed :
    ∃ s, run { Expected.C03.facts with inlineRemovesFirst := false } true St.init
          [.submit [1], .finish 1 false, .finish 1 false, .recv, .refill, .recv, .refill] = some s ∧
      s.num = 0 ∧ s.got = [1, 1] ∧ s.submitted = [1] := by
  exact ⟨⟨[], [], [], 0, .idle, [1, 1], [1], []⟩, by decide, rfl, rfl, rfl⟩

/-- An unbuffered `done` with the non-blocking send of `updateChan` (`doneCap = 0`):
    nothing is ever handed off. -/
theorem deadlock_with_unbuffered_done :
    ∃ s, run { Expected.C03.facts with doneCap := 0 } false St.init
          [.submit [1, 2], .finish 1 false, .finish 2 false] = some s ∧
      s.num = 2 ∧ s.running = [] ∧ s.ch = [] ∧
      step { Expected.C03.facts with doneCap := 0 } false s .recv = none := by
  exact ⟨⟨[], [1, 2], [], 2, .idle, [], [1, 2], []⟩, by decide, rfl, rfl, rfl, by decide⟩

/-- Without distinct node keys in a batch the cell value would depend on the order (the
    hypothesis of `resolve_perm` is needed; a superstep never runs a node twice). -/
theorem resolve_needs_distinct_keys :
    let a : CTask Nat := ⟨"a", [], ["c"], [], 1⟩
    let a' : CTask Nat := ⟨"a", [], ["c"], [], 2⟩
    cellOf [a, a'] "c" "a" ≠ cellOf [a', a] "c" "a" := by decide

/-! ## `submit` with failing pre-processors, and the interrupt path of the run loop

  Model: `Model/C03Loop.lean`.  Two more source facts: `submitPreprocessesFirst` (`submit`
  runs the pre-processors of ALL tasks before anything is started) and
  `interruptPathWaitsAll` (the run loop collects with `tm.waitAll()` before it stops for an
  interrupt-before / interrupt-after point). -/

/-- the loop facts as regenerated from compose/graph_manager.go and compose/graph_run.go -/
def genLoopFacts : LoopFacts :=
  { submitPreprocessesFirst := FactsC03.submitPreprocessesFirst
    interruptPathWaitsAll := FactsC03.interruptPathWaitsAll }

/-- The regenerated loop facts are the ones the theorems below are proved for and the oracle
    runs the model with. -/
theorem loop_facts_match : genLoopFacts = Expected.C03.loopFacts := by decide

/-- **submit_fail_starts_nothing.** For every reachable state of the task manager, every
    list of tasks and every set of tasks whose pre-processor (state pre-handler) fails: if
    `submit` returns the error, it has not changed the task manager — no execution of that step
    has been started, `num` is what it was.  In particular, when everything of the earlier
    steps had been collected (`num = 0`, always the case in batch mode), the run returns with
    `num = 0`, nothing running, nothing queued, and every execution that was ever started
    collected exactly once. -/
theorem submit_fail_starts_nothing (needAll : Bool) (s s' : St) (ts bad : List Task)
    (h : Reachable genFacts needAll s)
    (hsub : submitP genFacts genLoopFacts needAll s ts bad = some (s', true)) :
    s' = s ∧ (s.num = 0 → s'.num = 0 ∧ s'.running = [] ∧ s'.l = [] ∧ s'.ch = [] ∧
      s'.got.Perm s'.submitted) := by
  have hs : s' = s := submitP_first_fail (L := genLoopFacts) (by decide) hsub
  subst hs
  refine ⟨rfl, fun hn => ?_⟩
  have hc := (reachable_inv facts_good h).count
  rw [hn] at hc
  exact ⟨hn, List.eq_nil_of_length_eq_zero (by omega), List.eq_nil_of_length_eq_zero (by omega),
    List.eq_nil_of_length_eq_zero (by omega), tm_exactly_once needAll s' h hn⟩

/-- **submit_ok_is_submit.** When no pre-processor fails, `submit` is the `submit` step of the
    transition system (so every protocol theorem above applies to what follows). -/
theorem submit_ok_is_submit (needAll : Bool) (s s' : St) (ts bad : List Task)
    (hsub : submitP genFacts genLoopFacts needAll s ts bad = some (s', false)) :
    step genFacts needAll s (.submit ts) = some s' ∧ ts.any bad.contains = false :=
  submitP_first_ok (L := genLoopFacts) (by decide) hsub

/-- non-vacuity: a second step `[3, 4, 5]` whose second pre-processor fails, after a first
    step that has been collected (batch mode) -/
example :
    ∃ s, Reachable genFacts true s ∧ s.num = 0 ∧ s.got = [2, 1] ∧
      submitP genFacts genLoopFacts true s [3, 4, 5] [4] = some (s, true) :=
  ⟨⟨[], [], [], 0, .idle, [2, 1], [1, 2], []⟩,
   ⟨[.submit [1, 2], .finish 2 false, .finish 1 false, .recv, .refill, .recv, .refill], by decide⟩,
   rfl, rfl, by decide⟩

/-- Each task started right after its own pre-processor (`submitPreprocessesFirst = false`).
    Batch mode, tasks `[1, 2, 3]`, the pre-processor of 3 fails: the goroutine tasks are
    handled first, 2 has been started when `submit` returns the error; the run loop returns
    with `num = 1`, execution 2 running and never collected.  Eager mode, the pre-processor
    of 2 fails: execution 1 is abandoned.  With the facts of the unchanged tree both calls
    leave the task manager untouched. -/
theorem submit_fail_leaks_when_interleaved :
    (∃ s, submitP Expected.C03.facts { Expected.C03.loopFacts with submitPreprocessesFirst := false }
            true St.init [1, 2, 3] [3] = some (s, true) ∧
        s.running = [2] ∧ s.num = 1 ∧ s.submitted = [2] ∧ s.got = []) ∧
    (∃ s, submitP Expected.C03.facts { Expected.C03.loopFacts with submitPreprocessesFirst := false }
            false St.init [1, 2, 3] [2] = some (s, true) ∧
        s.running = [1] ∧ s.num = 1 ∧ s.submitted = [1] ∧ s.got = []) ∧
    submitP Expected.C03.facts Expected.C03.loopFacts true St.init [1, 2, 3] [3] = some (St.init, true) ∧
    submitP Expected.C03.facts Expected.C03.loopFacts false St.init [1, 2, 3] [2] = some (St.init, true) := by
  refine ⟨⟨⟨[2], [], [], 1, .idle, [], [2], []⟩, by decide, rfl, rfl, rfl, rfl⟩,
          ⟨⟨[1], [], [], 1, .idle, [], [1], []⟩, by decide, rfl, rfl, rfl, rfl⟩, by decide, by decide⟩

/-- **interrupt_path_collects_all.** For every reachable state (any schedule so far, batch or
    eager) and every schedule of executor and collector steps that follows: when the
    collecting call of the interrupt path returns, nothing is outstanding — `num = 0`, no
    execution running, none queued in the list or the channel — and everything ever submitted
    has been received exactly once.  (The run loop then writes the checkpoint and returns the
    interrupt.) -/
theorem interrupt_path_collects_all (needAll : Bool) (k : Nat) (s s' : St) (evs : List Ev)
    (h : Reachable genFacts needAll s)
    (hp : interruptPath genFacts genLoopFacts needAll k s evs = some s') :
    s'.num = 0 ∧ s'.running = [] ∧ s'.l = [] ∧ s'.ch = [] ∧ s'.got.Perm s'.submitted ∧
    Reachable genFacts needAll s' := by
  obtain ⟨pre, suf, k', _, _, hr, hret⟩ := interruptPath_spec evs hp
  have hreach := reachable_run h hr
  have hw : genLoopFacts.interruptPathWaitsAll = true := by decide
  have hn : s'.num = 0 := by
    simp only [pathReturns, hw, Bool.true_or, Bool.not_true, Bool.false_and, Bool.or_false,
      Bool.and_eq_true, beq_iff_eq] at hret
    exact hret.2
  have hc := (reachable_inv facts_good hreach).count
  rw [hn] at hc
  exact ⟨hn, List.eq_nil_of_length_eq_zero (by omega), List.eq_nil_of_length_eq_zero (by omega),
    List.eq_nil_of_length_eq_zero (by omega), tm_exactly_once needAll s' hreach hn, hreach⟩

/-- **interrupt_path_returns.** The interrupt path does return: along every schedule without
    a further `submit` that runs until no executor and no collector step is possible any more
    (node bodies terminate), the collecting call has returned. -/
theorem interrupt_path_returns (needAll : Bool) (k : Nat) (s s'' : St) (evs : List Ev)
    (h : Reachable genFacts needAll s) (hns : ∀ e ∈ evs, e.isSubmit = false)
    (hr : run genFacts needAll s evs = some s'')
    (hstuck : ∀ e, e.isSubmit = false → step genFacts needAll s'' e = none) :
    ∃ s', interruptPath genFacts genLoopFacts needAll k s evs = some s' := by
  have := interruptPath_returns facts_good (L := genLoopFacts) (k := k) evs
    (reachable_inv facts_good h) hns hr hstuck
  exact Option.isSome_iff_exists.1 this

/-- non-vacuity: eager mode, execution 1 (the interrupt-after node) has been received while 2
    and 3 are still running; the interrupt path returns only after both have been received -/
example :
    ∃ s, Reachable genFacts false s ∧ s.running = [2, 3] ∧ s.got = [1] ∧
      interruptPath genFacts genLoopFacts false 0 s [.finish 2 false, .recv, .refill] = none ∧
      ∃ s', interruptPath genFacts genLoopFacts false 0 s
              [.finish 2 false, .recv, .refill, .finish 3 false, .recv, .refill] = some s' ∧
        s'.num = 0 ∧ s'.got = [1, 2, 3] :=
  ⟨⟨[2, 3], [], [], 2, .idle, [1], [1, 2, 3], []⟩,
   ⟨[.submit [1, 2, 3], .finish 1 false, .recv, .refill], by decide⟩, rfl, rfl, by decide,
   ⟨[], [], [], 0, .idle, [1, 2, 3], [1, 2, 3], []⟩, by decide, rfl, rfl⟩

/-- `tm.wait()` instead of `tm.waitAll()` on the interrupt path (`interruptPathWaitsAll =
    false`), eager mode: three executions, 1 (the interrupt node) received first; the path
    receives ONE more completion (2) and returns with `num = 1` while execution 3 is still
    running: 3 is never collected.  In batch mode the same fact changes nothing (`wait` is
    `waitAll`). -/
theorem interrupt_path_abandons_with_wait :
    (∃ s', interruptPath Expected.C03.facts { Expected.C03.loopFacts with interruptPathWaitsAll := false }
            false 0 ⟨[2, 3], [], [], 2, .idle, [1], [1, 2, 3], []⟩
            [.finish 2 false, .recv, .refill, .finish 3 false, .recv, .refill] = some s' ∧
        s'.num = 1 ∧ s'.running = [3] ∧ s'.got = [1, 2] ∧ s'.submitted = [1, 2, 3]) ∧
    run Expected.C03.facts false St.init [.submit [1, 2, 3], .finish 1 false, .recv, .refill]
      = some ⟨[2, 3], [], [], 2, .idle, [1], [1, 2, 3], []⟩ ∧
    (∃ s', interruptPath Expected.C03.facts { Expected.C03.loopFacts with interruptPathWaitsAll := false }
            true 0 ⟨[2, 3], [], [], 2, .idle, [1], [1, 2, 3], []⟩
            [.finish 2 false, .recv, .refill, .finish 3 false, .recv, .refill] = some s' ∧ s'.num = 0) := by
  refine ⟨⟨⟨[3], [], [], 1, .idle, [1, 2], [1, 2, 3], []⟩, by decide, rfl, rfl, rfl, rfl⟩, by decide,
          ⟨⟨[], [], [], 0, .idle, [1, 2, 3], [1, 2, 3], []⟩, by decide, rfl⟩⟩

/-! ### engine level: graphs compiled with interrupt-before / interrupt-after nodes -/

/-- **interrupted_invoke_collects_all.** For every acyclic graph, every interrupt-before /
    interrupt-after node set, every completion priority, batch or eager: every Invoke of the
    run-and-resume sequence that ends in an interrupt has collected every execution it (or an
    earlier Invoke) started. -/
theorem interrupted_invoke_collects_all (c : ICfg) :
    ∀ w ∈ iAll c genLoopFacts, ∀ b a p, w.out = .interrupt b a p → iUncollected w.st = [] := by
  intro w hw b a p hout
  have hL : (genLoopFacts.interruptPathWaitsAll || !c.eager) = true := by
    have : genLoopFacts.interruptPathWaitsAll = true := by decide
    simp [this]
  exact iUncollected_nil_of_covered
    (iRuns_interrupt_covered c hL _ _ (fun b a p h => iFirst_interrupt_covered c hL b a p h) w hw b a p hout)

/-- the shape of seeded regression C03-11: START → {r, x, y} → j → END, interrupt after r -/
def intrCase (order : List Key) : ICfg :=
  { g := { nodes := [⟨"r", ["start"]⟩, ⟨"x", ["start"]⟩, ⟨"y", ["start"]⟩, ⟨"j", ["r", "x", "y"]⟩],
           endPreds := ["j"], input := "in" },
    eager := true, before := [], after := ["r"], order := order }

/-- **interrupted_invoke_abandons_with_wait** (negation at engine level).  With `wait` on the
    interrupt path the first Invoke reports the interrupt after `r` and returns with `y`
    started but never collected when `r` is collected first; when `r` is collected last nothing
    is lost — the outcome depends on the completion order.  With the facts of the unchanged
    tree both orders collect everything, and the resumed run executes `j`. -/
theorem interrupted_invoke_abandons_with_wait :
    let bad : LoopFacts := { Expected.C03.loopFacts with interruptPathWaitsAll := false }
    ((iFirst (intrCase ["r", "x", "y", "j"]) bad).out = .interrupt [] ["r"] [] ∧
      iUncollected (iFirst (intrCase ["r", "x", "y", "j"]) bad).st = ["y"]) ∧
    ((iFirst (intrCase ["x", "y", "r", "j"]) bad).out = .interrupt [] ["r"] ["j"] ∧
      iUncollected (iFirst (intrCase ["x", "y", "r", "j"]) bad).st = []) ∧
    ((iFirst (intrCase ["r", "x", "y", "j"]) Expected.C03.loopFacts).out = .interrupt [] ["r"] ["j"] ∧
      iUncollected (iFirst (intrCase ["r", "x", "y", "j"]) Expected.C03.loopFacts).st = [] ∧
      (iAll (intrCase ["r", "x", "y", "j"]) Expected.C03.loopFacts).map (·.out)
        = [.interrupt [] ["r"] ["j"], .ok]) := by decide

/-! ## a batch step in which a node fails while its siblings are still running

  Model: `Model/C03Fail.lean`.  The source fact is `waitAllLoops` (already part of
  `facts_match`): the loop of `taskManager.waitAll` has no exit but `waitOne` reporting
  `num == 0`, so the error of a collected execution does not cut the collection short. -/

/-- **failing_step_collects_all.** For every reachable state of the task manager (any schedule
    so far, batch or eager), every schedule of executor and collector steps that follows and
    however many of the executions end with an error (`finish t true`): when `waitAll` returns —
    the run loop then resolves the collected tasks and `Invoke` returns the first node error —
    nothing is outstanding: `num = 0`, no execution still running, none queued in the list or
    the channel, and everything ever submitted has been received exactly once.  Covers "every
    node execution that was started is collected exactly once … the run does not return while
    started nodes are running" for batch runs that FAIL. -/
theorem failing_step_collects_all (needAll : Bool) (k : Nat) (s s' : St) (evs : List Ev)
    (h : Reachable genFacts needAll s)
    (hp : waitAllPath genFacts FactsC03.waitAllLoops needAll k s evs = some s') :
    s'.num = 0 ∧ s'.running = [] ∧ s'.l = [] ∧ s'.ch = [] ∧ s'.got.Perm s'.submitted ∧
    Reachable genFacts needAll s' := by
  have hl : FactsC03.waitAllLoops = true := by decide
  rw [hl, waitAllPath_loops genFacts genLoopFacts.submitPreprocessesFirst needAll] at hp
  have hL : (⟨genLoopFacts.submitPreprocessesFirst, true⟩ : LoopFacts) = genLoopFacts := by decide
  rw [hL] at hp
  exact interrupt_path_collects_all needAll k s s' evs h hp

/-- **failing_step_returns.** `waitAll` of a step with failing nodes does return: along every
    schedule without a further `submit` that runs until no executor and no collector step is
    possible any more (node bodies terminate, with or without an error). -/
theorem failing_step_returns (needAll : Bool) (k : Nat) (s s'' : St) (evs : List Ev)
    (h : Reachable genFacts needAll s) (hns : ∀ e ∈ evs, e.isSubmit = false)
    (hr : run genFacts needAll s evs = some s'')
    (hstuck : ∀ e, e.isSubmit = false → step genFacts needAll s'' e = none) :
    ∃ s', waitAllPath genFacts FactsC03.waitAllLoops needAll k s evs = some s' := by
  have hl : FactsC03.waitAllLoops = true := by decide
  rw [hl, waitAllPath_loops genFacts genLoopFacts.submitPreprocessesFirst needAll]
  have hL : (⟨genLoopFacts.submitPreprocessesFirst, true⟩ : LoopFacts) = genLoopFacts := by decide
  rw [hL]
  exact interrupt_path_returns needAll k s s'' evs h hns hr hstuck

/-- non-vacuity: batch mode, a step `[1, 2, 3]` whose inlined execution 1 fails first; `waitAll`
    has not returned after having received the failing execution, it returns after 2 and 3 -/
example :
    ∃ s, Reachable genFacts true s ∧ s.running = [2, 3] ∧ s.errs = [1] ∧
      waitAllPath genFacts FactsC03.waitAllLoops true 0 s [.recv, .refill] = none ∧
      ∃ s', waitAllPath genFacts FactsC03.waitAllLoops true 0 s
              [.recv, .refill, .finish 2 false, .finish 3 false, .recv, .refill, .recv, .refill] = some s' ∧
        s'.num = 0 ∧ s'.got = [1, 2, 3] :=
  ⟨⟨[2, 3], [], [1], 3, .idle, [], [1, 2, 3], [1]⟩,
   ⟨[.submit [1, 2, 3], .finish 1 true], by decide⟩, rfl, rfl, by decide,
   ⟨[], [], [], 0, .idle, [1, 2, 3], [1, 2, 3], [1]⟩, by decide, rfl, rfl⟩

/-- **failing_step_abandons_with_fail_fast** (negation: the fact is needed).  A `waitAll` that
    also returns right after having received an erroring execution (`waitAllLoops = false`, the
    shape of seeded regression C03-22): batch step `[1, 2, 3]`, the inlined execution 1 fails
    while 2 and 3 are still running — `waitAll` returns with `num = 2`, executions 2 and 3
    running and never received.  When 1 fails last (2 and 3 finished before it) the same fact
    loses nothing: whether executions are abandoned depends on the completion order. -/
theorem failing_step_abandons_with_fail_fast :
    run Expected.C03.facts true St.init [.submit [1, 2, 3], .finish 1 true]
      = some ⟨[2, 3], [], [1], 3, .idle, [], [1, 2, 3], [1]⟩ ∧
    (∃ s', waitAllPath Expected.C03.facts false true 0 ⟨[2, 3], [], [1], 3, .idle, [], [1, 2, 3], [1]⟩
            [.recv, .refill, .finish 2 false, .finish 3 false, .recv, .refill, .recv, .refill] = some s' ∧
        s'.num = 2 ∧ s'.running = [2, 3] ∧ s'.got = [1] ∧ s'.submitted = [1, 2, 3]) ∧
    (∃ s', waitAllPath Expected.C03.facts false true 0 St.init [] = some s' ∧ s'.num = 0) ∧
    (∃ s s', run Expected.C03.facts true St.init
              [.submit [1, 2, 3], .finish 2 false, .finish 3 false, .finish 1 true] = some s ∧
        waitAllPath Expected.C03.facts false true 0 s [.recv, .refill, .recv, .refill, .recv, .refill] = some s' ∧
        s'.num = 0 ∧ s'.got = [2, 3, 1]) := by
  refine ⟨by decide, ⟨⟨[2, 3], [], [], 2, .idle, [1], [1, 2, 3], [1]⟩, by decide, rfl, rfl, rfl, rfl⟩,
    ⟨St.init, by decide, rfl⟩,
    ⟨⟨[], [3, 1], [2], 3, .idle, [], [1, 2, 3], [1]⟩, ⟨[], [], [], 0, .idle, [2, 3, 1], [1, 2, 3], [1]⟩,
      by decide, by decide, rfl, rfl⟩⟩

/-! ### engine level: batch runs of graphs with failing nodes -/

/-- **failing_batch_run_collects_all.** For every acyclic graph, every set of failing nodes and
    every completion priority: when the batch run returns (a value, or the error of the first
    failing node of the failing step), every execution it started has been received. -/
theorem failing_batch_run_collects_all (c : FCfg) :
    fUncollected (fRun c FactsC03.waitAllLoops) = [] := by
  have hl : FactsC03.waitAllLoops = true := by decide
  rw [hl]
  exact fRun_uncollected_nil c

/-- the shape of seeded regression C03-22: START → {f, x, y} → END, `f` fails -/
def failCase (order : List Key) : FCfg :=
  { g := { nodes := [⟨"f", ["start"]⟩, ⟨"x", ["start"]⟩, ⟨"y", ["start"]⟩],
           endPreds := ["f", "x", "y"], input := "in" },
    bad := ["f"], order := order }

/-- **failing_batch_run_abandons_with_fail_fast** (negation at engine level).  With the
    fail-fast `waitAll` the run returns the error of `f` with `x` and `y` started and never
    received when `f` finishes first, with `y` lost when `f` finishes second, with nothing lost
    when `f` finishes last — what is collected depends on the completion order.  With the fact
    of the unchanged tree every order collects everything and reports `f`. -/
theorem failing_batch_run_abandons_with_fail_fast :
    (fUncollected (fRun (failCase ["f", "x", "y"]) false) = ["x", "y"] ∧
     fUncollected (fRun (failCase ["x", "f", "y"]) false) = ["y"] ∧
     fUncollected (fRun (failCase ["x", "y", "f"]) false) = []) ∧
    ((fRun (failCase ["f", "x", "y"]) true).reported = some "f" ∧
     (fRun (failCase ["f", "x", "y"]) true).failed = true ∧
     (fRun (failCase ["f", "x", "y"]) true).collected = ["f", "x", "y"] ∧
     (fRun (failCase ["x", "f", "y"]) true).collected = ["x", "f", "y"]) := by decide

/-- **pregel_run_schedule_independent** (engine level). For every any-predecessor runner of the
    engine model (`Model/Engine.lean`) with distinct keys and an order-insensitive merge: a run
    that succeeds under one fair completion schedule is *the same run* — same result, same
    per-step trace with the same inputs — under every other fair schedule.  (Which of several
    failures is reported may depend on the schedule; that is why the statement is about
    successful runs.)  Proof: `run_pregel` (the engine is the superstep specification) and
    permutation invariance of one superstep. -/
theorem pregel_run_schedule_independent {V : Type} (ops : EinoV.Engine.ValOps V) (hm : EinoV.Engine.MergePerm ops)
    (r : EinoV.Engine.Runner V) (h : r.dag = false) (hk : (EinoV.Spec.keys r).Nodup)
    (sched sched' : EinoV.Engine.Sched V) (hf : sched.Fair) (hf' : sched'.Fair) (x v : V)
    (hok : (EinoV.Engine.runS ops r sched x).result = .ok v) :
    EinoV.Engine.runS ops r sched' x = EinoV.Engine.runS ops r sched x :=
  EinoV.Engine.pregel_run_sched_independent ops hm r h hk sched sched' hf hf' x v hok

open EinoV.Engine EinoV.Engine.DagRun in
/-- **dag_result_schedule_independent** (engine level, all-predecessor mode, batch loop).  For every
    well-formed acyclic runner (`DagWF`, `DagWF2`, `DagWF3`: a channel with data predecessors has a
    control predecessor, START has no predecessors, the predecessor tables are acyclic), every
    order-insensitive merge and every input: if the runs under two fair completion schedules both
    return a value, it is the same value.  Proof: the history of a run is *grounded* (every
    completion is the output of a node started on facts drawn from the history: a control
    predecessor completed and routed, every data predecessor completed or is skipped, the input is
    the merge of exactly the routed values), and two grounded histories of one runner agree, by
    induction along the predecessor order (`Proofs/C02Confluence.lean`). -/
theorem dag_result_schedule_independent {V : Type} (ops : ValOps V) (hm : MergePerm ops) (r : Runner V)
    (wf : DagWF r) (wf2 : DagWF2 r) (wf3 : DagWF3 r) (sA sB : Sched V) (hfA : sA.Fair) (hfB : sB.Fair)
    (x vA vB : V) (hA : (runS ops r sA x).result = .ok vA) (hB : (runS ops r sB x).result = .ok vB) : vA = vB :=
  run_result_sched_independent ops hm r wf wf2 wf3 sA sB hfA hfB x vA vB hA hB

open EinoV.Engine EinoV.Engine.DagRun in
/-- **dag_outputs_schedule_independent.** … and the node executions that feed the results agree: a
    node that completed in both runs completed with the same output (hence ran on the same input). -/
theorem dag_outputs_schedule_independent {V : Type} (ops : ValOps V) (hm : MergePerm ops) (r : Runner V)
    (wf : DagWF r) (wf2 : DagWF2 r) (wf3 : DagWF3 r) (sA sB : Sched V) (hfA : sA.Fair) (hfB : sB.Fair) (x : V)
    (n : Key) (o o' : V)
    (hA : (n, o) ∈ histOf r x (runS ops r sA x).trace.reverse)
    (hB : (n, o') ∈ histOf r x (runS ops r sB x).trace.reverse) : o = o' :=
  run_outputs_sched_independent ops hm r wf wf2 wf3 sA sB hfA hfB x n o o' hA hB

open EinoV.Engine EinoV.Engine.DagRun in
/-- **compiled_graph_result_schedule_independent.** `dag_result_schedule_independent` with its
    hypotheses discharged (`Proofs/C02CompileWF.lean`): for *every* well-formed acyclic graph
    definition, a permutation-invariant merge, every input and any two fair completion schedules,
    two runs of the compiled graph that both return a value return the same value. -/
theorem compiled_graph_result_schedule_independent {V : Type} (ops : ValOps V) (hm : MergePerm ops)
    (slack : Nat) (g : GraphDef V) (w : GraphDefWF g) (sA sB : Sched V) (hfA : sA.Fair) (hfB : sB.Fair)
    (x vA vB : V) (hA : (runS ops (compile slack g) sA x).result = .ok vA)
    (hB : (runS ops (compile slack g) sB x).result = .ok vB) : vA = vB :=
  have h := compile_wf slack g w
  run_result_sched_independent ops hm _ h.1 h.2.1 h.2.2 sA sB hfA hfB x vA vB hA hB

open EinoV.Engine EinoV.Engine.DagRun in
/-- **compiled_workflow_result_completion_order_independent.** The hypotheses of
    `workflow_result_completion_order_independent` discharged (`Proofs/C02CompileWWF.lean`): for
    *every* well-formed acyclic Workflow definition, a permutation-invariant merge and every input,
    two eager runs under two arbitrary completion orders that both return a value return the same
    value — and it is the value of a batch run under any fair schedule. -/
theorem compiled_workflow_result_completion_order_independent {V : Type} (ops : ValOps V) (hm : MergePerm ops)
    (w : WorkflowDef V) (h : WorkflowDefWF w) (pA pB : Pick V) (sched : Sched V) (hf : sched.Fair) (x vA vB vS : V)
    (hA : (runEager ops (compileW ops w) pA x).result = .ok vA)
    (hB : (runEager ops (compileW ops w) pB x).result = .ok vB)
    (hS : (runS ops (compileW ops w) sched x).result = .ok vS) : vA = vB ∧ vA = vS :=
  have c := compileW_wf ops w h
  ⟨runEager_result_pick_independent ops hm _ c.1 c.2.1 c.2.2 pA pB x vA vB hA hB,
   runEager_agrees_with_batch ops hm _ c.1 c.2.1 c.2.2 pA sched hf x vA vS hA hS⟩

open EinoV.Engine EinoV.Engine.DagRun in
/-- **dag_steps_schedule_independent** (lock step).  Not only the result: *which nodes run in which
    step on which input* does not depend on the completion order.  For a well-formed acyclic
    all-predecessor runner, a permutation-invariant merge, every input and any two fair schedules,
    the `j`-th steps of the two runs — whenever both runs get that far — consist of the same
    tasks (node key and input).  (From justification + completeness + at-most-once + exact inputs of
    each run, by induction on `j`; no simulation of one run by the other.) -/
theorem dag_steps_schedule_independent {V : Type} (ops : ValOps V) (hm : MergePerm ops) (r : Runner V)
    (wf : DagWF r) (wf2 : DagWF2 r) (wf3 : DagWF3 r) (sA sB : Sched V) (hfA : sA.Fair) (hfB : sB.Fair) (x : V)
    (j : Nat) (stA stB : List (Key × V)) (hA : (runS ops r sA x).trace[j]? = some stA)
    (hB : (runS ops r sB x).trace[j]? = some stB) : ∀ t, t ∈ stA ↔ t ∈ stB :=
  run_steps_sched_independent ops hm r wf wf2 wf3 sA sB hfA hfB x j stA stB hA hB

open EinoV.Engine EinoV.Engine.DagRun in
/-- **dag_returning_run_is_not_outlasted.** If a run returns a value, no run under another fair
    schedule executes more steps: it has executed the same tasks by then, so END is enabled, and a
    run never goes on once END is enabled (`C02.dag_returns_as_soon_as_end_is_enabled`).
    (That the other run returns the value too is `dag_success_schedule_independent`.) -/
theorem dag_returning_run_is_not_outlasted {V : Type} (ops : ValOps V) (hm : MergePerm ops) (r : Runner V)
    (wf : DagWF r) (wf2 : DagWF2 r) (wf3 : DagWF3 r) (sA sB : Sched V) (hfA : sA.Fair) (hfB : sB.Fair) (x v : V)
    (hA : (runS ops r sA x).result = .ok v) :
    (runS ops r sB x).trace.length ≤ (runS ops r sA x).trace.length :=
  run_ok_not_outlasted ops hm r wf wf2 wf3 sA sB hfA hfB x v hA

open EinoV.Engine EinoV.Engine.DagRun in
/-- **dag_success_excludes_node_failures.** If a run returns a value, then under every other fair
    schedule every task that is executed succeeds: the other run executes, step by step, tasks the
    returning run executed too (`dag_steps_schedule_independent`, `dag_returning_run_is_not_outlasted`),
    and a run that returns a value has no failed task.  So a schedule-dependent node failure is
    impossible (and neither is a schedule-dependent failure of a scheduling round:
    `dag_success_schedule_independent`). -/
theorem dag_success_excludes_node_failures {V : Type} (ops : ValOps V) (hm : MergePerm ops) (r : Runner V)
    (wf : DagWF r) (wf2 : DagWF2 r) (wf3 : DagWF3 r) (sA sB : Sched V) (hfA : sA.Fair) (hfB : sB.Fair) (x v : V)
    (hA : (runS ops r sA x).result = .ok v) :
    ∀ t, t ∈ (runS ops r sB x).trace.flatten → (outOf r t).isSome = true :=
  run_ok_other_no_node_failure ops hm r wf wf2 wf3 sA sB hfA hfB x v hA

open EinoV.Engine EinoV.Engine.DagRun in
/-- **dag_success_schedule_independent** (the clause at full strength for the batch loop).  For a
    well-formed acyclic all-predecessor runner, a permutation-invariant merge, every input and any
    two fair completion schedules: *if one run returns a value, so does the other, and it is the
    same value.*  Whether a run succeeds does not depend on the completion order either.
    Proof (`Proofs/C02Success.lean`): the two loops are followed in lock step from states whose
    traces agree; a round of the second run cannot fail, because a failing round fails for a reason
    that can be read off the completions (`round_err`: a branch condition of a task that just
    completed fails; END is skipped; an enabled, not yet started node has exactly-routed inputs that
    do not merge) and none of them holds for the first run, whose round did not fail (`round_ok`)
    and which later returns a value (`loop_end_skipped_fails`). -/
theorem dag_success_schedule_independent {V : Type} (ops : ValOps V) (hm : MergePerm ops) (r : Runner V)
    (wf : DagWF r) (wf2 : DagWF2 r) (wf3 : DagWF3 r) (sA sB : Sched V) (hfA : sA.Fair) (hfB : sB.Fair) (x v : V)
    (hA : (runS ops r sA x).result = .ok v) : (runS ops r sB x).result = .ok v :=
  run_success_sched_independent ops hm r wf wf2 wf3 sA sB hfA hfB x v hA

open EinoV.Engine EinoV.Engine.DagRun in
/-- **compiled_graph_success_schedule_independent.** … for every well-formed acyclic graph definition. -/
theorem compiled_graph_success_schedule_independent {V : Type} (ops : ValOps V) (hm : MergePerm ops)
    (slack : Nat) (g : GraphDef V) (w : GraphDefWF g) (sA sB : Sched V) (hfA : sA.Fair) (hfB : sB.Fair) (x v : V)
    (hA : (runS ops (compile slack g) sA x).result = .ok v) : (runS ops (compile slack g) sB x).result = .ok v :=
  have h := compile_wf slack g w
  run_success_sched_independent ops hm _ h.1 h.2.1 h.2.2 sA sB hfA hfB x v hA

open EinoV.Engine EinoV.Engine.DagRun in
/-- **dag_wf3_check_sound.** The executable check of `DagWF3` (evaluated by the C02 oracle on every
    generated all-predecessor case) implies it. -/
theorem dag_wf3_check_sound {V : Type} (r : Runner V) (h : dagWF3b r = true) : DagWF3 r := dagWF3b_sound r h

open EinoV.Engine EinoV.Engine.DagRun in
/-- **workflow_result_completion_order_independent** (engine level, eager loop of Workflows).  Under
    the same hypotheses: two eager runs, one completion at a time under two arbitrary completion
    orders `pA`, `pB`, that both return a value return the same value. -/
theorem workflow_result_completion_order_independent {V : Type} (ops : ValOps V) (hm : MergePerm ops) (r : Runner V)
    (wf : DagWF r) (wf2 : DagWF2 r) (wf3 : DagWF3 r) (pA pB : Pick V) (x vA vB : V)
    (hA : (runEager ops r pA x).result = .ok vA) (hB : (runEager ops r pB x).result = .ok vB) : vA = vB :=
  runEager_result_pick_independent ops hm r wf wf2 wf3 pA pB x vA vB hA hB

open EinoV.Engine EinoV.Engine.DagRun in
/-- **eager_run_agrees_with_batch_run.** … and it is the value the batch loop (wait for all nodes of a
    step) returns under any fair schedule. -/
theorem eager_run_agrees_with_batch_run {V : Type} (ops : ValOps V) (hm : MergePerm ops) (r : Runner V)
    (wf : DagWF r) (wf2 : DagWF2 r) (wf3 : DagWF3 r) (pick : Pick V) (sched : Sched V) (hf : sched.Fair) (x vE vB : V)
    (hE : (runEager ops r pick x).result = .ok vE) (hB : (runS ops r sched x).result = .ok vB) : vE = vB :=
  runEager_agrees_with_batch ops hm r wf wf2 wf3 pick sched hf x vE vB hE hB

/-! ## the run's context becomes done (cancel / deadline) at an arbitrary point

  Model: `Model/C03Cancel.lean`.  The schedules of the task manager are extended by two events:
  `cancel` (the context becomes done; once, at ANY position of the schedule — before the
  submit, between the loop-top check and the start of the executors, while bodies run, inside
  the collector's window …) and `enter t` (the executor of a counted execution reaches its
  first statement).  Three more source facts: `executorDefersFirst` (the hand-off `defer` is
  the first statement of `executor`), `tmIgnoresCtx` (no method of the task manager reads a
  context) and `cancelCheckAtLoopTop` (the run loop looks at the context only in the `select`
  at the top of an iteration). -/

/-- the cancel facts as regenerated from compose/graph_manager.go -/
def genCancelFacts : CancelFacts :=
  { executorDefersFirst := FactsC03.executorDefersFirst }

/-- The regenerated facts are the ones the theorems below are proved for; the two shape facts
    justify the event language: a done context neither enables nor disables a step of the task
    manager (`tmIgnoresCtx`), and the run loop notices it between two iterations only
    (`cancelCheckAtLoopTop`; engine level: `cEager` / `cBatch`). -/
theorem cancel_facts_match :
    genCancelFacts = Expected.C03.cancelFacts ∧ FactsC03.tmIgnoresCtx = true ∧
    FactsC03.cancelCheckAtLoopTop = true := by decide

theorem cancel_facts_good : genCancelFacts.executorDefersFirst = true := by decide

/-- **cancel_keeps_protocol.** Wherever the context becomes done in a schedule, the state of
    the task manager is one the cancel-free protocol reaches too (the `cancel` and `enter`
    steps erased), no execution is dropped, `num` still counts exactly what is running, listed
    or in the channel, and nothing is lost or duplicated in transit: all the theorems about
    `Reachable` states above apply unchanged. -/
theorem cancel_keeps_protocol (needAll : Bool) (c : CSt)
    (h : CReachable genFacts genCancelFacts needAll c) :
    Reachable genFacts needAll c.s ∧ c.dropped = [] ∧
    c.s.num = c.s.running.length + c.s.l.length + c.s.ch.length ∧
    (c.s.got ++ (c.s.ch ++ c.s.l) ++ c.s.running).Perm c.s.submitted := by
  have hb := creachable_base cancel_facts_good h
  have hI := tm_inv_reachable needAll c.s hb.1
  exact ⟨hb.1, hb.2, hI.1, hI.2.2⟩

/-- **cancel_exactly_once.** Every execution that `submit` counted is collected exactly once
    when the counter is back to zero, for every schedule and every position of the cancel. -/
theorem cancel_exactly_once (needAll : Bool) (c : CSt)
    (h : CReachable genFacts genCancelFacts needAll c) (hn : c.s.num = 0) :
    c.s.got.Perm c.s.submitted ∧ c.dropped = [] := by
  have hb := creachable_base cancel_facts_good h
  exact ⟨tm_exactly_once needAll c.s hb.1 hn, hb.2⟩

/-- **cancel_never_hangs.** From any state reachable with a cancel anywhere, every schedule
    without a further `submit` (it may contain the cancel) has at most `cmeasure c` steps;
    while something is outstanding a step of an executor or of the collector is enabled
    (a counted execution can begin, a begun one can finish, the collector can receive or
    re-fill); and when no such step is possible any more the counter is zero, everything
    submitted has been collected exactly once and nothing was dropped.  (The collecting calls
    of the run loop return, whatever the position of the cancel, as soon as the node bodies
    have returned.) -/
theorem cancel_never_hangs (needAll : Bool) (c c' : CSt) (evs : List CEv)
    (h : CReachable genFacts genCancelFacts needAll c) (hns : ∀ e ∈ evs, e.isSubmit = false)
    (hr : crun genFacts genCancelFacts needAll c evs = some c') :
    evs.length + cmeasure c' ≤ cmeasure c ∧
    (c'.s.num ≠ 0 → ∃ e : CEv, e.isSubmit = false ∧ e ≠ .cancel ∧
        (cstep genFacts genCancelFacts needAll c' e).isSome = true) ∧
    ((∀ e : CEv, e.isSubmit = false → e ≠ .cancel →
        cstep genFacts genCancelFacts needAll c' e = none) →
      c'.s.num = 0 ∧ c'.s.got.Perm c'.s.submitted ∧ c'.dropped = []) := by
  have hreach' := creachable_run h hr
  have hb := creachable_base cancel_facts_good hreach'
  have hI := reachable_inv facts_good hb.1
  have hprog : c'.s.num ≠ 0 → ∃ e : CEv, e.isSubmit = false ∧ e ≠ .cancel ∧
      (cstep genFacts genCancelFacts needAll c' e).isSome = true :=
    fun hn => cprogress facts_good genCancelFacts needAll hI hn
  refine ⟨crun_measure needAll evs hns hr, hprog, ?_⟩
  intro hstuck
  have hnum : c'.s.num = 0 := by
    apply Classical.byContradiction
    intro hn
    obtain ⟨e, he1, he2, he3⟩ := hprog hn
    rw [hstuck e he1 he2] at he3
    cases he3
  have := cancel_exactly_once needAll c' hreach' hnum
  exact ⟨hnum, this.1, this.2⟩

/-- non-vacuity: batch mode, the cancel lands between the loop-top check and the start of
    the executors (after `submit` has counted two tasks, before either executor begins); the
    run goes on and collects both -/
example :
    ∃ c, crun genFacts genCancelFacts true CSt.init
        [.tm (.submit [1, 2]), .cancel, .enter 2, .enter 1, .tm (.finish 2 false),
         .tm (.finish 1 false), .tm .recv, .tm .refill, .tm .recv, .tm .refill] = some c ∧
      c.ctxDone = true ∧ c.s.num = 0 ∧ c.s.got = [2, 1] ∧ c.dropped = [] :=
  ⟨⟨⟨[], [], [], 0, .idle, [2, 1], [1, 2], []⟩, true, [], []⟩, by decide, rfl, rfl, rfl, rfl⟩

/-- non-vacuity: a reachable state with the context done, an execution not begun, one inside
    its body and the collector in its window -/
example : CReachable genFacts genCancelFacts false
    ⟨⟨[2, 3], [], [], 2, .window, [1], [1, 2, 3], []⟩, true, [3], []⟩ :=
  ⟨[.tm (.submit [1, 2, 3]), .enter 1, .tm (.finish 1 false), .enter 2, .tm .recv, .cancel], by decide⟩

/-- **cancel_window_hang_batch.** (negation witness, the shape of seed C03-51)
    `executorDefersFirst := false` — the executor looks at the context above the `defer` and
    returns when it is done: batch mode, two tasks of one step, the context becomes done after
    the loop-top check and before the executors begin.  Both executions are dropped, `waitAll`
    blocks forever with `num = 2`, nothing running and an empty channel. -/
theorem cancel_window_hang_batch :
    ∃ c, crun Expected.C03.facts ⟨false⟩ true CSt.init
          [.tm (.submit [1, 2]), .cancel, .enter 2, .enter 1] = some c ∧
      c.s.num = 2 ∧ c.s.running = [] ∧ c.s.l = [] ∧ c.s.ch = [] ∧ c.s.coll = .idle ∧
      c.dropped = [1, 2] ∧
      (∀ e : CEv, e.isSubmit = false → e ≠ .cancel →
        cstep Expected.C03.facts ⟨false⟩ true c e = none) := by
  refine ⟨⟨⟨[], [], [], 2, .idle, [], [1, 2], []⟩, true, [], [1, 2]⟩, by decide, rfl, rfl, rfl, rfl,
    rfl, rfl, ?_⟩
  intro e he hc
  cases e with
  | cancel => exact absurd rfl hc
  | enter t => simp [cstep]
  | tm ev =>
    cases ev with
    | submit ts => cases he
    | finish t err => simp [cstep, step]
    | recv => decide
    | refill => decide

/-- **cancel_window_hang_eager.** The same fact, eager mode (Workflow): `waitOne` blocks
    forever with `num = 2`. -/
theorem cancel_window_hang_eager :
    ∃ c, crun Expected.C03.facts ⟨false⟩ false CSt.init
          [.tm (.submit [1, 2]), .cancel, .enter 1, .enter 2] = some c ∧
      c.s.num = 2 ∧ c.s.running = [] ∧ c.s.ch = [] ∧ c.s.coll = .idle ∧ c.dropped = [2, 1] ∧
      (∀ e : CEv, e.isSubmit = false → e ≠ .cancel →
        cstep Expected.C03.facts ⟨false⟩ false c e = none) := by
  refine ⟨⟨⟨[], [], [], 2, .idle, [], [1, 2], []⟩, true, [], [2, 1]⟩, by decide, rfl, rfl, rfl, rfl,
    rfl, ?_⟩
  intro e he hc
  cases e with
  | cancel => exact absurd rfl hc
  | enter t => simp [cstep]
  | tm ev =>
    cases ev with
    | submit ts => cases he
    | finish t err => simp [cstep, step]
    | recv => decide
    | refill => decide

/-- **cancel_window_hang_single.** The same fact, a single task run synchronously on the
    run-loop goroutine: the inlined call returns to `submit` without a push, the collector is
    idle with `num = 1` and an empty channel.  With the fact of the unchanged tree the three
    schedules go on (example above). -/
theorem cancel_window_hang_single :
    ∃ c, crun Expected.C03.facts ⟨false⟩ true CSt.init
          [.tm (.submit [1]), .cancel, .enter 1] = some c ∧
      c.s.num = 1 ∧ c.s.running = [] ∧ c.s.ch = [] ∧ c.s.coll = .idle ∧ c.dropped = [1] ∧
      (∀ e : CEv, e.isSubmit = false → e ≠ .cancel →
        cstep Expected.C03.facts ⟨false⟩ true c e = none) := by
  refine ⟨⟨⟨[], [], [], 1, .idle, [], [1], []⟩, true, [], [1]⟩, by decide, rfl, rfl, rfl, rfl, rfl, ?_⟩
  intro e he hc
  cases e with
  | cancel => exact absurd rfl hc
  | enter t => simp [cstep]
  | tm ev =>
    cases ev with
    | submit ts => cases he
    | finish t err => simp [cstep, step]
    | recv => decide
    | refill => decide

/-- **cancelled_batch_run_collects_all.** Engine level (reference of the harness family
    `cancel`): a batch run whose context becomes done — before the run, inside a state
    pre-handler, while a body runs, inside a state post-handler, for every graph and
    completion priority — has received every execution it started when it returns (a value or
    the cancellation error). -/
theorem cancelled_batch_run_collects_all (c : CCfg) (hb : c.eager = false) :
    iUncollected (cRun c).st = [] := cRun_batch_uncollected_nil c hb

/-- **cancelled_eager_run_one_completion_per_iteration.** An eager run that returns has
    received exactly one completion per iteration of the run loop it entered, wherever the
    context became done: the iteration in which it became done is completed. -/
theorem cancelled_eager_run_one_completion_per_iteration (c : CCfg) (he : c.eager = true)
    (hs : (cRun c).out ≠ .stuck) : (cRun c).steps.length = (cRun c).iters := by
  unfold cRun at hs ⊢
  simp only [he, if_true] at hs ⊢
  exact cEager_steps_len c _ _ _ _ _ _ _ rfl hs

/-- START → {a, b} → END -/
def cancelCase (eager : Bool) (order : List Key) (a : CancelAt) : CCfg :=
  { g := { nodes := [⟨"a", ["start"]⟩, ⟨"b", ["start"]⟩], endPreds := ["a", "b"], input := "x" }
    eager := eager, order := order, at_ := a }

/-- **cancelled_run_witness.** On START → {a, b} → END with the context becoming done inside
    the state pre-handler of `a` (the window of seed C03-51): the batch run starts and
    collects both nodes and returns the value (END is ready before the next loop-top check);
    the eager run collects one completion and returns the cancellation error with the other
    execution still in flight (the class of the recorded finding: an eager run that returns
    early abandons what is in flight); a context that is done before the run starts nothing. -/
theorem cancelled_run_witness :
    (cRun (cancelCase false ["a", "b"] (.pre "a"))).out = .ok ∧
    (cRun (cancelCase false ["a", "b"] (.pre "a"))).st.done = ["start", "a", "b"] ∧
    (cRun (cancelCase true ["a", "b"] (.pre "a"))).out = .cancelled ∧
    iUncollected (cRun (cancelCase true ["a", "b"] (.pre "a"))).st = ["b"] ∧
    (cRun (cancelCase true ["b", "a"] (.body "b"))).out = .cancelled ∧
    iUncollected (cRun (cancelCase true ["b", "a"] (.body "b"))).st = ["a"] ∧
    (cRun (cancelCase true ["a", "b"] .never)).out = .ok ∧
    (cRun (cancelCase false ["a", "b"] .before)).out = .cancelled ∧
    (cRun (cancelCase false ["a", "b"] .before)).st.started = ["start"] := by decide

end EinoV.C03
