import EinoV.Model.GraphBuild
import EinoV.Spec.DagWF

/-! What a graph definition must satisfy for `Compile` to accept it in all-predecessor mode — the
    parts the run-level theorems need (`Proofs/C02CompileWF.lean`: the compiled runner of every
    such definition satisfies `DagWF`, `DagWF2`, `DagWF3`) — and its executable twin. -/
namespace EinoV.Engine
namespace DagRun

/-- what AddNode / AddEdge / AddBranch / Compile accept (the parts the run-level theorems need):
    distinct node keys other than START / END, edges and branch ends between existing nodes,
    no edge into START or out of END, an acyclic edge/branch relation -/
structure GraphDefWF {V} (g : GraphDef V) : Prop where
  dag : g.dag = true
  keys : (g.nodes.map (·.1)).Nodup
  noStart : START ∉ g.nodes.map (·.1)
  noEnd : END ∉ g.nodes.map (·.1)
  edgeTo : ∀ e, e ∈ g.edges → e.2 = END ∨ e.2 ∈ g.nodes.map (·.1)
  brTo : ∀ b, b ∈ g.branches → ∀ e, e ∈ b.2.ends → e = END ∨ e ∈ g.nodes.map (·.1)
  acyclic : ∃ rank : Key → Nat, (∀ e, e ∈ g.edges → rank e.1 < rank e.2) ∧
      (∀ b, b ∈ g.branches → ∀ e, e ∈ b.2.ends → rank b.1 < rank e)


/-- executable twin; the rank is the longest-path depth computed on the compiled shapes -/
def graphDefWFb {V} (g : GraphDef V) : Bool :=
  let keys := g.nodes.map (·.1)
  let rank := rankOf (shapes (initChans (compile 0 g)))
  g.dag && nodupb keys && !keys.contains START && !keys.contains END &&
  g.edges.all (fun e => e.2 == END || keys.contains e.2) &&
  g.branches.all (fun b => b.2.ends.all (fun e => e == END || keys.contains e)) &&
  g.edges.all (fun e => decide (rank e.1 < rank e.2)) &&
  g.branches.all (fun b => b.2.ends.all (fun e => decide (rank b.1 < rank e)))

end DagRun
end EinoV.Engine
