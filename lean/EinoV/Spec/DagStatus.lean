/-
  The specification vocabulary of C02's run-level statements: what it means that a completed
  node routes control / data to a successor or deselects it, that a node is skipped, and that
  starting a node on an input is *justified* by the completions so far.  No channels, no
  bookkeeping: only the runner's wiring (`controls`, `writeTo`, `branches`, predecessor
  tables) and the outputs of completed nodes.
-/
import EinoV.Model.Engine
import EinoV.Spec.DagWF
import EinoV.Model.C02Workflow

namespace EinoV.Engine
namespace DagRun

/-! ### what "routed" means (specification vocabulary) -/

/-- completed node `p` with output `o` passes control to `n`: by a control edge, or one of its
    branches selected `n` -/
def RoutesC {V} (r : Runner V) (p : Key) (o : V) (n : Key) : Prop :=
  ∃ nd, r.call? p = some nd ∧ (n ∈ nd.controls ∨ ∃ sel, selectOf nd o = .ok sel ∧ n ∈ sel)

/-- completed node `p` with output `o` deselects `n`: `n` is an end of a branch of `p`, no
    branch selected it, and there is no control edge from `p` to `n` -/
def Deselects {V} (r : Runner V) (p : Key) (o : V) (n : Key) : Prop :=
  ∃ nd sel, r.call? p = some nd ∧ selectOf nd o = .ok sel ∧ n ∈ skippedOf nd sel

/-- completed node `p` passes its output `o` to `n` as data: a data edge or a selecting branch,
    and `p` is a declared data predecessor of `n` -/
def RoutesD {V} (r : Runner V) (p : Key) (o : V) (n : Key) : Prop :=
  ∃ nd, r.call? p = some nd ∧ (n ∈ nd.writeTo ∨ ∃ sel, selectOf nd o = .ok sel ∧ n ∈ sel) ∧
    p ∈ lookupList n r.dataPreds


/-- `n` is skipped, given the completions `H`: every control predecessor that did not complete
    and deselect `n` is skipped itself -/
inductive SkippedIn {V} (r : Runner V) (H : List (Done V)) : Key → Prop
  | intro (n : Key)
      (h : ∀ p, p ∈ lookupList n r.ctrlPreds → (¬ ∃ o, (p, o) ∈ H ∧ Deselects r p o n) → SkippedIn r H p) :
      SkippedIn r H n

/-- **what justifies starting `n` on input `v`**, given the completions `H` so far:
    every control predecessor completed and routed to `n`, or is skipped, or completed and
    deselected `n`; at least one routed (if `n` has control predecessors at all); and `v` is the
    zero value / the single value / the merge of values that data predecessors which completed
    and routed to `n` produced. -/
def Justified {V} (ops : ValOps V) (r : Runner V) (H : List (Done V)) (n : Key) (v : V) : Prop :=
  (∀ p, p ∈ lookupList n r.ctrlPreds →
      (∃ o, (p, o) ∈ H ∧ RoutesC r p o n) ∨ SkippedIn r H p ∨ (∃ o, (p, o) ∈ H ∧ Deselects r p o n)) ∧
  (lookupList n r.ctrlPreds ≠ [] → ∃ p, p ∈ lookupList n r.ctrlPreds ∧ ∃ o, (p, o) ∈ H ∧ RoutesC r p o n) ∧
  (∃ vals : List (Key × V), (∀ p w, (p, w) ∈ vals → (p, w) ∈ H ∧ RoutesD r p w n) ∧
      ((vals = [] ∧ v = ops.zero) ∨ collect ops (vals.map (·.2)) = .ready v))


/-- the output of a task, if its node body succeeded -/
def outOf {V} (r : Runner V) (t : Key × V) : Option (Done V) :=
  match collectOne (execOne r t) with
  | .ok d => some d
  | .error _ => none

/-- the completions available after the steps `older` (any order): START's, and the outputs of
    every task of those steps -/
def histOf {V} (r : Runner V) (x : V) (older : Trace V) : List (Done V) :=
  (START, x) :: older.flatten.filterMap (outOf r)

/-- every task of every step is justified by the completions of the *older* steps
    (`tr` lists the steps newest first) -/
def JustTr {V} (ops : ValOps V) (r : Runner V) (x : V) : Trace V → Prop
  | [] => True
  | step :: older => (∀ n v, (n, v) ∈ step → Justified ops r (histOf r x older) n v) ∧ JustTr ops r x older


/-! ### completeness vocabulary -/

/-- every declared predecessor (that is a node) lists the channel among its successors -/
def PredSucc {V} (r : Runner V) : Prop :=
  ∀ m cs ds, (m, cs, ds) ∈ shapes (initChans r) → ∀ p, (p ∈ cs ∨ p ∈ ds) →
    ∀ nd, r.call? p = some nd → m ∈ nd.successors


def PredSuccC {V} (r : Runner V) : Prop :=
  ∀ m cs ds, (m, cs, ds) ∈ shapes (initChans r) → ∀ p, p ∈ cs → ∀ nd, r.call? p = some nd →
    m ∈ nd.controls ∨ m ∈ nd.branches.flatMap (·.ends)

def PredSuccD {V} (r : Runner V) : Prop :=
  ∀ m cs ds, (m, cs, ds) ∈ shapes (initChans r) → ∀ p, p ∈ ds → ∀ nd, r.call? p = some nd →
    m ∈ nd.writeTo ∨ (m ∈ nd.branches.flatMap (·.ends) ∧ m ∉ nd.controls)


/-- strict version of `SkippedIn`: only a node that *has* control predecessors can be skipped -/
inductive SkippedS {V} (r : Runner V) (H : List (Done V)) : Key → Prop
  | intro (n : Key) (hne : lookupList n r.ctrlPreds ≠ [])
      (h : ∀ p, p ∈ lookupList n r.ctrlPreds → (¬ ∃ o, (p, o) ∈ H ∧ Deselects r p o n) → SkippedS r H p) :
      SkippedS r H n

/-- `n` is enabled given the completions `H`: it has control predecessors, each of them has
    completed or is skipped, at least one completed and routed to `n`, and every data predecessor
    has completed or is skipped -/
def Enabled {V} (r : Runner V) (H : List (Done V)) (n : Key) : Prop :=
  lookupList n r.ctrlPreds ≠ [] ∧
  (∀ p, p ∈ lookupList n r.ctrlPreds → (∃ o, (p, o) ∈ H) ∨ SkippedS r H p) ∧
  (∃ p, p ∈ lookupList n r.ctrlPreds ∧ ∃ o, (p, o) ∈ H ∧ RoutesC r p o n) ∧
  (∀ p, p ∈ lookupList n r.dataPreds → (∃ o, (p, o) ∈ H) ∨ SkippedS r H p)


/-- every node the specification calls enabled, given the completions of the older steps, is
    among the tasks started so far (`tr` lists the steps newest first) -/
def CompTr {V} (r : Runner V) (x : V) : Trace V → Prop
  | [] => True
  | step :: older => (∀ n, Enabled r (histOf r x older) n → n ∈ keysOfTr (step :: older)) ∧ CompTr r x older

structure DagWF2 {V} (r : Runner V) : Prop where
  pc : PredSuccC r
  pd : PredSuccD r
  p4 : ∀ n, lookupList n r.ctrlPreds ≠ [] → n ∈ akeys (initChans r)


/-! ### the eager loop: the states it passes through, the completions it has processed -/

/-- the states the eager run loop passes through (each constructor is one branch of `runEager` /
    `eagerLoop` that goes on) -/
inductive EReach {V} (ops : ValOps V) (r : Runner V) (pick : Pick V) (x : V) :
    Chans V → List (Key × V) → List (List (Key × V)) → List Key → Prop
  | init (cm : Chans V) (ts : List (Key × V))
      (h : calcNext ops r (initChans r) [(START, x)] = .ok (cm, .tasks ts)) : EReach ops r pick x cm ts [ts] []
  | step (cm cm' : Chans V) (running ts : List (Key × V)) (bs : List (List (Key × V))) (comp : List Key)
      (t : Key × V) (d : Done V)
      (hprev : EReach ops r pick x cm running bs comp)
      (hp : running[pick running % running.length]? = some t)
      (hc : collectOne (execOne r t) = .ok d)
      (hn : calcNext ops r cm [d] = .ok (cm', .tasks ts)) :
      EReach ops r pick x cm' (running.eraseIdx (pick running % running.length) ++ ts) (bs ++ [ts]) (comp ++ [t.1])

/-- the completions that have been processed: START's, and the outputs of the submitted tasks
    whose key is in `comp` -/
def histC {V} (r : Runner V) (x : V) (bs : List (List (Key × V))) (comp : List Key) : List (Done V) :=
  (START, x) :: (bs.flatten.filter (fun t => comp.contains t.1)).filterMap (outOf r)


/-! ### exact inputs -/

/-- the input handed to `n` is built from exactly the values that completed data predecessors
    routed to it -/
def ExactIn {V} (ops : ValOps V) (r : Runner V) (H : List (Done V)) (n : Key) (v : V) : Prop :=
  ∃ vals : List (Key × V), (∀ p w, (p, w) ∈ vals ↔ ((p, w) ∈ H ∧ RoutesD r p w n)) ∧
    ((vals = [] ∧ v = ops.zero) ∨ collect ops (vals.map (·.2)) = .ready v)


/-- the input of every task of every step is built from exactly the values routed to it by
    completions of the older steps (`tr` lists the steps newest first) -/
def ExactTr {V} (ops : ValOps V) (r : Runner V) (x : V) : Trace V → Prop
  | [] => True
  | step :: older => (∀ n v, (n, v) ∈ step → ExactIn ops r (histOf r x older) n v) ∧ ExactTr ops r x older


/-! ### grounded histories (for schedule independence) -/

/-- what is known about the start of node `n` on input `v`, given the completions `H` processed
    by then -/
structure StartFacts {V} (ops : ValOps V) (r : Runner V) (H : List (Done V)) (n : Key) (v : V) : Prop where
  routed : lookupList n r.ctrlPreds ≠ [] →
    ∃ p, p ∈ lookupList n r.ctrlPreds ∧ ∃ o, (p, o) ∈ H ∧ RoutesC r p o n
  dataRes : ∀ p, p ∈ lookupList n r.dataPreds → (∃ o, (p, o) ∈ H) ∨ SkippedS r H p
  ctrlRes : ∀ p, p ∈ lookupList n r.ctrlPreds → (∃ o, (p, o) ∈ H) ∨ SkippedS r H p
  hasCtrl : lookupList n r.ctrlPreds ≠ []
  exact : ∃ vals : List (Key × V), (akeys vals).Nodup ∧
    (∀ p w, (p, w) ∈ vals ↔ ((p, w) ∈ H ∧ RoutesD r p w n)) ∧
    ((vals = [] ∧ v = ops.zero) ∨ collect ops (vals.map (·.2)) = .ready v)

/-- a history in which every completion is the output of a node started on facts drawn from the
    history itself -/
structure Grounded {V} (ops : ValOps V) (r : Runner V) (x : V) (H : List (Done V)) : Prop where
  fn : ∀ p o o', (p, o) ∈ H → (p, o') ∈ H → o = o'
  start : ∀ o, (START, o) ∈ H → o = x
  each : ∀ n o, (n, o) ∈ H → n ≠ START →
    ∃ v H', (∀ d, d ∈ H' → d ∈ H) ∧ StartFacts ops r H' n v ∧
      ∃ nd, r.node? n = some nd ∧ nd.act v = .ok o


/-- a channel that has data predecessors has a control predecessor -/
def HasCtrl {V} (r : Runner V) : Prop :=
  ∀ n cs ds, (n, cs, ds) ∈ shapes (initChans r) → cs = [] → ds = []


/-- every task of every step was started on facts drawn from the completions of the older steps -/
def FactsTr {V} (ops : ValOps V) (r : Runner V) (x : V) : Trace V → Prop
  | [] => True
  | step :: older => (∀ n v, (n, v) ∈ step → StartFacts ops r (histOf r x older) n v) ∧ FactsTr ops r x older


/-- the hypotheses of the confluence theorem beyond `DagWF`/`DagWF2` -/
structure DagWF3 {V} (r : Runner V) : Prop where
  hasCtrl : HasCtrl r
  startNoPreds : lookupList START r.ctrlPreds = []
  acyclicAll : ∃ rank : Key → Nat,
    (∀ n cs ds, (n, cs, ds) ∈ shapes (initChans r) → ∀ p, p ∈ cs ∨ p ∈ ds → rank p < rank n) ∧
    (∀ n p, (p ∈ lookupList n r.ctrlPreds ∨ p ∈ lookupList n r.dataPreds) → rank p < rank n)


/-! ### the additional well-formedness, executable -/

def dagWF2b {V} (r : Runner V) : Bool :=
  let sh := shapes (initChans r)
  sh.all (fun e => e.2.1.all (fun p =>
    match r.call? p with
    | none => true
    | some nd => nd.controls.contains e.1 || (nd.branches.flatMap (·.ends)).contains e.1)) &&
  sh.all (fun e => e.2.2.all (fun p =>
    match r.call? p with
    | none => true
    | some nd => nd.writeTo.contains e.1 ||
        ((nd.branches.flatMap (·.ends)).contains e.1 && !nd.controls.contains e.1))) &&
  r.ctrlPreds.all (fun e => e.2.isEmpty || (akeys (initChans r)).contains e.1)

def dagWF3b {V} (r : Runner V) : Bool :=
  let sh := shapes (initChans r)
  let rank := rankOf sh
  sh.all (fun e => !e.2.1.isEmpty || e.2.2.isEmpty) &&
  (lookupList START r.ctrlPreds).isEmpty &&
  sh.all (fun e => (e.2.1 ++ e.2.2).all (fun p => decide (rank p < rank e.1))) &&
  (r.ctrlPreds ++ r.dataPreds).all (fun e => e.2.all (fun p => decide (rank p < rank e.1)))

/-! ### what has happened to the nodes END depends on, when a run returns -/

/-- `p` is a control ancestor of END: a declared control predecessor of END or of another ancestor -/
inductive AncEnd {V} (r : Runner V) : Key → Prop
  | base (p : Key) (h : p ∈ lookupList END r.ctrlPreds) : AncEnd r p
  | step (p n : Key) (hn : AncEnd r n) (h : p ∈ lookupList n r.ctrlPreds) : AncEnd r p

/-- the node has completed, or is skipped, given the completions `H` -/
def Settled {V} (r : Runner V) (H : List (Done V)) (n : Key) : Prop :=
  (∃ o, (n, o) ∈ H) ∨ SkippedIn r H n

end DagRun
end EinoV.Engine
