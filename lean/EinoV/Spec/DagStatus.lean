/-
  The specification vocabulary of C02's run-level statements: what it means that a completed
  node routes control / data to a successor or deselects it, that a node is skipped, and that
  starting a node on an input is *justified* by the completions so far.  No channels, no
  bookkeeping: only the runner's wiring (`controls`, `writeTo`, `branches`, predecessor
  tables) and the outputs of completed nodes.
-/
import EinoV.Model.Engine

namespace EinoV.Engine
namespace DagRun

/-! ### what "routed" means (specification vocabulary) -/

/-- completed node `p` with output `o` passes control to `n`: by a control edge, or one of its
    branches selected `n` -/
def RoutesC {V} (r : Runner V) (p : Key) (o : V) (n : Key) : Prop :=
  ∃ nd, r.call? p = some nd ∧ (n ∈ nd.controls ∨ ∃ sel, selectOf nd o = .ok sel ∧ n ∈ sel)

/-- completed node `p` with output `o` deselects `n`: `n` is an end of a branch of `p`, no
    branch selected it, and there is no control edge from `p` to `n` -/
def Deselects {V} (r : Runner V) (p : Key) (o : V) (n : Key) : Prop :=
  ∃ nd sel, r.call? p = some nd ∧ selectOf nd o = .ok sel ∧ n ∈ skippedOf nd sel

/-- completed node `p` passes its output `o` to `n` as data: a data edge or a selecting branch,
    and `p` is a declared data predecessor of `n` -/
def RoutesD {V} (r : Runner V) (p : Key) (o : V) (n : Key) : Prop :=
  ∃ nd, r.call? p = some nd ∧ (n ∈ nd.writeTo ∨ ∃ sel, selectOf nd o = .ok sel ∧ n ∈ sel) ∧
    p ∈ lookupList n r.dataPreds


/-- `n` is skipped, given the completions `H`: every control predecessor that did not complete
    and deselect `n` is skipped itself -/
inductive SkippedIn {V} (r : Runner V) (H : List (Done V)) : Key → Prop
  | intro (n : Key)
      (h : ∀ p, p ∈ lookupList n r.ctrlPreds → (¬ ∃ o, (p, o) ∈ H ∧ Deselects r p o n) → SkippedIn r H p) :
      SkippedIn r H n

/-- **what justifies starting `n` on input `v`**, given the completions `H` so far:
    every control predecessor completed and routed to `n`, or is skipped, or completed and
    deselected `n`; at least one routed (if `n` has control predecessors at all); and `v` is the
    zero value / the single value / the merge of values that data predecessors which completed
    and routed to `n` produced. -/
def Justified {V} (ops : ValOps V) (r : Runner V) (H : List (Done V)) (n : Key) (v : V) : Prop :=
  (∀ p, p ∈ lookupList n r.ctrlPreds →
      (∃ o, (p, o) ∈ H ∧ RoutesC r p o n) ∨ SkippedIn r H p ∨ (∃ o, (p, o) ∈ H ∧ Deselects r p o n)) ∧
  (lookupList n r.ctrlPreds ≠ [] → ∃ p, p ∈ lookupList n r.ctrlPreds ∧ ∃ o, (p, o) ∈ H ∧ RoutesC r p o n) ∧
  (∃ vals : List (Key × V), (∀ p w, (p, w) ∈ vals → (p, w) ∈ H ∧ RoutesD r p w n) ∧
      ((vals = [] ∧ v = ops.zero) ∨ collect ops (vals.map (·.2)) = .ready v))


/-- the output of a task, if its node body succeeded -/
def outOf {V} (r : Runner V) (t : Key × V) : Option (Done V) :=
  match collectOne (execOne r t) with
  | .ok d => some d
  | .error _ => none

/-- the completions available after the steps `older` (any order): START's, and the outputs of
    every task of those steps -/
def histOf {V} (r : Runner V) (x : V) (older : Trace V) : List (Done V) :=
  (START, x) :: older.flatten.filterMap (outOf r)

/-- every task of every step is justified by the completions of the *older* steps
    (`tr` lists the steps newest first) -/
def JustTr {V} (ops : ValOps V) (r : Runner V) (x : V) : Trace V → Prop
  | [] => True
  | step :: older => (∀ n v, (n, v) ∈ step → Justified ops r (histOf r x older) n v) ∧ JustTr ops r x older


end DagRun
end EinoV.Engine
