/-
  Well-formedness of a compiled all-predecessor (DAG) runner, as a proposition (`DagWF`) and as
  an executable check (`dagWFb`) — the hypotheses of the run-level theorems of C02
  (EinoV/Proofs/C02Run.lean).  Core only: the oracle evaluates `dagWFb` on every generated case.
-/
import EinoV.Model.Engine

namespace EinoV.Engine
namespace DagRun

/-- the predecessor keys a channel waits for (never changed by any operation) -/
def shapeOf {V} (c : Chan V) : List Key × List Key := (akeys c.ctrl, akeys c.data)

def shapes {V} (cm : Chans V) : List (Key × List Key × List Key) := cm.map (fun p => (p.1, shapeOf p.2))

/-- in the channel shapes `sh`, node `m` is a declared predecessor of each of `ss` -/
def PredOK (sh : List (Key × List Key × List Key)) (m : Key) (ss : List Key) : Prop :=
  ∀ s, s ∈ ss → ∀ cs ds, (s, cs, ds) ∈ sh → m ∈ cs ∨ m ∈ ds

/-- every node is a declared predecessor of each of its successors -/
def SuccOK {V} (r : Runner V) : Prop :=
  ∀ m, (m ∈ r.nodes ∨ m = r.start) → PredOK (shapes (initChans r)) m.key m.successors

/-- the node keys of a trace, with multiplicity -/
def keysOfTr {V} (tr : Trace V) : List Key := tr.flatten.map (·.1)

/-- a compiled all-predecessor runner: distinct keys, START is not a node, every node is a declared
    predecessor of its successors, the predecessor relation is acyclic (what `validateDAG` enforces) -/
structure DagWF {V} (r : Runner V) : Prop where
  dag : r.dag = true
  nodup : (akeys (initChans r)).Nodup
  startKey : r.start.key = START
  startFresh : START ∉ akeys (initChans r)
  succ : SuccOK r
  acyclic : ∃ rank : Key → Nat, ∀ n cs ds, (n, cs, ds) ∈ shapes (initChans r) →
      ∀ p, p ∈ cs ∨ p ∈ ds → rank p < rank n

/-! ### the same, executable -/

def nodupb : List Key → Bool
  | [] => true
  | k :: t => !t.contains k && nodupb t

def rankIter (sh : List (Key × List Key × List Key)) (rk : List (Key × Nat)) : List (Key × Nat) :=
  sh.map (fun e => (e.1, 1 + ((e.2.1 ++ e.2.2).map (fun p => (alookup p rk).getD 0)).foldl max 0))

def iter {α} (f : α → α) : Nat → α → α
  | 0, x => x
  | n + 1, x => iter f n (f x)

/-- longest-path depth (START and unknown keys: 0); meaningful when the relation is acyclic -/
def rankOf (sh : List (Key × List Key × List Key)) : Key → Nat :=
  let rk := iter (rankIter sh) (sh.length + 1) []
  fun k => (alookup k rk).getD 0

def dagWFb {V} (r : Runner V) : Bool :=
  let sh := shapes (initChans r)
  let rank := rankOf sh
  r.dag && nodupb (akeys (initChans r)) && (r.start.key == START) && !(akeys (initChans r)).contains START &&
  (r.start :: r.nodes).all (fun m => m.successors.all (fun s =>
    sh.all (fun e => !(e.1 == s) || e.2.1.contains m.key || e.2.2.contains m.key))) &&
  sh.all (fun e => (e.2.1 ++ e.2.2).all (fun p => decide (rank p < rank e.1)))

end DagRun
end EinoV.Engine
