/-
  C08 — close propagation through whole networks: who still claims the reading end of a node,
  and the invariant that ties the closed flags of the stateful nodes (pipes, copy cursors,
  forwarding goroutines) to it.

  A convert and a merged reader have no closed flag of their own: closing them closes what
  they read from (`PEdge`, `UpP`).  The reading end of node `k` is CLAIMED iff, following the
  (unique) consumers downwards through converts and merged readers, one reaches a node that
  the caller holds, or that a `Copy` cell with an open copy reads from, or that a forwarding
  goroutine which has not exited reads from (`RootClaimed`, `Claimed`).
-/
import EinoV.Spec.C08Tree

namespace EinoV.C08

/-- `j` is a convert of `u` or a merged reader with source `u` -/
def PEdge (net : Net) (j u : Nat) : Prop :=
  (∃ g : ConvSpec, net.nodes[j]? = some (Node.conv u g)) ∨
  (∃ sts ch : List Nat, net.nodes[j]? = some (Node.merge sts ch) ∧ u ∈ sts)

inductive UpP (net : Net) : Nat → Nat → Prop where
  | refl (j : Nat) : UpP net j j
  | step {j u k : Nat} : PEdge net j u → UpP net u k → UpP net j k

def OpenCursor (core : CopyCore) : Prop := ∃ (i k : Nat), core.cursors[i]? = some (some k)

/-- somebody holds the reading end of `j` itself: the caller (`H`), a `Copy` cell with an open
    copy, or a forwarding goroutine that has not exited -/
def RootClaimed (net : Net) (H : List Nat) (j : Nat) : Prop :=
  j ∈ H ∨ (∃ (P : Nat) (core : CopyCore), net.nodes[P]? = some (Node.parent j core) ∧ OpenCursor core) ∨
  (∃ (f : Nat) (st : FwdSt), net.nodes[f]? = some (Node.fpipe j st) ∧ (st = FwdSt.running ∨ st = FwdSt.pending))

def Claimed (net : Net) (H : List Nat) (k : Nat) : Prop := ∃ j, UpP net j k ∧ RootClaimed net H j

/-- the closed flag of a node: a pipe (`recvClosed`), a copy (its cursor in the cell is nil), a
    forwarding goroutine (`running` = its stream is open, `pending`/`stopped` = its stream was
    closed by the merged reader, `ended` = it exited on `io.EOF`: compatible with both);
    `none` for the nodes that have no flag of their own -/
inductive St where
  | open | closed | either | none
  deriving DecidableEq, Repr

def cursorStat : Option (Option Nat) → St
  | some (some _) => .open
  | _ => .closed

def fwdStat : FwdSt → St
  | .running => .open
  | .ended => .either
  | _ => .closed

def stat (net : Net) (k : Nat) : St :=
  match net.nodes[k]? with
  | some (.pipe p) => if p.recvClosed then .closed else .open
  | some (.child P idx) =>
    match net.nodes[P]? with
    | some (.parent _ core) => cursorStat core.cursors[idx]?
    | _ => .none
  | some (.fpipe _ st) => fwdStat st
  | _ => .none

/-- the closed flags say exactly who is claimed, on the nodes that satisfy `S` -/
structure CloseInvOn (net : Net) (H : List Nat) (S : Nat → Prop) : Prop where
  flag : ∀ k : Nat, S k → (stat net k = .open → Claimed net H k) ∧ (stat net k = .closed → ¬ Claimed net H k)
  cellKids : ∀ (P src : Nat) (core : CopyCore), net.nodes[P]? = some (.parent src core) →
    ∀ i : Nat, i < core.cursors.length → ∃ c : Nat, net.nodes[c]? = some (Node.child P i)
  cellCount : ∀ (P src : Nat) (core : CopyCore), net.nodes[P]? = some (.parent src core) →
    core.closedNum = core.cursors.count none ∧
    core.srcClosed = (if core.cursors.count none = core.cursors.length then 1 else 0) ∧
    0 < core.cursors.length

/-- the closed flags say exactly who is claimed -/
def CloseInv (net : Net) : Prop := CloseInvOn net net.readers (fun _ => True)

end EinoV.C08
