import EinoV.Model.C02Workflow
import EinoV.Spec.DagWF

/-! What a Workflow definition must satisfy for `Compile` to accept it — the parts the run-level
    theorems need (`Proofs/C02CompileWWF.lean`: the compiled runner of every such definition
    satisfies `DagWF`, `DagWF2`, `DagWF3`) — and its executable twin. -/
namespace EinoV.Engine
namespace DagRun


/-- distinct node keys other than START / END; every control dependency and branch end targets an
    existing node or END; a node that receives data has a control predecessor (a dependency or a
    branch end: otherwise it could never start); the dependency / branch-end relation is acyclic -/
structure WorkflowDefWF {V} (w : WorkflowDef V) : Prop where
  keys : (w.nodes.map (·.1)).Nodup
  noStart : START ∉ w.nodes.map (·.1)
  noEnd : END ∉ w.nodes.map (·.1)
  depTo : ∀ d, d ∈ w.deps → d.control = true → d.to = END ∨ d.to ∈ w.nodes.map (·.1)
  brTo : ∀ b, b ∈ w.branches → ∀ e, e ∈ b.2.ends → e = END ∨ e ∈ w.nodes.map (·.1)
  hasCtrl : ∀ d, d ∈ w.deps → d.data = true →
    (∃ d', d' ∈ w.deps ∧ d'.control = true ∧ d'.to = d.to) ∨ ∃ b, b ∈ w.branches ∧ d.to ∈ b.2.ends
  acyclic : ∃ rank : Key → Nat, (∀ d, d ∈ w.deps → rank d.from_ < rank d.to) ∧
      (∀ b, b ∈ w.branches → ∀ e, e ∈ b.2.ends → rank b.1 < rank e)

/-- executable twin; the rank is the longest-path depth computed on the compiled shapes -/
def workflowDefWFb {V} (ops : ValOps V) (w : WorkflowDef V) : Bool :=
  let keys := w.nodes.map (·.1)
  let rank := rankOf (shapes (initChans (compileW ops w)))
  nodupb keys && !keys.contains START && !keys.contains END &&
  w.deps.all (fun d => !d.control || d.to == END || keys.contains d.to) &&
  w.branches.all (fun b => b.2.ends.all (fun e => e == END || keys.contains e)) &&
  w.deps.all (fun d => !d.data || w.deps.any (fun d' => d'.control && d'.to == d.to) ||
    w.branches.any (fun b => b.2.ends.contains d.to)) &&
  w.deps.all (fun d => decide (rank d.from_ < rank d.to)) &&
  w.branches.all (fun b => b.2.ends.all (fun e => decide (rank b.1 < rank e)))

end DagRun
end EinoV.Engine
