/-
  C08 — specification layer over the network model `EinoV/Model/C08Net.lean`.

  * `Shp`, `Edge`, `Up`   : the static shape of a network (which reader is built on which);
                            the networks are DAGs whose only sharing is through the cells of
                            `Copy` (`Node.parent`), so "structural induction on the tree" is
                            induction along `Edge` (every edge points to a smaller index).
  * `Den fut net id l`     : the SPECIFIED remaining item sequence of reader `id` in state
                            `net`, given the items `fut p` that the writer of every pipe `p`
                            will still get accepted: a pipe delivers its buffer and then the
                            future items; an array its items; a convert the item-wise image
                            (no-value items dropped); a copy what is left of the shared list
                            followed by what its source will deliver; a merge any interleaving
                            of what its remaining sources deliver that keeps each source's
                            order (`Inter`); a forwarder is transparent.  It is a relation
                            because of the merge.
  * `Recv F net id r net' tr` : big-step relational semantics of one `Recv` call (the
                            function `recvAll` of the network model refines it, see
                            `recvAll_sound` in `Proofs/C08Tree.lean`); `tr` lists which node
                            delivered which item during the call, in order.
  * `Inv`                  : well-formedness of reachable networks (typing of the references,
                            every reader has at most one consumer, cursors within the list).
  * `Step`, `Behaves`      : schedules = lists of `Op`s, every op enabled in its state.
-/
import EinoV.Model.C08Net

namespace EinoV.C08

/-! ## static shape -/

inductive Shp where
  | pipe
  | arr
  | conv (src : Nat) (g : ConvSpec)
  | parent (src : Nat) (n : Nat)
  | child (par idx : Nat)
  | merge (sts : List Nat)
  | fpipe (src : Nat)
  | dead
  deriving DecidableEq, Repr

def Node.shp : Node → Shp
  | .pipe _ => .pipe
  | .arr _ => .arr
  | .conv src g => .conv src g
  | .parent src core => .parent src core.cursors.length
  | .child par idx => .child par idx
  | .merge sts _ => .merge sts
  | .fpipe src _ => .fpipe src
  | .dead => .dead

/-- the readers a node consumes (exclusively) -/
def Shp.uses : Shp → List Nat
  | .conv src _ => [src]
  | .parent src _ => [src]
  | .merge sts => sts
  | .fpipe src => [src]
  | _ => []

/-- the shared cell a copy reads from -/
def Shp.par? : Shp → Option Nat
  | .child par _ => some par
  | _ => none

/-- a node the caller (or another node) can `Recv` from -/
def Shp.isReader : Shp → Bool
  | .pipe | .arr | .conv _ _ | .child _ _ | .merge _ => true
  | _ => false

def Net.shp? (net : Net) (j : Nat) : Option Shp := (net.nodes[j]?).map Node.shp

/-- node `j` is built directly on node `u` -/
def Edge (net : Net) (j u : Nat) : Prop :=
  ∃ s, net.shp? j = some s ∧ (u ∈ s.uses ∨ s.par? = some u)

/-- node `j` is built on node `k` (reflexive, transitive) -/
inductive Up (net : Net) : Nat → Nat → Prop where
  | refl (j : Nat) : Up net j j
  | step {j u k : Nat} : Edge net j u → Up net u k → Up net j k

def SameShape (a b : Net) : Prop :=
  a.nodes.size = b.nodes.size ∧ ∀ k, b.shp? k = a.shp? k

/-! ## the specified sequence -/

def upd (f : Nat → List Item) (s : Nat) (v : List Item) : Nat → List Item :=
  fun t => if t = s then v else f t

/-- `Inter S ls l`: `l` is an interleaving of the lists `ls s`, `s ∈ S`: every item of every
    list exactly once, each list in its own order. -/
inductive Inter (S : List Nat) : (Nat → List Item) → List Item → Prop where
  | nil {ls : Nat → List Item} : (∀ s ∈ S, ls s = []) → Inter S ls []
  | cons {ls : Nat → List Item} {s : Nat} {x : Item} {rest l : List Item} :
      s ∈ S → ls s = x :: rest → Inter S (upd ls s rest) l → Inter S ls (x :: l)

inductive Den (fut : Nat → List Item) (net : Net) : Nat → List Item → Prop where
  | pipe {id : Nat} {p : Pipe} :
      net.nodes[id]? = some (.pipe p) →
      Den fut net id (p.buf ++ if p.sendClosed then [] else fut id)
  | arr {id : Nat} {rest : List Item} :
      net.nodes[id]? = some (.arr rest) → Den fut net id rest
  | conv {id src : Nat} {g : ConvSpec} {l : List Item} :
      net.nodes[id]? = some (.conv src g) → Den fut net src l →
      Den fut net id (l.filterMap (convItem g.fn))
  | childOpen {id par idx src k : Nat} {core : CopyCore} {l : List Item} :
      net.nodes[id]? = some (.child par idx) → net.nodes[par]? = some (.parent src core) →
      core.cursors[idx]? = some (some k) → core.eofSeen = false → Den fut net src l →
      Den fut net id (core.log.drop k ++ l)
  | childEof {id par idx src k : Nat} {core : CopyCore} :
      net.nodes[id]? = some (.child par idx) → net.nodes[par]? = some (.parent src core) →
      core.cursors[idx]? = some (some k) → core.eofSeen = true →
      Den fut net id (core.log.drop k)
  | merge {id : Nat} {sts chosen : List Nat} {ls : Nat → List Item} {l : List Item} :
      net.nodes[id]? = some (.merge sts chosen) →
      (∀ sb sid, sb ∈ chosen → sts[sb]? = some sid → Den fut net sid (ls sb)) →
      Inter chosen ls l → Den fut net id l
  | fwd {id src : Nat} {l : List Item} :
      net.nodes[id]? = some (.fpipe src .running) → Den fut net src l → Den fut net id l
  | fwdEnded {id src : Nat} :
      net.nodes[id]? = some (.fpipe src .ended) → Den fut net id []

/-- the specified sequence, unfolded one level (the recursive definition of `Den` read as a
    function of what the sources hold and will still accept) -/
def DenBody (fut : Nat → List Item) (net : Net) (id : Nat) (l : List Item) : Prop :=
  match net.nodes[id]? with
  | some (.pipe p) => l = p.buf ++ if p.sendClosed then [] else fut id
  | some (.arr rest) => l = rest
  | some (.conv src g) => ∃ l', Den fut net src l' ∧ l = l'.filterMap (convItem g.fn)
  | some (.child par idx) =>
    match net.nodes[par]? with
    | some (.parent src core) =>
      ∃ k, core.cursors[idx]? = some (some k) ∧
        ((core.eofSeen = false ∧ ∃ l', Den fut net src l' ∧ l = core.log.drop k ++ l') ∨
         (core.eofSeen = true ∧ l = core.log.drop k))
    | _ => False
  | some (.merge sts chosen) =>
    ∃ ls : Nat → List Item, (∀ sb sid, sb ∈ chosen → sts[sb]? = some sid → Den fut net sid (ls sb)) ∧
      Inter chosen ls l
  | some (.fpipe src st) => (st = .running ∧ Den fut net src l) ∨ (st = .ended ∧ l = [])
  | _ => False

/-! ## relational big-step semantics of `Recv` -/

def tag (id : Nat) : Res → List (Nat × Item)
  | .item x => [(id, x)]
  | .eof => []

/-- what a forwarding goroutine does when its source reports `io.EOF` -/
def fwdEnd (F : Facts) (cf : Nat) (n1 : Net) (sid src : Nat) : Option Net :=
  if F.fwdCloses then closeAll F cf (n1.setNode sid (.fpipe src .ended)) src
  else some (n1.setNode sid (.fpipe src .ended))

inductive Recv (F : Facts) : Net → Nat → Res → Net → List (Nat × Item) → Prop where
  | pipe {net : Net} {id : Nat} {p p' : Pipe} {r : Res} :
      net.nodes[id]? = some (.pipe p) → p.recv = some (p', r) →
      Recv F net id r (net.setNode id (.pipe p')) (tag id r)
  | arrItem {net : Net} {id : Nat} {x : Item} {rest : List Item} :
      net.nodes[id]? = some (.arr (x :: rest)) →
      Recv F net id (.item x) (net.setNode id (.arr rest)) [(id, x)]
  | arrEof {net : Net} {id : Nat} :
      net.nodes[id]? = some (.arr []) → Recv F net id .eof net []
  | convEof {net n1 : Net} {id src : Nat} {g : ConvSpec} {tr : List (Nat × Item)} :
      net.nodes[id]? = some (.conv src g) → Recv F net src .eof n1 tr → Recv F net id .eof n1 tr
  | convItem {net n1 : Net} {id src : Nat} {g : ConvSpec} {it y : Item} {tr : List (Nat × Item)} :
      net.nodes[id]? = some (.conv src g) → Recv F net src (.item it) n1 tr →
      convItem g.fn it = some y → Recv F net id (.item y) n1 (tr ++ [(id, y)])
  | convSkip {net n1 n2 : Net} {id src : Nat} {g : ConvSpec} {it : Item} {r : Res}
      {tr1 tr2 : List (Nat × Item)} :
      net.nodes[id]? = some (.conv src g) → Recv F net src (.item it) n1 tr1 →
      convItem g.fn it = none → Recv F n1 id r n2 tr2 → Recv F net id r n2 (tr1 ++ tr2)
  | childHave {net : Net} {id par idx src : Nat} {core c' : CopyCore} {r : Res} :
      net.nodes[id]? = some (.child par idx) → net.nodes[par]? = some (.parent src core) →
      core.peekLocal F.copy idx = .have r c' →
      Recv F net id r (net.setNode par (.parent src c')) (tag id r)
  | childFill {net n1 : Net} {id par idx src k : Nat} {core : CopyCore} {r : Res}
      {tr : List (Nat × Item)} :
      net.nodes[id]? = some (.child par idx) → net.nodes[par]? = some (.parent src core) →
      core.peekLocal F.copy idx = .fill k → Recv F net src r n1 tr →
      Recv F net id r (n1.setNode par (.parent src (core.fill idx k r))) (tr ++ tag id r)
  | mergeEof {net : Net} {id : Nat} {sts : List Nat} :
      net.nodes[id]? = some (.merge sts []) → Recv F net id .eof net []
  | mergePipeItem {net : Net} {id sb sid : Nat} {sts chosen : List Nat} {p p' : Pipe} {x : Item} :
      net.nodes[id]? = some (.merge sts chosen) → sb ∈ chosen → sts[sb]? = some sid →
      net.nodes[sid]? = some (.pipe p) → p.recv = some (p', .item x) →
      Recv F net id (.item x) (net.setNode sid (.pipe p')) [(sid, x), (id, x)]
  | mergeFwdItem {net n1 : Net} {id sb sid src : Nat} {sts chosen : List Nat} {x : Item}
      {tr : List (Nat × Item)} :
      net.nodes[id]? = some (.merge sts chosen) → sb ∈ chosen → sts[sb]? = some sid →
      net.nodes[sid]? = some (.fpipe src .running) → Recv F net src (.item x) n1 tr →
      Recv F net id (.item x) n1 (tr ++ [(sid, x), (id, x)])
  | mergeDropPipe {net n2 : Net} {id sb sid : Nat} {sts chosen : List Nat} {p p' : Pipe} {r : Res}
      {tr : List (Nat × Item)} :
      net.nodes[id]? = some (.merge sts chosen) → sb ∈ chosen → sts[sb]? = some sid →
      net.nodes[sid]? = some (.pipe p) → p.recv = some (p', .eof) →
      Recv F (net.setNode id (.merge sts (chosen.erase sb))) id r n2 tr → Recv F net id r n2 tr
  | mergeDropFwd {net n1 n' n2 : Net} {id sb sid src cf : Nat} {sts chosen : List Nat} {r : Res}
      {tr1 tr2 : List (Nat × Item)} :
      net.nodes[id]? = some (.merge sts chosen) → sb ∈ chosen → sts[sb]? = some sid →
      net.nodes[sid]? = some (.fpipe src .running) → Recv F net src .eof n1 tr1 →
      fwdEnd F cf n1 sid src = some n' →
      Recv F (n'.setNode id (.merge sts (chosen.erase sb))) id r n2 tr2 →
      Recv F net id r n2 (tr1 ++ tr2)
  | mergeDropEnded {net n2 : Net} {id sb sid src : Nat} {sts chosen : List Nat} {r : Res}
      {tr : List (Nat × Item)} :
      net.nodes[id]? = some (.merge sts chosen) → sb ∈ chosen → sts[sb]? = some sid →
      net.nodes[sid]? = some (.fpipe src .ended) →
      Recv F (net.setNode id (.merge sts (chosen.erase sb))) id r n2 tr → Recv F net id r n2 tr

/-! ## well-formed networks -/

def Shp.isCell : Shp → Bool
  | .parent _ _ => true
  | _ => false

/-- invariants of the static shape -/
structure ShInv (net : Net) : Prop where
  lt : ∀ j u, Edge net j u → u < j
  usesKind : ∀ j s u, net.shp? j = some s → u ∈ s.uses → ∃ t, net.shp? u = some t ∧ t.isCell = false
  convSrc : ∀ j src g, net.shp? j = some (.conv src g) → ∃ t, net.shp? src = some t ∧ t.isReader = true
  parSrc : ∀ j src n, net.shp? j = some (.parent src n) → ∃ t, net.shp? src = some t ∧ t.isReader = true
  childPar : ∀ j par idx, net.shp? j = some (.child par idx) →
    ∃ src n, net.shp? par = some (.parent src n) ∧ idx < n
  mergeSrc : ∀ j sts sid, net.shp? j = some (.merge sts) → sid ∈ sts →
    net.shp? sid = some .pipe ∨ ∃ src, net.shp? sid = some (.fpipe src)
  fwdSrc : ∀ j src, net.shp? j = some (.fpipe src) → ∃ t, net.shp? src = some t ∧ t.isReader = true
  /-- every reader has at most one consumer -/
  lin : ∀ j j' s s' u, net.shp? j = some s → net.shp? j' = some s' → u ∈ s.uses → u ∈ s'.uses → j = j'
  usesNodup : ∀ j s, net.shp? j = some s → s.uses.Nodup
  childUniq : ∀ j j' par idx, net.shp? j = some (.child par idx) → net.shp? j' = some (.child par idx) → j = j'

/-- the readers the caller holds are consumed by nobody else -/
structure RdInv (net : Net) : Prop where
  free : ∀ r ∈ net.readers, ∀ j s, net.shp? j = some s → r ∉ s.uses
  kind : ∀ r ∈ net.readers, ∃ t, net.shp? r = some t ∧ t.isReader = true
  nodup : net.readers.Nodup

/-- invariants of the dynamic state -/
structure StInv (net : Net) : Prop where
  cursorLe : ∀ (j src : Nat) (core : CopyCore), net.nodes[j]? = some (Node.parent src core) →
    ∀ (i k : Nat), core.cursors[i]? = some (some k) → k ≤ core.log.length
  chosenLt : ∀ (j : Nat) (sts chosen : List Nat), net.nodes[j]? = some (Node.merge sts chosen) → ∀ sb ∈ chosen, sb < sts.length
  chosenNodup : ∀ (j : Nat) (sts chosen : List Nat), net.nodes[j]? = some (Node.merge sts chosen) → chosen.Nodup

structure Inv (net : Net) : Prop where
  sh : ShInv net
  rd : RdInv net
  st : StInv net

/-- the source facts the theorems are proved for (`Expected.C08.facts`, see `net_facts_match`) -/
structure GoodFacts (F : Facts) : Prop where
  copy : F.copy = ⟨true, true, true⟩
  tbl : tblOK F.tbl F.maxSel = true
  fwd : F.fwdCloses = true

/-! ## schedules -/

def Op.isRecv : Op → Bool
  | .recv _ _ => true
  | _ => false

/-- One enabled operation.  `Recv` is the relational semantics (a superset of `recvAll`); every
    other operation is `applyOp` of the network model. -/
inductive Step (F : Facts) (fuel : Nat) : Net → Op → Net → Prop where
  | recv {net net' : Net} {r : Nat} {obs : Res} {tr : List (Nat × Item)} :
      r ∈ net.readers → Recv F net r obs net' tr → Step F fuel net (.recv r obs) net'
  | other {net net' : Net} {op : Op} {cr : List Nat} :
      op.isRecv = false → applyOp F fuel net op = .ok (net', cr) → Step F fuel net op net'

inductive Behaves (F : Facts) (fuel : Nat) : Net → List Op → Net → Prop where
  | nil (net : Net) : Behaves F fuel net [] net
  | cons {net n1 n2 : Net} {op : Op} {ops : List Op} :
      Step F fuel net op n1 → Behaves F fuel n1 ops n2 → Behaves F fuel net (op :: ops) n2

/-- the items reader `r` is handed by the operation -/
def Op.got (r : Nat) : Op → List Item
  | .recv r' (.item x) => if r' = r then [x] else []
  | _ => []

/-- the items the writer of pipe `p` gets accepted by the operation -/
def Op.acc (p : Nat) : Op → List Item
  | .send p' it false => if p' = p then [it] else []
  | .feed p' its => if p' = p then its else []
  | _ => []

def gotBy (r : Nat) (ops : List Op) : List Item := ops.flatMap (Op.got r)
def accBy (ops : List Op) (p : Nat) : List Item := ops.flatMap (Op.acc p)

end EinoV.C08
