/-
  The superstep semantics of any-predecessor (Pregel) execution, as a small specification
  (readable in minutes).  A step is: every node holding at least one value runs once on the
  merge of exactly the values sent to it; its output goes to its data successors and to the
  targets its branch conditions select; END's merged inbox, once non-empty, is the result.

  No channels, no bookkeeping maps: the state between two steps is just the list of
  (node, input) pairs to run.
-/
import EinoV.Model.Engine

namespace EinoV.Spec
open EinoV.Engine

/-- what a finished node sends: (sender, output, targets) -/
abbrev Sent (V : Type) := Key × V × List Key

/-- targets of a finished task: what its branch conditions select, then its data successors -/
def sentOf {V} (r : Runner V) (d : Done V) : Except Err (Sent V) :=
  match r.call? d.1 with
  | none => pure (d.1, d.2, [])
  | some n => do
    let sel ← selectOf n d.2
    pure (d.1, d.2, sel ++ n.writeTo)

/-- the values delivered to node `t`: one per sender that targets `t` (and is a declared
    data predecessor of `t`), in completion order -/
def inbox {V} (r : Runner V) (sent : List (Sent V)) (t : Key) : List (Key × V) :=
  sent.filterMap (fun s =>
    if s.2.2.contains t && (lookupList t r.dataPreds).contains s.1 then some (s.1, s.2.1) else none)

/-- all keys that can hold values: the nodes, then END -/
def keys {V} (r : Runner V) : List Key := r.nodes.map (·.key) ++ [END]

/-- what the next step runs, or the result -/
def next {V} (ops : ValOps V) (r : Runner V) (done : List (Done V)) : Except Err (Next V) := do
  let sent ← done.mapM (sentOf r)
  let got := (keys r).map (fun t => (t, collect ops ((inbox r sent t).map (·.2))))
  if got.any (fun g => match g.2 with | .mergeErr => true | _ => false) then throw { cls := .merge } else
  let ready := got.filterMap (fun g => match g.2 with | .ready v => some (g.1, v) | _ => none)
  match alookup END ready with
  | some v => pure (.result v)
  | none => pure (.tasks ready)

/-- the run: at most `fuel` steps, then the max-steps error -/
def loop {V} (ops : ValOps V) (r : Runner V) (sched : Sched V) :
    Nat → List (Key × V) → Trace V → Outcome V
  | 0, _, tr => { result := .error { cls := .maxSteps }, trace := tr.reverse }
  | fuel + 1, tasks, tr =>
    let tr' := tasks :: tr
    match runTasks r sched tr.length tasks with
    | .error e => { result := .error e, trace := tr'.reverse }
    | .ok done =>
      if done.isEmpty then { result := .error { cls := .noTasks }, trace := tr'.reverse } else
      match next ops r done with
      | .error e => { result := .error e, trace := tr'.reverse }
      | .ok (.result v) => { result := .ok v, trace := tr'.reverse }
      | .ok (.tasks ts) => loop ops r sched fuel ts tr'

def run {V} (ops : ValOps V) (r : Runner V) (sched : Sched V) (input : V) : Outcome V :=
  match next ops r [(START, input)] with
  | .error e => { result := .error e, trace := [] }
  | .ok (.result v) => { result := .ok v, trace := [] }
  | .ok (.tasks ts) => loop ops r sched r.maxSteps ts []

end EinoV.Spec
