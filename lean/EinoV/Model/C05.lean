/-
  C05 / C06 — the compose run loop with interrupts, checkpoints and resume
  (graph_run.go `runner.run`, `resolveInterruptCompletedTasks`, `getHitKey`, `handleInterrupt`,
  `handleInterruptWithSubGraphAndRerunNodes`, `restoreTasks`, `createTasks`;
  checkpoint.go `checkpoint`, `forwardCheckPoint`; graph_manager.go `submit` / `waitOne`).

  Built on the engine model (`Engine.lean`): channels, `resolve`, `updateValues`, `updateDeps`,
  `getReady`, `calcNext` are re-used unchanged.  Value mode, batch collection (`needAll`, i.e.
  every graph that is not a Workflow).

  Parameters of the model:
    V  values,  S  the graph's local state,  X  what an interrupted nested graph hands to its
    parent (its checkpoint and interrupt info; opaque at this level — the parent only stores
    it under `SubGraphs[key]` and hands it back to the same node on resume).
  Source facts are explicit parameters (`Cfg`): whether the tasks computed from START are
  checked against the interrupt-before list, and whether the resumed run's context keeps the
  checkpoint so that `createTasks` → `forwardCheckPoint` re-applies nested checkpoints.
-/
import EinoV.Model.Engine

namespace EinoV.Interrupt
open EinoV.Engine

/-- `InterruptInfo` -/
structure Info (S X : Type) where
  state : S
  before : List Key := []
  after : List Key := []
  rerun : List Key := []
  subs : List (Key × X) := []

/-- `checkpoint` -/
structure Checkpoint (V S X : Type) where
  chans : Chans V                 -- Channels
  inputs : List (Key × V)         -- Inputs
  skipPre : List Key              -- SkipPreHandler (keys mapped to true)
  state : S                       -- State
  subs : List (Key × X)           -- SubGraphs

/-- observable events of one call of `runner.run`, at the level of the graph being run; what
    happens inside a node that is itself a graph is kept as a `nested` block under the node key -/
inductive Ev (V S X : Type) where
  | step (tasks : List (Key × Bool))      -- a superstep submits these tasks (flag: the task was
                                          -- handed a nested checkpoint by `forwardCheckPoint`)
  | start (k : Key) (input : V)           -- node `k` begins executing on `input` (after its pre-handler)
  | finish (k : Key)                      -- node `k` completed with an output
  | nested (k : Key) (evs : List (Ev V S X))  -- events of the run nested in node `k`
  | interrupt (info : Info S X)           -- the run returns an interrupt carrying `info`
  | storeSet                              -- `checkPointer.set` under the caller's id

/-- what a node body can do -/
inductive BodyRes (V S X : Type) where
  | done (out : V) (s : S)
  | rerun (s : S)                 -- returned `InterruptAndRerun`
  | subInt (x : X) (s : S)        -- a nested graph interrupted (`subGraphInterruptError`)
  | fail (e : Err) (s : S)

structure BodyOut (V S X : Type) where
  res : BodyRes V S X
  evs : List (Ev V S X) := []     -- events of a nested run (relative paths)

/-- a node as the interrupt-aware engine sees it: optional state pre/post handlers
    (`preProcessor` / `postProcessor`) and a resumable body -/
structure INode (V S X : Type) where
  key : Key
  pre : Option (V → S → V × S) := none
  body : V → S → Option X → BodyOut V S X
  post : Option (V → S → V × S) := none

structure IRunner (V S X : Type) where
  base : Runner V                 -- topology: channels, edges, branches (node `act`s unused)
  inodes : List (INode V S X)
  intBefore : List Key := []
  intAfter : List Key := []
  initState : S                   -- what `WithGenLocalState` produces

/-- the source facts the run depends on -/
structure Cfg where
  initialTasksChecked : Bool      -- getHitKey consulted for the tasks computed from START
  fwdStale : Bool                 -- checkpoint still in the loop's ctx after restoreTasks

def IRunner.inode? {V S X} (r : IRunner V S X) (k : Key) : Option (INode V S X) :=
  r.inodes.find? (·.key == k)

/-- interrupts switched off (the reference run) -/
def IRunner.plain {V S X} (r : IRunner V S X) : IRunner V S X :=
  { r with intBefore := [], intAfter := [] }

structure Task (V X : Type) where
  key : Key
  input : V
  skipPre : Bool := false
  sub : Option X := none          -- nested checkpoint handed down by `forwardCheckPoint`

/-- the state of the main loop at a superstep boundary -/
structure LoopSt (V S X : Type) where
  cm : Chans V
  tasks : List (Task V X)
  st : S
  stale : List (Key × X) := []    -- SubGraphs of the checkpoint still carried by the run's ctx

/-- result of one task after its post-handler -/
inductive TaskOut (V X : Type) where
  | done (out : V)
  | rerun
  | subInt (x : X)
  | fail (e : Err)

/-- completion order of a superstep's tasks -/
abbrev ISched (V S X : Type) := List (Key × BodyRes V S X) → List (Key × BodyRes V S X)

def ISched.id {V S X} : ISched V S X := fun l => l

/-! ### one superstep -/

/-- `getHitKey` -/
def hitKeys {V} (ts : List (Key × V)) (keys : List Key) : List Key :=
  ts.flatMap (fun t => (keys.filter (· == t.1)).map (fun _ => t.1))

/-- `createTasks` (+ `forwardCheckPoint` against the checkpoint carried by the ctx) -/
def mkTasks {V X} (stale : List (Key × X)) (ts : List (Key × V)) : List (Task V X) :=
  ts.map (fun t => { key := t.1, input := t.2, skipPre := false, sub := alookup t.1 stale })

/-- `restoreTasks` -/
def restoreTasks {V X} (inputs : List (Key × V)) (skip : List Key) (subs : List (Key × X)) : List (Task V X) :=
  inputs.map (fun t => { key := t.1, input := t.2, skipPre := skip.contains t.1, sub := alookup t.1 subs })

/-- the pre-handler of one task (`currentTask.call.preProcessor != nil && !currentTask.skipPreHandler`) -/
def preOne {V S X} (r : IRunner V S X) (t : Task V X) (st : S) : Task V X × S :=
  match r.inode? t.key with
  | none => (t, st)
  | some n =>
    match n.pre with
    | none => (t, st)
    | some h => if t.skipPre then (t, st) else ({ t with input := (h t.input st).1 }, (h t.input st).2)

/-- pre-handlers of `taskManager.submit`, in submission order -/
def runPres {V S X} (r : IRunner V S X) : List (Task V X) → S → List (Task V X) × S
  | [], st => ([], st)
  | t :: rest, st =>
    let p := preOne r t st
    let q := runPres r rest p.2
    (p.1 :: q.1, q.2)

def BodyRes.st {V S X} : BodyRes V S X → S
  | .done _ s => s | .rerun s => s | .subInt _ s => s | .fail _ s => s

/-- the body of one task (a node without an `INode` entry behaves as a pass-through) -/
def bodyOne {V S X} (r : IRunner V S X) (t : Task V X) (st : S) : BodyOut V S X :=
  match r.inode? t.key with
  | none => { res := .done t.input st }
  | some n => n.body t.input st t.sub

/-- events of one task: its start, what a nested run did, its completion -/
def taskEvs {V S X} (t : Task V X) (bo : BodyOut V S X) : List (Ev V S X) :=
  (Ev.start t.key t.input :: (if bo.evs.isEmpty then [] else [Ev.nested t.key bo.evs])) ++
  (match bo.res with | .done _ _ => [Ev.finish t.key] | _ => [])

/-- node bodies of one batch -/
def runBodies {V S X} (r : IRunner V S X) : List (Task V X) → S →
    List (Key × BodyRes V S X) × S × List (Ev V S X)
  | [], st => ([], st, [])
  | t :: rest, st =>
    let bo := bodyOne r t st
    let q := runBodies r rest bo.res.st
    ((t.key, bo.res) :: q.1, q.2.1, taskEvs t bo ++ q.2.2)

/-- the post-handler of one collected task (`waitOne`) -/
def postOne {V S X} (r : IRunner V S X) (k : Key) (res : BodyRes V S X) (st : S) : TaskOut V X × S :=
  match res with
  | .done out _ =>
    (match (r.inode? k).bind (·.post) with
     | none => (.done out, st)
     | some h => (.done (h out st).1, (h out st).2))
  | .rerun _ => (.rerun, st)
  | .subInt x _ => (.subInt x, st)
  | .fail e _ => (.fail e, st)

/-- post-handlers, in completion order -/
def runPosts {V S X} (r : IRunner V S X) : List (Key × BodyRes V S X) → S → List (Key × TaskOut V X) × S
  | [], st => ([], st)
  | kr :: rest, st =>
    let p := postOne r kr.1 kr.2 st
    let q := runPosts r rest p.2
    ((kr.1, p.1) :: q.1, q.2)

/-- first failure in completion order (`resolveInterruptCompletedTasks` returns it wrapped) -/
def firstFail {V X} : List (Key × TaskOut V X) → Option Err
  | [] => none
  | (k, .fail e) :: _ => some (e.wrapNode k)
  | _ :: rest => firstFail rest

def doneOf {V X} : List (Key × TaskOut V X) → List (Done V)
  | [] => []
  | (k, .done o) :: rest => (k, o) :: doneOf rest
  | _ :: rest => doneOf rest

def rerunOf {V X} : List (Key × TaskOut V X) → List Key
  | [] => []
  | (k, .rerun) :: rest => k :: rerunOf rest
  | _ :: rest => rerunOf rest

def subIntOf {V X} : List (Key × TaskOut V X) → List (Key × X)
  | [] => []
  | (k, .subInt x) :: rest => (k, x) :: subIntOf rest
  | _ :: rest => subIntOf rest

/-- interrupt-after hits among the completed tasks -/
def afterHits {V} (intAfter : List Key) (dones : List (Done V)) : List Key :=
  (dones.map (·.1)).filter intAfter.contains

/-- outcome of the part of a superstep that does not depend on the interrupt sets -/
inductive CoreOut (V S X : Type) where
  | done (v : V)
  | fail (e : Err)
  /-- a nested graph interrupted / a node asked for a rerun: channels with the other finished
      tasks folded in, the keys to restore, the nested payloads, the rerun keys, the finished tasks -/
  | sr (cm : Chans V) (restore : List Key) (subs : List (Key × X)) (reruns : List Key) (dones : List (Done V)) (st : S)
  /-- first `calculateNextTasks` done: channels, next tasks, the finished tasks -/
  | next (cm : Chans V) (ts : List (Key × V)) (dones : List (Done V)) (st : S)

def TaskOut.isSR {V X} : TaskOut V X → Bool
  | .subInt _ => true | .rerun => true | _ => false

/-- wait + resolve + first calculateNextTasks, from the collected body results -/
def coreOut {V S X} (ops : ValOps V) (r : IRunner V S X) (sched : ISched V S X) (cm : Chans V)
    (bres : List (Key × BodyRes V S X)) (st2 : S) : CoreOut V S X :=
  let po := runPosts r (sched bres) st2
  let coll := po.1
  let st3 := po.2
  match firstFail coll with
  | some e => .fail e
  | none =>
    let dones := doneOf coll
    let subs := subIntOf coll
    let reruns := rerunOf coll
    if !subs.isEmpty || !reruns.isEmpty then
      -- handleInterruptWithSubGraphAndRerunNodes: fold the other finished tasks, no `get`
      match resolve r.base cm dones with
      | .error e => .fail e
      | .ok res =>
        let cm1 := updateValues r.base res.cm res.writes
        let cm2 := updateDeps r.base cm1 res.deps
        .sr cm2 ((coll.filter (fun o => o.2.isSR)).map (·.1)) subs reruns dones st3
    else if coll.isEmpty then .fail { cls := .noTasks }
    else
      match calcNext ops r.base cm dones with
      | .error e => .fail e
      | .ok (_, .result v) => .done v
      | .ok (cm', .tasks ts) => .next cm' ts dones st3

/-- the tasks a superstep submits, as the trace shows them -/
def stepTasks {V S X} (r : IRunner V S X) (ls : LoopSt V S X) : List (Key × Bool) :=
  (runPres r ls.tasks ls.st).1.map (fun t => (t.key, t.sub.isSome))

/-- submit + wait + resolve + first calculateNextTasks -/
def stepCore {V S X} (ops : ValOps V) (r : IRunner V S X) (sched : ISched V S X) (ls : LoopSt V S X) :
    List (Ev V S X) × CoreOut V S X :=
  let p := runPres r ls.tasks ls.st
  let b := runBodies r p.1 p.2
  (Ev.step (stepTasks r ls) :: b.2.2, coreOut ops r sched ls.cm b.1 b.2.1)

/-- what one iteration of the main loop ends in -/
inductive StepOut (V S X : Type) where
  | done (v : V)
  | fail (e : Err)
  | next (ls : LoopSt V S X)
  | intr (cp : Checkpoint V S X) (info : Info S X)

/-- `handleInterrupt`: the checkpoint is exactly the loop state the run was about to continue with -/
def simpleCP {V S X} (cm : Chans V) (ts : List (Key × V)) (st : S) : Checkpoint V S X :=
  { chans := cm, inputs := ts, skipPre := [], state := st, subs := [] }

/-- the interrupt decisions after the first calculateNextTasks -/
def finishStep {V S X} (ops : ValOps V) (r : IRunner V S X) (stale : List (Key × X)) :
    CoreOut V S X → StepOut V S X
  | .done v => .done v
  | .fail e => .fail e
  | .sr cm restore subs reruns dones st =>
    .intr
      { chans := cm, inputs := restore.map (fun k => (k, ops.zero)), skipPre := subs.map (·.1), state := st, subs := subs }
      { state := st, after := afterHits r.intAfter dones, rerun := reruns, subs := subs }
  | .next cm ts dones st =>
    let before := hitKeys ts r.intBefore
    let after := afterHits r.intAfter dones
    if before.isEmpty && after.isEmpty then
      .next { cm := cm, tasks := mkTasks stale ts, st := st, stale := stale }
    else
      -- waitAll returns nothing in batch mode; calculateNextTasks is called once more
      match calcNext ops r.base cm [] with
      | .error e => .fail e
      | .ok (_, .result v) => .done v
      | .ok (cm2, .tasks ts2) =>
        .intr (simpleCP cm2 (ts ++ ts2) st)
          { state := st, before := before ++ hitKeys ts2 r.intBefore, after := after }

/-- one iteration of `for step := 0; ; step++` after the step guard -/
def stepI {V S X} (ops : ValOps V) (r : IRunner V S X) (sched : ISched V S X) (ls : LoopSt V S X) :
    List (Ev V S X) × StepOut V S X :=
  ((stepCore ops r sched ls).1, finishStep ops r ls.stale (stepCore ops r sched ls).2)

/-- result of one call of `runner.run` -/
inductive Res (V S X : Type) where
  | done (v : V)
  | interrupted (cp : Checkpoint V S X) (info : Info S X)
  | failed (e : Err)

structure Out (V S X : Type) where
  res : Res V S X
  evs : List (Ev V S X)

/-- events of returning an interrupt: the error carries the info; the store is written only by
    a top-level run that was given a checkpoint id (fact `storeOnlyTopLevelWithID`) -/
def intrEvs {V S X} (isSub hasID : Bool) (info : Info S X) : List (Ev V S X) :=
  .interrupt info :: (if !isSub && hasID then [.storeSet] else [])

/-- the main loop; `fuel` = remaining step budget (`step >= maxSteps` guard) -/
def loopI {V S X} (ops : ValOps V) (r : IRunner V S X) (sched : ISched V S X) (isSub hasID : Bool) :
    Nat → LoopSt V S X → Out V S X
  | 0, _ => { res := .failed { cls := if r.base.dag then .fuel else .maxSteps }, evs := [] }
  | fuel + 1, ls =>
    match (stepI ops r sched ls).2 with
    | .done v => { res := .done v, evs := (stepI ops r sched ls).1 }
    | .fail e => { res := .failed e, evs := (stepI ops r sched ls).1 }
    | .intr cp info => { res := .interrupted cp info, evs := (stepI ops r sched ls).1 ++ intrEvs isSub hasID info }
    | .next ls' =>
      { res := (loopI ops r sched isSub hasID fuel ls').res,
        evs := (stepI ops r sched ls).1 ++ (loopI ops r sched isSub hasID fuel ls').evs }

/-- `channelManager.loadChannels`: every channel of the fresh manager that the checkpoint has is replaced -/
def loadChans {V} (init cp : Chans V) : Chans V :=
  init.map (fun p => (p.1, (alookup p.1 cp).getD p.2))

/-- the resume branch of `runner.run`: load channels, restore state, rebuild the pending tasks -/
def restore {V S X} (cfg : Cfg) (r : IRunner V S X) (cp : Checkpoint V S X) : LoopSt V S X :=
  { cm := loadChans (initChans r.base) cp.chans,
    tasks := restoreTasks cp.inputs cp.skipPre cp.subs,
    st := cp.state,
    stale := if cfg.fwdStale then cp.subs else [] }

/-- `runner.run` with interrupts: a fresh input or a checkpoint to resume from.
    The step counter starts at 0 in both cases. -/
def runI {V S X} (ops : ValOps V) (cfg : Cfg) (r : IRunner V S X) (sched : ISched V S X) (isSub hasID : Bool) :
    V ⊕ Checkpoint V S X → Out V S X
  | .inr cp => loopI ops r sched isSub hasID r.base.fuel (restore cfg r cp)
  | .inl x =>
    match calcNext ops r.base (initChans r.base) [(START, x)] with
    | .error e => { res := .failed e, evs := [] }
    | .ok (_, .result v) => { res := .done v, evs := [] }
    | .ok (cm, .tasks ts) =>
      let hit := hitKeys ts r.intBefore
      if cfg.initialTasksChecked && !hit.isEmpty then
        let info : Info S X := { state := r.initState, before := hit }
        { res := .interrupted (simpleCP cm ts r.initState) info, evs := intrEvs isSub hasID info }
      else
        loopI ops r sched isSub hasID r.base.fuel { cm := cm, tasks := mkTasks [] ts, st := r.initState, stale := [] }

/-- a caller that passes the same checkpoint id again until the run completes (at most `calls` calls);
    the store hands back exactly what was written -/
def resumeLoop {V S X} (ops : ValOps V) (cfg : Cfg) (r : IRunner V S X) (sched : ISched V S X) :
    Nat → V ⊕ Checkpoint V S X → List (Out V S X)
  | 0, _ => []
  | n + 1, inp =>
    let o := runI ops cfg r sched false true inp
    match o.res with
    | .interrupted cp _ => o :: resumeLoop ops cfg r sched n (.inr cp)
    | _ => [o]

def resumeUntilDone {V S X} (ops : ValOps V) (cfg : Cfg) (r : IRunner V S X) (sched : ISched V S X)
    (calls : Nat) (x : V) : List (Out V S X) :=
  resumeLoop ops cfg r sched calls (.inl x)

/-- the uninterrupted reference run -/
def run₀ {V S X} (ops : ValOps V) (cfg : Cfg) (r : IRunner V S X) (sched : ISched V S X) (x : V) : Out V S X :=
  runI ops cfg r.plain sched false false (.inl x)

/-! ### projections used by the property statements -/

def Ev.isObs {V S X} : Ev V S X → Bool
  | .step .. => true | .start .. => true | .finish .. => true | .nested .. => true | _ => false

/-- everything the nodes did (supersteps, node starts with inputs, completions, nested runs) -/
def obsEvs {V S X} (evs : List (Ev V S X)) : List (Ev V S X) := evs.filter Ev.isObs

/-- node executions of this level with their inputs -/
def execLog {V S X} : List (Ev V S X) → List (Key × V)
  | [] => []
  | .start k v :: rest => (k, v) :: execLog rest
  | _ :: rest => execLog rest

/-- supersteps of the graph itself -/
def topSteps {V S X} : List (Ev V S X) → List (List (Key × Bool))
  | [] => []
  | .step ts :: rest => ts :: topSteps rest
  | _ :: rest => topSteps rest

def Out.finalOf {V S X} : List (Out V S X) → Option (Res V S X)
  | [] => none
  | [o] => some o.res
  | _ :: rest => Out.finalOf rest

end EinoV.Interrupt
