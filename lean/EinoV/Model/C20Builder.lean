/-
  Shared builder model for C20 and C07 (compose/graph.go: addNode, addEdgeWithMappings,
  addBranch, addToValidateMap, updateToValidateMap, compile, validateDAG;
  compose/utils.go checkAssignable).  Core Lean only: compiled into oracle_C20 / oracle_C07.

  What is modelled, statement by statement:
  * the sticky `buildError`, the `compiled` flag and the deferred store of the error
    (presence of each guard is a source fact: `Guards`);
  * every rejection check of the three Add* functions, in source order;
  * the work list `toValidateMap` (Go map start → slice of pending ends) and the fixpoint
    loop of `updateToValidateMap`, *including* its read of the start node's type once per
    start key (the local `startNodeOutputType` is not refreshed after the start node is
    typed inside the inner loop);  Go's random map iteration order is an explicit
    parameter (`Ord`): an arbitrary function choosing the order from the whole state;
  * `addBranch`'s typing of a pass-through start node (fact `branchGuarded`: is the
    assignment guarded by "type still unknown"; fact `branchPropagates`: is the work list
    run after the typing even when the branch contributes no data edge);
  * `compile`: option checks, entry/exit, unresolved types, duplicate mapping targets,
    the append to `handlerPreNode` (fact `compileMutates`), Kahn's loop, step-limit rule.

  Not modelled here: input/output key options (Model/C20Keys.lean puts them on top), graphs as
  nodes (Model/C20Wf.lean, Model/C20Nest.lean), the contents of field mappings (an edge only
  says whether it has mappings and to which target field), callbacks, checkpoints.

  After an error the Go code may leave the maps half-updated; nothing can observe that
  (every later call returns the stored error first), so the model keeps the pre-call state
  and only stores the error.
-/
namespace EinoV.Build

abbrev Key := String

def START : Key := "start"
def END : Key := "end"

/-! ## types and assignability (utils.go checkAssignable) -/

inductive Ty where
  | conc (id : Nat)    -- a concrete (non-interface) Go type: string, int, struct, map[string]any, …
  | iface (id : Nat)   -- a non-empty interface type
  | any                -- interface{}
  deriving DecidableEq, Repr, Inhabited

def Ty.isIface : Ty → Bool
  | .conc _ => false
  | _ => true

/-- finite `implements` relation: pairs (type, interface id) for which
    `reflect.Type.Implements` is true, beyond the reflexive and `any` cases. -/
abbrev Impl := List (Ty × Nat)

/-- `t.Implements(u)` (u an interface type; false for a concrete `u`, where Go would panic –
    the code never asks). -/
def implements (im : Impl) (t : Ty) : Ty → Bool
  | .any => true
  | .iface j => t == .iface j || im.contains (t, j)
  | .conc _ => false

inductive Asg where
  | mustNot | must | may
  deriving DecidableEq, Repr, Inhabited

/-- utils.go `checkAssignable(input, arg)`; `none` is a nil `reflect.Type`. -/
def checkAssignable (im : Impl) : Option Ty → Option Ty → Asg
  | some i, some a =>
    if a = i then .must
    else if a.isIface && implements im i a then .must
    else if i.isIface then (if implements im a i then .may else .mustNot)
    else .mustNot
  | _, _ => .mustNot

/-! ## builder state -/

inductive ErrKind where
  -- addNode
  | reserved | dupNode | needState | nodeKeyOpt
  | preStateTy | prePassthroughNotAny | preTy
  | postStateTy | postPassthroughNotAny | postTy
  -- addEdgeWithMappings
  | edgeBothNo | endAsStart | startAsEnd | unknownStart | unknownEnd
  | dupControl | dupData | edgeMismatch
  -- addBranch
  | branchUnknownStart | branchSingle | branchMismatch | branchUnknownEnd
  -- compile
  | triggerModeOnChain | getStateOutsideWorkflow | noStart | noEnd | uninferred
  | dupMapTarget | dagLoop | maxStepsInDag
  deriving DecidableEq, Repr, Inhabited

/-- what one call returns, as far as a caller can tell without reading message text -/
inductive Outcome where
  | ok
  | fresh (k : ErrKind)    -- a new error value
  | stored (k : ErrKind)   -- the very error value kept in `g.buildError`
  | compiled               -- `ErrGraphCompiled`
  | panic                  -- the call does not return: a run-time panic escapes it
  deriving DecidableEq, Repr, Inhabited

def Outcome.isOk : Outcome → Bool
  | .ok => true
  | _ => false

structure Node where
  key : Key
  passthrough : Bool
  inTy : Option Ty
  outTy : Option Ty
  deriving DecidableEq, Repr, Inhabited

structure PEdge where
  dst : Key
  mapped : Option Nat     -- some t: the edge carries field mappings, target field id t
  deriving DecidableEq, Repr, Inhabited

structure BranchRec where
  src : Key
  inTy : Ty
  ends : List Key
  noData : Bool
  deriving DecidableEq, Repr, Inhabited

inductive Cmp where
  | graph | chain | workflow
  deriving DecidableEq, Repr, Inhabited

structure Builder where
  cmp : Cmp
  inT : Ty
  outT : Ty
  stateTy : Option Nat            -- `some s`: state generator present, state type id s
  nodes : List Node               -- g.nodes (insertion order; never iterated order-sensitively)
  controlEdges : List (Key × Key)
  dataEdges : List (Key × Key)
  branches : List BranchRec
  startNodes : List Key
  endNodes : List Key
  toValidate : List (Key × List PEdge)   -- g.toValidateMap: keys stay once inserted
  fmRecords : List (Key × Nat)           -- g.fieldMappingRecords: (end node, target field)
  mayEdges : List (Key × Key)            -- g.handlerOnEdges entries that are run-time type checks
  mapEdges : List (Key × Key)            -- g.handlerOnEdges entries that are field mappers
  preBranch : List (Key × Bool)          -- g.handlerPreBranch: per added branch, in order: (start, has converter)
  preNode : List (Key × Nat)             -- g.handlerPreNode: number of converters per node
  buildError : Option ErrKind
  compiled : Bool
  deriving DecidableEq, Repr, Inhabited

def Builder.new (cmp : Cmp) (inT outT : Ty) (stateTy : Option Nat) : Builder :=
  { cmp, inT, outT, stateTy, nodes := [], controlEdges := [], dataEdges := [], branches := [],
    startNodes := [], endNodes := [], toValidate := [], fmRecords := [], mayEdges := [],
    mapEdges := [], preBranch := [], preNode := [], buildError := none, compiled := false }

def findNode : List Node → Key → Option Node
  | [], _ => none
  | n :: ns, k => if n.key = k then some n else findNode ns k

def Builder.hasNode (b : Builder) (k : Key) : Bool := (findNode b.nodes k).isSome

/-- `g.getNodeInputType` -/
def Builder.nodeIn (b : Builder) (k : Key) : Option Ty :=
  if k = START then some b.inT else if k = END then some b.outT else
  match findNode b.nodes k with
  | some n => n.inTy
  | none => none

/-- `g.getNodeOutputType` -/
def Builder.nodeOut (b : Builder) (k : Key) : Option Ty :=
  if k = START then some b.inT else if k = END then some b.outT else
  match findNode b.nodes k with
  | some n => n.outTy
  | none => none

def setTyIn : List Node → Key → Ty → List Node
  | [], _, _ => []
  | n :: ns, k, t =>
    if n.key = k then { n with inTy := some t, outTy := some t } :: ns else n :: setTyIn ns k t

/-- `g.nodes[k].cr.inputType = t; g.nodes[k].cr.outputType = t` -/
def Builder.setTy (b : Builder) (k : Key) (t : Ty) : Builder :=
  { b with nodes := setTyIn b.nodes k t }

/-! ## source facts the functions are parametric in -/

/-- per Add* function: `if g.buildError != nil {return g.buildError}` first,
    `if g.compiled {return ErrGraphCompiled}` second, deferred `g.buildError = err`. -/
structure Guards where
  checkErr : Bool
  checkCompiled : Bool
  storeErr : Bool
  deriving DecidableEq, Repr, Inhabited

structure Facts where
  nodeG : Guards
  edgeG : Guards
  branchG : Guards
  /-- addBranch types a pass-through start node only while its type is still unknown -/
  branchGuarded : Bool
  /-- addBranch runs the work list after typing, whatever the number of end nodes -/
  branchPropagates : Bool
  /-- compile appends to the builder-owned `g.handlerPreNode` (which the runner aliases) -/
  compileMutates : Bool
  /-- compile refuses a graph that still has a node without input/output type (a pass-through
      node no edge or branch ever touched); without the check the nil `genericHelper` of that
      node is dereferenced when the checkpointer tables are built -/
  compileChecksTypes : Bool
  deriving DecidableEq, Repr, Inhabited

/-- Go map iteration orders: the adversary picks the visiting order from the whole state. -/
structure Ord where
  keys : Builder → List Key → List Key    -- `for startNode := range g.toValidateMap`
  ends : Builder → List Key → List Key    -- `for endNode := range branch.endNodes`
  kahn : List (Key × Int) → List Key → List Key  -- `for node := range m` in validateDAG

def Ord.id : Ord := { keys := fun _ l => l, ends := fun _ l => l, kahn := fun _ l => l }

structure Ord.Valid (o : Ord) : Prop where
  keys : ∀ b l, (o.keys b l).Perm l
  ends : ∀ b l, (o.ends b l).Perm l
  kahn : ∀ m l, (o.kahn m l).Perm l

/-! ## the work list -/

def addPending : List (Key × List PEdge) → Key → PEdge → List (Key × List PEdge)
  | [], s, e => [(s, [e])]
  | (k, l) :: rest, s, e => if k = s then (k, l ++ [e]) :: rest else (k, l) :: addPending rest s e

/-- `g.addToValidateMap` -/
def Builder.addToValidate (b : Builder) (s : Key) (e : PEdge) : Builder :=
  { b with toValidate := addPending b.toValidate s e }

def getSlice : List (Key × List PEdge) → Key → List PEdge
  | [], _ => []
  | (k, l) :: rest, s => if k = s then l else getSlice rest s

def setSlice : List (Key × List PEdge) → Key → List PEdge → List (Key × List PEdge)
  | [], _, _ => []
  | (k, l) :: rest, s, nl => if k = s then (k, nl) :: rest else (k, l) :: setSlice rest s nl

def pendingCount (tv : List (Key × List PEdge)) : Nat :=
  (tv.map (fun p => p.2.length)).sum

/-- inner loop of `updateToValidateMap` for one start key `s`; `sTy` is the local
    `startNodeOutputType`, read once before the loop.  Returns the new state, the entries
    that stay in the slice, and whether something was removed. -/
def procEntries (im : Impl) (s : Key) (sTy : Option Ty) :
    List PEdge → Builder → List PEdge → Bool → Except ErrKind (Builder × List PEdge × Bool)
  | [], b, kept, ch => .ok (b, kept.reverse, ch)
  | pe :: rest, b, kept, ch =>
    match sTy, b.nodeIn pe.dst with
    | none, none => procEntries im s sTy rest b (pe :: kept) ch
    | some st, none => procEntries im s sTy rest (b.setTy pe.dst st) kept true
    | none, some et => procEntries im s sTy rest (b.setTy s et) kept true
    | some st, some et =>
      match pe.mapped with
      | some t =>
        procEntries im s sTy rest
          { b with mapEdges := b.mapEdges ++ [(s, pe.dst)], fmRecords := b.fmRecords ++ [(pe.dst, t)] }
          kept true
      | none =>
        match checkAssignable im (some st) (some et) with
        | .mustNot => .error .edgeMismatch
        | .may => procEntries im s sTy rest { b with mayEdges := b.mayEdges ++ [(s, pe.dst)] } kept true
        | .must => procEntries im s sTy rest b kept true

/-- one pass `for startNode := range g.toValidateMap` in the given key order -/
def updRound (im : Impl) : List Key → Builder → Bool → Except ErrKind (Builder × Bool)
  | [], b, ch => .ok (b, ch)
  | s :: ks, b, ch =>
    match procEntries im s (b.nodeOut s) (getSlice b.toValidate s) b [] false with
    | .error k => .error k
    | .ok (b', kept, ch') =>
      updRound im ks { b' with toValidate := setSlice b'.toValidate s kept } (ch || ch')

/-- `for { … if !hasChanged {break} }` – every changing pass removes an entry, so
    `pendingCount + 1` passes always suffice (`updLoop_fix` in Proofs/C20Infer.lean). -/
def updLoop (im : Impl) (ord : Ord) : Nat → Builder → Except ErrKind Builder
  | 0, b => .ok b
  | fuel + 1, b =>
    match updRound im (ord.keys b (b.toValidate.map (·.1))) b false with
    | .error k => .error k
    | .ok (b', ch) => if ch then updLoop im ord fuel b' else .ok b'

/-- `g.updateToValidateMap()` -/
def update (im : Impl) (ord : Ord) (b : Builder) : Except ErrKind Builder :=
  updLoop im ord (pendingCount b.toValidate + 1) b

/-! ## addNode -/

structure Handler where
  stateTy : Nat     -- the S of WithStatePreHandler[I,S]
  ty : Ty           -- the I (pre) / O (post)
  deriving DecidableEq, Repr, Inhabited

structure NodeSpec where
  key : Key
  passthrough : Bool
  inTy : Ty           -- ignored for a pass-through node
  outTy : Ty
  pre : Option Handler
  post : Option Handler
  nodeKeyOpt : Bool   -- WithNodeKey given
  deriving DecidableEq, Repr, Inhabited

def NodeSpec.node (n : NodeSpec) : Node :=
  if n.passthrough then { key := n.key, passthrough := true, inTy := none, outTy := none }
  else { key := n.key, passthrough := false, inTy := some n.inTy, outTy := some n.outTy }

/-- the checks of addNode after the guards, in source order -/
def addNodeCheck (b : Builder) (n : NodeSpec) : Option ErrKind :=
  if n.key = END || n.key = START then some .reserved
  else if b.hasNode n.key then some .dupNode
  else if (n.pre.isSome || n.post.isSome) && b.stateTy.isNone then some .needState
  else if n.nodeKeyOpt && b.cmp != .chain then some .nodeKeyOpt
  else
    let preE : Option ErrKind :=
      match n.pre with
      | none => none
      | some h =>
        if b.stateTy != some h.stateTy then some .preStateTy
        else if n.passthrough then (if h.ty != .any then some .prePassthroughNotAny else none)
        else if n.inTy != h.ty then some .preTy else none
    match preE with
    | some e => some e
    | none =>
      match n.post with
      | none => none
      | some h =>
        if b.stateTy != some h.stateTy then some .postStateTy
        else if n.passthrough then (if h.ty != .any then some .postPassthroughNotAny else none)
        else if n.outTy != h.ty then some .postTy else none

/-- common prologue / epilogue of the three Add* functions -/
def guarded (g : Guards) (b : Builder) (body : Except ErrKind Builder) : Builder × Outcome :=
  match (if g.checkErr then b.buildError else none) with
  | some k => (b, .stored k)
  | none =>
    if g.checkCompiled && b.compiled then (b, .compiled) else
    match body with
    | .ok b' => (b', .ok)
    | .error k => (if g.storeErr then { b with buildError := some k } else b, .fresh k)

def addNode (f : Facts) (b : Builder) (n : NodeSpec) : Builder × Outcome :=
  guarded f.nodeG b <|
    match addNodeCheck b n with
    | some k => .error k
    | none => .ok { b with nodes := b.nodes ++ [n.node] }

/-! ## addEdgeWithMappings -/

def addEdgeBody (im : Impl) (ord : Ord) (b : Builder) (s e : Key) (noControl noData : Bool)
    (mapped : Option Nat) : Except ErrKind Builder :=
  if s = END then .error .endAsStart
  else if e = START then .error .startAsEnd
  else if !b.hasNode s && s != START then .error .unknownStart
  else if !b.hasNode e && e != END then .error .unknownEnd
  else
    let r1 : Except ErrKind Builder :=
      if noControl then .ok b
      else if b.controlEdges.contains (s, e) then .error .dupControl
      else .ok { b with controlEdges := b.controlEdges ++ [(s, e)],
                        startNodes := if s = START then b.startNodes ++ [e] else b.startNodes,
                        endNodes := if e = END then b.endNodes ++ [s] else b.endNodes }
    match r1 with
    | .error k => .error k
    | .ok b1 =>
      if noData then .ok b1
      else if b1.dataEdges.contains (s, e) then .error .dupData
      else
        match update im ord (b1.addToValidate s { dst := e, mapped }) with
        | .error k => .error k
        | .ok b2 => .ok { b2 with dataEdges := b2.dataEdges ++ [(s, e)] }

def addEdge (f : Facts) (im : Impl) (ord : Ord) (b : Builder) (s e : Key) (noControl noData : Bool)
    (mapped : Option Nat) : Builder × Outcome :=
  -- the noControl && noData check sits between the guards and the `defer`: not stored
  match (if f.edgeG.checkErr then b.buildError else none) with
  | some k => (b, .stored k)
  | none =>
    if f.edgeG.checkCompiled && b.compiled then (b, .compiled)
    else if noControl && noData then (b, .fresh .edgeBothNo)
    else guarded { f.edgeG with checkErr := false, checkCompiled := false } b
           (addEdgeBody im ord b s e noControl noData mapped)

/-! ## addBranch -/

def isPassthrough (b : Builder) (k : Key) : Bool :=
  match findNode b.nodes k with
  | some n => n.passthrough
  | none => false

/-- `for endNode := range branch.endNodes { … }` (not skipData) -/
def branchEnds (im : Impl) (ord : Ord) (s : Key) : List Key → Builder → Except ErrKind Builder
  | [], b => .ok b
  | e :: es, b =>
    if !b.hasNode e && e != END then .error .branchUnknownEnd
    else
      match update im ord (b.addToValidate s { dst := e, mapped := none }) with
      | .error k => .error k
      | .ok b1 =>
        branchEnds im ord s es
          { b1 with startNodes := if s = START then b1.startNodes ++ [e] else b1.startNodes,
                    endNodes := if e = END then b1.endNodes ++ [s] else b1.endNodes }

def addBranchBody (f : Facts) (im : Impl) (ord : Ord) (b : Builder) (s : Key) (t : Ty)
    (ends : List Key) (skipData : Bool) : Except ErrKind Builder :=
  if s = END then .error .endAsStart
  else if !b.hasNode s && s != START then .error .branchUnknownStart
  else if ends.length = 1 then .error .branchSingle
  else
    let b1 :=
      if s != START && isPassthrough b s && (!f.branchGuarded || (b.nodeIn s).isNone)
      then b.setTy s t else b
    match checkAssignable im (b1.nodeOut s) (some t) with
    | .mustNot => .error .branchMismatch
    | r =>
      let b2 := { b1 with preBranch := b1.preBranch ++ [(s, r == .may)] }
      let r3 : Except ErrKind Builder := if f.branchPropagates then update im ord b2 else .ok b2
      match r3 with
      | .error k => .error k
      | .ok b3 =>
        let r4 : Except ErrKind Builder :=
          if skipData then .ok b3 else branchEnds im ord s (ord.ends b3 ends) b3
        match r4 with
        | .error k => .error k
        | .ok b4 =>
          .ok { b4 with branches := b4.branches ++ [{ src := s, inTy := t, ends, noData := skipData }] }

def addBranch (f : Facts) (im : Impl) (ord : Ord) (b : Builder) (s : Key) (t : Ty)
    (ends : List Key) (skipData : Bool) : Builder × Outcome :=
  guarded f.branchG b (addBranchBody f im ord b s t ends skipData)

/-! ## validateDAG (Kahn) -/

def countP (p : Key → Bool) : List Key → Nat
  | [] => 0
  | k :: ks => (if p k then 1 else 0) + countP p ks

def mGet : List (Key × Int) → Key → Option Int
  | [], _ => none
  | (k, v) :: r, x => if k = x then some v else mGet r x

def mSet : List (Key × Int) → Key → Int → List (Key × Int)
  | [], _, _ => []
  | (k, v) :: r, x, nv => if k = x then (k, nv) :: r else (k, v) :: mSet r x nv

/-- `m[sub]--` for every listed successor except END (a key missing from `m` would be
    created by Go; successors are always nodes, so this does not occur) -/
def mDecAll (m : List (Key × Int)) : List Key → List (Key × Int)
  | [] => m
  | x :: xs =>
    if x = END then mDecAll m xs
    else match mGet m x with
      | some v => mDecAll (mSet m x (v - 1)) xs
      | none => mDecAll m xs

/-- control successors of a node as `validateDAG` walks them: `controls` then, per branch,
    the end nodes -/
def Builder.ctrlSucc (b : Builder) (k : Key) : List Key :=
  (b.controlEdges.filter (·.1 = k)).map (·.2) ++
  (b.branches.filter (·.src = k)).flatMap (·.ends)

/-- control predecessors of a node (with multiplicity), as built in `compile` -/
def Builder.ctrlPred (b : Builder) (k : Key) : List Key :=
  (b.controlEdges.filter (·.2 = k)).map (·.1) ++
  b.branches.flatMap (fun br => (br.ends.filter (· = k)).map (fun _ => br.src))

def kahnInit (b : Builder) : List (Key × Int) :=
  b.nodes.map fun n =>
    let ps := b.ctrlPred n.key
    (n.key, (ps.length : Int) - (countP (· = START) ps : Nat))

def kahnRound (b : Builder) : List Key → List (Key × Int) → Bool → List (Key × Int) × Bool
  | [], m, ch => (m, ch)
  | k :: ks, m, ch =>
    if mGet m k = some 0 then
      kahnRound b ks (mSet (mDecAll m (b.ctrlSucc k)) k (-1)) true
    else kahnRound b ks m ch

def kahnLoop (b : Builder) (ord : Ord) : Nat → List (Key × Int) → List (Key × Int)
  | 0, m => m
  | fuel + 1, m =>
    let (m', ch) := kahnRound b (ord.kahn m (m.map (·.1))) m false
    if ch then kahnLoop b ord fuel m' else m'

/-- `validateDAG`: true = no node keeps a positive count -/
def validateDAG (b : Builder) (ord : Ord) : Bool :=
  (kahnLoop b ord (b.nodes.length + 1) (kahnInit b)).all (fun p => decide (p.2 ≤ 0))

/-! ## compile -/

inductive Trigger where
  | unset | anyPred | allPred
  deriving DecidableEq, Repr, Inhabited

structure COpts where
  trigger : Trigger
  maxSteps : Nat
  getState : Bool
  deriving DecidableEq, Repr, Inhabited

def hasDup : List (Key × Nat) → Bool
  | [] => false
  | x :: xs => xs.contains x || hasDup xs

def dedupKeys : List Key → List Key
  | [] => []
  | k :: ks => if ks.contains k then dedupKeys ks else k :: dedupKeys ks

def bump : List (Key × Nat) → Key → List (Key × Nat)
  | [], k => [(k, 1)]
  | (x, n) :: r, k => if x = k then (x, n + 1) :: r else (x, n) :: bump r k

/-- what `compile` hands to the runner.  `preNode` is the handler list the runner will use
    *at the time of compile*; when `sharesPreNode` the runner holds the builder's map itself
    (graph.go: `preNodeHandlerManager{h: g.handlerPreNode}`), so later writes show through. -/
structure Runner where
  dag : Bool
  nodes : List Node
  inT : Ty
  outT : Ty
  dataEdges : List (Key × Key)
  branches : List BranchRec
  mayEdges : List (Key × Key)
  preBranch : List (Key × Bool)
  preNode : List (Key × Nat)
  sharesPreNode : Bool
  maxSteps : Nat
  deriving DecidableEq, Repr, Inhabited

def isDag (b : Builder) (o : COpts) : Bool := o.trigger = .allPred || b.cmp = .workflow

/-- the checks of `compile` that come before the loop over `fieldMappingRecords`
    (the duplicate-target check sits inside that loop; a failing compile can therefore leave
    some appends behind – unobservable, the same compile keeps failing) -/
def Builder.hasUntyped (b : Builder) : Bool :=
  b.nodes.any (fun n => n.inTy.isNone || n.outTy.isNone)

/-- `for _, v := range g.toValidateMap { if len(v) > 0 {…} }`: some key of the map still has
    pending entries (the map is read through its keys, like a Go map) -/
def Builder.hasPending (b : Builder) : Bool :=
  b.toValidate.any (fun p => !(getSlice b.toValidate p.1).isEmpty)

def compilePre (f : Facts) (b : Builder) (o : COpts) : Option ErrKind :=
  if (b.cmp = .chain || b.cmp = .workflow) && o.trigger != .unset then some .triggerModeOnChain
  else if b.cmp != .workflow && o.getState then some .getStateOutsideWorkflow
  else if b.startNodes.isEmpty then some .noStart
  else if b.endNodes.isEmpty then some .noEnd
  else if b.hasPending then some .uninferred
  else if f.compileChecksTypes && b.hasUntyped then some .uninferred
  else if hasDup b.fmRecords then some .dupMapTarget
  else none

/-- `g.handlerPreNode[key] = append(g.handlerPreNode[key], converter)` for every key of
    `fieldMappingRecords` -/
def preNodeAfter (b : Builder) : List (Key × Nat) :=
  (dedupKeys (b.fmRecords.map (·.1))).foldl bump b.preNode

/-- the steps after the runner has been assembled: Kahn's loop, the checkpointer tables
    (which read every node's generic helper: nil for a node that never got a type), the
    step-limit rule -/
def compilePost (b : Builder) (ord : Ord) (o : COpts) : Option Outcome :=
  if isDag b o && !validateDAG b ord then some (.fresh .dagLoop)
  else if b.hasUntyped then some .panic
  else if isDag b o && o.maxSteps > 0 then some (.fresh .maxStepsInDag)
  else none

def mkRunner (f : Facts) (b : Builder) (o : COpts) : Runner :=
  { dag := isDag b o, nodes := b.nodes, inT := b.inT, outT := b.outT, dataEdges := b.dataEdges,
    branches := b.branches, mayEdges := b.mayEdges, preBranch := b.preBranch,
    preNode := preNodeAfter b, sharesPreNode := f.compileMutates,
    maxSteps := if isDag b o then 0 else if o.maxSteps = 0 then b.nodes.length + 10 else o.maxSteps }

/-- the append loop of `compile`, present iff the source fact says so -/
def mutatePre (f : Facts) (b : Builder) : Builder :=
  if f.compileMutates then { b with preNode := preNodeAfter b } else b

def Builder.setCompiled (b : Builder) : Builder := { b with compiled := true }

def compile (f : Facts) (ord : Ord) (b : Builder) (o : COpts) : Builder × Outcome × Option Runner :=
  match b.buildError with
  | some k => (b, .stored k, none)
  | none =>
    match compilePre f b o with
    | some k => (b, .fresh k, none)
    | none =>
      match compilePost (mutatePre f b) ord o with
      | some oc => (mutatePre f b, oc, none)
      | none => ((mutatePre f b).setCompiled, .ok, some (mkRunner f b o))

/-- the handler list the runner built by an earlier compile uses *now*, given the builder's
    current state -/
def Runner.preNodeNow (r : Runner) (now : Builder) : List (Key × Nat) :=
  if r.sharesPreNode then now.preNode else r.preNode

/-! ## call sequences -/

inductive Op where
  | node (n : NodeSpec)
  | edge (s e : Key) (noControl noData : Bool) (mapped : Option Nat)
  | branch (s : Key) (t : Ty) (ends : List Key) (skipData : Bool)
  | compile (o : COpts)
  deriving DecidableEq, Repr, Inhabited

def Op.isCompile : Op → Bool
  | .compile _ => true
  | _ => false

def step (f : Facts) (im : Impl) (ord : Ord) (b : Builder) : Op → Builder × Outcome × Option Runner
  | .node n => let (b', o) := addNode f b n; (b', o, none)
  | .edge s e nc nd m => let (b', o) := addEdge f im ord b s e nc nd m; (b', o, none)
  | .branch s t ends sk => let (b', o) := addBranch f im ord b s t ends sk; (b', o, none)
  | .compile o => compile f ord b o

/-- run a call sequence; outcomes in call order, the runners of successful compiles -/
def run (f : Facts) (im : Impl) (ord : Ord) : Builder → List Op → Builder × List Outcome × List Runner
  | b, [] => (b, [], [])
  | b, op :: ops =>
    let (b1, o, r) := step f im ord b op
    let (b2, os, rs) := run f im ord b1 ops
    (b2, o :: os, (match r with | some x => [x] | none => []) ++ rs)

end EinoV.Build
