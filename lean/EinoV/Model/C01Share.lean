/-
  C01, last clause, "shared builders" family — a chain is the composition of *its* stages also when
  the builder objects it was made from (`*compose.ChainBranch`, `*compose.Parallel`, `*compose.Lambda`,
  a `*compose.Chain` used as a node) are handed to `Append*` more than once: twice in one chain, in
  several chains, in a chain used as a node and in a sibling; and a compiled chain keeps computing
  that composition whatever is built, compiled or run afterwards.

  * `Prog`      a program: a pool of builder objects (stage descriptions) and chains whose stages are
                written in place (`SStage.own`), name a pool object (`SStage.shared o`) or use an
                earlier chain of the program as a node (`SStage.sub j` = `AppendGraph(chain j)`).
  * `Op`, `St`, `step`, `exec`   the operation sequence: issue the `Append*` calls of a chain,
                `Compile` it, run it.  `St.heap` is what the `Append*` calls left in the shared
                builder objects.
  * `Mech`      the source fact the model is parameterised by: `AppendBranch` keeps the table
                branch key → node key in a local captured by the closures it installs (one table per
                append) and never assigns to the `*ChainBranch` it was given.  With the fact false the
                table lives in the builder object (`Heap`): every lowered copy of the branch then
                resolves its targets through the latest append.
  * `lowerS`    the lowering of Model/C01Chain.lean with that mechanism made explicit.

  Core Lean only (compiled into the oracle).
-/
import EinoV.Model.C01Chain

namespace EinoV.Chain.Share
open EinoV.Engine EinoV.Chain

/-- source facts about compose/chain.go `AppendBranch` (tools/factgen/c01.go) -/
structure Mech where
  /-- `AppendBranch` does not assign to (a field of) its `*ChainBranch` parameter: the key table of
      an append is a local captured by that append's closures -/
  builderIntact : Bool

/-- what the `Append*` calls left in the shared builder objects: pool object ↦ the chain position
    (`node_<i>` prefix) of its latest append.  Only read when `Mech.builderIntact` is false. -/
abbrev Heap := List (Nat × Nat)

def hget (o : Nat) : Heap → Option Nat
  | [] => none
  | (o', i) :: rest => if o' == o then some i else hget o rest

def hset (o i : Nat) : Heap → Heap
  | [] => [(o, i)]
  | (o', i') :: rest => if o' == o then (o, i) :: rest else (o', i') :: hset o i rest

/-- a stage as appended: the identity of the builder object when it is a pool object, and its
    description -/
abbrev TStage := Option Nat × Stage

def untag (ts : List TStage) : Chain := ts.map (·.2)

/-- the position whose key table a lowered branch condition consults at run time -/
def condIdx (m : Mech) (h : Heap) (o : Option Nat) (i : Nat) : Nat :=
  if m.builderIntact then i else
    match o with
    | some id => (hget id h).getD i
    | none => i

/-- `AppendBranch`: the branch's end nodes are those of this append (`gBranch.endNodes`, from the
    local table); the condition translates through the table `condIdx` designates -/
def stageBranchesS (m : Mech) (h : Heap) (i : Nat) (pre : List Key) : TStage → List (Key × Branch CVal)
  | (o, .branch cond subs) =>
    [(pre.headD START, { ends := subs.map (fun kf => brKey i kf.1), cond := lowerCond (condIdx m h o i) cond subs })]
  | _ => []

/-- `lowerFrom` of Model/C01Chain.lean over tagged stages -/
def lowerFromS (m : Mech) (h : Heap) : Nat → List Key → List TStage → Parts
  | _, pre, [] => { nodes := [], edges := pre.map (fun p => (p, END)), branches := [] }
  | i, pre, ts :: rest =>
    let tail := lowerFromS m h (i + 1) (stageKeys i ts.2) rest
    { nodes := stageNodes i ts.2 ++ tail.nodes,
      edges := stageEdges i pre ts.2 ++ tail.edges,
      branches := stageBranchesS m h i pre ts ++ tail.branches }

def lowerS (m : Mech) (h : Heap) (ts : List TStage) : GraphDef CVal :=
  let p := lowerFromS m h 0 [START] ts
  { nodes := p.nodes, edges := p.edges, branches := p.branches }

/-- running the runnable compiled from the appended stages `ts`, the builder objects being in
    state `h` at the time of the run -/
def execT (m : Mech) (slack : Nat) (h : Heap) (ts : List TStage) (x : CVal) : Except Err CVal :=
  (run cvalOps (compile slack (lowerS m h ts)) x).result

/-! ### programs -/

inductive SStage where
  /-- a builder object made for this one `Append*` call -/
  | own (st : Stage)
  /-- pool object number `o`, passed to `Append*` (again) -/
  | shared (o : Nat)
  /-- `AppendGraph(chain j)`: an earlier chain of the program used as a node -/
  | sub (j : Nat)

structure Prog where
  pool : List Stage
  chains : List (List SStage)

/-- what `Compile` accepts, as a Boolean (`Chain.WF`) -/
def wfB (c : Chain) : Bool :=
  !c.isEmpty && stagesOK false c && nodupB (START :: (lowerKeys c ++ [END]))

/-- a chain of the program with its references resolved -/
structure RChain where
  stages : List TStage
  /-- no dangling reference, and every chain it uses as a node is accepted by `Compile` -/
  ok : Bool

def RChain.chain (rc : RChain) : Chain := untag rc.stages

/-- `Compile` accepts the chain -/
def RChain.accepted (rc : RChain) : Bool := rc.ok && wfB rc.chain

def resolveStage (m : Mech) (slack : Nat) (h : Heap) (pool : List Stage) (env : List RChain) :
    SStage → TStage × Bool
  | .own st => ((none, st), true)
  | .shared o =>
    match pool[o]? with
    | some st => ((some o, st), true)
    | none => ((none, .passthrough), false)
  | .sub j =>
    match env[j]? with
    | some rc => ((none, .lambda (execT m slack h rc.stages)), rc.accepted)
    | none => ((none, .passthrough), false)

def resolveChain (m : Mech) (slack : Nat) (h : Heap) (pool : List Stage) (env : List RChain)
    (ss : List SStage) : RChain :=
  let rs := ss.map (resolveStage m slack h pool env)
  { stages := rs.map (·.1), ok := rs.all (·.2) }

/-- the chains of the program in order; `SStage.sub j` sees the chains before its own -/
def resolveAll (m : Mech) (slack : Nat) (h : Heap) (pool : List Stage) :
    List RChain → List (List SStage) → List RChain
  | env, [] => env
  | env, ss :: rest => resolveAll m slack h pool (env ++ [resolveChain m slack h pool env ss]) rest

def Prog.resolved (m : Mech) (slack : Nat) (h : Heap) (p : Prog) : List RChain :=
  resolveAll m slack h p.pool [] p.chains

/-! ### operation sequences -/

inductive Op where
  /-- issue the `Append*` calls of chain `c` -/
  | build (c : Nat)
  /-- `Compile` chain `c` -/
  | compile (c : Nat)
  /-- `Invoke` / `Stream` the runnable compiled from chain `c` -/
  | run (c : Nat) (x : CVal)

structure St where
  heap : Heap := []
  built : List Nat := []
  compiled : List Nat := []

/-- the `AppendBranch` calls of a chain as seen by the builder objects: a shared branch object
    appended at position `i` records `i` -/
def appendWrites (pool : List Stage) : Nat → List SStage → Heap → Heap
  | _, [], h => h
  | i, .shared o :: rest, h =>
    match pool[o]? with
    | some (.branch _ _) => appendWrites pool (i + 1) rest (hset o i h)
    | _ => appendWrites pool (i + 1) rest h
  | i, _ :: rest, h => appendWrites pool (i + 1) rest h

inductive Out where
  /-- nothing to observe (build; an operation the sequence does not allow) -/
  | none
  /-- `Compile` accepted / rejected the chain -/
  | compiled (accepted : Bool)
  | ran (r : Except Err CVal)

def step (m : Mech) (slack : Nat) (p : Prog) (s : St) : Op → St × Out
  | .build c =>
    match p.chains[c]? with
    | some ss =>
      if s.built.contains c then (s, .none) else
        ({ s with heap := appendWrites p.pool 0 ss s.heap, built := c :: s.built }, .none)
    | none => (s, .none)
  | .compile c =>
    match (p.resolved m slack s.heap)[c]? with
    | some rc =>
      if s.built.contains c then
        (if rc.accepted then { s with compiled := c :: s.compiled } else s, .compiled rc.accepted)
      else (s, .none)
    | none => (s, .none)
  | .run c x =>
    match (p.resolved m slack s.heap)[c]? with
    | some rc => if s.compiled.contains c then (s, .ran (execT m slack s.heap rc.stages x)) else (s, .none)
    | none => (s, .none)

def exec (m : Mech) (slack : Nat) (p : Prog) : St → List Op → List Out
  | _, [] => []
  | s, op :: rest => let (s', o) := step m slack p s op; o :: exec m slack p s' rest

/-- the state after a sequence of operations -/
def after (m : Mech) (slack : Nat) (p : Prog) : St → List Op → St
  | s, [] => s
  | s, op :: rest => after m slack p (step m slack p s op).1 rest

end EinoV.Chain.Share
