/-
  C16 — calls that are interrupted and calls that resume from a checkpoint.

  Code: compose/graph_run.go `runner.run`.  A node body that returns `InterruptAndRerun` ends the
  call: the graph (and every graph around it) saves a checkpoint – the interrupted node as a
  task to run again, an interrupted nested-graph node as a task with `SkipPreHandler` and the
  nested checkpoint – and returns an interrupt error.  A later call with the same checkpoint id
  *resumes*: `run` extracts the options of THIS call (`extractOption(r.chanSubscribeTo, opts...)`
  over all nodes of the graph, as always), loads the checkpoint, `restoreTasks` builds the tasks
  of the interrupted nodes with `option: optMap[key]`, and the loop goes on from there: the nodes
  that had completed before the interrupt do not execute again, the interrupted node and
  everything after it do.  A restored nested-graph task runs the nested graph's `run` again with
  the Options of its list; that run finds its checkpoint in the context and resumes the same way.
  compose/graph_manager.go `taskManager.executor` gives every task – restored or new – its node
  callbacks (`initNodeCallbacks(currentTask.ctx, nodeKey, …, t.opts...)`) before it runs the node.

  So for the options of a call only one thing differs between a fresh call, an interrupted call
  and a resuming call: WHICH nodes execute.  `Part` says which; `runNodeWP` / `runNodesWP` /
  `runWP` are `runNodeW` / `runNodesW` / `runW` of Model/C16Keys.lean restricted to them.  Whether
  a restored nested-graph task gets its node callbacks is the source fact
  `ResumeFacts.restoredTaskGetsNodeCallbacks`.
-/
import EinoV.Model.C16
import EinoV.Model.C16Keys

namespace EinoV.C16

/-- Source facts about tasks restored from a checkpoint. -/
structure ResumeFacts where
  /-- `taskManager.executor` calls `initNodeCallbacks` for every task it runs, also for a task
      restored with `skipPreHandler` (a nested-graph node whose inner node had interrupted);
      `false` = the call sits where `skipPreHandler` tasks do not pass: the restored nested graph
      runs with the enclosing graph's callback context -/
  restoredTaskGetsNodeCallbacks : Bool
  deriving DecidableEq, Repr

/-- Which nodes of a chain execute in a call. -/
inductive Part where
  /-- a call that runs from START to END -/
  | full
  /-- nothing of this chain executes -/
  | none
  /-- the node at path `p` interrupts (its body runs, then the call ends): the nodes before it
      execute, the graph nodes on `p` execute as far as `p` goes, nothing after it executes -/
  | stopAt (p : Path)
  /-- the call resumes a checkpoint taken when the node at `p` interrupted: the nodes before it
      do not execute, the graph nodes on `p` resume, the node at `p` and everything after it execute -/
  | resumeAt (p : Path)
  deriving DecidableEq, Repr

def Part.skips : Part → Bool
  | .none => true
  | _ => false

/-- a nested-graph task restored with `skipPreHandler` -/
def Part.restored : Part → Bool
  | .resumeAt _ => true
  | _ => false

/-- the part of node `k` of a chain that is processed under `part` -/
def Part.node (part : Part) (k : Key) : Part :=
  match part with
  | .full => .full
  | .none => .none
  | .stopAt [] => .full
  | .stopAt (k' :: rest) => if k' = k then (if rest = [] then .full else .stopAt rest) else .full
  | .resumeAt [] => .full
  | .resumeAt (k' :: rest) => if k' = k then (if rest = [] then .full else .resumeAt rest) else .none

/-- the part of the nodes after node `k` -/
def Part.rest (part : Part) (k : Key) : Part :=
  match part with
  | .full => .full
  | .none => .none
  | .stopAt [] => .full
  | .stopAt (k' :: rest) => if k' = k then .none else .stopAt (k' :: rest)
  | .resumeAt [] => .full
  | .resumeAt (k' :: rest) => if k' = k then .full else .resumeAt (k' :: rest)

def WNode.key : WNode → Key
  | .comp k _ _ => k
  | .pass k _ => k
  | .graph k _ _ => k

mutual
/-- `runNodeW` for a node that executes under `part` (`Part.none`: it does not execute: no entry,
    and a graph node does not extract).  A graph node under `resumeAt` is a restored task. -/
def runNodeWP (F : Facts) (K : KeyFacts) (R : ResumeFacts) (par : Paradigm) (pre : Path)
    (gH : List Nat) (opts : List Opt) (log : Log) (part : Part) : WNode → Except RunErr (List Entry)
  | .comp k _ w =>
    if part.skips then .ok [] else
    .ok [{ path := pre ++ [k], isGraph := false, vals := valsOf (deliver K par w (itemsFor log k)),
           handlers := gH ++ nodeHandlers opts k }]
  | .pass _ _ => .ok []
  | .graph k ch w =>
    if part.skips then .ok [] else
    let sub := optsOf (deliver K par w (itemsFor log k))
    match extract F ch.erase sub with
    | .error e => .error (pre ++ [k], e)
    | .ok log' =>
      let nH := if part.restored && !R.restoredTaskGetsNodeCallbacks then [] else nodeHandlers opts k
      let gH' := (gH ++ nH) ++ graphHandlers sub
      match runNodesWP F K R par (pre ++ [k]) gH' sub log' part ch with
      | .error e => .error e
      | .ok es => .ok ({ path := pre ++ [k], isGraph := true, vals := [], handlers := gH' } :: es)
/-- the chain under `part`: node by node, each under `part.node`, the rest under `part.rest` -/
def runNodesWP (F : Facts) (K : KeyFacts) (R : ResumeFacts) (par : Paradigm) (pre : Path)
    (gH : List Nat) (opts : List Opt) (log : Log) (part : Part) : WNodes → Except RunErr (List Entry)
  | .nil => .ok []
  | .cons n ns =>
    match runNodeWP F K R par pre gH opts log (part.node n.key) n with
    | .error e => .error e
    | .ok a =>
      match runNodesWP F K R par pre gH opts log (part.rest n.key) ns with
      | .error e => .error e
      | .ok b => .ok (a ++ b)
end

/-- One call of the outermost graph in which the nodes of `part` execute.  The outermost graph's
    own `extractOption` and callbacks (`initGraphCallbacks`, `onGraphStart`) are those of every call. -/
def runWP (F : Facts) (K : KeyFacts) (R : ResumeFacts) (par : Paradigm) (part : Part) (g : WNodes)
    (opts : List Opt) : Except RunErr (List Entry) :=
  match extract F g.erase opts with
  | .error e => .error ([], e)
  | .ok log =>
    match runNodesWP F K R par [] (graphHandlers opts) opts log part g with
    | .error e => .error e
    | .ok es => .ok ({ path := [], isGraph := true, vals := [], handlers := graphHandlers opts } :: es)

/-- What the caller asks of a call of a sequence. -/
inductive Ask where
  /-- an ordinary call (no checkpoint id) -/
  | plain
  /-- a call with a checkpoint id during which the node at `p` interrupts on its first execution -/
  | interruptAt (p : Path)
  /-- a call with the checkpoint id of the call before it: resumes if that call saved a checkpoint,
      otherwise runs from START -/
  | resume
  deriving DecidableEq, Repr

/-- the part a call runs: `saved` = the interrupt point of the checkpoint stored under its id -/
def Ask.part (saved : Option Path) : Ask → Part
  | .plain => .full
  | .interruptAt p => .stopAt p
  | .resume => match saved with
    | some p => .resumeAt p
    | Option.none => .full

/-- what is stored under the checkpoint id in use after the call: every `interruptAt` call uses
    a new id – it saves a checkpoint if it was accepted (and so reached its interrupt), nothing
    if it was rejected –; a resuming call reads the store and leaves it as it is -/
def Ask.savedAfter (saved : Option Path) (a : Ask) (r : Except RunErr (List Entry)) : Option Path :=
  match a, r with
  | .interruptAt p, .ok _ => some p
  | .interruptAt _, .error _ => Option.none
  | .plain, _ => saved
  | .resume, _ => saved

/-- One call of a sequence: graph with keys, indices into the caller's store, paradigm, ask. -/
structure CallP where
  g : WNodes
  ixs : List Nat
  par : Paradigm
  ask : Ask

def CallP.erase (c : CallP) : Call := { g := c.g.erase, ixs := c.ixs }

/-- A sequence of calls sharing the caller's store of Option values and the checkpoint store. -/
def runCallsWP (F : Facts) (K : KeyFacts) (R : ResumeFacts) :
    Option Path → List Opt → List CallP → List (Except RunErr (List Entry)) × List Opt
  | _, store, [] => ([], store)
  | saved, store, c :: cs =>
    let r := runWP F K R c.par (c.ask.part saved) c.g (pick store c.ixs)
    let rest := runCallsWP F K R (c.ask.savedAfter saved r) (storeAfter F store c.erase) cs
    (r :: rest.1, rest.2)

end EinoV.C16
