/-
  C11 — node paths and the caller's `StateModifier` on resume.

  Mirrors compose/checkpoint.go `setNodeKey` / `getNodeKey` / `NodePath` (compose/graph.go
  `NewNodePath`) and the two resume branches of compose/graph_run.go `runner.run`:

    createTasks / restoreTasks:  task.ctx = forwardCheckPoint(setNodeKey(ctx, key), key)   -- one call per task,
                                                                                          --   sequentially
    run (sub-graph branch):      path, isSubGraph := getNodeKey(ctx) … sm(ctx, *path, cp.State)
    run (top-level branch):      stateModifier(ctx, *NewNodePath(), cp.State)

  Every task context carries the path of its node: the keys of the enclosing graph nodes,
  outermost first, then the node's own key.  A nested graph that is restored from its
  checkpoint hands exactly this path to the caller's modifier together with its restored
  state; the modifier may dispatch on it ("caller-supplied modification" of C11's resume
  clause, for every nesting of stateful graphs).

  Two layers:
    * the specification `childPath` (pure lists) and the nest `LTree` of graph levels that were
      active at an interrupt — any number of sibling graphs per level, any depth;
    * a small model of Go slices (`GoSlice`, `goAppend`) in which `setNodeKeyM` is written as
      the source writes it, with the source fact `fresh` = "the child's path gets a backing
      array of its own".  With `fresh` the slice model implements `childPath`
      (Proofs/C11Paths.lean); without it two siblings can share one backing array.
-/
import EinoV.Model.C11

namespace EinoV.C11

/-- `setNodeKey` as the property needs it: the path of the node `key` of a graph whose own
    path is `p` (the top-level graph has the empty path). -/
def childPath (p : List String) (key : String) : List String := p ++ [key]

mutual
/-- A graph level that was active at an interrupt: its node key in the enclosing graph, what
    its interrupt handler saved into its checkpoint (`none`: a graph without state) and the
    nested graphs that were active inside it. -/
inductive LTree (S : Type) where
  | mk (key : String) (saved : Option S) (subs : LTrees S)
inductive LTrees (S : Type) where
  | nil
  | cons (t : LTree S) (ts : LTrees S)
end

variable {S : Type}

def LTree.key : LTree S → String
  | .mk k _ _ => k

/-- the node keys of sibling levels -/
def LTrees.keys : LTrees S → List String
  | .nil => []
  | .cons t ts => t.key :: LTrees.keys ts

mutual
/-- every level of the nest with its node path and saved state, pre-order; `p` = the path of
    the enclosing graph -/
def LTree.levels : LTree S → List String → List (List String × Option S)
  | .mk key saved subs, p => (childPath p key, saved) :: LTrees.levels subs (childPath p key)
def LTrees.levels : LTrees S → List String → List (List String × Option S)
  | .nil, _ => []
  | .cons t ts, p => LTree.levels t p ++ LTrees.levels ts p
end

mutual
/-- node keys are unique inside every graph (`AddNode` rejects a duplicate key) -/
def LTree.WF : LTree S → Prop
  | .mk _ _ subs => (LTrees.keys subs).Nodup ∧ LTrees.WF subs
def LTrees.WF : LTrees S → Prop
  | .nil => True
  | .cons t ts => LTree.WF t ∧ LTrees.WF ts
end

/-- the whole interrupted run: the top-level graph (empty path) and the nest below it -/
def nestLevels (saved : Option S) (subs : LTrees S) : List (List String × Option S) :=
  ([], saved) :: LTrees.levels subs []

/-- The calls of the caller's modifier during one resume: every restored level whose
    checkpoint carries a state (`cp.State != nil`) calls it once, with its own path and that
    state. -/
def modCalls (lv : List (List String × Option S)) : List (List String × S) :=
  lv.filterMap fun x => x.2.map fun s => (x.1, s)

/-- What every level of the nest sees after the resume: the top-level graph goes through the
    top-level branch, every nested graph through the sub-graph branch; `m` = the caller's
    modifier (`none`: resumed without `WithStateModifier`), applied by path. -/
def resumeNest (top sub : ResumeFacts) (m : Option (List String → S → S))
    (saved : Option S) (subs : LTrees S) : List (List String × Seen S) :=
  ([], resumeLevel top (m.map (· [])) saved) ::
    (LTrees.levels subs []).map fun x => (x.1, resumeLevel sub (m.map (· x.1)) x.2)

/-! ### Go slices: `NewNodePath(append(path.path, key)...)` -/

/-- a slice header: backing array, length, capacity -/
structure GoSlice where
  arr : Nat
  len : Nat
  cap : Nat
  deriving DecidableEq, Repr

/-- the backing arrays allocated so far (each padded to its capacity) -/
abbrev GoHeap := List (List String)

def GoSlice.read (h : GoHeap) (s : GoSlice) : List String := (h.getD s.arr []).take s.len

/-- allocate an array holding `xs` with capacity `cap` -/
def goAlloc (h : GoHeap) (xs : List String) (cap : Nat) : GoHeap × GoSlice :=
  (h ++ [xs ++ List.replicate (cap - xs.length) ""], ⟨h.length, xs.length, max cap xs.length⟩)

/-- `append(s, x)`: written in place when the array has spare capacity (the array is shared
    with every other slice of it), else copied into a new array of capacity `grow s.cap` -/
def goAppend (grow : Nat → Nat) (h : GoHeap) (s : GoSlice) (x : String) : GoHeap × GoSlice :=
  if s.len < s.cap then
    (h.modify s.arr (fun a => a.set s.len x), { s with len := s.len + 1 })
  else
    goAlloc h (s.read h ++ [x]) (grow s.cap)

/-- `setNodeKey(ctx, key)`; `parent` = the path in `ctx` (`none`: top-level graph).
    `fresh` (source fact): the new path is built in an array of its own
    (`make` + copy, or a capacity-limited slice expression) — `false`: `append(path.path, key)`
    on the parent's slice itself. -/
def setNodeKeyM (fresh : Bool) (grow : Nat → Nat) (h : GoHeap) (parent : Option GoSlice)
    (key : String) : GoHeap × GoSlice :=
  match parent with
  | none => goAlloc h [key] 1
  | some p =>
    if p.len = 0 then goAlloc h [key] 1
    else if fresh then goAlloc h (p.read h ++ [key]) (p.len + 1)
    else goAppend grow h p key

/-- Go's growth for small slices: double (1 → 2 → 4 → 8 …) -/
def goGrow (cap : Nat) : Nat := if cap = 0 then 1 else 2 * cap

end EinoV.C11
