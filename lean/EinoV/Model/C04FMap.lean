/-
  C04, family "fmap": a stream of `map[string]any` chunks that passes an edge with FIELD MAPPINGS
  (compose/field_mapping.go: `fieldMap`, `streamFieldMap`, the run-time checker built by
  `validateFieldMapping`, `buildFieldMappingConverter` / `buildStreamFieldMappingConverter`) when the
  producer distributes the mapped keys over its chunks (`{"a":…}` then `{"b":…}`), splits string
  values, or puts an untyped nil / a value of another type under a key.

  Value mode (Invoke; every node is handed the concatenation of its predecessor's chunks):
  `fieldMap(mappings, false)` takes every mapped key of the whole map — a missing key is an error —,
  the run-time checker (installed when the source field is an interface type and the target field a
  concrete type: `assignableTypeMay`) admits or refuses each taken value, the converter builds the
  successor's input.
  Stream mode (Stream / Collect / Transform): the same three stages run CHUNK BY CHUNK through
  `StreamReaderWithConvert`; `fieldMap(mappings, true)` takes only the keys the chunk carries, the
  checker must look only at the entries the chunk's field map has (source fact
  `fieldCheckerPresentKeysOnly`: a checker that looks every checked target up directly finds `nil`
  for a key the chunk does not carry and refuses it for a non-nilable target), a refused value is
  an ERROR ITEM; the successor concatenates the converted chunks key by key (`concatMaps`).
-/
import EinoV.Model.C04Lazy
namespace EinoV.C04
open EinoV.Engine

/-- what a map (chunk) carries under one key -/
inductive FVal where
  | absent                -- the key is not in the map
  | nilV                  -- an untyped nil
  | wrong                 -- a value of a type that is not assignable to the target field
  | good (s : String)     -- a string (the target fields' type)
  deriving Repr, DecidableEq, Inhabited

/-- a `map[string]any` (a chunk, a concatenated value, a field map, a successor input) -/
abbrev FChunk := List (Key × FVal)

def FChunk.get (c : FChunk) (k : Key) : FVal := (c.lookup k).getD .absent

def FVal.isGood : FVal → Bool
  | .good _ => true
  | _ => false

def FVal.str : FVal → String
  | .good s => s
  | _ => ""

def errConcatVals : Err := { cls := .user 9992 }   -- "cannot concat multiple non-zero value" / element type mismatch
def errNoSrcKey : Err := { cls := .user 9994 }     -- "field mapping from a map key, but key not found in input"
def errNotAssignable : Err := { cls := .user 9993 } -- "runtime check failed for mapping …"
def errEmptyStream : Err := { cls := .user 9999 }   -- "stream reader is empty, concat fail"

/-- the values chunks carry under key `k`, in chunk order (`concatMaps` collects them per key) -/
def occ (k : Key) (cs : List FChunk) : List FVal := (cs.map (·.get k)).filter (· != .absent)

/-- `concatMaps` for one key: nil values carry nothing; a single (non-nil) value is itself;
    strings are concatenated; anything else cannot be concatenated -/
def concatVals (l : List FVal) : Except Err FVal :=
  match l with
  | [] => .ok .absent
  | [v] => .ok v
  | _ =>
    match l.filter (· != .nilV) with
    | [] => .ok .nilV
    | [v] => .ok v
    | nn => if nn.all FVal.isGood then .ok (.good (String.join (nn.map FVal.str))) else .error errConcatVals

/-- both succeed: the entry is put in front; otherwise the (first) failure -/
def consOk (k : Key) (a : Except Err FVal) (b : Except Err FChunk) : Except Err FChunk :=
  match a, b with
  | .ok v, .ok r => .ok ((k, v) :: r)
  | .error e, _ => .error e
  | .ok _, .error e => .error e

/-- concatenation of map chunks, key by key, over the keys `ks` -/
def concatCols (cs : List FChunk) : List Key → Except Err FChunk
  | [] => .ok []
  | k :: ks => consOk k (concatVals (occ k cs)) (concatCols cs ks)

/-- `concatStreamReader` on map chunks: the empty stream cannot be concatenated -/
def concatMapsNE (ks : List Key) : List FChunk → Except Err FChunk
  | [] => .error errEmptyStream
  | cs => concatCols cs ks

/-- one field mapping `MapFields(src, dst)`; `checked`: a run-time checker is installed for it
    (source field of interface type, concrete target field type); `nilable`: the target field's
    kind admits nil (map, slice, pointer, interface) -/
structure FMapping where
  src : Key
  dst : Key
  checked : Bool := true
  nilable : Bool := false
  deriving Repr, DecidableEq

/-- the run-time checker of one mapping, on a value that was taken -/
def checkVal (m : FMapping) : FVal → Except Err FVal
  | .good s => .ok (.good s)
  | .wrong => if m.checked then .error errNotAssignable else .ok .wrong
  | _ => if m.checked && !m.nilable then .error errNotAssignable else .ok .nilV

/-- value mode: field map of the whole value (every mapped key must be there), then the checker -/
def fmValue : List FMapping → FChunk → Except Err FChunk
  | [], _ => .ok []
  | m :: ms, whole =>
    if whole.get m.src = .absent then .error errNoSrcKey
    else consOk m.dst (checkVal m (whole.get m.src)) (fmValue ms whole)

/-- stream mode, one chunk: the field map holds the keys the chunk carries; the checker visits the
    entries of the field map (`presentOnly`) — or every checked target, finding nil for the others -/
def fmChunk (presentOnly : Bool) : List FMapping → FChunk → Except Err FChunk
  | [], _ => .ok []
  | m :: ms, c =>
    if c.get m.src = .absent then
      if presentOnly || !m.checked then fmChunk presentOnly ms c
      else consOk m.dst (checkVal m .nilV) (fmChunk presentOnly ms c)
    else consOk m.dst (checkVal m (c.get m.src)) (fmChunk presentOnly ms c)

/-- stream mode: the chunks converted up to the first refused one, which becomes the error item -/
def fmStream (presentOnly : Bool) (ms : List FMapping) : List FChunk → LStream FChunk
  | [] => { chunks := [] }
  | c :: cs =>
    match fmChunk presentOnly ms c with
    | .error e => { chunks := [], err := some e }
    | .ok t => let s := fmStream presentOnly ms cs; { chunks := t :: s.chunks, err := s.err }

/-- what the successor (or the caller draining the output) obtains from the converted stream -/
def fmConcat (ks : List Key) (s : LStream FChunk) : Except Err FChunk := s.force >>= concatMapsNE ks

/-- a producer's way of splitting is well formed for key `k`: string pieces only, or the value is
    carried by at most one chunk (what concatenates back to the value whatever its type) -/
def SplitOK (l : List FVal) : Prop := (∀ v ∈ l, v.isGood = true) ∨ l.length ≤ 1

/-! ### several sources (fan-in of field-mapped edges at one sink) -/

/-- an edge with field mappings: the mappings, the chunks its source hands over, and the keys of the
    source's map (what the producer-side concatenation ranges over) -/
structure FEdge where
  ms : List FMapping
  cs : List FChunk
  keys : List Key

def FEdge.dsts (e : FEdge) : List Key := e.ms.map (·.dst)

/-- value mode: every source's chunks are concatenated, every edge maps the whole value; the sink's
    input is the union of the edges' field maps (disjoint targets) -/
def fmInvokeAll : List FEdge → Except Err FChunk
  | [] => .ok []
  | e :: es =>
    match concatCols e.cs e.keys with
    | .error err => .error err
    | .ok whole =>
      match fmValue e.ms whole, fmInvokeAll es with
      | .ok t, .ok r => .ok (t ++ r)
      | .error err, _ => .error err
      | .ok _, .error err => .error err

/-- stream mode: the edges' converted streams are merged (`lazyOps.merge`: all chunks, the first
    error item), the sink concatenates what it receives key by key -/
def fmStreamAll (presentOnly : Bool) (es : List FEdge) : Except Err FChunk :=
  match (lazyOps ([] : FChunk)).merge (es.map fun e => fmStream presentOnly e.ms e.cs) with
  | some m => fmConcat (es.flatMap FEdge.dsts) m
  | none => .error { cls := .merge }

end EinoV.C04
