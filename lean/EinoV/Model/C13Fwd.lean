/-
  C13 — stream-forwarding goroutines (schema/stream.go).

  A `StreamReader` is built from sources by `StreamReaderWithConvert`, `Copy` and
  `MergeStreamReaders`.  User code runs inside `Recv` of a converted reader (the convert
  function).  Who executes that `Recv` decides where a panic of the convert function goes:

  * the consumer calls `Recv` on a converted / copied reader itself → the panic unwinds the
    consumer's own goroutine (its own business, outside the property);
  * `MergeStreamReaders` turns every converted reader (`streamReaderWithConvert.toStream`) and
    every copy (`childStreamReader.toStream`) among its arguments into a channel fed by a
    goroutine of the framework: that goroutine executes the `Recv`s.  With a deferred `recover`
    the panic becomes an error item of the merged stream and the goroutine ends; without one
    the process dies.  These two `go` sites are the facts `FwdFacts`.

  `STree` is the expression language of the harness family `fwdtree`; `build` computes the
  reader such an expression denotes (its dynamic reader type, what a puller receives from it, and
  whether `Recv` finally panics on the puller), `none` = the process died.
-/
namespace EinoV.C13

/-- `readerType` of schema/stream.go -/
inductive RType where
  | array | stream | multi | conv | child
  deriving Repr, DecidableEq

inductive STree where
  /-- `StreamReaderFromArray` -/
  | arr (items : List Nat)
  /-- channel-backed reader (`schema.Pipe`) -/
  | pipe (items : List Nat)
  /-- `StreamReaderWithConvert(s, f)`: `f` panics on the value `panicOn`, returns an ordinary error
      for the value `errOn`, is the identity otherwise -/
  | conv (s : STree) (panicOn errOn : Option Nat)
  /-- one reader of `s.Copy(n)`, `n ≥ 2`, the others closed unread -/
  | copy (s : STree)
  /-- `MergeStreamReaders([a, b])` (a merged reader among the arguments is flattened, so n-ary
      merges are nested binary ones) -/
  | merge (a b : STree)
  deriving Repr

/-- what a puller receives -/
inductive Ev where
  | item (v : Nat)
  /-- an ordinary error item (the convert function returned an error for `v`) -/
  | err (v : Nat)
  /-- an error item made from a recovered panic with value `v` -/
  | perr (v : Nat)
  deriving Repr, DecidableEq

/-- do the two forwarding goroutines recover?  (source facts) -/
structure FwdFacts where
  /-- `streamReaderWithConvert.toStream` -/
  convRecovers : Bool
  /-- `childStreamReader.toStream` -/
  childRecovers : Bool
  deriving Repr, DecidableEq

/-- a reader as built -/
structure Rd where
  ty : RType
  /-- what `Recv` delivers, in one possible order -/
  evs : List Ev
  /-- after `evs`, `Recv` panics with this value on the goroutine that called it (`none`: EOF) -/
  panics : Option Nat
  /-- `evs` arrive in exactly this order (no merge of two non-empty streams below) -/
  ordered : Bool
  /-- the multiset of `evs` and `panics` do not depend on the interleaving of merged streams -/
  det : Bool
  /-- the panics that were caught by a forwarding goroutine below: value, `true` = in the goroutine
      of a copy (`childStreamReader.toStream`), `false` = of a converted reader -/
  contained : List (Nat × Bool)
  deriving Repr

/-- `streamReaderWithConvert.recv` over the events of its source: errors pass through untouched,
    items go through the convert function; the first item it panics on ends everything -/
def convEvs (panicOn errOn : Option Nat) : List Ev → List Ev × Option Nat
  | [] => ([], none)
  | .item v :: rest =>
    if panicOn = some v then ([], some v) else
    let r := convEvs panicOn errOn rest
    ((if errOn = some v then Ev.err v else Ev.item v) :: r.1, r.2)
  | e :: rest =>
    let r := convEvs panicOn errOn rest
    (e :: r.1, r.2)

/-- a goroutine of the framework pulls `r` to its end and forwards everything into a channel:
    what arrives in the channel; `none` = the panic was not recovered, the process died -/
def forward (recovers : Bool) (r : Rd) : Option (List Ev) :=
  match r.panics with
  | none => some r.evs
  | some v => if recovers then some (r.evs ++ [.perr v]) else none

/-- one argument of `MergeStreamReaders`: arrays and channels are taken as they are, a converted
    reader and a copy are forwarded by a goroutine -/
def mergeSide (f : FwdFacts) (r : Rd) : Option (List Ev) :=
  match r.ty with
  | .conv => forward f.convRecovers r
  | .child => forward f.childRecovers r
  | _ => some r.evs

def sideContained (r : Rd) : List (Nat × Bool) :=
  match r.panics with
  | none => r.contained
  | some v => r.contained ++ [(v, r.ty == .child)]

def build (f : FwdFacts) : STree → Option Rd
  | .arr xs => some { ty := .array, evs := xs.map .item, panics := none, ordered := true, det := true, contained := [] }
  | .pipe xs => some { ty := .stream, evs := xs.map .item, panics := none, ordered := true, det := true, contained := [] }
  | .conv s p e =>
    match build f s with
    | none => none
    | some r =>
      let c := convEvs p e r.evs
      some { ty := .conv, evs := c.1,
             panics := (match c.2 with | some v => some v | none => r.panics),
             ordered := r.ordered,
             det := r.det && (c.2.isNone || r.ordered),
             contained := r.contained }
  | .copy s =>
    match build f s with
    | none => none
    | some r => some { r with ty := if r.ty = .array then .array else .child }
  | .merge a b =>
    match build f a, build f b with
    | some ra, some rb =>
      if ra.ty = .array ∧ rb.ty = .array ∧ (ra.evs ++ rb.evs) ≠ [] then
        -- two arrays: the merged reader is the concatenated array
        some { ty := .array, evs := ra.evs ++ rb.evs, panics := none, ordered := true, det := true, contained := [] }
      else
        match mergeSide f ra, mergeSide f rb with
        | some ea, some eb =>
          some { ty := .multi, evs := ea ++ eb, panics := none,
                 ordered := (ea.isEmpty && rb.ordered) || (eb.isEmpty && ra.ordered),
                 det := ra.det && rb.det,
                 contained := sideContained ra ++ sideContained rb }
        | _, _ => none
    | _, _ => none

end EinoV.C13
