/-
  C16 — distribution of call options to nodes.

  Code: compose/utils.go `extractOption` (one graph level), `initGraphCallbacks`,
  `initNodeCallbacks`; compose/graph_call_options.go (`Option`, `DesignateNode`,
  `DesignateNodeWithPath`, `deepCopy`); compose/graph_run.go `runner.run` (calls
  `extractOption(r.chanSubscribeTo, opts...)`, hands `optMap[nodeKey]` to the node's task) and
  `runner.toComposableRunnable` (a nested graph is a node with `optionType == nil` whose
  body converts the `[]any` it receives back to `[]Option` and calls `run` again).

  Source facts are the parameter `F : Facts`.
-/
namespace EinoV.C16

abbrev Key := String
abbrev Path := List Key

/-- Source facts the model is parametric in. -/
structure Facts where
  /-- both type tests in `extractOption` are `reflect.TypeOf(opt.options[0]) ==/!= c.action.optionType`
      (identity of the option type); `false` = no type test (anything matches) -/
  typeCmpIdentity : Bool
  /-- the type tests also accept an option whose type is not the node's option type but
      *implements* it (the node's option type being an interface); the source compares
      `reflect.Type`s with `==` / `!=` only: `false` -/
  typeCmpImplements : Bool
  /-- `NewNodePath(path.path[N:]...)` for a path that continues into a sub-graph: `N` -/
  strip : Nat
  /-- the "sub path" branch rejects a passthrough node as well as a component
      (`optionType != nil || isPassthrough`); `false` = only `optionType != nil` is tested, so a
      passthrough (whose `optionType` is nil) is taken for a sub-graph -/
  passSubPathIsError : Bool
  /-- the option handed to a sub-graph is built from `opt.deepCopy()`; `false` = it aliases the
      caller's Option, so the rewriting of `paths` is visible to the caller -/
  nestedCopies : Bool
  /-- `Option.DesignateNodeWithPath` copies `o.paths` into a fresh array before appending;
      `false` = `o.paths = append(o.paths, path...)` on the value receiver, which writes into the
      spare capacity of the array the receiver shares with the caller's Option -/
  designateCopies : Bool
  deriving DecidableEq, Repr

/-! ### option types

  Types are tags (identity of `reflect.Type` = equality of tags).  A lambda node may declare an
  interface as its option type (`InvokableLambdaWithOption(func(ctx, in, opts ...any))`): its
  `optionType` is then that interface type, while the type of an Option is always the dynamic
  type of its first value (`reflect.TypeOf(opt.options[0])`), never an interface.  Two tags are
  interface types: `tyAny` (`any`) and `tyIface` (a non-empty interface, implemented by the
  concrete type `tyImpl` and by no other tag). -/

def tyAny : Nat := 7
def tyIface : Nat := 8
def tyImpl : Nat := 9

def isIfaceTy (t : Nat) : Bool := t == tyAny || t == tyIface

/-- `reflect.TypeOf(v).Implements(t)` for a value of (concrete) type `v` and an interface type `t` -/
def implementsTy (v t : Nat) : Bool := t == tyAny || (t == tyIface && v == tyImpl)

/-- the test both sites of `extractOption` apply to (option type, node option type): identity,
    plus – only if the fact says so – "the node's type is an interface the value implements" -/
def tyMatch (F : Facts) (nodeTy optTy : Nat) : Bool :=
  nodeTy == optTy || (F.typeCmpImplements && isIfaceTy nodeTy && implementsTy optTy nodeTy)

/-- `compose.Option` as far as routing is concerned. All values of one Option have the same
    Go type (`ty`; the code says "assume that types of options are the same" and looks at
    `options[0]` only). Values and handlers are identified by ids. -/
structure Opt where
  ty : Nat
  vals : List Nat
  handlers : List Nat
  paths : List Path
  deriving DecidableEq, Repr, Inhabited

mutual
/-- A node of a compiled graph as `extractOption` sees it. -/
inductive Node where
  /-- component or lambda: `optionType != nil`. `ty = 0` is `unreachableOption` (a lambda built
      without options); no Option carries type 0. -/
  | comp (key : Key) (ty : Nat)
  /-- passthrough: `optionType == nil`, `isPassthrough` -/
  | pass (key : Key)
  /-- nested graph: `optionType == nil` -/
  | graph (key : Key) (children : Nodes)
/-- The nodes of one graph (`runner.chanSubscribeTo`), in execution order of the chain. -/
inductive Nodes where
  | nil
  | cons (n : Node) (ns : Nodes)
end

deriving instance DecidableEq for Node, Nodes

def Node.key : Node → Key
  | .comp k _ => k
  | .pass k => k
  | .graph k _ => k

def Nodes.toList : Nodes → List Node
  | .nil => []
  | .cons n ns => n :: ns.toList

/-- `nodes[key]` -/
def Nodes.find (ns : Nodes) (k : Key) : Option Node := ns.toList.find? (fun n => n.key == k)

inductive Err where
  | emptyPath | unknownNode | subPathOfComponent | wrongType
  deriving DecidableEq, Repr

/-- An element of `optMap[node]` (`[]any`): a component option value or a whole `Option`. -/
inductive Item where
  | val (v : Nat)
  | opt (o : Opt)
  deriving DecidableEq, Repr

/-- `optMap` as the ordered log of its `append`s: `optMap[k]` is the sub-sequence with key `k`. -/
abbrev Log := List (Key × Item)

def itemsFor (log : Log) (k : Key) : List Item :=
  log.filterMap (fun e => if e.1 = k then some e.2 else none)

def valsOf (items : List Item) : List Nat :=
  items.filterMap (fun | .val v => some v | .opt _ => none)

/-- `convertOption[Option]` in `runner.toComposableRunnable` -/
def optsOf (items : List Item) : List Opt :=
  items.filterMap (fun | .opt o => some o | .val _ => none)

/-- `Except`-map with early exit at the first error (the `return nil, err` inside the loops). -/
def mapE {α β ε : Type} (f : α → Except ε β) : List α → Except ε (List β)
  | [] => .ok []
  | a :: as =>
    match f a with
    | .error e => .error e
    | .ok b =>
      match mapE f as with
      | .error e => .error e
      | .ok bs => .ok (b :: bs)

/-- Body of `for name, c := range nodes` for an undesignated option with values. -/
def undesignatedFor (F : Facts) (o : Opt) : Node → Log
  | .comp k ty => if !F.typeCmpIdentity || tyMatch F ty o.ty then o.vals.map (fun v => (k, .val v)) else []
  | .pass k => [(k, .opt o)]
  | .graph k _ => [(k, .opt o)]

/-- The `if len(opt.paths) == 0 { … }` block. -/
def undesignatedEntries (F : Facts) (nodes : Nodes) (o : Opt) : Log :=
  if o.paths = [] ∧ o.vals ≠ [] then nodes.toList.flatMap (undesignatedFor F o) else []

/-- Body of `for _, path := range opt.paths`. -/
def pathEntry (F : Facts) (nodes : Nodes) (o : Opt) (p : Path) : Except Err Log :=
  match p with
  | [] => .error .emptyPath
  | k :: rest =>
    match nodes.find k with
    | none => .error .unknownNode
    | some n =>
      if rest = [] then
        if o.vals = [] then .ok []   -- callbacks only: handled by initNodeCallbacks
        else
          match n with
          | .comp _ ty =>
            if F.typeCmpIdentity && !tyMatch F ty o.ty then .error .wrongType
            else .ok (o.vals.map (fun v => (k, .val v)))
          | _ => .ok [(k, .opt { o with paths := [] })]
      else
        match n with
        | .comp _ _ => .error .subPathOfComponent
        | .pass _ =>
          if F.passSubPathIsError then .error .subPathOfComponent
          else .ok [(k, .opt { o with paths := [p.drop F.strip] })]
        | .graph _ _ => .ok [(k, .opt { o with paths := [p.drop F.strip] })]

/-- One iteration of `for _, opt := range opts`. -/
def optEntries (F : Facts) (nodes : Nodes) (o : Opt) : Except Err Log :=
  match mapE (pathEntry F nodes o) o.paths with
  | .error e => .error e
  | .ok ds => .ok (undesignatedEntries F nodes o ++ ds.flatten)

/-- `extractOption(nodes, opts...)` -/
def extract (F : Facts) (nodes : Nodes) (opts : List Opt) : Except Err Log :=
  match mapE (optEntries F nodes) opts with
  | .error e => .error e
  | .ok ls => .ok ls.flatten

/-- handlers `initGraphCallbacks` appends to the ones inherited through the context -/
def graphHandlers (opts : List Opt) : List Nat :=
  opts.flatMap (fun o => if o.paths = [] then o.handlers else [])

/-- handlers `initNodeCallbacks` appends for node `k` -/
def nodeHandlers (opts : List Opt) (k : Key) : List Nat :=
  opts.flatMap (fun o => if [k] ∈ o.paths then o.handlers else [])

/-- What one node sees during a run: the option values its body is called with and the
    callback handlers that are active for it. `isGraph` entries are graph nodes themselves
    (and the outermost graph, `path = []`). Passthrough nodes take no options and fire no
    callbacks: no entry. -/
structure Entry where
  path : Path
  isGraph : Bool
  vals : List Nat
  handlers : List Nat
  deriving DecidableEq, Repr

/-- a failed run: the path of the graph whose `extractOption` failed, and why -/
abbrev RunErr := Path × Err

mutual
/-- Executing one node of a graph whose `extractOption` produced `log`; `gH` = handlers in the
    graph's context, `opts` = the options that graph's `run` was called with. -/
def runNode (F : Facts) (pre : Path) (gH : List Nat) (opts : List Opt) (log : Log) :
    Node → Except RunErr (List Entry)
  | .comp k _ =>
    .ok [{ path := pre ++ [k], isGraph := false, vals := valsOf (itemsFor log k),
           handlers := gH ++ nodeHandlers opts k }]
  | .pass _ => .ok []
  | .graph k ch =>
    let sub := optsOf (itemsFor log k)
    match extract F ch sub with
    | .error e => .error (pre ++ [k], e)
    | .ok log' =>
      let gH' := (gH ++ nodeHandlers opts k) ++ graphHandlers sub
      match runNodes F (pre ++ [k]) gH' sub log' ch with
      | .error e => .error e
      | .ok es => .ok ({ path := pre ++ [k], isGraph := true, vals := [], handlers := gH' } :: es)
/-- The nodes of a chain run one after the other; the first failure ends the run. -/
def runNodes (F : Facts) (pre : Path) (gH : List Nat) (opts : List Opt) (log : Log) :
    Nodes → Except RunErr (List Entry)
  | .nil => .ok []
  | .cons n ns =>
    match runNode F pre gH opts log n with
    | .error e => .error e
    | .ok a =>
      match runNodes F pre gH opts log ns with
      | .error e => .error e
      | .ok b => .ok (a ++ b)
end

/-- `runner.run` of the outermost graph with the caller's options. -/
def run (F : Facts) (g : Nodes) (opts : List Opt) : Except RunErr (List Entry) :=
  match extract F g opts with
  | .error e => .error ([], e)
  | .ok log =>
    match runNodes F [] (graphHandlers opts) opts log g with
    | .error e => .error e
    | .ok es => .ok ({ path := [], isGraph := true, vals := [], handlers := graphHandlers opts } :: es)

/-! ### well-formedness: node keys of one graph are distinct (they are keys of a Go map) -/

mutual
def Node.wf : Node → Bool
  | .comp _ _ => true
  | .pass _ => true
  | .graph _ ch => ch.wf
def Nodes.wf : Nodes → Bool
  | .nil => true
  | .cons n ns => n.wf && ns.wf && !(ns.toList.any (fun m => m.key == n.key))
end

/-! ### the caller's Option values across calls (`no_leak`) -/

/-- The caller's Option `o` after one call on graph `nodes`. With `deepCopy` nothing the call
    writes is reachable from the caller. If the option handed to the sub-graph aliased the
    caller's value, each `nOpt.paths = …` would be a write to it. -/
def afterCall (F : Facts) (nodes : Nodes) (o : Opt) : Opt :=
  if F.nestedCopies then o else
  o.paths.foldl (fun acc p =>
    match pathEntry F nodes o p with
    | .ok [(_, .opt o')] => { acc with paths := o'.paths }
    | _ => acc) o

/-- One call: a graph and the indices (into the caller's store of Option values) it passes. -/
structure Call where
  g : Nodes
  ixs : List Nat

def pick (store : List Opt) (ixs : List Nat) : List Opt := ixs.filterMap (fun i => store[i]?)

def storeAfterAux (F : Facts) (c : Call) : Nat → List Opt → List Opt
  | _, [] => []
  | i, o :: os => (if i ∈ c.ixs then afterCall F c.g o else o) :: storeAfterAux F c (i + 1) os

/-- The caller's store after call `c`: the Options the call was given may have been written. -/
def storeAfter (F : Facts) (store : List Opt) (c : Call) : List Opt := storeAfterAux F c 0 store

/-- A sequence of calls sharing the store; each call sees the store as the previous left it. -/
def runCalls (F : Facts) : List Opt → List Call → List (Except RunErr (List Entry)) × List Opt
  | store, [] => ([], store)
  | store, c :: cs =>
    let r := run F c.g (pick store c.ixs)
    let rest := runCalls F (storeAfter F store c) cs
    (r :: rest.1, rest.2)

/-! ### constructing Options: `DesignateNode` / `DesignateNodeWithPath` (graph_call_options.go)

  `Option` is a struct passed by value, but its `paths []*NodePath` field is a slice: the copy
  shares the backing array. The model keeps Go's slice semantics: a heap of backing arrays and,
  per Option value, a slice header (array, len, cap). -/

/-- slice header of `Option.paths` -/
structure Hdr where
  arr : Nat
  len : Nat
  cap : Nat
  deriving DecidableEq, Repr

/-- `heap id` = the cells of backing array `id`; ids below `next` are allocated;
    `opts` = the Option values built so far, in construction order. -/
structure BState where
  heap : Nat → List Path
  next : Nat
  opts : List Hdr

inductive BuildOp where
  /-- a fresh Option without designation (`WithLambdaOption`, `WithCallbacks`, …): empty `paths` -/
  | base
  /-- `opts[src].DesignateNodeWithPath(added...)` (`DesignateNode(k...)` = singleton paths) -/
  | designate (src : Nat) (added : List Path)
  deriving DecidableEq, Repr

def BState.init : BState := { heap := fun _ => [], next := 0, opts := [] }

/-- `s[:len]` -/
def pathsOf (st : BState) (h : Hdr) : List Path := (st.heap h.arr).take h.len

def setArr (heap : Nat → List Path) (id : Nat) (cells : List Path) : Nat → List Path :=
  fun j => if j = id then cells else heap j

/-- overwrite `cells[pos .. pos+|xs|)` -/
def writeAt (cells : List Path) (pos : Nat) (xs : List Path) : List Path :=
  cells.take pos ++ xs ++ cells.drop (pos + xs.length)

/-- capacity chosen by Go's `append` for a slice of pointers when it has to reallocate (small
    sizes: double or the needed length, rounded up to the allocator's size class). Only the
    in-place variant depends on it; the theorems hold for every growth function. -/
def goGrow (oldCap needed : Nat) : Nat :=
  let c := if needed > 2 * oldCap then needed else 2 * oldCap
  if c ≤ 4 then c else c + c % 2

def bstep (copies : Bool) (grow : Nat → Nat → Nat) (st : BState) : BuildOp → BState
  | .base =>
    { heap := setArr st.heap st.next [], next := st.next + 1, opts := st.opts ++ [⟨st.next, 0, 0⟩] }
  | .designate src added =>
    let h := (st.opts[src]?).getD ⟨st.next, 0, 0⟩
    let n := h.len + added.length
    if copies then
      -- make + append(o.paths...) + append(path...): always a fresh array
      { heap := setArr st.heap st.next (pathsOf st h ++ added), next := st.next + 1,
        opts := st.opts ++ [⟨st.next, n, n⟩] }
    else if n ≤ h.cap then
      -- append within capacity: writes into the array shared with the receiver's original
      { heap := setArr st.heap h.arr (writeAt (st.heap h.arr) h.len added), next := st.next,
        opts := st.opts ++ [⟨h.arr, n, h.cap⟩] }
    else
      let c := grow h.cap n
      { heap := setArr st.heap st.next (pathsOf st h ++ added ++ List.replicate (c - n) []),
        next := st.next + 1, opts := st.opts ++ [⟨st.next, n, c⟩] }

def build (copies : Bool) (grow : Nat → Nat → Nat) (ops : List BuildOp) : BState :=
  ops.foldl (bstep copies grow) BState.init

/-- the designated paths of every constructed Option, as seen after the whole construction -/
def builtPaths (copies : Bool) (grow : Nat → Nat → Nat) (ops : List BuildOp) : List (List Path) :=
  let st := build copies grow ops
  st.opts.map (pathsOf st)

/-- what the API promises: a derived Option designates its base's paths plus the added ones -/
def specStep (acc : List (List Path)) : BuildOp → List (List Path)
  | .base => acc ++ [[]]
  | .designate src added => acc ++ [((acc[src]?).getD []) ++ added]

def specPaths (ops : List BuildOp) : List (List Path) := ops.foldl specStep []

end EinoV.C16
