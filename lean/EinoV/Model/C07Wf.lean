/-
  C07 — Workflows: what `Workflow.Compile` hands out and what a run of it does with a value of
  a given dynamic type.

  Compile side: compose/workflow.go.  The Add…Node calls reach `g.addNode` at once; AddInput /
  AddDependency / AddInputWithOptions(WithNoDirectDependency()) and `Workflow.AddBranch` are
  recorded and replayed by `Workflow.compile` – every branch through
  `g.addBranch(from, b, skipData = true)` (a Workflow branch hands no data on), then every
  input through `g.addEdgeWithMappings(from, key, noControl, noData, …)`, then `g.compile`.
  The lowering itself is EinoV/Model/C20Wf.lean (`WfDecl`, `branchOps`, `inputOps`, `guard`),
  the builder EinoV/Model/C20Builder.lean; here the replay is written out for a Workflow whose
  nodes carry no sub-graph, and the runner is kept together with the control edges.

  Run side: a Workflow always runs in DAG mode (compose/dag.go dagChannel, graph_manager.go
  channelManager, graph_run.go resolveCompletedTasks / calculateBranch), eagerly (one
  completed task at a time).  Control and data are separate: a node runs once every control
  predecessor (control edges, branches naming it as an end node) has completed or been
  skipped – not all of them skipped – and every data predecessor has delivered or been
  skipped; its input is the one value delivered (no value: the zero value of its input type;
  several: a merge, not modelled).  Values are abstracted to their dynamic type as in
  EinoV/Model/C07.lean; the type-relevant steps are the same functions (`convert` = the
  run-time check installed on a "may" edge, `arriveBranch` = pre-branch check + the condition's
  `input.(T)`, `assertIn` = the node's `input.(I)` / the final `out.(O)`).

  Invoke and Stream differ in *when* a failed run-time check is reported: `invoke` handlers
  return the error at once (edge handlers run when the producer completes, even for a target
  that has been skipped); `transform` handlers wrap the stream and the error item surfaces when
  the stream is read – by a lambda, a branch condition or the caller draining the output –
  and never if nobody reads it (`Val.bad`).

  Core Lean only (compiled into oracle_C07).
-/
import EinoV.Model.C07
import EinoV.Model.C20Wf

namespace EinoV.C07
open EinoV.Build

/-! ## compile -/

/-- a compiled Workflow: the runner and the control edges of the graph it was compiled from
    (`chanCall.controls`; the shared `Runner` keeps data edges and branches only) -/
structure WRunner where
  r : Runner
  ctl : List (Key × Key)
  mapped : List (Key × Key)   -- data edges that carry field mappings (`g.handlerOnEdges` field mappers)
  deriving Repr

/-- the `g.addNode` calls of a Workflow's declarations (a node that carries a graph is, for the
    builder, a node with the graph's input and output type) -/
def plainOps : List WfNode → List Op
  | [] => []
  | n :: ns =>
    (match n.body with
     | .plain pt i o =>
       Op.node { key := n.key, passthrough := pt, inTy := i, outTy := o, pre := none, post := none,
                 nodeKeyOpt := false }
     | .graph child _ => Op.node (subSpec n.key child.inT child.outT)) :: plainOps ns

def _root_.EinoV.Build.WfNode.isPlain (n : WfNode) : Bool :=
  match n.body with
  | .plain _ _ _ => true
  | .graph _ _ => false

/-- no node of the Workflow is a graph -/
def _root_.EinoV.Build.WfDecl.plain (d : WfDecl) : Bool := d.nodes.all WfNode.isPlain

/-- no recorded input carries field mappings (those are C15's subject: a mapped edge is not
    compared type against type) -/
def _root_.EinoV.Build.WfDecl.unmapped (d : WfDecl) : Bool :=
  d.nodes.all (fun n => n.ins.all (fun i => i.mapped.isNone)) && d.endIns.all (fun i => i.mapped.isNone)

/-- the builder after the declarations and the replay of `Workflow.compile` -/
def wfBuilt (E : Env) (d : WfDecl) : Builder :=
  runK E (runK E (Builder.new .workflow d.inT d.outT d.stateTy) (plainOps d.nodes)) (d.branchOps ++ d.inputOps)

/-- the first `Compile(co)` of a freshly declared Workflow (nodes without sub-graphs): its
    answer and, if it succeeds, the runnable -/
def wfCompile (E : Env) (endsChecked : Bool) (d : WfDecl) (co : COpts) : Outcome × Option WRunner :=
  let b0 := runK E (Builder.new .workflow d.inT d.outT d.stateTy) (plainOps d.nodes)
  match b0.buildError with
  | some k => (.stored k, none)
  | none =>
    match d.guard endsChecked with
    | some oc => (oc, none)
    | none =>
      let b1 := runK E b0 (d.branchOps ++ d.inputOps)
      let r := compile E.f E.ord b1 co
      (r.2.1, r.2.2.map fun x => { r := x, ctl := b1.controlEdges, mapped := b1.mapEdges })

/-! ## channels (compose/dag.go) -/

inductive Mode where
  | invoke | stream
  deriving DecidableEq, Repr

inductive CS where
  | waiting | ready | skipped
  deriving DecidableEq, Repr

/-- a value on its way: dynamic type, and (Stream only) whether a run-time type check it went
    through failed – the stream then carries an error item instead of the value -/
structure Val where
  d : Dyn
  bad : Bool
  deriving DecidableEq, Repr

/-- the control part of a `dagChannel`: `ControlPredecessors`, `DataPredecessors`, `Skipped` -/
structure CCh where
  ctl : List (Key × CS)
  data : List (Key × Bool)
  skipped : Bool
  deriving Repr

/-- how a run ends, as far as types are concerned -/
inductive WRes where
  | ok
  | typeErr      -- ordinary error of a run-time type check
  | panic        -- a type assertion failed (`unexpected input type`)
  | stuck        -- no task left and END not reached
  | endSkipped   -- END itself was skipped: `reportBranch` returns "unknown node: end"
  | badPick      -- a condition returned a node that is not one of its end nodes
  | merge        -- several values reached one node (fan-in merge: not modelled)
  | nilIn        -- a node with an interface input type was handed the zero value (nil: outside the model)
  | steps        -- fuel exhausted (does not happen: every node runs at most once)
  deriving DecidableEq, Repr, Inhabited

/-- `controlPredecessors[k]` as `compile` builds it (a Go map per channel: each key once) -/
def WRunner.ctlPreds (w : WRunner) (k : Key) : List Key :=
  dedupKeys ((w.ctl.filter (·.2 = k)).map (·.1) ++ (w.r.branches.filter (·.ends.contains k)).map (·.src))

/-- `dataPredecessors[k]`: data edges, and branches that hand their input on -/
def WRunner.dataPreds (w : WRunner) (k : Key) : List Key :=
  dedupKeys ((w.r.dataEdges.filter (·.2 = k)).map (·.1) ++
    (w.r.branches.filter (fun br => !br.noData && br.ends.contains k)).map (·.src))

/-- `chanCall.controls` -/
def WRunner.ctlSucc (w : WRunner) (k : Key) : List Key := (w.ctl.filter (·.1 = k)).map (·.2)

/-- `getSuccessors`: writeTo, controls, end nodes of the branches -/
def WRunner.succs (w : WRunner) (k : Key) : List Key :=
  (w.r.dataEdges.filter (·.1 = k)).map (·.2) ++ w.ctlSucc k ++ (w.r.branches.filter (·.src = k)).flatMap (·.ends)

/-- the channels: one per node, one for END -/
def WRunner.keys (w : WRunner) : List Key := w.r.nodes.map (·.key) ++ [END]

def initCh (w : WRunner) (k : Key) : CCh :=
  { ctl := (w.ctlPreds k).map (fun p => (p, CS.waiting)), data := (w.dataPreds k).map (fun p => (p, false)),
    skipped := false }

/-- `dagChannel.reportSkip([src])` -/
def CCh.reportSkip (c : CCh) (src : Key) : CCh :=
  let ctl := c.ctl.map (fun p => if p.1 = src then (p.1, CS.skipped) else p)
  { ctl, data := c.data.map (fun p => if p.1 = src then (p.1, true) else p),
    skipped := ctl.all (fun p => p.2 == CS.skipped) }

/-- `dagChannel.reportDependencies([src])` -/
def CCh.reportDep (c : CCh) (src : Key) : CCh :=
  if c.skipped then c
  else { c with ctl := c.ctl.map (fun p => if p.1 = src then (p.1, CS.ready) else p) }

/-- the flag part of `dagChannel.reportValues` -/
def CCh.reportData (c : CCh) (src : Key) : CCh :=
  if c.skipped then c
  else { c with data := c.data.map (fun p => if p.1 = src then (p.1, true) else p) }

/-- `dagChannel.get`: ready? -/
def CCh.ready (c : CCh) : Bool :=
  !c.skipped && !(c.ctl.isEmpty && c.data.isEmpty) && c.ctl.all (fun p => p.2 != CS.waiting) &&
  c.data.all (fun p => p.2)

/-- the deferred reset of `dagChannel.get` -/
def CCh.reset (c : CCh) : CCh :=
  { c with ctl := c.ctl.map (fun p => (p.1, CS.waiting)), data := c.data.map (fun p => (p.1, false)) }

def upd {α : Type} (f : Key → α) (k : Key) (v : α) : Key → α := fun x => if x = k then v else f x

/-- `reportSkip([src])` on each listed channel; the ones that are now skipped altogether -/
def skipFrom (src : Key) : List Key → (Key → CCh) → (Key → CCh) × List Key
  | [], cs => (cs, [])
  | t :: ts, cs =>
    let c := (cs t).reportSkip src
    let r := skipFrom src ts (upd cs t c)
    (r.1, if c.skipped then t :: r.2 else r.2)

/-- the second loop of `channelManager.reportBranch`: a skipped node skips its successors;
    `none`: END has no entry in `successors` – "unknown node: end" -/
def skipProp (w : WRunner) : Nat → List Key → (Key → CCh) → Option (Key → CCh)
  | 0, _, cs => some cs
  | _ + 1, [], cs => some cs
  | f + 1, k :: ks, cs =>
    if k = END then none
    else
      let r := skipFrom k (w.succs k) cs
      skipProp w f (ks ++ r.2) r.1

structure WSt where
  cs : Key → CCh
  vals : Key → List (Key × Val)     -- `dagChannel.Values`
  queue : List (Key × Val)          -- tasks submitted and not completed yet: node, input
  par : Bool                        -- more than one task was in flight at some time

/-! ## one completed task -/

/-- a branch condition of node `k` meets the value: pre-branch check, the condition's
    assertion, the choice.  A stream that already carries an error item fails the read. -/
def brEvent (im : Impl) (c : Code) (k : Key) (v : Val) (p : Nat × BranchRec × Bool) : Ev :=
  if v.bad then .typeErr
  else
    match arriveBranch im p.2.1.inTy p.2.2 v.d with
    | .pass => if p.2.1.ends.contains (c.pick k p.1 v.d) then .pass else .badPick
    | e => e

/-- the channels the value of `k` is written to: data edges, and the chosen end of every
    branch that hands its input on (a Workflow branch does not) -/
def targets (w : WRunner) (c : Code) (k : Key) (v : Val) : List Key :=
  (w.r.dataEdges.filter (·.1 = k)).map (·.2) ++
  (w.r.branchTable.filter (fun p => p.2.1.src = k)).filterMap
    (fun p => if p.2.1.noData then none else some (c.pick k p.1 v.d))

/-- `updateValues` for one target: the edge handler, then `reportValues` -/
def deliver (mode : Mode) (im : Impl) (w : WRunner) (k : Key) (v : Val) (t : Key) (st : WSt) : Except WRes WSt :=
  let failed := !v.bad && convert im w.r k t v.d == .typeErr
  if failed && mode == .invoke then .error .typeErr
  else
    let nv : Val := { d := v.d, bad := v.bad || failed }
    if (st.cs t).skipped then .ok st
    else .ok { st with vals := upd st.vals t ((st.vals t).filter (fun p => p.1 != k) ++ [(k, nv)]),
                       cs := upd st.cs t ((st.cs t).reportData k) }

def deliverAll (mode : Mode) (im : Impl) (w : WRunner) (k : Key) (v : Val) : List Key → WSt → Except WRes WSt
  | [], st => .ok st
  | t :: ts, st =>
    match deliver mode im w k v t st with
    | .error e => .error e
    | .ok st' => deliverAll mode im w k v ts st'

def reportDeps (k : Key) : List Key → (Key → CCh) → (Key → CCh)
  | [], cs => cs
  | t :: ts, cs => reportDeps k ts (upd cs t ((cs t).reportDep k))

def propFuel (w : WRunner) : Nat := (w.keys.length + 2) * (w.keys.length + 2)

/-- `resolveCompletedTasks` + `updateValues` + `updateDependencies` for the task of node `k`
    (or START) that produced `v` -/
def complete (mode : Mode) (im : Impl) (w : WRunner) (c : Code) (k : Key) (v : Val) (st : WSt) : Except WRes WSt :=
  let bs := w.r.branchTable.filter (fun p => p.2.1.src = k)
  match worst (bs.map (brEvent im c k v)) with
  | .panic => .error .panic
  | .typeErr => .error .typeErr
  | .badPick => .error .badPick
  | .pass =>
    let picks := bs.map (fun p => c.pick k p.1 v.d)
    -- end nodes no branch selected and no plain control edge of `k` triggers
    let dropped := (bs.flatMap (fun p => p.2.1.ends)).filter (fun e => !picks.contains e && !(w.ctlSucc k).contains e)
    let r := skipFrom k dropped st.cs
    match skipProp w (propFuel w) r.2 r.1 with
    | none => .error .endSkipped
    | some cs1 =>
      match deliverAll mode im w k v (targets w c k v) { st with cs := cs1 } with
      | .error e => .error e
      | .ok st2 => .ok { st2 with cs := reportDeps k (w.ctlSucc k ++ picks) st2.cs }

/-! ## ready channels -/

inductive Got where
  | val (v : Val)
  | merge
  | nil
  deriving Repr

/-- the value `dagChannel.get` hands out.  No value at all (every data predecessor was skipped):
    the zero value of the node's input type – nil for an interface type: outside the model.
    (For a node with field-mapped inputs the zero value must be the empty map of mapped
    fields, from which the mapping converter builds the zero value of the node's type: the
    node sees the same thing.  `zeroMappedReady` marks the runs in which this happens.) -/
def getVal (w : WRunner) (k : Key) : List (Key × Val) → Got
  | [] =>
    match w.r.inOf k with
    | some (.conc c) => .val { d := c, bad := false }   -- zero value of a concrete type
    | _ => .nil
  | [p] => .val p.2
  | _ => .merge

def enqueue (w : WRunner) : List Key → WSt → Except WRes WSt
  | [], st => .ok st
  | k :: ks, st =>
    match getVal w k (st.vals k) with
    | .merge => .error .merge
    | .nil => .error .nilIn
    | .val v =>
      enqueue w ks { st with queue := st.queue ++ [(k, v)], vals := upd st.vals k [],
                             cs := upd st.cs k ((st.cs k).reset) }

/-- `getFromReadyChannels` and the END test of `calculateNextTasks`: the run's result, or the
    state with the new tasks submitted -/
def scan (im : Impl) (w : WRunner) (st : WSt) : WRes ⊕ WSt :=
  let rdy := w.keys.filter (fun k => (st.cs k).ready)
  if rdy.any (fun k => match getVal w k (st.vals k) with | .merge => true | _ => false) then .inl .merge
  else if rdy.contains END then
    match getVal w END (st.vals END) with
    | .merge => .inl .merge
    | .nil => .inl .nilIn
    | .val v =>
      if v.bad then .inl .typeErr     -- Stream: the caller reads the error item
      else match assertIn im w.r END v.d with
        | .pass => .inl .ok
        | _ => .inl .panic
  else
    match enqueue w rdy st with
    | .error e => .inl e
    | .ok st' => .inr st'

/-- some ready channel of a node with field-mapped inputs holds no value: the node is about to
    get the channel's zero value through its field-mapping converter -/
def zeroMappedReady (w : WRunner) (st : WSt) : Bool :=
  w.keys.any (fun k => (st.cs k).ready && (st.vals k).isEmpty && w.mapped.any (fun p => p.2 == k))

/-! ## the run -/

/-- the task of node `k` on input `v`: a pass-through node forwards (also a stream nobody has
    read yet); a lambda reads its input, asserts its type, and returns what its body returns
    (START / END are not nodes: no body runs there) -/
def runNode (im : Impl) (w : WRunner) (c : Code) (k : Key) (v : Val) : Except WRes Val :=
  if w.r.isPassthrough k || k = START || k = END then .ok v
  else if v.bad then .error .typeErr
  else
    match assertIn im w.r k v.d with
    | .pass => .ok { d := c.body k v.d, bad := false }
    | _ => .error .panic

/-- result, "several tasks were in flight together", "a node with field-mapped inputs got the
    zero value" -/
def wfLoop (mode : Mode) (im : Impl) (w : WRunner) (c : Code) : Nat → Bool → WSt → WRes × Bool × Bool
  | 0, zm, st => (.steps, st.par, zm)
  | f + 1, zm, st =>
    match st.queue with
    | [] => (.stuck, st.par, zm)
    | (k, v) :: q =>
      let par := st.par || !q.isEmpty
      let st1 : WSt := { st with queue := q, par }
      match runNode im w c k v with
      | .error e => (e, par, zm)
      | .ok out =>
        match complete mode im w c k out st1 with
        | .error e => (e, par, zm)
        | .ok st2 =>
          let zm2 := zm || zeroMappedReady w st2
          match scan im w st2 with
          | .inl res => (res, par, zm2)
          | .inr st3 => wfLoop mode im w c f zm2 st3

/-- a whole run on an input of dynamic type `d0`; with the result, whether several tasks were
    ever in flight together (eager mode then lets the first one to finish decide), and whether
    a node with field-mapped inputs was handed the zero value -/
def wfRun (mode : Mode) (im : Impl) (w : WRunner) (c : Code) (fuel : Nat) (d0 : Dyn) : WRes × Bool × Bool :=
  let st0 : WSt := { cs := initCh w, vals := fun _ => [], queue := [], par := false }
  match complete mode im w c START { d := d0, bad := false } st0 with
  | .error e => (e, false, false)
  | .ok st1 =>
    let zm := zeroMappedReady w st1
    match scan im w st1 with
    | .inl res => (res, false, zm)
    | .inr st2 => wfLoop mode im w c fuel zm st2

end EinoV.C07
