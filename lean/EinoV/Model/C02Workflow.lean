/-
  C02 (Workflow part) — what `compose/workflow.go` + `graph.compile` produce for a Workflow,
  and the *eager* run loop used for Workflows (`needAll = !eager`: one completion at a
  time), built from the engine's own functions (`calcNext`, `execOne`, `collectOne`).

  Mirrors:
    WorkflowNode.AddInput                         → `WDep.input`      (control + data edge)
    WorkflowNode.AddDependency                    → `WDep.dependency` (control edge only)
    AddInputWithOptions(WithNoDirectDependency)   → `WDep.noDirect`   (data edge only)
    Workflow.AddBranch (addBranch(…, skipData))   → branch with `noData := true`
    WorkflowNode.SetStaticValue                   → `statics` (merged into the node's input)
    Workflow.compile → graph.compile              → `compileW` (dag, eager, writeTo = data
                                                    edges, controls = control edges,
                                                    predecessor tables)
    runner.run with taskManager.wait = waitOne    → `eagerLoop` / `runEager`

  Field mappings are C15's business: data flows as whole values, fan-in by map merge.
  Core Lean only (compiled into the oracle).
-/
import EinoV.Model.Engine
import EinoV.Model.GraphBuild

namespace EinoV.Engine

/-- one declared dependency of a Workflow node (`addDependencyRelation`):
    `control` ⇒ `controlEdges[from] ∋ to`, `data` ⇒ `dataEdges[from] ∋ to` -/
structure WDep where
  from_ : Key
  to : Key
  control : Bool
  data : Bool
  deriving Repr, DecidableEq, Inhabited

/-- `to.AddInput(from)`: `addEdgeWithMappings(from, to, noControl=false, noData=false)` -/
def WDep.input (from_ to : Key) : WDep := { from_ := from_, to := to, control := true, data := true }
/-- `to.AddDependency(from)`: `addEdgeWithMappings(from, to, noControl=false, noData=true)` -/
def WDep.dependency (from_ to : Key) : WDep := { from_ := from_, to := to, control := true, data := false }
/-- `to.AddInputWithOptions(from, …, WithNoDirectDependency())`:
    `addEdgeWithMappings(from, to, noControl=true, noData=false)` -/
def WDep.noDirect (from_ to : Key) : WDep := { from_ := from_, to := to, control := false, data := true }

/-- the dependency `addEdgeWithMappings(from, to, noControl, noData)` creates: a control edge
    iff `!noControl`, a data edge iff `!noData` -/
def WDep.ofFlags (from_ to : Key) (flags : Bool × Bool) : WDep :=
  { from_ := from_, to := to, control := !flags.1, data := !flags.2 }

structure WorkflowDef (V : Type) where
  nodes : List (Key × (V → Except Err V))
  deps : List WDep
  branches : List (Key × Branch V)      -- Workflow.AddBranch(from, branch); data flow is dropped
  statics : List (Key × V) := []        -- SetStaticValue (whole static map of the node)

/-- the pre-node handler installed for static values: `mergeValues([in, static])`.
    (Modelled inside the node function: a *conflicting* static value is outside this model —
    overlapping mappings are property C15.) -/
def withStatic {V} (ops : ValOps V) (statics : List (Key × V)) (k : Key) (act : V → Except Err V) :
    V → Except Err V :=
  match alookup k statics with
  | none => act
  | some s => fun v =>
    match ops.merge [v, s] with
    | some m => act m
    | none => .error { cls := .merge }

/-- the input the node body sees (after the static-value handler) -/
def seenInput {V} (ops : ValOps V) (statics : List (Key × V)) (k : Key) (v : V) : V :=
  match alookup k statics with
  | none => v
  | some s => (ops.merge [v, s]).getD v

def WorkflowDef.dataOut {V} (w : WorkflowDef V) (k : Key) : List Key :=
  (w.deps.filter (fun d => d.from_ == k && d.data)).map (·.to)

def WorkflowDef.ctrlOut {V} (w : WorkflowDef V) (k : Key) : List Key :=
  (w.deps.filter (fun d => d.from_ == k && d.control)).map (·.to)

def WorkflowDef.branchesOf {V} (w : WorkflowDef V) (k : Key) : List (Branch V) :=
  (w.branches.filter (·.1 == k)).map (fun b => { b.2 with noData := true })

def WorkflowDef.mkNode {V} (w : WorkflowDef V) (k : Key) (act : V → Except Err V) : Node V :=
  { key := k, act := act, writeTo := w.dataOut k, controls := w.ctrlOut k, branches := w.branchesOf k }

/-- `controlPredecessors` of `graph.compile`: control edges, then every branch end -/
def WorkflowDef.ctrlPreds {V} (w : WorkflowDef V) : List (Key × List Key) :=
  w.branches.foldl (fun m b => b.2.ends.foldl (fun m e => addPred m e b.1) m)
    (w.deps.foldl (fun m d => if d.control then addPred m d.to d.from_ else m) [])

/-- `dataPredecessors` of `graph.compile`: data edges only (workflow branches are `noDataFlow`) -/
def WorkflowDef.dataPreds {V} (w : WorkflowDef V) : List (Key × List Key) :=
  w.deps.foldl (fun m d => if d.data then addPred m d.to d.from_ else m) []

/-- `Workflow.compile` → `graph.compile` with `isWorkflow`: `runTypeDAG`, `eager = true`
    (and no step limit: `maxRunSteps` must not be set in DAG mode). -/
def compileW {V} (ops : ValOps V) (w : WorkflowDef V) : Runner V :=
  { nodes := w.nodes.map (fun p => w.mkNode p.1 (withStatic ops w.statics p.1 p.2)),
    start := w.mkNode START (fun v => .ok v),
    dataPreds := w.dataPreds, ctrlPreds := w.ctrlPreds,
    maxSteps := 0, dag := true, eager := true }

/-! ### the eager run loop -/

/-- the completion schedule: which of the currently running tasks (in submission order)
    finishes next; taken modulo the number of running tasks -/
abbrev Pick (V : Type) := List (Key × V) → Nat

structure EOutcome (V : Type) where
  result : Except Err V
  batches : List (List (Key × V))   -- tasks submitted by each iteration of the run loop
  completed : List Key              -- tasks collected, in completion order (a failing task is the last)
  abandoned : List (Key × V)        -- tasks still running when the run returned

def EOutcome.submitted {V} (o : EOutcome V) : List (Key × V) := o.batches.flatten

/-- `runner.run`'s loop with `taskManager.wait = waitOne`: the newly ready tasks are
    submitted, ONE completion is taken (chosen by `pick` among the running tasks), its
    successors are computed by `calcNext` on that single task; END ready ⇒ return (whatever
    is still running is abandoned, as the code does); nothing running ⇒ "no tasks to execute". -/
def eagerLoop {V} (ops : ValOps V) (r : Runner V) (pick : Pick V) :
    Nat → Chans V → List (Key × V) → List (List (Key × V)) → List Key → EOutcome V
  | 0, _, running, bs, comp =>
    { result := .error { cls := .fuel }, batches := bs, completed := comp, abandoned := running }
  | fuel + 1, cm, running, bs, comp =>
    match running[pick running % running.length]? with
    | none => { result := .error { cls := .noTasks }, batches := bs, completed := comp, abandoned := [] }
    | some t =>
      let rest := running.eraseIdx (pick running % running.length)
      match collectOne (execOne r t) with
      | .error e => { result := .error e, batches := bs, completed := comp ++ [t.1], abandoned := rest }
      | .ok d =>
        match calcNext ops r cm [d] with
        | .error e => { result := .error e, batches := bs, completed := comp ++ [t.1], abandoned := rest }
        | .ok (_, .result v) => { result := .ok v, batches := bs, completed := comp ++ [t.1], abandoned := rest }
        | .ok (cm', .tasks ts) => eagerLoop ops r pick fuel cm' (rest ++ ts) (bs ++ [ts]) (comp ++ [t.1])

/-- a bound on the number of completions no acyclic run can exhaust -/
def Runner.eagerFuel {V} (r : Runner V) : Nat := (r.nodes.length + 2) * (r.nodes.length + 2)

/-- `runner.run` (value mode, no interrupts) of an eager runner under a completion schedule -/
def runEager {V} (ops : ValOps V) (r : Runner V) (pick : Pick V) (input : V) : EOutcome V :=
  match calcNext ops r (initChans r) [(START, input)] with
  | .error e => { result := .error e, batches := [], completed := [], abandoned := [] }
  | .ok (_, .result v) => { result := .ok v, batches := [], completed := [], abandoned := [] }
  | .ok (cm, .tasks ts) => eagerLoop ops r pick r.eagerFuel cm ts [ts] []

/-! ### `calcNext` without the final classification (what the commutation theorems are about) -/

/-- `resolveCompletedTasks` + `updateAndGet`: the new channels, the ready (node, input) pairs
    and whether some ready channel failed to merge -/
def calcCore {V} (ops : ValOps V) (r : Runner V) (cm : Chans V) (done : List (Done V)) :
    Except Err (Chans V × List (Key × V) × Bool) := do
  let res ← resolve r cm done
  pure (getReady ops r.dag (updateDeps r (updateValues r res.cm res.writes) res.deps))

/-- the END check of `calculateNextTasks` -/
def classify {V} (x : Chans V × List (Key × V) × Bool) : Except Err (Chans V × Next V) :=
  if x.2.2 then .error { cls := .merge } else
  match alookup END x.2.1 with
  | some v => .ok (x.1, .result v)
  | none => .ok (x.1, .tasks x.2.1)

end EinoV.Engine
