/-
  C11 — a late `ProcessState` through a captured handler context.

  Code modelled (compose/state.go).  Every lock site hands the user function a
  `context.Context`:

      convertPreHandler … streamConvertPostHandler:   pMu.Lock(); defer pMu.Unlock(); return handler(ctx, in, cState)
      ProcessState:                                   pMu.Lock(); defer pMu.Unlock(); return handler(ctx, s)

  A closure created inside the user function can keep that context and call
  `ProcessState(ctx, …)` with it *after* the user function has returned and the lock has been
  released, on whatever goroutine runs the closure:

    * a `StreamStatePreHandler` / `StreamStatePostHandler` returns
      `schema.StreamReaderWithConvert(out, func(chunk) { ProcessState(ctx, …) })`: the per-chunk
      callback runs where the stream is consumed — the node's own goroutine, the successor's
      goroutine, or the run-loop goroutine when the engine concatenates the stream;
    * any handler or `ProcessState` callback starts a goroutine that calls
      `ProcessState(ctx, …)`.

  The model.  Holding the lock is a property of a *time interval* of a thread — `Sys.holder`
  and the phases `locked / loaded / stored` of Model/C11.lean — never of a context value.  A
  context value (`CtxVal`) can at most carry a *record* "the state lock is held", written by a
  wrapper that derives the context it hands out (`handsPlainCtx = false`); whether a lock site
  looks at such a record instead of going through `Lock` is the source fact
  `lockUnconditional`.  `srcs t k` says which context the `k`-th operation of thread `t` passes
  to its lock site: the task's own (`own`) or one that an earlier critical section handed to
  its user function (`handed u j`).  `stepK` is the micro-step machine of Model/C11.lean in
  which the lock / unlock steps of an operation exist iff its lock site locks *and* the context
  it is called with does not talk it out of locking.
-/
import EinoV.Model.C11

namespace EinoV.C11

/-- where the context an operation passes to its lock site comes from -/
inductive CtxSrc where
  /-- the task's own context, built by the engine (`task.ctx`) -/
  | own
  /-- the context the wrapper of operation `k` (0-based, program order) of thread `t` handed to
      its user function, kept by a closure -/
  | handed (t k : Nat)
  deriving DecidableEq, Repr

/-- Source facts about contexts and the lock (compose/state.go, the five lock sites). -/
structure CtxFacts where
  /-- the user function is called with the caller's `ctx` itself (`handler(ctx, …)`); `false`:
      with a context derived from it, which can carry a record about the lock -/
  handsPlainCtx : Bool
  /-- every path from the entry of a lock site to the user call goes through `mu.Lock()`
      whatever the context carries; `false`: a branch taken on the context's content reaches
      the user call without locking -/
  lockUnconditional : Bool
  deriving DecidableEq, Repr

/-- what a context value can tell a lock site about the lock -/
structure CtxVal where
  /-- the context carries a record "the state lock is held" -/
  saysLockHeld : Bool
  deriving DecidableEq, Repr

/-- The context value behind a source: the engine's task context carries no record; a context
    handed out by a wrapper carries one iff the wrappers derive the context they hand out.  The
    record is a value: it stays in the context after the critical section that wrote it. -/
def ctxVal (cf : CtxFacts) : CtxSrc → CtxVal
  | .own => ⟨false⟩
  | .handed _ _ => ⟨!cf.handsPlainCtx⟩

/-- does a lock site called with `ctx` go through `Lock` / `Unlock` -/
def takesLock (cf : CtxFacts) (ctx : CtxVal) : Bool := cf.lockUnconditional || !ctx.saysLockHeld

variable {S V : Type}

/-- The lock table as it applies to the next operation of thread `t`: the lock site locks
    (`locks w`) and the context the operation is called with does not make it skip the lock.
    The operation's index in the thread's program is the number of operations the thread has
    committed. -/
def locksAt (cf : CtxFacts) (srcs : Nat → Nat → CtxSrc) (locks : Wrapper → Bool)
    (c : Core S V) (t : Nat) : Wrapper → Bool :=
  fun w => locks w && takesLock cf (ctxVal cf (srcs t (doneCount c t)))

/-- one micro-step of thread `t`, contexts taken into account -/
def stepK (cf : CtxFacts) (srcs : Nat → Nat → CtxSrc) (locks : Wrapper → Bool)
    (sys : Sys S V) (t : Nat) : Sys S V :=
  step (locksAt cf srcs locks sys.core t) sys t

def gstepK (cf : CtxFacts) (srcs : Nat → Nat → CtxSrc) (locks : Wrapper → Bool)
    (guard : Sys S V → Nat → Bool) (sys : Sys S V) (t : Nat) : Sys S V :=
  if guard sys t then stepK cf srcs locks sys t else sys

def runK (cf : CtxFacts) (srcs : Nat → Nat → CtxSrc) (locks : Wrapper → Bool)
    (guard : Sys S V → Nat → Bool) (sched : List Nat) (sys : Sys S V) : Sys S V :=
  sched.foldl (gstepK cf srcs locks guard) sys

/-- thread `t` is inside a critical section or a user function -/
def inside (sys : Sys S V) (t : Nat) : Bool :=
  match sys.phase t with
  | .idle => false
  | _ => true

/-- number of threads `< n` that are inside -/
def insideCount (sys : Sys S V) (n : Nat) : Nat := ((List.range n).filter (inside sys)).length

/-- A closure can only use a context that has been handed out: the next operation of thread
    `t` may start only when the operation whose context it uses has been committed (its user
    function has returned — the closure runs *late*).  One of the scheduling restrictions the
    theorems quantify over; the oracle runs its schedules under it. -/
def lateGuard (srcs : Nat → Nat → CtxSrc) (sys : Sys S V) (t : Nat) : Bool :=
  inside sys t ||
    match srcs t (doneCount sys.core t) with
    | .own => true
    | .handed u k => decide (k < doneCount sys.core u)

end EinoV.C11
