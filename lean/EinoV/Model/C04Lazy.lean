/-
  C04 — error items: streams that fail in the middle.

  A natively streaming component (Stream / Transform) may return its reader and report a
  failure later, as an *error item* after some chunks (schema/stream.go: `Send(chunk, err)`).
  The chunk-list model of `Model/C04.lean` cannot express this (a stream-mode result is either
  a whole chunk list or a call-time error), so stream mode is refined here: a stream is a chunk
  list with an optional trailing error item (`LStream`).  What matters for the property
  ("a failure is reported in every paradigm, at call time or as an error item on the stream")
  is who gets to see the item:

    * everything that drains a stream reports the item as its own failure
      (`LStream.force`: `concatStreamReader`, every packed form of a component — all twelve
      adaptors of runnable.go concatenate or hand the reader to user code that drains it —,
      plain branch conditions run as `collectByInvoke`, and the caller draining the output);
    * everything that only forwards a stream keeps the item: pass-through nodes, stream copy on
      fan-out, `WithOutputKey` / `WithInputKey` stream conversion (`LStream.mapChunks`), and the
      fan-in merge `MergeStreamReaders` (`lazyOps.merge`);
    * a stream nobody drains (a node without a path to END, a run that reaches END first)
      reports nothing: the failure is seen by Invoke only.  This is inherent in lazy streams
      and the model says exactly when it happens.
-/
import EinoV.Model.C04

namespace EinoV.C04
open EinoV.Engine

/-- a stream as its consumers see it: the chunks received before the end of the stream, and
    the error item that ended it (none: the stream ended with EOF) -/
structure LStream (V : Type) where
  chunks : List V
  err : Option Err := none

namespace LStream
variable {V : Type}

/-- an error-free stream -/
def ofList (l : List V) : LStream V := { chunks := l }

/-- draining the stream: all chunks, or the error item -/
def force (s : LStream V) : Except Err (List V) :=
  match s.err with
  | some e => .error e
  | none => .ok s.chunks

/-- chunk-wise conversion / filtering of a stream (`StreamReaderWithConvert`): error items are
    not converted, they are forwarded -/
def mapChunks (f : List V → List V) (s : LStream V) : LStream V := { chunks := f s.chunks, err := s.err }

end LStream

/-- a node that drains its input before it produces anything (every packed component) -/
def lazyNode {V} (t : List V → Except Err (List V)) : LStream V → Except Err (LStream V) :=
  fun s => s.force >>= t >>= fun o => pure (LStream.ofList o)

/-- a natively streaming producer that breaks after `k` chunks: the call succeeds, the reader
    delivers the first `k` chunks of what `t` would have produced, then the error item `e` -/
def lazyMidFail {V} (t : List V → Except Err (List V)) (k : Nat) (e : Err) : LStream V → Except Err (LStream V) :=
  fun s => s.force >>= t >>= fun o => pure { chunks := o.take k, err := some e }

/-- a branch condition that drains its copy of the stream (`collectByInvoke`) -/
def lazyCond {V} (c : List V → Except Err (List Key)) : LStream V → Except Err (List Key) :=
  fun s => s.force >>= c

/-- fan-in of lazy streams (`MergeStreamReaders`): the sources' chunks (one source after the
    other: one of the possible interleavings) and the first error item of any source.
    (The reader of the merged stream stops at the first error item it receives; which chunks
    it has seen by then is not observable through a failed result.)
    The stream handed to a node that was sent no data (all-predecessor mode) is what
    `emptyStreamFromGeneric` builds: ONE chunk carrying the zero value `z`, not a stream without
    chunks (source fact `emptyStreamIsOneZeroChunk`). -/
def lazyOps {V} (z : V) : ValOps (LStream V) :=
  { merge := fun ls => some { chunks := (ls.map (·.chunks)).flatten, err := ls.findSome? (·.err) },
    zero := { chunks := [z] } }

/-- fan-in of chunk lists, the strict counterpart (`streamOps` of `C04Flat`, any value type) -/
def listOps {V} (z : V) : ValOps (List V) := { merge := fun ls => some ls.flatten, zero := [z] }

/-- the value a caller obtains from an output stream by concatenating it (Collect of the
    compiled graph; the harness draining Stream / Transform) -/
def lazyConcat {V} (co : ChunkOps V) (s : LStream V) : Except Err V := s.force >>= concat co

end EinoV.C04
