/-
  C12 — checkpoint serialisation model (internal/serialization/serialization.go).

  `GoTy`/`GoVal` : the universe of Go types / typed values the serialiser sees through
  `reflect`; `IS` : the intermediate tree `*internalStruct` (flat record, one constructor,
  `absent` = nil `*internalStruct`); `encP` mirrors `internalMarshal`, `dec` mirrors
  `internalUnmarshal` (dispatch order Type / StructType / MapKeyType / slice,
  `resolvePointerNum`, zero values for nil children).

  The model describes the code AS IT IS AFTER the two proposed fixes
    fixes/C12-container-pointernum.diff   (decode honours PointerNum for map and slice)
    fixes/C12-nil-in-pointer-chain.diff   (NilElemPointerNum: a nil pointer below/above other
                                           pointer levels keeps its static type and position)
  when run with `Facts` all `true`; with the corresponding fact `false` it describes the
  unchanged tree (used for the negation witnesses).

  Parameters: `Ctx` (the type registry `m`/`rm` and the struct declarations), `JLayer`
  (encoding/json + sonic on basic kinds), `Facts` (source facts, tools/factgen/c12.go).
  Recursive universes are `mutual` inductives with their own list types so that all
  recursion is structural.
-/
namespace EinoV.C12

abbrev Name := String
/-- JSON text of a basic value (what `json.Marshal` gives for it). -/
abbrev Payload := String

/-- Go types. `basic k`: predeclared kind by Go name ("int", "string", …); `named n k`:
    defined type `n` whose underlying type is the basic kind `k`; `struct n`: defined
    struct type (fields come from the context, Go types are nominal); `iface` = `any`. -/
inductive GoTy where
  | basic (k : Name)
  | named (n : Name) (k : Name)
  | struct (n : Name)
  | iface
  | ptr (t : GoTy)
  | slice (t : GoTy)
  | map (k v : GoTy)
  deriving DecidableEq, Repr, Inhabited

mutual
/-- Typed Go values (dynamic values as `reflect.ValueOf(x)` sees them).
    `inil` is the nil interface value (only meaningful in an `any`-typed position);
    `nilptr t` is the nil pointer of type `*t`; slices and maps carry a nil flag. -/
inductive GoVal where
  | basic (t : GoTy) (p : Payload)
  | inil
  | nilptr (t : GoTy)
  | ptr (v : GoVal)
  | slice (et : GoTy) (isNil : Bool) (vs : GoVals)
  | map (kt vt : GoTy) (isNil : Bool) (kvs : GoKVs)
  | struct (n : Name) (fs : GoKVs)
inductive GoVals where
  | nil
  | cons (v : GoVal) (r : GoVals)
/-- map entries (key payload ↦ value) and struct fields (field name ↦ value).  The key of a
    map entry is its JSON text (for a struct key: the JSON object `sonic.MarshalString` writes,
    tags and `omitempty` applied); distinct keys of one Go map have distinct texts for the key
    types of `GoTy.keyable`. -/
inductive GoKVs where
  | nil
  | cons (k : String) (v : GoVal) (r : GoKVs)
end

deriving instance DecidableEq for GoVal, GoVals, GoKVs
deriving instance Repr for GoVal, GoVals, GoKVs
instance : Inhabited GoVal := ⟨.inil⟩

mutual
/-- `*internalStruct`. `absent` = nil pointer ("no value"). Field order as in the source:
    PointerNum, NilElemPointerNum (added by the fix), Type, JSONValue, StructType,
    MapKeyPointerNum, MapKeyType, MapValuePointerNum, MapValueType, MapValues,
    SliceValuePointerNum, SliceValueType, SliceValues. -/
inductive IS where
  | absent
  | mk (pn ne : Nat) (ty js st : String) (kpn : Nat) (kty : String) (vpn : Nat) (vty : String)
       (mvs : ISKVs) (spn : Nat) (sty : String) (svs : ISs)
inductive ISs where
  | nil
  | cons (i : IS) (r : ISs)
inductive ISKVs where
  | nil
  | cons (k : String) (i : IS) (r : ISKVs)
end

deriving instance DecidableEq for IS, ISs, ISKVs
deriving instance Repr for IS, ISs, ISKVs

inductive Err where
  | unknownType     -- "unknown type" / "unknown type key"
  | json            -- json.Marshal / sonic.Unmarshal failed
  | badField        -- "can not set field" (struct field not found)
  | panic           -- reflect panics (Set / SetMapIndex / Append with a non-assignable value)
  | unmodelled      -- outside the modelled fragment (never produced for Supported values)
  deriving DecidableEq, Repr

/-- Registry (`m` : key → type; `rm` is its inverse, first match) and struct declarations
    (exported fields in declaration order). -/
structure Ctx where
  reg : List (Name × GoTy)
  structs : List (Name × List (Name × GoTy))

/-- encoding/json / sonic on basic kinds (trusted, see `JLayer.OK`). -/
structure JLayer where
  encode : GoTy → Payload → Except Err String
  decode : GoTy → String → Except Err Payload
  zero : GoTy → Payload
  valid : GoTy → Payload → Bool

/-- TRUSTED BASE: what is assumed about the JSON layer for basic kinds.
    `rt`: whatever `json.Marshal` produced for a basic value is not the literal `null` and
    `sonic.Unmarshal` into the same type gives the value back.
    `total`: values declared valid (finite floats, valid UTF-8 strings, …) do encode. -/
structure JLayer.OK (J : JLayer) : Prop where
  rt : ∀ t p s, J.encode t p = .ok s → s ≠ "null" ∧ J.decode t s = .ok p
  total : ∀ t p, J.valid t p = true → ∃ s, J.encode t p = .ok s

/-- Source facts (tools/factgen/c12.go). -/
structure Facts where
  /-- `resolvePointerNum(v.PointerNum, …)` applied in the decode branch -/
  ptrBasic : Bool
  ptrStruct : Bool
  ptrMap : Bool
  ptrSlice : Bool
  /-- encoder records `NilElemPointerNum` at a nil pointer and the basic decode branch
      rebuilds the chain above/below the nil pointer -/
  nilChain : Bool
  deriving DecidableEq, Repr

instance [DecidableEq ε] [DecidableEq α] : DecidableEq (Except ε α)
  | .ok a, .ok b => if h : a = b then isTrue (by rw [h]) else isFalse (by intro h'; cases h'; exact h rfl)
  | .error a, .error b => if h : a = b then isTrue (by rw [h]) else isFalse (by intro h'; cases h'; exact h rfl)
  | .ok _, .error _ => isFalse (by intro h; cases h)
  | .error _, .ok _ => isFalse (by intro h; cases h)

/-! ### types -/

def GoTy.isLeaf : GoTy → Bool
  | .basic _ => true
  | .named _ _ => true
  | _ => false

/-- map key types inside the modelled fragment: (named) basic types and defined struct
    types.  The key of an entry is carried as its JSON text (`sonic.MarshalString(key)`, for
    a struct key the plain JSON object with the struct's tags / `omitempty` applied), see
    `GoKVs`; every entry is decoded into a fresh key (`reflect.New(rkt)` per entry), i.e.
    `placeKVs` decodes each key text on its own.  Pointer-typed keys (`map[*K]V`) stay
    outside: two distinct pointers with equal pointees have the same JSON text. -/
def GoTy.keyable : GoTy → Bool
  | .basic _ => true
  | .named _ _ => true
  | .struct _ => true
  | _ => false

/-- the loop `for t.Kind() == reflect.Ptr { n++; t = t.Elem() }` -/
def GoTy.strip : GoTy → GoTy
  | .ptr t => t.strip
  | t => t

def GoTy.depth : GoTy → Nat
  | .ptr t => t.depth + 1
  | _ => 0

/-- `resolvePointerNum(n, t)` -/
def ptrN : Nat → GoTy → GoTy
  | 0, t => t
  | n + 1, t => ptrN n (.ptr t)

/-- `n` non-nil pointer levels around `v` -/
def wrap : Nat → GoVal → GoVal
  | 0, v => v
  | n + 1, v => wrap n (.ptr v)

def GoVal.typeOf : GoVal → GoTy
  | .basic t _ => t
  | .inil => .iface
  | .nilptr t => .ptr t
  | .ptr v => .ptr v.typeOf
  | .slice et _ _ => .slice et
  | .map kt vt _ _ => .map kt vt
  | .struct n _ => .struct n

def GoVal.isINil : GoVal → Bool
  | .inil => true
  | _ => false

/-- `rm[t]` -/
def keyOf (ctx : Ctx) (t : GoTy) : Option Name :=
  (ctx.reg.find? (fun e => e.2 == t)).map (·.1)

/-- `m[key]` -/
def tyOfKey (ctx : Ctx) (key : Name) : Option GoTy :=
  (ctx.reg.find? (fun e => e.1 == key)).map (·.2)

def keyOfE (ctx : Ctx) (t : GoTy) : Except Err Name :=
  match keyOf ctx t with
  | some k => .ok k
  | none => .error .unknownType

def tyOfKeyE (ctx : Ctx) (key : Name) : Except Err GoTy :=
  match tyOfKey ctx key with
  | some t => .ok t
  | none => .error .unknownType

def declOf (ctx : Ctx) (n : Name) : Option (List (Name × GoTy)) :=
  (ctx.structs.find? (fun e => e.1 == n)).map (·.2)

/-! ### intermediate nodes the encoder builds -/

def IS.basicN (pn ne : Nat) (ty js : String) : IS := .mk pn ne ty js "" 0 "" 0 "" .nil 0 "" .nil
def IS.structN (pn : Nat) (st : String) (mvs : ISKVs) : IS := .mk pn 0 "" "" st 0 "" 0 "" mvs 0 "" .nil
def IS.mapN (pn kpn : Nat) (kty : String) (vpn : Nat) (vty : String) (mvs : ISKVs) : IS :=
  .mk pn 0 "" "" "" kpn kty vpn vty mvs 0 "" .nil
def IS.sliceN (pn spn : Nat) (sty : String) (svs : ISs) : IS := .mk pn 0 "" "" "" 0 "" 0 "" .nil spn sty svs

/-! ### encoder: `internalMarshal` -/

mutual
/-- `encP k v`: `internalMarshal` after the pointer loop has already counted `k` non-nil
    pointer levels (`ret.PointerNum == k`, `rv == v`). -/
def encP (ctx : Ctx) (J : JLayer) (F : Facts) : Nat → GoVal → Except Err IS
  | _, .inil => .ok .absent
  | k, .basic t p => do
      let key ← keyOfE ctx t
      let js ← J.encode t p
      pure (IS.basicN k 0 key js)
  | k, .nilptr t => do
      -- early exit at the first nil pointer: Type = base type, JSONValue = null
      let key ← keyOfE ctx t.strip
      pure (IS.basicN (k + 1) (if F.nilChain then t.depth else 0) key "null")
  | k, .ptr v =>
      -- pointer to an interface value (`*any`) is outside the modelled fragment
      if v.isINil then .error .unmodelled else encP ctx J F (k + 1) v
  | k, .slice et _ vs => do
      let key ← keyOfE ctx et.strip
      let xs ← encVals ctx J F vs
      pure (IS.sliceN k et.depth key xs)
  | k, .map kt vt _ kvs => do
      if !kt.keyable then throw Err.unmodelled
      let kk ← keyOfE ctx kt.strip
      let vk ← keyOfE ctx vt.strip
      let xs ← encMapKVs ctx J F kt kvs
      pure (IS.mapN k kt.depth kk vt.depth vk xs)
  | k, .struct n fs => do
      let key ← keyOfE ctx (.struct n)
      let xs ← encFields ctx J F fs
      pure (IS.structN k key xs)
def encVals (ctx : Ctx) (J : JLayer) (F : Facts) : GoVals → Except Err ISs
  | .nil => .ok .nil
  | .cons v r => do
      let i ← encP ctx J F 0 v
      let is ← encVals ctx J F r
      pure (.cons i is)
/-- map entries: the key is `sonic.MarshalString(key)` -/
def encMapKVs (ctx : Ctx) (J : JLayer) (F : Facts) (kt : GoTy) : GoKVs → Except Err ISKVs
  | .nil => .ok .nil
  | .cons k v r => do
      let i ← encP ctx J F 0 v
      let ks ← J.encode kt k
      let is ← encMapKVs ctx J F kt r
      pure (.cons ks i is)
/-- struct fields: the key is the field name -/
def encFields (ctx : Ctx) (J : JLayer) (F : Facts) : GoKVs → Except Err ISKVs
  | .nil => .ok .nil
  | .cons f v r => do
      let i ← encP ctx J F 0 v
      let is ← encFields ctx J F r
      pure (.cons f i is)
end

/-- `internalMarshal(v)` -/
def enc (ctx : Ctx) (J : JLayer) (F : Facts) (v : GoVal) : Except Err IS := encP ctx J F 0 v

/-! ### decoder: `internalUnmarshal` -/

/-- `reflect.New(t).Elem()` as far as the decoder needs it (struct zero values are outside
    the modelled fragment: they never arise from encoder output). -/
def zeroOf (J : JLayer) : GoTy → Except Err GoVal
  | .basic k => .ok (.basic (.basic k) (J.zero (.basic k)))
  | .named n k => .ok (.basic (.named n k) (J.zero (.named n k)))
  | .struct _ => .error .unmodelled
  | .iface => .ok .inil
  | .ptr t => .ok (.nilptr t)
  | .slice t => .ok (.slice t true .nil)
  | .map k v => .ok (.map k v true .nil)

/-- what `field.Set` / `SetMapIndex` / `Append` do with a decoded child: `value == nil`
    gives the zero value of the static type; a value that is not assignable panics. -/
def place (J : JLayer) (target : GoTy) (v : GoVal) : Except Err GoVal :=
  if v.isINil then zeroOf J target
  else if target == .iface || v.typeOf == target then .ok v
  else .error .panic

/-- basic branch (`len(v.Type) != 0`) -/
def decBasic (ctx : Ctx) (J : JLayer) (F : Facts) (pn ne : Nat) (ty js : String) : Except Err GoVal := do
  let t ← tyOfKeyE ctx ty
  let pn := if F.ptrBasic then pn else 0
  let ne := if F.nilChain then ne else 0
  if F.nilChain && pn > 0 && js == "null" then
    -- nil pointer at level `pn` whose pointee type has `ne` more pointer levels
    pure (wrap (pn - 1) (.nilptr (ptrN ne t)))
  else if js == "null" then
    -- sonic.Unmarshal("null", reflect.New(ptr^(pn+ne) t)): the outermost pointer is nil
    match pn + ne with
    | 0 => zeroOf J t
    | n + 1 => pure (.nilptr (ptrN n t))
  else if t.isLeaf then do
    let p ← J.decode t js
    pure (wrap (pn + ne) (.basic t p))
  else .error .unmodelled

/-- struct branch, after the children have been decoded: every entry must name a declared
    field; declared fields absent from the entries stay zero. -/
def lookupKV (f : String) : GoKVs → Option GoVal
  | .nil => none
  | .cons k v r => if k == f then some v else lookupKV f r

def allDeclared (decl : List (Name × GoTy)) : GoKVs → Bool
  | .nil => true
  | .cons k _ r => decl.any (fun d => d.1 == k) && allDeclared decl r

def buildFields (J : JLayer) (kvs : GoKVs) : List (Name × GoTy) → Except Err GoKVs
  | [] => .ok .nil
  | (f, t) :: ds => do
      let v ← match lookupKV f kvs with
        | some v => place J t v
        | none => zeroOf J t
      let r ← buildFields J kvs ds
      pure (.cons f v r)

def assembleStruct (ctx : Ctx) (J : JLayer) (F : Facts) (pn : Nat) (st : String) (kvs : GoKVs) : Except Err GoVal := do
  let t ← tyOfKeyE ctx st
  match t with
  | .struct n =>
    match declOf ctx n with
    | none => .error .unmodelled
    | some decl =>
      if !allDeclared decl kvs then .error .badField else do
      let fs ← buildFields J kvs decl
      pure (wrap (if F.ptrStruct then pn else 0) (.struct n fs))
  | _ => .error .unmodelled

def placeKVs (J : JLayer) (kt vt : GoTy) : GoKVs → Except Err GoKVs
  | .nil => .ok .nil
  | .cons ks v r => do
      let k ← J.decode kt ks
      let v' ← place J vt v
      let r' ← placeKVs J kt vt r
      pure (.cons k v' r')

def placeVals (J : JLayer) (et : GoTy) : GoVals → Except Err GoVals
  | .nil => .ok .nil
  | .cons v r => do
      let v' ← place J et v
      let r' ← placeVals J et r
      pure (.cons v' r')

def assembleMap (ctx : Ctx) (J : JLayer) (F : Facts) (pn kpn : Nat) (kty : String) (vpn : Nat) (vty : String)
    (kvs : GoKVs) : Except Err GoVal := do
  let kt0 ← tyOfKeyE ctx kty
  let kt := ptrN kpn kt0
  let vt0 ← tyOfKeyE ctx vty
  let vt := ptrN vpn vt0
  if !kt.keyable then throw Err.unmodelled
  let es ← placeKVs J kt vt kvs
  pure (wrap (if F.ptrMap then pn else 0) (.map kt vt false es))

def GoVals.isEmpty : GoVals → Bool
  | .nil => true
  | _ => false

def assembleSlice (ctx : Ctx) (J : JLayer) (F : Facts) (pn spn : Nat) (sty : String) (vs : GoVals) : Except Err GoVal := do
  let et0 ← tyOfKeyE ctx sty
  let et := ptrN spn et0
  let es ← placeVals J et vs
  pure (wrap (if F.ptrSlice then pn else 0) (.slice et es.isEmpty es))

mutual
/-- `internalUnmarshal` -/
def dec (ctx : Ctx) (J : JLayer) (F : Facts) : IS → Except Err GoVal
  | .absent => .ok .inil
  | .mk pn ne ty js st kpn kty vpn vty mvs spn sty svs =>
    if ty ≠ "" then decBasic ctx J F pn ne ty js
    else if st ≠ "" then do
      let kvs ← decKVs ctx J F mvs
      assembleStruct ctx J F pn st kvs
    else if kty ≠ "" then do
      let kvs ← decKVs ctx J F mvs
      assembleMap ctx J F pn kpn kty vpn vty kvs
    else do
      let vs ← decVals ctx J F svs
      assembleSlice ctx J F pn spn sty vs
def decKVs (ctx : Ctx) (J : JLayer) (F : Facts) : ISKVs → Except Err GoKVs
  | .nil => .ok .nil
  | .cons k i r => do
      let v ← dec ctx J F i
      let r' ← decKVs ctx J F r
      pure (.cons k v r')
def decVals (ctx : Ctx) (J : JLayer) (F : Facts) : ISs → Except Err GoVals
  | .nil => .ok .nil
  | .cons i r => do
      let v ← dec ctx J F i
      let r' ← decVals ctx J F r
      pure (.cons v r')
end

/-- `Unmarshal(Marshal(v))` on the level of the intermediate tree; a top-level nil
    `*internalStruct` ("null") is decoded by `sonic` into the empty record, which falls
    through to the slice branch with the unknown type key "". -/
def unmarshalTop (ctx : Ctx) (J : JLayer) (F : Facts) : IS → Except Err GoVal
  | .absent => dec ctx J F (.mk 0 0 "" "" "" 0 "" 0 "" .nil 0 "" .nil)
  | i => dec ctx J F i

/-! ### `≈` : nil and empty containers are identified -/

mutual
/-- canonical form: every nil flag cleared -/
def GoVal.norm : GoVal → GoVal
  | .basic t p => .basic t p
  | .inil => .inil
  | .nilptr t => .nilptr t
  | .ptr v => .ptr v.norm
  | .slice et _ vs => .slice et false vs.norm
  | .map kt vt _ kvs => .map kt vt false kvs.norm
  | .struct n fs => .struct n fs.norm
def GoVals.norm : GoVals → GoVals
  | .nil => .nil
  | .cons v r => .cons v.norm r.norm
def GoKVs.norm : GoKVs → GoKVs
  | .nil => .nil
  | .cons k v r => .cons k v.norm r.norm
end

/-- `a ≈ b`: deeply equal, nil and empty containers being treated as equal -/
def GoVal.sim (a b : GoVal) : Prop := a.norm = b.norm
infix:50 " ≈ " => GoVal.sim
instance (a b : GoVal) : Decidable (a ≈ b) := inferInstanceAs (Decidable (a.norm = b.norm))

/-! ### the universe and `Supported` -/

mutual
/-- well typed over the context: leaves are of leaf type, pointers do not point to
    interface values, container elements fit the static element type, struct values list
    exactly the declared fields in order. (`inil` alone is not a value.) -/
def GoVal.wt (ctx : Ctx) : GoVal → Bool
  | .basic t _ => t.isLeaf
  | .inil => false
  | .nilptr _ => true
  | .ptr v => v.wt ctx
  | .slice et _ vs => vs.fit ctx et
  | .map kt vt _ kvs => kt.keyable && kvs.fit ctx vt
  | .struct n fs =>
    match declOf ctx n with
    | none => false
    | some decl => fs.fitDecl ctx decl
/-- every element is assignable to the static element type -/
def GoVals.fit (ctx : Ctx) (et : GoTy) : GoVals → Bool
  | .nil => true
  | .cons v r => (if v.isINil then et == .iface else v.wt ctx && (et == .iface || v.typeOf == et)) && r.fit ctx et
def GoKVs.fit (ctx : Ctx) (vt : GoTy) : GoKVs → Bool
  | .nil => true
  | .cons _ v r => (if v.isINil then vt == .iface else v.wt ctx && (vt == .iface || v.typeOf == vt)) && r.fit ctx vt
def GoKVs.fitDecl (ctx : Ctx) : List (Name × GoTy) → GoKVs → Bool
  | [], .nil => true
  | (f, t) :: ds, .cons k v r =>
    (k == f) && (if v.isINil then t == .iface else v.wt ctx && (t == .iface || v.typeOf == t)) && r.fitDecl ctx ds
  | _, _ => false
end

mutual
/-- the serialiser can represent the value: every type it has to name is registered,
    basic payloads are valid JSON-able values, map keys are of (named) basic or struct type, a nil
    pointer points (after all its levels) to a registered type, no pointer to interface. -/
def GoVal.encodable (ctx : Ctx) (J : JLayer) : GoVal → Bool
  | .basic t p => (keyOf ctx t).isSome && J.valid t p
  | .inil => true
  | .nilptr t => (keyOf ctx t.strip).isSome
  | .ptr v => !v.isINil && v.encodable ctx J
  | .slice et _ vs => (keyOf ctx et.strip).isSome && vs.encodable ctx J
  | .map kt vt _ kvs => kt.keyable && (keyOf ctx kt.strip).isSome && (keyOf ctx vt.strip).isSome && kvs.encodableMap ctx J kt
  | .struct n fs => (keyOf ctx (.struct n)).isSome && fs.encodableFields ctx J
def GoVals.encodable (ctx : Ctx) (J : JLayer) : GoVals → Bool
  | .nil => true
  | .cons v r => v.encodable ctx J && r.encodable ctx J
def GoKVs.encodableMap (ctx : Ctx) (J : JLayer) (kt : GoTy) : GoKVs → Bool
  | .nil => true
  | .cons k v r => J.valid kt k && v.encodable ctx J && r.encodableMap ctx J kt
def GoKVs.encodableFields (ctx : Ctx) (J : JLayer) : GoKVs → Bool
  | .nil => true
  | .cons _ v r => v.encodable ctx J && r.encodableFields ctx J
end

/-- **Supported** (explicit, decidable): a well-typed value all of whose types are
    registered and whose basic payloads are JSON-able.  This is the universe listed in the
    property: booleans, numbers, strings, named basics, registered structs, pointers at any
    depth incl. nil at any level, slices, maps with (named) basic or registered struct key
    types, and `any`-typed fields / elements / map values holding such values or nil.
    Shared pointers are covered through the unfolding (`LVal.erase`, `marshalL`).
    Excluded (each with a witness in Props/C12.lean): nil pointer to an unregistered
    container type (`(*[]int)(nil)`: the encoder answers "unknown type", an error), values of
    an unregistered defined type (`accepted_only_registered`: refused), pointer to interface
    (`*any`), `any`-typed and pointer-typed map keys (outside the model). -/
def Supported (ctx : Ctx) (J : JLayer) (v : GoVal) : Bool := v.wt ctx && v.encodable ctx J

/-! ### the universe the property lists (wider than `Supported` on this tree) -/

/-- every (named) basic and struct type the type mentions is registered; map keys are of
    (named) basic or struct type -/
def GoTy.listed (ctx : Ctx) : GoTy → Bool
  | .basic k => (keyOf ctx (.basic k)).isSome
  | .named n k => (keyOf ctx (.named n k)).isSome
  | .struct n => (keyOf ctx (.struct n)).isSome
  | .iface => true
  | .ptr t => t.listed ctx
  | .slice t => t.listed ctx
  | .map k v => k.keyable && k.listed ctx && v.listed ctx

mutual
/-- "a value built from registered types": booleans, numbers, strings, named basics,
    registered structs, pointers at any depth incl. nil, slices, maps with (named) basic key
    types, `any`-typed fields / elements / map values holding such values.  Unlike
    `encodable` it does NOT ask that container element types and nil-pointer targets be
    registered themselves. -/
def GoVal.listed (ctx : Ctx) (J : JLayer) : GoVal → Bool
  | .basic t p => t.listed ctx && J.valid t p
  | .inil => true
  | .nilptr t => t.listed ctx && t.strip != .iface
  | .ptr v => !v.isINil && v.listed ctx J
  | .slice et _ vs => et.listed ctx && vs.listed ctx J
  | .map kt vt _ kvs => (GoTy.map kt vt).listed ctx && kvs.listedMap ctx J kt
  | .struct n fs => (keyOf ctx (.struct n)).isSome && fs.listedFields ctx J
def GoVals.listed (ctx : Ctx) (J : JLayer) : GoVals → Bool
  | .nil => true
  | .cons v r => v.listed ctx J && r.listed ctx J
def GoKVs.listedMap (ctx : Ctx) (J : JLayer) (kt : GoTy) : GoKVs → Bool
  | .nil => true
  | .cons k v r => J.valid kt k && v.listed ctx J && r.listedMap ctx J kt
def GoKVs.listedFields (ctx : Ctx) (J : JLayer) : GoKVs → Bool
  | .nil => true
  | .cons _ v r => v.listed ctx J && r.listedFields ctx J
end

/-- the universe of the property statement -/
def InListedUniverse (ctx : Ctx) (J : JLayer) (v : GoVal) : Bool := v.wt ctx && v.listed ctx J

/-- registry well-formedness: what `GenericRegister` enforces (a key and a type are
    registered at most once, so `m` and `rm` are inverse) plus: no type is registered under
    the empty key (the decoder dispatches on `len(v.Type) != 0` …), struct declarations
    have distinct field names. -/
def Ctx.ok (ctx : Ctx) : Bool :=
  ctx.reg.all (fun e => e.1 != "" && tyOfKey ctx e.1 == some e.2 && keyOf ctx e.2 == some e.1)
  && ctx.structs.all (fun s => (s.2.map (·.1)).Nodup)

/-! ### registration: which types the encoder has to name -/

mutual
/-- every type the encoder looks up in `rm` while it walks the value is registered: the
    dynamic type of every (named) basic value — the type itself, not its kind: a defined
    type `type Topic string` is registered only if `Topic` is —, every struct type, the
    stripped element / key / value type of every container, the stripped target of every nil
    pointer.  (The registration half of `encodable`.) -/
def GoVal.regd (ctx : Ctx) : GoVal → Bool
  | .basic t _ => (keyOf ctx t).isSome
  | .inil => true
  | .nilptr t => (keyOf ctx t.strip).isSome
  | .ptr v => v.regd ctx
  | .slice et _ vs => (keyOf ctx et.strip).isSome && vs.regd ctx
  | .map kt vt _ kvs => (keyOf ctx kt.strip).isSome && (keyOf ctx vt.strip).isSome && kvs.regd ctx
  | .struct n fs => (keyOf ctx (.struct n)).isSome && fs.regd ctx
def GoVals.regd (ctx : Ctx) : GoVals → Bool
  | .nil => true
  | .cons v r => v.regd ctx && r.regd ctx
def GoKVs.regd (ctx : Ctx) : GoKVs → Bool
  | .nil => true
  | .cons _ v r => v.regd ctx && r.regd ctx
end

/-! ### shared pointers: values as a heap sees them

`GoVal` is the tree `reflect` unfolds.  A Go value is a graph: the same pointer may occur at
several positions (two fields, two slice elements, a typed field and an `any` position, the
pending inputs of two successors of one node in a checkpoint).  `LVal` is that graph for the
acyclic case: a `GoVal` whose pointer nodes carry the identity of the pointer (address and
pointee type, abstracted to a number).  `internalMarshal` walks the value through
`reflect` only — `Kind`, `IsNil`, `Elem`, `Field(i)`, `MapRange`, `Index(i)`, `Interface()` —
and carries no state from one child to the next (source fact `encodeWalkStateless`), so
what it writes is a function of the unfolding: `marshalL v = enc (erase v)`.  In particular
a pointer met a second time is written exactly like the first time. -/

mutual
inductive LVal where
  | basic (t : GoTy) (p : Payload)
  | inil
  | nilptr (t : GoTy)
  | ptr (a : Nat) (v : LVal)
  | slice (et : GoTy) (isNil : Bool) (vs : LVals)
  | map (kt vt : GoTy) (isNil : Bool) (kvs : LKVs)
  | struct (n : Name) (fs : LKVs)
inductive LVals where
  | nil
  | cons (v : LVal) (r : LVals)
inductive LKVs where
  | nil
  | cons (k : String) (v : LVal) (r : LKVs)
end

mutual
/-- forget the identities: the tree `reflect` shows -/
def LVal.erase : LVal → GoVal
  | .basic t p => .basic t p
  | .inil => .inil
  | .nilptr t => .nilptr t
  | .ptr _ v => .ptr v.erase
  | .slice et n vs => .slice et n vs.erase
  | .map kt vt n kvs => .map kt vt n kvs.erase
  | .struct n fs => .struct n fs.erase
def LVals.erase : LVals → GoVals
  | .nil => .nil
  | .cons v r => .cons v.erase r.erase
def LKVs.erase : LKVs → GoKVs
  | .nil => .nil
  | .cons k v r => .cons k v.erase r.erase
end

mutual
/-- every pointer occurrence: (identity, what it points to) -/
def LVal.occ : LVal → List (Nat × GoVal)
  | .ptr a v => (a, v.erase) :: v.occ
  | .slice _ _ vs => vs.occ
  | .map _ _ _ kvs => kvs.occ
  | .struct _ fs => fs.occ
  | _ => []
def LVals.occ : LVals → List (Nat × GoVal)
  | .nil => []
  | .cons v r => v.occ ++ r.occ
def LKVs.occ : LKVs → List (Nat × GoVal)
  | .nil => []
  | .cons _ v r => v.occ ++ r.occ
end

/-- a labelling that a heap can produce: one identity, one pointee -/
def LVal.coherent (v : LVal) : Bool :=
  v.occ.all fun x => v.occ.all fun y => x.1 != y.1 || x.2 == y.2

/-- identities that occur at least twice -/
def LVal.sharedCount (v : LVal) : Nat :=
  ((v.occ.map (·.1)).eraseDups.filter fun a => ((v.occ.filter (·.1 == a)).length ≥ 2)).length

/-- `internalMarshal` on a value with shared pointers -/
def marshalL (ctx : Ctx) (J : JLayer) (F : Facts) (v : LVal) : Except Err IS := enc ctx J F v.erase

end EinoV.C12
