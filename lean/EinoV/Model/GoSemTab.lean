/-
  Additions to the prelude for the translated table-building code (Gen/TransTab.lean; gotrans phase 5).
  Core Lean only.

  * `copy(dst, src)` on slices copies min(len dst, len src) elements and leaves the rest of dst;
  * a named func type with a closed, source-checked set of values is a generated enumeration
    (`nil | of_f | …`) with a generated call function (`none` = a call of nil, which panics);
  * values of func type (zeroValue / emptyStream of a channel) are not modelled (they are externals of the
    channel code, `Ext`).
-/
import EinoV.Model.GoSemStep
namespace EinoV.GoSem

/-- `copy(dst, src)` -/
def goCopy {α} (dst src : List α) : List α :=
  src.take (min dst.length src.length) ++ dst.drop (min dst.length src.length)

end EinoV.GoSem
