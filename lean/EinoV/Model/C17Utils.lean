/-
  C17, family `utils` — tools built by the constructors of components/tool/utils
  (`InferTool` / `NewTool` / `InferStreamTool` / `NewStreamTool`): a Go function over a typed
  request, wrapped into a tool that DECODES the call's JSON arguments into a request object
  and hands that object to the function.

  What such a tool answers on an argument string is the function's value on the request
  decoded from THAT string — provided the object the arguments are decoded into is made for
  the call (`generic.NewInstance[T]()` inside `InvokableRun` / `StreamableRun`; source fact
  `freshPerCall`).  JSON decoding only writes the fields that are present: decoded into a
  fresh object, an absent field has its zero value; decoded into an object that already
  served another call, it keeps what that call left there.  For a request type that is a
  pointer or a map, an object kept in the tool would be ONE object for all calls of the
  tool — those of earlier messages, and the concurrently running ones of the same message.

  The request type is fixed to three optional fields (`a` string, `n` number, `u` string);
  `parse` (an arbitrary function here; the JSON decoder in the oracle) gives the fields an
  argument string carries.
-/
import EinoV.Model.C17

namespace EinoV.C17

/-- Source facts about the utils wrappers (regenerated: Gen/FactsC17.lean). -/
structure UFacts where
  /-- `invokableTool.InvokableRun` and `streamableTool.StreamableRun` decode into a local
      `inst` that is assigned `generic.NewInstance[T]()` inside the call (or the value the
      custom unmarshaller returned) and never a field of the tool -/
  freshPerCall : Bool
  deriving DecidableEq, Repr

/-- the request as the function sees it -/
structure Req where
  a : String
  n : Nat
  u : String
  deriving DecidableEq, Repr

def Req.zero : Req := ⟨"", 0, ""⟩

/-- the fields an argument string carries -/
structure Args where
  a : Option String
  n : Option Nat
  u : Option String
  deriving DecidableEq, Repr

/-- JSON decoding into an existing object: present fields are written, absent ones stay -/
def overlay (r : Req) (x : Args) : Req := ⟨x.a.getD r.a, x.n.getD r.n, x.u.getD r.u⟩

/-- decoding into the object `generic.NewInstance[T]()` returns -/
def decodeFresh (x : Args) : Req := overlay Req.zero x

/-- the request type `T`: a struct, a pointer to it, a map -/
inductive ReqKind where
  | val | ptr | map
  deriving DecidableEq, Repr

/-- a tool built by the utils constructors: the user's function over the request -/
structure UTool where
  kind : ReqKind
  inv : Option (Req → Out String)
  str : Option (Req → Out (List String))

/-- What the function finds in its request when it reads it.  `hist` = everything decoded
    into the tool's object so far if that object were shared (the calls of earlier messages,
    then — the calls of one message overlap: each reads after all have decoded — those of
    this message in decode order).  A struct-typed request is copied by the assignment, so
    it is the call's own even then. -/
def seenReq (UF : UFacts) (k : ReqKind) (hist : List Args) (x : Args) : Req :=
  if UF.freshPerCall || k == .val then decodeFresh x else hist.foldl overlay Req.zero

/-- the tool as the tools node sees it: functions of the argument string -/
def UTool.toTool (UF : UFacts) (parse : String → Args) (hist : List Args) (t : UTool) : Tool :=
  ⟨t.inv.map fun f s => f (seenReq UF t.kind hist (parse s)),
   t.str.map fun g s => g (seenReq UF t.kind hist (parse s))⟩

/-- the argument objects decoded by the tool `name`: calls of the earlier messages (`prior`),
    then the calls of this message in the order `δ` in which they decode -/
def histOf (parse : String → Args) (name : String) (prior calls : List Call) (δ : List Nat) :
    List Args :=
  ((prior.filter (·.name == name)) ++ ((δ.filterMap (calls[·]?)).filter (·.name == name))).map
    fun c => parse c.args

/-- a configured tool: hand-written (`Tool`) or built by the utils constructors -/
abbrev MixedTool := Sum Tool UTool

/-- the tool list the node works with -/
def mixedTools (UF : UFacts) (parse : String → Args) (prior calls : List Call) (δ : List Nat)
    (mixed : List (String × MixedTool)) : List (String × Tool) :=
  mixed.map fun p =>
    (p.1, match p.2 with
          | .inl t => t
          | .inr u => u.toTool UF parse (histOf parse p.1 prior calls δ))

/-- the utils tool as a pure function of the argument string -/
def UTool.pure (parse : String → Args) (t : UTool) : Tool :=
  ⟨t.inv.map fun f s => f (decodeFresh (parse s)), t.str.map fun g s => g (decodeFresh (parse s))⟩

def pureTools (parse : String → Args) (mixed : List (String × MixedTool)) : List (String × Tool) :=
  mixed.map fun p =>
    (p.1, match p.2 with
          | .inl t => t
          | .inr u => u.pure parse)

end EinoV.C17
