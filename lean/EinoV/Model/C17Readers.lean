/-
  C17, family `readers` — MORE THAN ONE consumer of the stream a tools node hands out, each
  concatenating what it received (`concatStreamReader` → `concatMessageArray` →
  `ConcatMessages`): copies of the stream (`StreamReader.Copy`), a non-stream branch
  condition plus the non-stream node it selects, several non-stream successors.

  The chunks of a stream are SHARED by all its copies (a copy hands out the same `[]*Message`
  values, holding the same `*Message` pointers, in the same order).  So "every reader's
  concatenation is the list Invoke returns" needs more than a correct concatenation: the
  concatenation must not write into what it was given.  Two source facts (`ConcatFacts`):
  `concatMessageArray` builds its result in a slice of its own, `ConcatMessages` builds a
  message of its own.  The model keeps the chunks in a store (`cells`) that every reader
  reads in order; a concatenation that does not allocate writes its result back into the
  store, where the next reader finds it.
-/
import EinoV.Model.C17

namespace EinoV.C17

/-- Source facts about the concatenation (regenerated: Gen/FactsC17.lean). -/
structure ConcatFacts where
  /-- `concatMessageArray`: `ret := make([]*Message, arrayLen)`, and nothing is assigned
      through its argument (`mas[..]`, the lists `ma`, the messages `m`) -/
  arrayAllocates : Bool
  /-- `ConcatMessages`: the result is a `Message{}` of its own (`return &ret`), and nothing
      is assigned through `msgs` / `msg` -/
  msgsAllocates : Bool
  deriving DecidableEq, Repr

abbrev Cells := List (List (Option Msg))

/-- the chunk (index) in which the first message of column `j` lives -/
def firstOwner (cells : Cells) (j : Nat) : Option Nat :=
  (cells.zipIdx.find? fun p => ((p.1[j]?).join).isSome).map (·.2)

/-- number of messages in column `j` -/
def colCount (cells : Cells) (j : Nat) : Nat := (column cells j).length

/-- what a concatenation that does not allocate leaves in the store -/
def writeBack (CF : ConcatFacts) (cells : Cells) (res : List (Option Msg)) : Cells :=
  if cells.length < 2 then cells else   -- 0 / 1 chunk: `concatStreamReader` concatenates nothing
  -- `ConcatMessages` building its result in `msgs[0]`: the first message of every column with
  -- at least two messages becomes the concatenated one, in the chunk that holds it
  let cells1 :=
    if CF.msgsAllocates then cells else
      (List.range res.length).foldl (fun cs j =>
        if colCount cells j < 2 then cs else
        match firstOwner cells j with
        | none => cs
        | some i => cs.modify i (fun ch => ch.set j ((res[j]?).join))) cells
  -- `concatMessageArray` building its result in `mas[0]`: chunk 0 becomes the result
  if CF.arrayAllocates then cells1 else cells1.modify 0 (fun _ => res)

/-- one reader: receives every chunk (in the stream's order) and concatenates -/
def readOnce (CF : ConcatFacts) (cells : Cells) : Except CErr (List (Option Msg)) × Cells :=
  match collect cells with
  | .ok res => (.ok res, writeBack CF cells res)
  | .error e => (.error e, cells)

/-- `k` readers, one after the other -/
def readK (CF : ConcatFacts) : Nat → Cells → List (Except CErr (List (Option Msg))) × Cells
  | 0, cells => ([], cells)
  | k + 1, cells =>
    let (r, cells') := readOnce CF cells
    let (rs, cells'') := readK CF k cells'
    (r :: rs, cells'')

end EinoV.C17
