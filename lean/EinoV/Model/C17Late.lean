/-
  C17, family `late` — streaming tools that are STILL PRODUCING after `StreamableRun` (and
  the node's `Stream`) returned, and that look at the context they were given before each
  chunk they produce from then on.

  What the tools node owes such a tool is the context: `ToolsNode.Invoke/Stream` hand their
  own `ctx` to `parallelRunToolCall`, which hands it to every runner (the inline one and the
  goroutines), which wrap it by value-only derivations (`callbacks.ReuseHandlers`,
  `setToolCallInfo`) and pass it to the tool.  So the context a tool holds is done exactly
  when the CALLER's context is done — nothing the node does (returning from the fan-out,
  returning from `Stream`) ends it.  Both halves are source facts (`CtxFacts`).

  A producer (`Pace`) sends its first `hold` chunks before `StreamableRun` returns (eager)
  and the others afterwards (late), one per step; before each late step it looks at its
  context and, finding it done, fails the stream with the context's error (`fail`), ends it
  silently (`stop`) or goes on regardless (`ignore`).  The late steps of all producers are
  ordered by a production script `prod` (each entry names the producer that takes its next
  step; steps not named by the script happen after it); the caller may cancel its context
  after `cancel` steps of the script.
-/
import EinoV.Model.C17

namespace EinoV.C17

/-- Source facts about the context the tools run under (regenerated: Gen/FactsC17.lean). -/
structure CtxFacts where
  /-- no function on the path `ToolsNode.Invoke/Stream → parallelRunToolCall →
      runToolCallTaskBy{Invoke,Stream}` derives a cancellable context (`context.WithCancel`,
      `WithTimeout`, `WithDeadline`, …): nothing the node does ends a tool's context -/
  notScoped : Bool
  /-- the context handed down that path is the caller's: every (re)assignment of it derives
      it from itself, and it is the first argument of `parallelRunToolCall`, of every `run`
      and of `task.r.Invoke/Stream` — so the caller's cancellation reaches the tool -/
  fromCaller : Bool
  deriving DecidableEq, Repr

/-- what a producer does when it finds its context done before a late step -/
inductive OnDone where
  | fail | stop | ignore
  deriving DecidableEq, Repr

/-- how a streamable tool paces its answer to one call -/
structure Pace where
  /-- chunks sent before `StreamableRun` returns -/
  hold : Nat
  onDone : OnDone
  deriving DecidableEq, Repr

/-- what a source of the merged stream delivers: a chunk, or the context's error -/
inductive Item (β : Type) where
  | chunk (b : β)
  | ctxErr
  deriving DecidableEq, Repr

def Item.chunk? {β : Type} : Item β → Option β
  | .chunk b => some b
  | .ctxErr => none

/-- The context of a tool as seen at a late step (the node's call has returned by then):
    done when the caller has cancelled (if the context is the caller's), or — were the
    context scoped to something the node does — done in any case. -/
def ctxDone (CF : CtxFacts) (callerCancelled : Bool) : Bool :=
  (CF.fromCaller && callerCancelled) || !CF.notScoped

/-- script times (indices into `prod`) at which producer `k` is named -/
def stepTimes (prod : List Nat) (k : Nat) : List Nat :=
  (prod.zipIdx.filter (fun p => p.1 == k)).map (·.2)

/-- time of the `j`-th late step of producer `k`: its `j`-th mention in the script (a
    mention of a producer that has ended or has nothing left is a no-op, so mentions and
    steps correspond as long as the producer lives), else after the script -/
def timeOf (prod : List Nat) (k j : Nat) : Nat :=
  ((stepTimes prod k)[j]?).getD prod.length

/-- the caller cancels after `c` steps of the script: step `t` (0-based) sees it iff `c ≤ t` -/
def cancelledAt (cancel : Option Nat) (t : Nat) : Bool :=
  match cancel with
  | none => false
  | some c => decide (c ≤ t)

/-- the late steps: `done j` = the context is done when step `j` looks at it -/
def lateSteps {β : Type} (od : OnDone) (done : Nat → Bool) : Nat → List β → List (Item β)
  | _, [] => []
  | j, x :: xs =>
    if done j then
      match od with
      | .fail => [.ctxErr]
      | .stop => []
      | .ignore => .chunk x :: lateSteps od done (j + 1) xs
    else .chunk x :: lateSteps od done (j + 1) xs

/-- what a producer with pace `p` delivers of the chunks `xs` -/
def produce {β : Type} (p : Pace) (done : Nat → Bool) (xs : List β) : List (Item β) :=
  (xs.take p.hold).map .chunk ++ lateSteps p.onDone done 0 (xs.drop p.hold)

/-- the pace that applies to call `i`: only a tool with a streamable form produces late (an
    invokable-only tool's stream is the single chunk made by `streamByInvoke` after the tool
    returned; so is the unknown-tool handler's) -/
def paceOf (tools : List (String × Tool)) (handler : Option Handler) (calls : List Call)
    (paces : Nat → Option Pace) (i : Nat) : Option Pace :=
  match calls[i]? with
  | none => none
  | some c =>
    match resolve tools handler c with
    | some t => if t.str.isSome then paces i else none
    | none => none

/-- the sources as delivered: source `i` paced by `paces i` under the script -/
def deliver {β : Type} (CF : CtxFacts) (paces : Nat → Option Pace) (prod : List Nat)
    (cancel : Option Nat) (srcs : List (List β)) : List (List (Item β)) :=
  srcs.zipIdx.map fun (src, i) =>
    match paces i with
    | none => src.map .chunk
    | some p => produce p (fun j => ctxDone CF (cancelledAt cancel (timeOf prod i j))) src

/-- `ToolsNode.Stream` with late producers: the streams handed to `MergeStreamReaders` are
    those of `stream`; what each delivers is decided afterwards, step by step. -/
def streamL (F : Facts) (CF : CtxFacts) (tools : List (String × Tool)) (handler : Option Handler)
    (assistant : Bool) (calls : List Call) (seen : Nat → Nat) (σ : List Nat)
    (paces : Nat → Option Pace) (prod : List Nat) (cancel : Option Nat) :
    Res (List (List (Item (List (Option Msg))))) :=
  (stream F tools handler assistant calls seen σ).map
    (deliver CF (paceOf tools handler calls paces) prod cancel)

/-- the chunks of a delivered source (the reader's view without the error items) -/
def chunksOfItems {β : Type} (items : List (Item β)) : List β := items.filterMap Item.chunk?

/-- does a delivered source end in the context's error -/
def endsInCtxErr {β : Type} (items : List (Item β)) : Bool :=
  items.any fun it => match it with | .ctxErr => true | .chunk _ => false

end EinoV.C17
