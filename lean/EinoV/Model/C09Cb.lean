/-
  C09 — callback handlers of concurrent runs ("runs do not share … callback context").

  Every call may carry `compose.WithCallbacks(hs...)` options.  Such an `Option` value keeps the
  caller's slice `hs` (`Option.handler`), so several concurrent runs that were given the SAME
  `Option` value hold windows into the SAME array – with whatever spare capacity the caller's
  slice happens to have.  The handler list a unit of a run (the graph, a node, a graph node, a
  node of a nested graph) works with is built in two kinds of steps, repeated for every level of
  the unit's node path (compose/utils.go `initGraphCallbacks`, `initNodeCallbacks`;
  internal/callbacks/inject.go `AppendHandlers`, manager.go `newManager`):

    collect   `var cbs []Handler; for … { cbs = append(cbs, opts[i].handler...) }`
              over the options of the call that belong to this level: the graph-wide ones
              (not designated) at the top, the ones designated to exactly this node below;
    install   `AppendHandlers(ctx, info, cbs...)`: the context has no callback manager yet
              (nothing in force so far) ⇒ `cbs` ITSELF becomes the handler list of the new
              manager (`newManager` keeps the slice it was given); otherwise the inherited list
              is copied into a fresh array and `cbs` appended to the copy.

  Later, whenever the unit fires a callback, the list is read.  Go slice semantics are those of
  the C10 model (`goAppend` writes in place iff `len + k ≤ cap`).  The source facts are the
  three Booleans of `Facts`:

    graphCollectCopies / nodeCollectCopies   every assignment to `cbs` in initGraphCallbacks /
        initNodeCallbacks is `cbs = append(cbs, …)` starting from the nil slice (`true`), as
        opposed to taking the first option's slice as it is (`false`: `Opt.collect false`);
    installCopies   `AppendHandlers` appends to a copy of the inherited slice, never to the
        inherited slice itself.

  A *thread* is one (call, unit) pair: it executes the collect/install chain along the unit's
  node path and then reads once; all threads of all runs are interleaved arbitrarily over one
  heap that initially holds the caller's arrays.  Sharing of the graph-level list between the
  units of ONE run is C10's subject and is not modelled here (every thread re-executes the
  chain of its prefixes).
-/
import EinoV.Model.C09Opt

namespace EinoV.C09.Cb
open EinoV.C10 (Hd Slice Heap goAppend appendH)
open EinoV.C09.Opt (Path Group collect)

structure Facts where
  graphCollectCopies : Bool
  nodeCollectCopies : Bool
  installCopies : Bool
  deriving DecidableEq, Repr

def Facts.collectCopies (F : Facts) (top : Bool) : Bool :=
  if top then F.graphCollectCopies else F.nodeCollectCopies

/-! ### specification: which handlers are in force where -/

/-- the unit at which the handlers of one `WithCallbacks` option are collected: the called graph
    itself (`[]`) when the option is not designated, otherwise exactly the designated node
    (a path of length > 1 is handed down, shortened, to the nested graph) -/
def site (g : Group) : Path := if g.desig then g.target else []

/-- the handler slices of the call collected at unit `q`, in call order -/
def collectedAt (gs : List Group) (q : Path) : List Slice :=
  (gs.filter fun g => site g == q).map (·.sl)

/-- `[] , [k₀], [k₀,k₁], …, p` : the units whose handlers unit `p` inherits, outermost first -/
def prefixes : Path → List Path
  | [] => [[]]
  | k :: rest => [] :: (prefixes rest).map (k :: ·)

/-- per level of the path of `p`, what is collected there -/
def levels (gs : List Group) (p : Path) : List (List Slice) := (prefixes p).map (collectedAt gs)

/-- SPECIFICATION: the handler list in force at unit `p` of a call whose context carried the
    list `inh` and whose options are `gs` – a function of the call's own context and options
    and of the caller's memory as it was handed over -/
def inForce (h0 : Heap) (inh : Slice) (gs : List Group) (p : Path) : List Hd :=
  h0.read inh ++ (((levels gs p).flatten).map h0.read).flatten

/-! ### the machine -/

inductive Instr where
  /-- `cbs = append(cbs, opt.handler...)`; `top` = in `initGraphCallbacks` -/
  | collect (top : Bool) (g : Slice)
  /-- `AppendHandlers(ctx, info, cbs...)` -/
  | install
  deriving Repr, DecidableEq

/-- the code of a thread whose path has the given levels (the first level is the graph's) -/
def instrsFrom (top : Bool) : List (List Slice) → List Instr
  | [] => []
  | l :: rest => l.map (Instr.collect top) ++ Instr.install :: instrsFrom false rest

structure Thread where
  /-- the handler list of the context the call was made with (`Slice.nil`: no manager) -/
  inh : Slice
  code : List Instr
  deriving Repr, DecidableEq

/-- `AppendHandlers` + `InitCallbacks` + `newManager` -/
def install (copies : Bool) (h : Heap) (cur cbs : Slice) : Heap × Slice :=
  if cur.len == 0 then (h, cbs) else appendH copies h cur (h.read cbs)

structure TState where
  pc : Nat
  /-- the local `cbs` of the collection loop in progress -/
  cbs : Slice
  /-- the handler list of the callback manager in the thread's current context -/
  cur : Slice
  seen : Option (List Hd)
  deriving Repr, DecidableEq

structure St where
  heap : Heap
  th : Nat → TState

def St.init (h0 : Heap) (prog : List Thread) : St :=
  ⟨h0, fun t => ⟨0, Slice.nil, ((prog[t]?).map (·.inh)).getD Slice.nil, none⟩⟩

def upd (f : Nat → TState) (i : Nat) (v : TState) : Nat → TState := fun j => if j = i then v else f j

/-- one atomic step of thread `t` -/
def step (F : Facts) (prog : List Thread) (st : St) (t : Nat) : St :=
  match prog[t]? with
  | none => st
  | some th =>
    let ts := st.th t
    match th.code[ts.pc]? with
    | some (.collect top g) =>
      let r := collect (F.collectCopies top) st.heap ts.cbs g
      { heap := r.1, th := upd st.th t { ts with pc := ts.pc + 1, cbs := r.2 } }
    | some .install =>
      let r := install F.installCopies st.heap ts.cur ts.cbs
      { heap := r.1, th := upd st.th t { ts with pc := ts.pc + 1, cbs := Slice.nil, cur := r.2 } }
    | none =>
      if ts.seen.isSome then st
      else { st with th := upd st.th t { ts with seen := some (st.heap.read ts.cur) } }

def exec (F : Facts) (prog : List Thread) : List Nat → St → St
  | [], st => st
  | t :: rest, st => exec F prog rest (step F prog st t)

def seenAll (F : Facts) (h0 : Heap) (prog : List Thread) (sched : List Nat) : List (Option (List Hd)) :=
  let st := exec F prog sched (St.init h0 prog)
  (List.range prog.length).map fun t => (st.th t).seen

/-- what a piece of code has installed / is still collecting: `(installed, pending)` -/
def scan : List Instr → List Slice → List Slice → List Slice × List Slice
  | [], d, p => (d, p)
  | .collect _ g :: r, d, p => scan r d (p ++ [g])
  | .install :: r, d, p => scan r (d ++ p) []

/-- the slices a thread's code installs, in order -/
def installed (code : List Instr) : List Slice := (scan code [] []).1

/-- every slice a thread collects, and its inherited list, is a window into an array the caller
    owns (exists before the runs) -/
def WF (h0 : Heap) (prog : List Thread) : Prop :=
  ∀ th, th ∈ prog → (th.inh.len = 0 ∨ th.inh.arr < h0.length) ∧ ∀ top g, Instr.collect top g ∈ th.code → g.arr < h0.length

/-- one call: the handler list of its context and its `WithCallbacks` options -/
structure Call where
  inh : Slice
  gs : List Group
  deriving Repr, DecidableEq

def CallsWF (h0 : Heap) (calls : List Call) : Prop :=
  ∀ c, c ∈ calls → (c.inh.len = 0 ∨ c.inh.arr < h0.length) ∧ ∀ g, g ∈ c.gs → g.sl.arr < h0.length

def threadOf (c : Call) (p : Path) : Thread := ⟨c.inh, instrsFrom true (levels c.gs p)⟩

/-- thread `(i, p)` builds the handler list of unit `p` of call `i` -/
def progOf (calls : List Call) (threads : List (Nat × Path)) : List Thread :=
  threads.map fun ip => threadOf (calls.getD ip.1 ⟨Slice.nil, []⟩) ip.2

end EinoV.C09.Cb
