/-
  C06 — calls under a checkpoint store that can fail (family `fault`).

  compose/graph_run.go: a top-level run that was given a checkpoint id performs exactly one
  `CheckPointStore.Get` (through `getCheckPointFromStore`, before anything runs) and, when it takes an
  interrupt, exactly one `checkPointer.set` (= `serialization.Marshal` + `CheckPointStore.Set`) at the
  very end of `handleInterrupt` / `handleInterruptWithSubGraphAndRerunNodes`; nested graphs never
  touch the store.  At HEAD
      `load checkpoint from store fail: …`   is returned when the read fails (nothing has run), and
      `failed to set checkpoint: …`          is returned when the write fails: a plain error, NOT an
                                              interrupt; the store keeps what it had.
  Whether the error of `checkPointer.set` reaches the return of the handler is a source fact
  (`setErrReturned`, an explicit parameter here): with `false` the handler goes on to
  `return &interruptError{…}` although nothing was stored.

  The run itself (`runI` of Model/C05.lean) is a parameter (`run`): this file only models what the
  store's faults do to a call and to a history of calls under the same checkpoint id.
-/
import EinoV.Model.C05

namespace EinoV.Interrupt.Fault
open EinoV.Engine EinoV.Interrupt

/-- what the caller's `CheckPointStore` does: which of its `Get` / `Set` calls (0-based, counted per
    kind over the whole history) return an error.  (`Set` also stands for a `Marshal` failure.) -/
structure Plan where
  getFails : Nat → Bool
  setFails : Nat → Bool

def Plan.healthy : Plan := { getFails := fun _ => false, setFails := fun _ => false }

/-- the store as the history sees it: what is stored under the id, how often it was asked -/
structure Store (V S X : Type) where
  content : Option (Checkpoint V S X) := none
  gets : Nat := 0
  sets : Nat := 0

/-- result of one call under a store that can fail -/
inductive FRes (V S X : Type) where
  | ran (r : Res V S X)     -- the store did what it was asked: the result of the run
  | readFailed              -- `load checkpoint from store fail`: nothing ran
  | writeFailed             -- `failed to set checkpoint`: the run's error instead of the interrupt

structure FOut (V S X : Type) where
  res : FRes V S X
  evs : List (Ev V S X)

def Ev.isIntrRet {V S X} : Ev V S X → Bool
  | .interrupt _ => true | .storeSet => true | _ => false

def Ev.isStoreSet {V S X} : Ev V S X → Bool
  | .storeSet => true | _ => false

/-- the input of the call: the stored checkpoint if there is one, else the caller's input -/
def inpOf {V S X} (x : V) (st : Store V S X) : V ⊕ Checkpoint V S X :=
  match st.content with | some cp => .inr cp | none => .inl x

/-- the end of a call whose run returned `o`: the write at the interrupt -/
def afterRun {V S X} (setErrReturned : Bool) (plan : Plan) (st : Store V S X) (o : Out V S X) :
    FOut V S X × Store V S X :=
  match o.res with
  | .interrupted cp _ =>
    if plan.setFails st.sets then
      if setErrReturned then
        -- `return fmt.Errorf("failed to set checkpoint: %w …")`: everything that ran has run, but
        -- neither the interrupt is returned nor anything written
        ({ res := .writeFailed, evs := o.evs.filter (fun e => !Ev.isIntrRet e) },
         { st with gets := st.gets + 1, sets := st.sets + 1 })
      else
        -- the error is dropped: the interrupt is returned, nothing written
        ({ res := .ran o.res, evs := o.evs.filter (fun e => !Ev.isStoreSet e) },
         { st with gets := st.gets + 1, sets := st.sets + 1 })
    else
      ({ res := .ran o.res, evs := o.evs }, { content := some cp, gets := st.gets + 1, sets := st.sets + 1 })
  | _ => ({ res := .ran o.res, evs := o.evs }, { st with gets := st.gets + 1 })

/-- one call with the checkpoint id. `run`: the run loop for a top-level run with an id
    (`runI ops cfg r sched false true`). -/
def callF {V S X} (setErrReturned : Bool) (plan : Plan) (run : V ⊕ Checkpoint V S X → Out V S X) (x : V)
    (st : Store V S X) : FOut V S X × Store V S X :=
  if plan.getFails st.gets then
    ({ res := .readFailed, evs := [] }, { st with gets := st.gets + 1 })
  else
    afterRun setErrReturned plan st (run (inpOf x st))

/-- is the history over after this call?  A caller goes on after an interrupt (resume) and after an
    error of the store (retry with the same id); a result or an error of the run ends it. -/
def FRes.final {V S X} : FRes V S X → Bool
  | .ran (.done _) => true
  | .ran (.failed _) => true
  | _ => false

/-- the history of at most `n` calls with the same id and input, each paired with the store after it -/
def histF {V S X} (setErrReturned : Bool) (plan : Plan) (run : V ⊕ Checkpoint V S X → Out V S X) (x : V) :
    Nat → Store V S X → List (FOut V S X × Store V S X)
  | 0, _ => []
  | n + 1, st =>
    let p := callF setErrReturned plan run x st
    if p.1.res.final then [p] else p :: histF setErrReturned plan run x n p.2

/-- the interrupt was returned to the caller -/
def FOut.interrupted {V S X} (o : FOut V S X) : Prop :=
  ∃ cp info, o.res = .ran (.interrupted cp info)

end EinoV.Interrupt.Fault
