/-
  C20 — builder-side values a compiled Workflow reads at run time: static values.

  compose/workflow.go keeps, per `WorkflowNode`, a map `staticValues` that `SetStaticValue` writes
  (no guard, no error result: the call is possible at any time through the handle the Add…Node
  call returned, also long after Compile) and a trie `mappedFieldPath` of the input paths that are
  already spoken for.  `Workflow.compile`
    1. replays the recorded `AddInput` calls node by node in declaration order
       (`checkAndAddMappedPath` on the target paths, then `g.addEdgeWithMappings`),
    2. for every node with static values: builds `value` (a copy of `n.staticValues`), claims the
       paths in the trie (`checkAndAddMappedPath`: a static value on an already mapped path is an
       error, returned and *not* stored), and prepends a handler pair whose closures `invoke` /
       `transform` merge `value` into the node's input to `g.handlerPreNode[n.key]`,
    3. calls `g.compile`, which copies the handler lists into the runner.

  The model is about what the closures of step 2 hold on to.  A handler is a reference `SRef`:
  `copy kvs` (a private map) or `alias node` (the builder's own map, read when the runnable runs);
  which one `compile` makes is the source fact `copies`.  `SetStaticValue` is a plain write, unless
  the source fact `guarded` says it looks at the graph's `compiled` flag first.

  Universe of this family: every node is a lambda `map[string]any → map[string]any` that returns
  its input, the Workflow is `Workflow[map[string]any, map[string]any]`, paths have one segment,
  values are strings or (through `ToField`) whole maps.  The underlying graph is assumed to be
  well formed (every node triggered, END fed, no cycle: the oracle checks this before it runs the
  model, `Oracle/C20Static.lean`), so that `g.compile` itself never refuses; what can refuse is the
  trie.  Go's map iteration orders (`range n.staticValues`, `range wf.workflowNodes` in step 2) only
  decide which paths / handlers were already added when step 2 fails; the model takes list order.
  Core Lean only (compiled into oracle_C20).
-/
namespace EinoV.Build.SV

/-! ## values -/

mutual
inductive V where
  | str (s : String)
  | obj (kvs : KVs)
  deriving DecidableEq, Repr, Inhabited
/-- a `map[string]any`, keys in insertion order (the order is never observable: results are
    compared as JSON objects) -/
inductive KVs where
  | nil
  | cons (k : String) (v : V) (r : KVs)
  deriving DecidableEq, Repr, Inhabited
end

namespace KVs

def lookup : KVs → String → Option V
  | .nil, _ => none
  | .cons k v r, s => if k == s then some v else lookup r s

def has (m : KVs) (s : String) : Bool := (m.lookup s).isSome

/-- Go `m[k] = v` -/
def set (s : String) (x : V) : KVs → KVs
  | .nil => .cons s x .nil
  | .cons k v r => if k == s then .cons k x r else .cons k v (set s x r)

def keys : KVs → List String
  | .nil => []
  | .cons k _ r => k :: keys r

def isEmpty : KVs → Bool
  | .nil => true
  | .cons .. => false

def append : KVs → KVs → KVs
  | .nil, b => b
  | .cons k v r, b => .cons k v (append r b)

/-- `mergeValues` on two maps: a key on both sides is an error (`duplicated key found`) -/
def merge (a b : KVs) : Option KVs :=
  if b.keys.any a.has then none else some (a.append b)

end KVs

/-! ## the trie of `checkAndAddMappedPath`, for one-segment paths -/

/-- `n.mappedFieldPath`: nothing mapped yet / the whole input is mapped / these fields are -/
inductive MP where
  | fresh
  | whole
  | fields (fs : List String)
  deriving DecidableEq, Repr, Inhabited

/-- the loop over the target paths: the first path that is already there stops it (the ones before
    it stay in the trie) -/
def insAll : List String → List String → List String × Bool
  | fs, [] => (fs, true)
  | fs, p :: ps => if fs.contains p then (fs, false) else insAll (fs ++ [p]) ps

/-- one call `checkAndAddMappedPath(paths)` (`paths = []`: the whole input); the trie is changed in
    place, also when the call fails; `false` = an error is returned -/
def MP.add : MP → List String → MP × Bool
  | .whole, _ => (.whole, false)
  | .fields fs, [] => (.fields fs, false)
  | .fresh, [] => (.whole, true)
  | .fresh, p :: ps => let r := insAll [] (p :: ps); (.fields r.1, r.2)
  | .fields fs, p :: ps => let r := insAll fs (p :: ps); (.fields r.1, r.2)

/-! ## declarations -/

/-- one field mapping of an `AddInput` call: `MapFields(f, t)` or `ToField(t)` -/
inductive Mp where
  | field (f t : String)
  | to (t : String)
  deriving DecidableEq, Repr, Inhabited

def Mp.target : Mp → String
  | .field _ t => t
  | .to t => t

/-- `n.AddInput(src, maps…)`; `maps = []` maps the predecessor's whole output -/
structure SIn where
  src : String
  maps : List Mp
  deriving DecidableEq, Repr, Inhabited

/-- a `WorkflowNode` and what the graph knows about it -/
structure SNode where
  key : String
  /-- `n.addInputs`: recorded, not yet replayed -/
  pend : List SIn
  /-- the data edges into the node that `addEdgeWithMappings` accepted -/
  done : List SIn
  /-- `n.staticValues` -/
  static : KVs
  /-- `n.mappedFieldPath` -/
  trie : MP
  deriving DecidableEq, Repr, Inhabited

/-- what a static-value handler of a runnable reads -/
inductive SRef where
  | copy (kvs : KVs)
  | alias (node : String)
  deriving DecidableEq, Repr, Inhabited

def SRef.isCopy : SRef → Bool
  | .copy _ => true
  | .alias _ => false

abbrev Pre := List (String × List SRef)

/-- source facts -/
structure SFacts where
  /-- `Workflow.compile` gives the handler closures a private copy of `n.staticValues` -/
  copies : Bool
  /-- `SetStaticValue` does nothing once the graph is compiled -/
  guarded : Bool
  deriving DecidableEq, Repr, Inhabited

/-- the Workflow builder -/
structure SW where
  /-- declaration order (`wf.workflowNodeKeys`), END included -/
  nodes : List SNode
  /-- `g.handlerPreNode`, static-value handlers only -/
  pre : Pre
  /-- `g.compiled` -/
  compiled : Bool
  deriving DecidableEq, Repr, Inhabited

/-- what `g.compile` hands to the runner: the data edges and a copy of the handler lists -/
structure SRunner where
  nodes : List (String × List SIn)
  pre : Pre
  deriving DecidableEq, Repr, Inhabited

def SNode.new (key : String) (ins : List SIn) : SNode :=
  { key, pend := ins, done := [], static := .nil, trie := .fresh }

def SW.new (decl : List (String × List SIn)) : SW :=
  { nodes := decl.map (fun d => SNode.new d.1 d.2), pre := [], compiled := false }

def SW.staticOf (w : SW) (k : String) : KVs :=
  match w.nodes.find? (fun n => n.key == k) with
  | some n => n.static
  | none => .nil

/-- the static values of all nodes, in declaration order -/
def SW.statics (w : SW) : List (String × KVs) := w.nodes.map (fun n => (n.key, n.static))

/-! ## the calls -/

def updNode (k : String) (f : SNode → SNode) : List SNode → List SNode
  | [] => []
  | n :: t => if n.key == k then f n :: t else n :: updNode k f t

/-- `n.SetStaticValue(FieldPath{p}, v)` -/
def setStatic (F : SFacts) (w : SW) (k p v : String) : SW :=
  if F.guarded && w.compiled then w
  else { w with nodes := updNode k (fun n => { n with static := n.static.set p (.str v) }) w.nodes }

/-- `n.AddInput(src, maps…)`: recorded -/
def addInput (w : SW) (k : String) (i : SIn) : SW :=
  { w with nodes := updNode k (fun n => { n with pend := n.pend ++ [i] }) w.nodes }

/-- the replay of one node's recorded inputs: trie, accepted edges, success -/
def replayIns (compiled : Bool) : MP → List SIn → List SIn → MP × List SIn × Bool
  | t, done, [] => (t, done, true)
  | t, done, i :: is =>
    let r := t.add (i.maps.map Mp.target)
    if !r.2 then (r.1, done, false)
    else if compiled then (r.1, done, false)      -- addEdgeWithMappings: ErrGraphCompiled
    else replayIns compiled r.1 (done ++ [i]) is

/-- step 1 of `Workflow.compile`; a node whose replay fails keeps its recorded inputs -/
def replayAll (compiled : Bool) : List SNode → List SNode × Bool
  | [] => ([], true)
  | n :: t =>
    let r := replayIns compiled n.trie n.done n.pend
    if r.2.2 then
      let rest := replayAll compiled t
      ({ n with trie := r.1, done := r.2.1, pend := [] } :: rest.1, rest.2)
    else ({ n with trie := r.1, done := r.2.1 } :: t, false)

def prePrepend (k : String) (x : SRef) : Pre → Pre
  | [] => [(k, [x])]
  | (k', xs) :: t => if k' == k then (k', x :: xs) :: t else (k', xs) :: prePrepend k x t

/-- step 2 of `Workflow.compile` -/
def staticStep (F : SFacts) : List SNode → Pre → List SNode × Pre × Bool
  | [], pre => ([], pre, true)
  | n :: t, pre =>
    if n.static.isEmpty then
      let rest := staticStep F t pre
      (n :: rest.1, rest.2.1, rest.2.2)
    else
      let r := n.trie.add n.static.keys
      if !r.2 then ({ n with trie := r.1 } :: t, pre, false)
      else
        let x := if F.copies then SRef.copy n.static else SRef.alias n.key
        let rest := staticStep F t (prePrepend n.key x pre)
        ({ n with trie := r.1 } :: rest.1, rest.2.1, rest.2.2)

/-- `wf.Compile(ctx)` -/
def compile (F : SFacts) (w : SW) : SW × Option SRunner :=
  let r1 := replayAll w.compiled w.nodes
  if !r1.2 then ({ w with nodes := r1.1 }, none)
  else
    let r2 := staticStep F r1.1 w.pre
    if !r2.2.2 then ({ w with nodes := r2.1, pre := r2.2.1 }, none)
    else
      ({ nodes := r2.1, pre := r2.2.1, compiled := true },
       some { nodes := r2.1.map (fun n => (n.key, n.done)), pre := r2.2.1 })

/-! ## running a runnable -/

/-- what the handler closure sees when the runnable runs in builder state `w` -/
def SRef.now (w : SW) : SRef → KVs
  | .copy kvs => kvs
  | .alias k => w.staticOf k

/-- all handlers of a runnable, resolved against the builder state `w` -/
def SRunner.resolve (r : SRunner) (w : SW) : List (String × List KVs) :=
  r.pre.map (fun p => (p.1, p.2.map (SRef.now w)))

def assoc {α : Type} (l : List (String × α)) (k : String) : Option α :=
  match l.find? (fun p => p.1 == k) with
  | some p => some p.2
  | none => none

/-- the entries one `AddInput` contributes (`none`: a mapped key is missing in the predecessor's
    output, or the predecessor has not run) -/
def mapEntries (out : KVs) : List Mp → Option KVs
  | [] => some .nil
  | .field f t :: ms => do
    let v ← out.lookup f
    let rest ← mapEntries out ms
    pure (.cons t v rest)
  | .to t :: ms => do
    let rest ← mapEntries out ms
    pure (.cons t (.obj out) rest)

/-- the map the node's data edges deliver -/
def gather (outs : List (String × KVs)) : List SIn → Option KVs
  | [] => some .nil
  | i :: is => do
    let out ← assoc outs i.src
    let rest ← gather outs is
    match i.maps with
    | [] => pure out                      -- the whole output (the trie admits no other input then)
    | ms => do
      let e ← mapEntries out ms
      e.merge rest

def mergeAll : KVs → List KVs → Option KVs
  | acc, [] => some acc
  | acc, s :: ss => do
    let a ← acc.merge s
    mergeAll a ss

/-- nodes in declaration order (every predecessor is declared earlier); a lambda returns its
    input; the answer is what reaches END -/
def evalNodes (hs : List (String × List KVs)) : List (String × KVs) → List (String × List SIn) → Option KVs
  | _, [] => none
  | outs, (k, ins) :: t => do
    let base ← gather outs ins
    let inp ← mergeAll base ((assoc hs k).getD [])
    if k == "end" then pure inp else evalNodes hs (outs ++ [(k, inp)]) t

/-- `r.Invoke(ctx, input)` / `r.Stream(ctx, input)` while the builder is in state `w`
    (`none` = the run fails).  With private copies the trie guarantees that a static value never
    meets a mapped field of the same name, and both paradigms give this answer.  (With aliased
    maps a later `SetStaticValue` can create such a clash: Invoke then fails with `duplicated key`
    as modelled here, Stream concatenates the two strings – not modelled.) -/
def SRunner.run (r : SRunner) (w : SW) (input : KVs) : Option KVs :=
  evalNodes (r.resolve w) [("start", input)] r.nodes

/-! ## call sequences -/

inductive SOp where
  | set (node path val : String)
  | input (node : String) (i : SIn)
  | compile
  | run (r : Nat)
  deriving DecidableEq, Repr, Inhabited

inductive SOut where
  | ok                          -- a call without result (SetStaticValue, AddInput)
  | compiled                    -- Compile returned a runnable
  | error                       -- Compile returned an error
  | ran (o : Option KVs)
  | noRunner                    -- there is no such runnable
  deriving DecidableEq, Repr, Inhabited

abbrev St := SW × List SRunner

def step (F : SFacts) (inp : KVs) (st : St) : SOp → St × SOut
  | .set k p v => ((setStatic F st.1 k p v, st.2), .ok)
  | .input k i => ((addInput st.1 k i, st.2), .ok)
  | .compile =>
    let c := compile F st.1
    match c.2 with
    | some r => ((c.1, st.2 ++ [r]), .compiled)
    | none => ((c.1, st.2), .error)
  | .run i =>
    match st.2[i]? with
    | some r => (st, .ran (r.run st.1 inp))
    | none => (st, .noRunner)

def runOps (F : SFacts) (inp : KVs) : St → List SOp → St × List SOut
  | st, [] => (st, [])
  | st, op :: ops =>
    let s := step F inp st op
    let rest := runOps F inp s.1 ops
    (rest.1, s.2 :: rest.2)

end EinoV.Build.SV
