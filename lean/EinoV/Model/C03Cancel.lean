/-
  C03 — the run's context becomes done (cancel / deadline) at an arbitrary point of the
  submit / executor / wait protocol, on top of the hand-off transition system of
  `Model/C03.lean`.

  How the Go code treats a done context (compose/graph_run.go, compose/graph_manager.go):
    * the run loop looks at `ctx.Done()` in exactly one place, the non-blocking `select` at the
      top of every iteration of the main loop of `runner.run` (source fact
      `cancelCheckAtLoopTop`); `submit`, `executor`, `wait`, `waitOne`, `waitAll`, `updateChan`
      never read the context (source fact `tmIgnoresCtx`): a task that has been counted by
      `submit` is started, run and handed back whatever the context says;
    * `executor` registers the hand-off (`defer func(){ recover; Lock; PushBack; updateChan;
      Unlock }()`) as its very first statement (source fact `executorDefersFirst`): no path
      through the executor leaves before the push is guaranteed.

  Part A (protocol level).  The transition system of `Model/C03.lean` extended by
      cancel      the context becomes done (once, at any position of a schedule)
      enter t     the executor of a counted execution `t` reaches its first statement (the
                  goroutine created by `go t.executor(x)` is scheduled / the inlined call is
                  entered)
    A `finish t` needs `enter t` before.  With `executorDefersFirst = false` the model has the
    behaviour "the executor looks at the context above the `defer` and returns when it is
    done": the execution leaves `running` and nothing is pushed (`dropped`).

  Part B (engine level, reference of the harness family "cancel").  Acyclic graphs of part 3/4
    of `Model/C03.lean`, batch or eager, under a completion priority, where the context becomes
    done at a position `CancelAt` (before the run / inside the state pre-handler of a node /
    while a node's body runs / inside the state post-handler of a node).  The run notices at
    the top of the next iteration: the iteration in which the context became done is completed
    (everything it submitted is started; batch: and collected), a result computed by it is
    returned, otherwise the cancellation error.
-/
import EinoV.Model.C03
import EinoV.Model.C03Loop

namespace EinoV.C03

/-! ## Part A: protocol level -/

/-- Source facts about the treatment of a done context. -/
structure CancelFacts where
  /-- `executor`: the first statement of the body is the `defer` of the hand-off function
      literal (nothing that could return or panic precedes the registration of the push) -/
  executorDefersFirst : Bool
  deriving Repr, DecidableEq

structure CSt where
  /-- the task manager -/
  s : St
  /-- the run's context is done -/
  ctxDone : Bool
  /-- counted by `submit`, executor not yet at its first statement -/
  fresh : List Task
  /-- ghost: executions whose executor returned without handing the task over -/
  dropped : List Task
  deriving Repr, DecidableEq

def CSt.init : CSt := ⟨St.init, false, [], []⟩

inductive CEv where
  /-- a step of the task manager (`Model/C03.lean`) -/
  | tm (e : Ev)
  /-- the context becomes done -/
  | cancel
  /-- the executor of `t` begins -/
  | enter (t : Task)
  deriving Repr, DecidableEq

def CEv.isSubmit : CEv → Bool
  | .tm e => e.isSubmit
  | _ => false

/-- the task-manager event of a step, if it is one -/
def CEv.proj : CEv → Option Ev
  | .tm e => some e
  | _ => none

/-- One step; `none` = not enabled. -/
def cstep (F : Facts) (C : CancelFacts) (needAll : Bool) (c : CSt) : CEv → Option CSt
  | .cancel => if c.ctxDone then none else some { c with ctxDone := true }
  | .enter t =>
    if c.fresh.contains t then
      if c.ctxDone && !C.executorDefersFirst then
        -- `if ctx.Err() != nil { return }` above the `defer`: nothing is pushed; an inlined
        -- call returns to `submit`
        some { c with s := { c.s with running := c.s.running.erase t
                                      coll := if c.s.coll = .inline t then .idle else c.s.coll }
                      fresh := c.fresh.erase t
                      dropped := t :: c.dropped }
      else some { c with fresh := c.fresh.erase t }
    else none
  | .tm (.submit ts) =>
    (step F needAll c.s (.submit ts)).map fun s' =>
      { c with s := s', fresh := c.fresh ++ s'.running.drop c.s.running.length }
  | .tm (.finish t err) =>
    if c.fresh.contains t then none else
    (step F needAll c.s (.finish t err)).map fun s' => { c with s := s' }
  | .tm .recv => (step F needAll c.s .recv).map fun s' => { c with s := s' }
  | .tm .refill => (step F needAll c.s .refill).map fun s' => { c with s := s' }

def crun (F : Facts) (C : CancelFacts) (needAll : Bool) : CSt → List CEv → Option CSt
  | c, [] => some c
  | c, e :: es => match cstep F C needAll c e with
    | some c' => crun F C needAll c' es
    | none => none

/-- states reachable by any schedule, the context becoming done at any position of it -/
def CReachable (F : Facts) (C : CancelFacts) (needAll : Bool) (c : CSt) : Prop :=
  ∃ evs, crun F C needAll CSt.init evs = some c

/-- termination measure: the collector's measure, the executors that have not begun, and the
    one `cancel` that may still come -/
def cmeasure (c : CSt) : Nat :=
  measure c.s + c.fresh.length + (if c.ctxDone then 0 else 1)

/-! ## Part B: engine level — runs whose context becomes done -/

/-- where the context becomes done -/
inductive CancelAt where
  | never
  /-- before `Invoke` is called -/
  | before
  /-- inside the state pre-handler of `k`: in `submit`, after the loop-top check of the
      iteration that submits `k`, before anything of that `submit` is started -/
  | pre (k : Key)
  /-- while the body of `k` runs, `k` being the next execution to finish -/
  | body (k : Key)
  /-- inside the state post-handler of `k`: in `waitOne`, after the receive -/
  | post (k : Key)
  deriving Repr, DecidableEq

/-- the context becomes done while `submit` pre-processes `ks` -/
def CancelAt.inPre : CancelAt → List Key → Bool
  | .pre k, ks => ks.contains k
  | _, _ => false

/-- the context becomes done while one of `ks` runs or is being received -/
def CancelAt.inRun : CancelAt → List Key → Bool
  | .body k, ks => ks.contains k
  | .post k, ks => ks.contains k
  | _, _ => false

structure CCfg where
  g : GCase
  /-- Workflow (eager) vs Graph (batch) -/
  eager : Bool
  /-- completion priority -/
  order : List Key
  at_ : CancelAt

inductive COut where
  | ok
  /-- `context has been canceled` from the check at the top of the loop -/
  | cancelled
  /-- nothing to execute and END not ready -/
  | stuck
  deriving Repr, DecidableEq

structure CRun where
  out : COut
  /-- release script (one line per completion) -/
  steps : List IStep
  /-- iterations of the main loop whose top check was passed -/
  iters : Nat
  /-- at the return -/
  st : EState

/-- eager loop: per iteration the top check, `submit(next)`, one completion -/
def cEager (c : CCfg) : Nat → EState → List Key → List Key → Bool → Nat → List IStep → CRun
  | 0, st, _, _, _, it, acc => ⟨.stuck, acc, it, st⟩
  | n + 1, st, infl, next, done, it, acc =>
    if done then ⟨.cancelled, acc, it, st⟩ else
    let st0 := iStart st next
    let infl0 := infl ++ next
    match (prio c.order infl0).head? with
    | none => ⟨.stuck, acc, it + 1, st0⟩
    | some k =>
      let st1 := iCollect c.g st0 k
      let acc1 := acc ++ [⟨k, infl0⟩]
      if eEndReady c.g st1 then ⟨.ok, acc1, it + 1, st1⟩
      else cEager c n st1 (infl0.erase k) (eReady c.g st1)
             (c.at_.inPre next || c.at_.inRun [k]) (it + 1) acc1

/-- batch loop: per iteration the top check, `submit(next)`, every completion of the step -/
def cBatch (c : CCfg) : Nat → EState → List Key → Bool → Nat → List IStep → CRun
  | 0, st, _, _, it, acc => ⟨.stuck, acc, it, st⟩
  | n + 1, st, next, done, it, acc =>
    if done then ⟨.cancelled, acc, it, st⟩ else
    if next.isEmpty then ⟨.stuck, acc, it + 1, st⟩ else
    let r := iDrain c.g (iStart st next) (prio c.order next) next acc
    if eEndReady c.g r.1 then ⟨.ok, r.2, it + 1, r.1⟩
    else cBatch c n r.1 (eReady c.g r.1) (c.at_.inPre next || c.at_.inRun next) (it + 1) r.2

/-- the run of `c.g` whose context becomes done at `c.at_` -/
def cRun (c : CCfg) : CRun :=
  let st0 := iInit c.g
  let next := eReady c.g st0
  let done0 := decide (c.at_ = .before)
  if c.eager then cEager c (c.g.nodes.length + 2) st0 [] next done0 0 []
  else cBatch c (c.g.nodes.length + 2) st0 next done0 0 []

end EinoV.C03
