/-
  C18 — the ReAct agent (flow/agent/react/react.go) as the code implements it: a
  compose.Graph in Pregel mode (AnyPredecessor) over a local state
  `{Messages, ReturnDirectlyToolCallID}`, run superstep by superstep.

  What is a *parameter* (source facts, `Facts`): the rule table of the default
  `StreamToolCallChecker`, the graph topology `NewAgent` builds (with and without the
  return-directly part), whether `MaxStep` reaches `WithMaxRunSteps` and the default slack
  (`len(nodes) + 10`), and whether the two state pre-handlers append to the history.
  What is a parameter of a run (`Config`): the tools (arbitrary functions), the
  return-directly set, `MaxStep`, the `MessageModifier`, an optional custom checker.
  The chat model is a script: a list of replies, every reply given as the list of chunks
  it is streamed in (`Generate` returns their concatenation); the tool calls of a chunk are
  deltas keyed by `Index`, assembled per index by `assemble` (`schema.concatToolCalls`).

  Core Lean only; compiled into the oracle.
-/
namespace EinoV.C18

/-! ## messages -/

/-- `schema.ToolCall` as far as the agent looks at it. The same type serves for a whole tool
    call and for one streamed *delta* of it: `index` is `ToolCall.Index` (`none` = nil), the key
    under which `schema.ConcatMessages` merges the deltas of one call; a delta carries the
    call's id / name when it has them ("" otherwise) and a piece of the arguments. -/
structure ToolCall where
  id : String
  name : String
  args : String
  index : Option Nat := none
  deriving DecidableEq, Repr, Inhabited

inductive Role where
  | system | user | assistant | tool
  deriving DecidableEq, Repr, Inhabited

/-- `schema.Message` as far as the agent looks at it. `callId` = `ToolCallID` (tool messages). -/
structure Msg where
  role : Role
  content : String
  calls : List ToolCall
  callId : String
  deriving DecidableEq, Repr, Inhabited

/-- one streamed chunk of an assistant message. `extras` lists the other things the chunk
    carries (`Extra` entries, `ResponseMeta`, `Name`, … — provider metadata): nothing in the
    agent looks at them, which is what `CheckCond.holds`, `concat` and the theorem
    `react_ignores_chunk_metadata` say. -/
structure Chunk where
  content : String
  calls : List ToolCall
  extras : List String := []
  deriving DecidableEq, Repr, Inhabited

/-! ## assembling a turn's tool calls from streamed deltas (`schema.concatToolCalls`)

The tool calls of the chunks of one reply, flattened in arrival order, are a list of deltas.
Deltas without `Index` are tool calls of their own; the deltas that carry `Index = i` — wherever
they sit in the stream, contiguous or interleaved with the deltas of other calls — are merged
into one tool call: id and name are the first non-empty ones, the arguments are concatenated
in arrival order. The result lists the index-less calls first (arrival order), then one call per
index, by ascending index. (Deltas of one index with two different non-empty ids / names make
`ConcatMessages` fail; such streams are outside the modelled domain.) -/

/-- the first non-empty string ("" when there is none) -/
def firstNonEmpty : List String → String
  | [] => ""
  | s :: rest => if s = "" then firstNonEmpty rest else s

/-- the deltas filed under key `k` (`some i` = `Index` i, `none` = no `Index`), in arrival order -/
def deltasOf (k : Option Nat) (ds : List ToolCall) : List ToolCall :=
  ds.filter (fun d => decide (d.index = k))

/-- the tool call the deltas `g` of index `i` merge into -/
def mergeDeltas (i : Nat) (g : List ToolCall) : ToolCall :=
  { id := firstNonEmpty (g.map (·.id)), name := firstNonEmpty (g.map (·.name)),
    args := String.join (g.map (·.args)), index := some i }

/-- the assembled tool call of index `i`, if any delta carries that index -/
def groupAt (ds : List ToolCall) (i : Nat) : Option ToolCall :=
  match deltasOf (some i) ds with
  | [] => none
  | g => some (mergeDeltas i g)

/-- one more than the largest index that occurs (0 when none does) -/
def indexBound : List ToolCall → Nat
  | [] => 0
  | d :: ds =>
    match d.index with
    | some i => max (i + 1) (indexBound ds)
    | none => indexBound ds

/-- `schema.concatToolCalls`: index-less deltas first, then one merged call per index in
    ascending index order -/
def assemble (ds : List ToolCall) : List ToolCall :=
  deltasOf none ds ++ (List.range (indexBound ds)).filterMap (groupAt ds)

/-- `schema.ConcatMessages` on assistant chunks: contents are concatenated, the tool calls are
    assembled per index from the deltas of all chunks. -/
def concat (cs : List Chunk) : Msg :=
  { role := .assistant, content := String.join (cs.map (·.content)),
    calls := assemble (cs.flatMap (·.calls)), callId := "" }

/-- One scripted reply of the chat model: the chunks `Stream` emits. -/
structure Reply where
  chunks : List Chunk
  deriving DecidableEq, Repr, Inhabited

/-- what `Generate` returns for the reply -/
def Reply.full (r : Reply) : Msg := concat r.chunks

/-- the single "chunk" a non-streaming node output is boxed into -/
def Chunk.ofMsg (m : Msg) : Chunk := { content := m.content, calls := m.calls }

/-- `schema.ToolMessage(content, toolCallID)` -/
def toolMessage (content callId : String) : Msg :=
  { role := .tool, content := content, calls := [], callId := callId }

/-! ## the stream tool-call checker, as a rule table read off the source -/

inductive CheckCond where
  | hasToolCalls      -- `len(msg.ToolCalls) > 0`
  | emptyContent      -- `len(msg.Content) == 0`
  | otherwise         -- unconditional statement at the end of the loop body
  deriving DecidableEq, Repr

inductive CheckAct where
  | retTrue | retFalse | next   -- `return true, nil` / `return false, nil` / `continue`
  deriving DecidableEq, Repr

/-- Loop body of a checker: the guarded statements in source order, and what is returned on
    `io.EOF`. -/
structure CheckerSpec where
  rules : List (CheckCond × CheckAct)
  atEOF : Bool
  deriving DecidableEq, Repr

def CheckCond.holds : CheckCond → Chunk → Bool
  | .hasToolCalls, c => !c.calls.isEmpty
  | .emptyContent, c => c.content == ""
  | .otherwise, _ => true

/-- what the loop body does with one received chunk (no guard fires: next iteration) -/
def chunkAct : List (CheckCond × CheckAct) → Chunk → CheckAct
  | [], _ => .next
  | (cond, act) :: rs, c => if cond.holds c then act else chunkAct rs c

def runChecker (s : CheckerSpec) : List Chunk → Bool
  | [] => s.atEOF
  | c :: cs =>
    match chunkAct s.rules c with
    | .retTrue => true
    | .retFalse => false
    | .next => runChecker s cs

/-- a checker that drains the stream until a chunk with tool calls shows up (what the doc
    comment of `StreamToolCallChecker` asks users of Claude-like models to supply) -/
def wholeStreamChecker : CheckerSpec :=
  { rules := [(.hasToolCalls, .retTrue), (.otherwise, .next)], atEOF := false }

/-! ## source facts -/

/-- graph topology as `GraphInfo` reports it -/
structure Topo where
  nodes : List String                       -- node keys, sorted
  edges : List (String × String)            -- control edges, sorted
  branches : List (String × List String)    -- (start node, sorted end nodes), sorted
  deriving DecidableEq, Repr

structure Facts where
  /-- rule table of `firstChunkStreamToolCallChecker` (used when the config has none) -/
  defaultChecker : CheckerSpec
  /-- topology built by `NewAgent` when `ToolReturnDirectly` is empty -/
  topoPlain : Topo
  /-- … when it is not -/
  topoRD : Topo
  /-- `compose.WithMaxRunSteps(config.MaxStep)` is among the compile options -/
  maxStepPassed : Bool
  /-- … and among the compile options `Agent.ExportGraph()` hands out with the graph
      (`WithGraphCompileOptions(compileOpts...)`), i.e. the ones a parent chain / graph
      compiles the embedded agent with -/
  maxStepExported : Bool
  /-- compose default when maxRunSteps == 0: `len(nodes) + defaultSlack` -/
  defaultSlack : Nat
  /-- the model pre-handler does `state.Messages = append(state.Messages, input...)` -/
  modelPreAppends : Bool
  /-- the tools pre-handler does `state.Messages = append(state.Messages, input)` -/
  toolsPreAppends : Bool
  deriving DecidableEq, Repr

/-! decoding of the generated facts (`EinoV/Gen/FactsC18.lean` has core types only) -/

def CheckCond.ofString : String → Option CheckCond
  | "hasToolCalls" => some .hasToolCalls
  | "emptyContent" => some .emptyContent
  | "otherwise" => some .otherwise
  | _ => none

def CheckAct.ofString : String → Option CheckAct
  | "retTrue" => some .retTrue
  | "retFalse" => some .retFalse
  | "next" => some .next
  | _ => none

def decodeRules : List (String × String) → Option (List (CheckCond × CheckAct))
  | [] => some []
  | (c, a) :: rest =>
    match CheckCond.ofString c, CheckAct.ofString a, decodeRules rest with
    | some c, some a, some rs => some ((c, a) :: rs)
    | _, _, _ => none

def Facts.decode (rules : List (String × String)) (atEOF : Bool)
    (pn : List String) (pe : List (String × String)) (pb : List (String × List String))
    (rn : List String) (re : List (String × String)) (rb : List (String × List String))
    (maxStepPassed maxStepExported : Bool) (slack : Nat) (modelPre toolsPre : Bool) : Option Facts :=
  (decodeRules rules).map fun rs =>
    { defaultChecker := { rules := rs, atEOF := atEOF },
      topoPlain := { nodes := pn, edges := pe, branches := pb },
      topoRD := { nodes := rn, edges := re, branches := rb },
      maxStepPassed := maxStepPassed, maxStepExported := maxStepExported, defaultSlack := slack,
      modelPreAppends := modelPre, toolsPreAppends := toolsPre }

def keyStart : String := "start"
def keyEnd : String := "end"
def keyChat : String := "chat"
def keyTools : String := "tools"
def keyDirect : String := "direct_return"

/-! ## configuration of one agent -/

inductive Err where
  | maxSteps          -- compose.ErrExceedMaxSteps
  | badMaxSteps       -- "max run steps limit must be at least 1"
  | modelExhausted    -- the scripted model has no reply left (it returns its error)
  | toolNotFound      -- tool_node.go genToolCallTasks
  | toolFailed (id : Nat)
  | noToolCall        -- "no tool call found in input message"
  | noDirectResult    -- direct_return found no message with the recorded id
  | badTopology       -- not exactly one successor / wrong value kind (never with the real facts)
  deriving DecidableEq, Repr

structure Config where
  /-- registered tools: name ↦ body (arguments ↦ result or error id); `none` = not registered -/
  tools : String → Option (String → Except Nat String)
  returnDirectly : List String
  /-- `AgentConfig.MaxStep` -/
  maxStep : Int
  /-- `AgentConfig.MessageModifier` (`id` when nil) -/
  modifier : List Msg → List Msg
  /-- `AgentConfig.StreamToolCallChecker` (`none` = nil = default) -/
  checker : Option CheckerSpec
  /-- `AgentConfig.ToolsConfig.UnknownToolsHandler` (`none` = nil): tool name ↦ arguments ↦ result,
      asked for calls whose name is not a registered tool -/
  unknown : Option (String → String → Except Nat String) := none

inductive Mode where
  | generate | stream
  deriving DecidableEq, Repr

def Config.checkerSpec (F : Facts) (cfg : Config) : CheckerSpec :=
  match cfg.checker with
  | some s => s
  | none => F.defaultChecker

/-! ## node bodies -/

/-- react.go `getReturnDirectlyToolCallID` -/
def returnDirectlyId (rd : List String) (m : Msg) : String :=
  if rd.isEmpty then "" else
  match m.calls.find? (fun c => rd.contains c.name) with
  | some c => c.id
  | none => ""

/-- tool_node.go `genToolCallTasks`, one call: the registered tool of that name; for a name that
    is not registered, the unknown-tools handler applied to *that name* (`newUnknownToolTask(name,
    …)`), if one is configured -/
def Config.toolFor (cfg : Config) (name : String) : Option (String → Except Nat String) :=
  match cfg.tools name with
  | some f => some f
  | none => cfg.unknown.map (fun h => h name)

/-- tool_node.go `genToolCallTasks`: every call must name a registered tool, or be taken by the
    unknown-tools handler; otherwise the node fails before any tool runs -/
def resolveCalls (cfg : Config) : List ToolCall → Option (List (ToolCall × (String → Except Nat String)))
  | [] => some []
  | c :: cs =>
    match cfg.toolFor c.name, resolveCalls cfg cs with
    | some f, some rest => some ((c, f) :: rest)
    | _, _ => none

/-- What `genToolCallTasks` would compute if the closure handed to the unknown-tools handler read
    a variable shared by all iterations of the loop (Go < 1.22 `for _, toolCall := range …`): every
    unknown call is answered under the name of the LAST call of the message. Not the code; used
    only to show that the fact `unknownToolTaskGetsOwnName` matters. -/
def resolveCallsSharedVar (cfg : Config) (all : List ToolCall) :
    List ToolCall → Option (List (ToolCall × (String → Except Nat String)))
  | [] => some []
  | c :: cs =>
    let f := match cfg.tools c.name with
      | some f => some f
      | none => cfg.unknown.map (fun h => h ((all.getLast?.map (·.name)).getD c.name))
    match f, resolveCallsSharedVar cfg all cs with
    | some f, some rest => some ((c, f) :: rest)
    | _, _ => none

/-- tool_node.go `Invoke`/`Stream` after all tasks ran: first failed task in call order is
    the node's error, otherwise one tool message per call, in call order -/
def collectResults : List (ToolCall × (String → Except Nat String)) → Except Err (List Msg)
  | [] => .ok []
  | (c, f) :: rest =>
    match f c.args with
    | .error id => .error (.toolFailed id)
    | .ok out =>
      match collectResults rest with
      | .error e => .error e
      | .ok ms => .ok (toolMessage out c.id :: ms)

/-- The tools node on an assistant message: which tool bodies were started, and the output. -/
def runTools (cfg : Config) (m : Msg) : List ToolCall × Except Err (List Msg) :=
  if m.calls.isEmpty then ([], .error .noToolCall) else
  match resolveCalls cfg m.calls with
  | none => ([], .error .toolNotFound)
  | some tasks => (m.calls, collectResults tasks)

/-! ### tools that stream their result lazily and honour their context

A `StreamableTool` may hand back a stream whose chunks are produced only when they are read —
after `ToolsNode.Stream` has returned — by a producer that looks at the context it was called
with before every chunk. What the reader gets then depends on whether that context is still
alive, i.e. on whether the tools node called the tool with the caller's context or with a derived
one that it ended itself (`ended`; source fact `toolCallCtxNotScoped` = not scoped). -/

/-- what a lazy producer does when it finds its context done -/
inductive LazyMode where
  | stop | err
  deriving DecidableEq, Repr

/-- the tool result the reader assembles from a lazily produced stream of `chunks`. With the
    caller's context (`ended = false`) all of it. Were the context ended when the tools node
    returns (`ended = true`) — which only concerns messages with several calls (`siblings`), a
    single call is run on the caller's context directly — the producer stops at its next look at
    the context: silently (at most the chunk already under way arrives) or with the error. -/
def lazyRead (ended siblings : Bool) (mode : LazyMode) (chunks : List String) : Except Err String :=
  if ended && siblings then
    match mode with
    | .stop => .ok (String.join (chunks.take 1))
    | .err => .error (.toolFailed 0)
  else .ok (String.join chunks)

/-- values flowing along the edges -/
inductive Val where
  | msgs (l : List Msg)        -- `[]*schema.Message` (graph input, tools output)
  | stream (cs : List Chunk)   -- the chat model's output: chunks (one boxed chunk in Generate)
  | msg (m : Msg)              -- direct_return's output
  deriving Repr

/-- what END hands back (a stream result is concatenated by the caller) -/
def Val.result : Val → Except Err Msg
  | .stream cs => .ok (concat cs)
  | .msg m => .ok m
  | .msgs _ => .error .badTopology

inductive Ev where
  | chat                          -- the model was called
  | tools (started : List ToolCall) -- the tools node ran; which tool bodies were started
  | direct
  deriving DecidableEq, Repr

/-- state local to one run: the graph state plus what we observe -/
structure St where
  msgs : List Msg             -- state.Messages
  rdId : String               -- state.ReturnDirectlyToolCallID
  script : List Reply         -- replies the model has not given yet
  seen : List (List Msg)      -- input of every model call so far
  evs : List Ev               -- node executions so far
  deriving Repr

/-- how the chat node's output travels: `Generate` ⇒ one boxed chunk, `Stream` ⇒ the chunks -/
def streamOf : Mode → Reply → List Chunk
  | .generate, r => [Chunk.ofMsg r.full]
  | .stream, r => r.chunks

/-- Execute one node (state pre-handler, then the body). The state is returned even when the
    node fails (what the recording model / tools have observed by then). -/
def execNode (F : Facts) (cfg : Config) (mode : Mode) (key : String) (input : Val) (st : St) :
    St × Except Err Val :=
  if key == keyChat then
    match input with
    | .msgs l =>
      let msgs := if F.modelPreAppends then st.msgs ++ l else st.msgs
      let st1 := { st with msgs := msgs, seen := st.seen ++ [cfg.modifier msgs], evs := st.evs ++ [.chat] }
      match st.script with
      | [] => (st1, .error .modelExhausted)
      | r :: rest => ({ st1 with script := rest }, .ok (.stream (streamOf mode r)))
    | _ => (st, .error .badTopology)
  else if key == keyTools then
    match input with
    | .stream cs =>
      let m := concat cs
      let msgs := if F.toolsPreAppends then st.msgs ++ [m] else st.msgs
      let (started, out) := runTools cfg m
      let st1 := { st with msgs := msgs, rdId := returnDirectlyId cfg.returnDirectly m,
                           evs := st.evs ++ [.tools started] }
      match out with
      | .error e => (st1, .error e)
      | .ok res => (st1, .ok (.msgs res))
    | _ => (st, .error .badTopology)
  else if key == keyDirect then
    match input with
    | .msgs l =>
      let st1 := { st with evs := st.evs ++ [.direct] }
      match l.find? (fun m => m.callId == st.rdId) with
      | some m => (st1, .ok (.msg m))
      | none => (st1, .error .noDirectResult)
    | _ => (st, .error .badTopology)
  else (st, .error .badTopology)

/-- The branch condition attached to a node (evaluated on the node's output and the state
    after the node ran). -/
def branchChoice (F : Facts) (cfg : Config) (key : String) (out : Val) (st : St) : Option String :=
  if key == keyChat then
    match out with
    | .stream cs => some (if runChecker (cfg.checkerSpec F) cs then keyTools else keyEnd)
    | _ => none
  else if key == keyTools then
    some (if st.rdId != "" then keyDirect else keyChat)
  else none

/-- successors of a completed node: its control edges plus, for every branch starting at it,
    the chosen end node (which must be one of the branch's declared ends) -/
def nextNodes (T : Topo) (key : String) (choice : Option String) : List String :=
  (T.edges.filter (fun e => e.1 == key)).map (·.2) ++
  (T.branches.filter (fun b => b.1 == key)).flatMap (fun b =>
    match choice with
    | some c => if b.2.contains c then [c] else []
    | none => [])

inductive StepOut where
  | next (key : String) (input : Val)
  | done (res : Except Err Msg)

/-- one superstep: run the (single) active node, evaluate its branch, compute the next task -/
def superstep (F : Facts) (cfg : Config) (mode : Mode) (T : Topo) (key : String) (input : Val)
    (st : St) : St × StepOut :=
  match execNode F cfg mode key input st with
  | (st1, .error e) => (st1, .done (.error e))
  | (st1, .ok out) =>
    match nextNodes T key (branchChoice F cfg key out st1) with
    | [n] => if n == keyEnd then (st1, .done out.result) else (st1, .next n out)
    | _ => (st1, .done (.error .badTopology))

/-- graph_run.go main loop: `for step := 0; ; step++ { if step >= maxSteps { ErrExceedMaxSteps } … }`.
    `budget` = `maxSteps - step`. -/
def loop (F : Facts) (cfg : Config) (mode : Mode) (T : Topo) :
    Nat → String → Val → St → St × Except Err Msg
  | 0, _, _, st => (st, .error .maxSteps)
  | b + 1, key, input, st =>
    match superstep F cfg mode T key input st with
    | (st1, .done r) => (st1, r)
    | (st1, .next k v) => loop F cfg mode T b k v st1

def topoOf (F : Facts) (cfg : Config) : Topo :=
  if cfg.returnDirectly.isEmpty then F.topoPlain else F.topoRD

/-- the step limit in force: `WithMaxRunSteps(config.MaxStep)`; 0 ⇒ compose's default
    `len(nodes) + slack`; below 1 ⇒ the run refuses to start -/
def stepLimit (F : Facts) (cfg : Config) : Option Nat :=
  let configured : Int := if F.maxStepPassed then cfg.maxStep else 0
  if configured == 0 then some ((topoOf F cfg).nodes.length + F.defaultSlack)
  else if configured < 0 then none
  else some configured.toNat

instance {ε α : Type} [DecidableEq ε] [DecidableEq α] : DecidableEq (Except ε α)
  | .ok a, .ok b => if h : a = b then isTrue (by rw [h]) else isFalse (by intro h'; cases h'; exact h rfl)
  | .error a, .error b => if h : a = b then isTrue (by rw [h]) else isFalse (by intro h'; cases h'; exact h rfl)
  | .ok _, .error _ => isFalse (by intro h; cases h)
  | .error _, .ok _ => isFalse (by intro h; cases h)

structure Run where
  seen : List (List Msg)
  evs : List Ev
  result : Except Err Msg
  deriving Repr, DecidableEq

def initSt (script : List Reply) : St :=
  { msgs := [], rdId := "", script := script, seen := [], evs := [] }

/-- `Agent.Generate` / `Agent.Stream` (stream result concatenated) -/
def run (F : Facts) (cfg : Config) (mode : Mode) (orig : List Msg) (script : List Reply) : Run :=
  match stepLimit F cfg with
  | none => { seen := [], evs := [], result := .error .badMaxSteps }
  | some limit =>
    match nextNodes (topoOf F cfg) keyStart none with
    | [n] =>
      let (st, r) := loop F cfg mode (topoOf F cfg) limit n (.msgs orig) (initSt script)
      { seen := st.seen, evs := st.evs, result := r }
    | _ => { seen := [], evs := [], result := .error .badTopology }

/-! ## the agent embedded in a parent chain / graph through `ExportGraph`

`Agent.ExportGraph()` returns the agent's graph together with the `GraphAddNodeOpt`s to add it
with (`Chain.AppendGraph(g, opts...)`, `Graph.AddGraphNode(key, g, opts...)`). The parent then
compiles the agent's graph itself, with the compile options carried by those opts — not with
the ones `NewAgent` used for its own `Compile`. The embedded agent is one node of the parent
(one superstep there; the parent's own step limit, nodes + slack ≥ 11, is never reached), its
run is the run of the same graph under the exported options. -/

/-- where the agent runs: behind `Agent.Generate`/`Agent.Stream`, or as the exported graph
    inside a parent chain / graph (`Invoke`/`Stream` of the parent) -/
inductive Host where
  | agent | exported
  deriving DecidableEq, Repr

/-- the source facts as they apply to the graph compiled by the parent: the compile options are
    the exported ones -/
def Facts.exported (F : Facts) : Facts := { F with maxStepPassed := F.maxStepExported }

def Facts.forHost (F : Facts) : Host → Facts
  | .agent => F
  | .exported => F.exported

/-- the run of the agent in either setting -/
def runAt (F : Facts) (host : Host) (cfg : Config) (mode : Mode) (orig : List Msg)
    (script : List Reply) : Run :=
  run (F.forHost host) cfg mode orig script

/-! ## chunk metadata -/

def Chunk.bare (c : Chunk) : Chunk := { c with extras := [] }

/-- the reply with all chunk metadata removed -/
def Reply.bare (r : Reply) : Reply := { chunks := r.chunks.map Chunk.bare }

end EinoV.C18
