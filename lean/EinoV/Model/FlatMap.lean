/-
  The value universe of the graph case language: `map[string]any` with string values,
  kept as an association list sorted by key (canonical form), plus the deterministic
  pseudo-random choice function shared with the Go harness (FNV-1a, 32 bit).
-/
namespace EinoV

abbrev FlatMap := List (String × String)

namespace FlatMap

def insertSorted (k v : String) : FlatMap → FlatMap
  | [] => [(k, v)]
  | (k', v') :: rest =>
    if k < k' then (k, v) :: (k', v') :: rest
    else if k == k' then (k, v) :: rest
    else (k', v') :: insertSorted k v rest

def hasKey (k : String) (m : FlatMap) : Bool := m.any (·.1 == k)

/-- `mergeMap`: union of maps, `none` on a duplicate key. -/
def mergeTwo (a b : FlatMap) : Option FlatMap :=
  b.foldl (fun acc kv => acc.bind fun m => if hasKey kv.1 m then none else some (insertSorted kv.1 kv.2 m)) (some a)

def merge : List FlatMap → Option FlatMap
  | [] => some []
  | m :: rest => rest.foldl (fun acc x => acc.bind fun a => mergeTwo a x) (some (m.foldl (fun acc kv => insertSorted kv.1 kv.2 acc) []))

/-- canonical rendering "k=v;k=v;" -/
def render (m : FlatMap) : String := m.foldl (fun s kv => s ++ kv.1 ++ "=" ++ kv.2 ++ ";") ""

end FlatMap

def fnv32 (s : String) : UInt32 :=
  s.toUTF8.foldl (fun h b => (h ^^^ b.toUInt32) * 16777619) 2166136261

def hexDigit (n : Nat) : Char := "0123456789abcdef".toList.getD n '0'

def hex32 (x : UInt32) : String :=
  let n := x.toNat
  String.ofList ((List.range 8).reverse.map fun i => hexDigit ((n / 16 ^ i) % 16))

end EinoV
