/-
  C20 — declarations above the builder: the Workflow API and graphs used as nodes.

  Code: compose/workflow.go (`AddLambdaNode`/`AddPassthroughNode`/`AddGraphNode` → `g.addNode`
  at once; `WorkflowNode.AddInput` / `AddDependency` / `AddInputWithOptions(…,
  WithNoDirectDependency())` and `Workflow.AddBranch` are only *recorded* and replayed by
  `Workflow.compile`: first every recorded branch (`g.addBranch(from, b, skipData = true)`, on
  every Compile), then every recorded input (`g.addEdgeWithMappings(from, key, noControl,
  noData, mappings…)`, once), then `g.compile`); compose/graph.go `addEdgeWithMappings` (where
  the entry / exit bookkeeping sits: source fact `inCtl`) and the loop of `compile` that compiles
  the graph of every sub-graph node (`node.compileIfNeeded` → `gn.g.compile(ctx,
  gn.nodeInfo.compileOption)`) between the checks of `compilePre` and those of `compilePost`.

  Core Lean only (compiled into oracle_C20).  The builder itself is Model/C20Builder.lean.

  Not modelled: the errors `Workflow.compile` returns without storing them (a second
  whole-output input of one node, overlapping mapped paths: C15), static values.  A Chain is a
  declaration like any other: the calls `Chain.addNode` makes on its graph as `ops`, the END edge
  of `addEndIfNeeded` as `once` (Oracle/C20Decl.lean `chainCalls`).  A sub-graph that is compiled again by a later Compile of its parent is taken to answer
  as it did the first time (`compile_retry_same` for the builder; a Workflow child replays its
  branches – tested by correspondence only).
-/
import EinoV.Model.C20Builder

namespace EinoV.Build

/-! ## where `addEdgeWithMappings` records entry and exit edges -/

/-- `if startNode == START { g.startNodes = append(g.startNodes, endNode) }
     if endNode == END { g.endNodes = append(g.endNodes, startNode) }` -/
def Builder.noteEnds (b : Builder) (s e : Key) : Builder :=
  { b with startNodes := if s = START then b.startNodes ++ [e] else b.startNodes,
           endNodes := if e = END then b.endNodes ++ [s] else b.endNodes }

def mapOk (g : Builder → Builder) : Except ErrKind Builder → Except ErrKind Builder
  | .error k => .error k
  | .ok b => .ok (g b)

/-- `addEdgeWithMappings` after the guards.  `inCtl` is the source fact "the two appends above
    stand inside `if !noControl { … }`" (only an edge that carries a control dependency makes
    START connected / END reachable); `false` = they stand after the data part and run for
    every accepted edge. -/
def addEdgeBodyK (inCtl : Bool) (im : Impl) (ord : Ord) (b : Builder) (s e : Key)
    (noControl noData : Bool) (mapped : Option Nat) : Except ErrKind Builder :=
  if s = END then .error .endAsStart
  else if e = START then .error .startAsEnd
  else if !b.hasNode s && s != START then .error .unknownStart
  else if !b.hasNode e && e != END then .error .unknownEnd
  else
    let r1 : Except ErrKind Builder :=
      if noControl then .ok b
      else if b.controlEdges.contains (s, e) then .error .dupControl
      else
        let b' := { b with controlEdges := b.controlEdges ++ [(s, e)] }
        .ok (if inCtl then b'.noteEnds s e else b')
    match r1 with
    | .error k => .error k
    | .ok b1 =>
      mapOk (fun b3 => if inCtl then b3 else b3.noteEnds s e) <|
        if noData then .ok b1
        else if b1.dataEdges.contains (s, e) then .error .dupData
        else
          match update im ord (b1.addToValidate s { dst := e, mapped }) with
          | .error k => .error k
          | .ok b2 => .ok { b2 with dataEdges := b2.dataEdges ++ [(s, e)] }

def addEdgeK (f : Facts) (inCtl : Bool) (im : Impl) (ord : Ord) (b : Builder) (s e : Key)
    (noControl noData : Bool) (mapped : Option Nat) : Builder × Outcome :=
  match (if f.edgeG.checkErr then b.buildError else none) with
  | some k => (b, .stored k)
  | none =>
    if f.edgeG.checkCompiled && b.compiled then (b, .compiled)
    else if noControl && noData then (b, .fresh .edgeBothNo)
    else guarded { f.edgeG with checkErr := false, checkCompiled := false } b
           (addEdgeBodyK inCtl im ord b s e noControl noData mapped)

/-- everything a declaration is evaluated with: the source facts, the `implements` relation
    of the case, Go's map iteration orders -/
structure Env where
  f : Facts
  inCtl : Bool
  im : Impl
  ord : Ord

def stepK (E : Env) (b : Builder) : Op → Builder × Outcome × Option Runner
  | .edge s e nc nd m => let (b', o) := addEdgeK E.f E.inCtl E.im E.ord b s e nc nd m; (b', o, none)
  | op => step E.f E.im E.ord b op

/-- the state after a list of calls whose results nobody looks at (`_ = wf.g.addBranch(…)`,
    the deferred inputs: their error is kept in `buildError`) -/
def runK (E : Env) : Builder → List Op → Builder
  | b, [] => b
  | b, op :: ops => runK E (stepK E b op).1 ops

/-! ## `graph.compile` with sub-graph nodes -/

/-- how the error of a sub-graph looks from its parent: a value the parent never stored -/
def Outcome.asChild : Outcome → Outcome
  | .stored k => .fresh k
  | o => o

/-- `kids`: for every node that carries a graph, what compiling that graph answers.  The loop
    over `g.nodes` (a Go map) stops at the first failure; which failing child that is depends
    on the iteration order, that the call fails does not (`compileN_perm`). -/
def compileN (f : Facts) (ord : Ord) (b : Builder) (o : COpts) (kids : List Outcome) :
    Builder × Outcome × Option Runner :=
  match b.buildError with
  | some k => (b, .stored k, none)
  | none =>
    match compilePre f b o with
    | some k => (b, .fresh k, none)
    | none =>
      match kids.find? (fun oc => !oc.isOk) with
      | some oc => (mutatePre f b, oc.asChild, none)
      | none =>
        match compilePost (mutatePre f b) ord o with
        | some oc => (mutatePre f b, oc, none)
        | none => ((mutatePre f b).setCompiled, .ok, some (mkRunner f b o))

/-! ## declaration trees -/

mutual
/-- One graph as its owner declares it.
    `ops`: the calls made while declaring (for a Workflow: the AddNode calls; for a Graph:
    every call); `re`: calls repeated at the start of every Compile (a Workflow's branches);
    `once`: calls made by the first Compile that gets that far (a Workflow's inputs);
    `guard`: what the API's own `compile` answers before touching the graph, if anything
    (`Workflow.compile` looks up the end nodes of every recorded branch). -/
inductive Decl where
  | mk (cmp : Cmp) (inT outT : Ty) (stateTy : Option Nat) (ops : DOps) (re once : List Op)
       (guard : Option Outcome)
inductive DOps where
  | nil
  | op (o : Op) (rest : DOps)
  /-- `AddGraphNode(key, child, WithGraphCompileOptions(copts…))` -/
  | sub (key : Key) (child : Decl) (copts : COpts) (rest : DOps)
end

deriving instance DecidableEq for Decl, DOps

def Decl.cmp : Decl → Cmp | .mk c _ _ _ _ _ _ _ => c
def Decl.inT : Decl → Ty | .mk _ i _ _ _ _ _ _ => i
def Decl.outT : Decl → Ty | .mk _ _ o _ _ _ _ _ => o
def Decl.ops : Decl → DOps | .mk _ _ _ _ ops _ _ _ => ops

/-- a graph used as a node is, for its parent, a node with the graph's input and output type -/
def subSpec (key : Key) (inT outT : Ty) : NodeSpec :=
  { key, passthrough := false, inTy := inT, outTy := outT, pre := none, post := none, nodeKeyOpt := false }

/-- one `Compile` of a declared graph whose builder is `b`: `calls` are the recorded calls this
    Compile replays first -/
def attempt (E : Env) (b : Builder) (calls : List Op) (guard : Option Outcome) (o : COpts)
    (kids : List Outcome) : Builder × Outcome :=
  match b.buildError with
  | some k => (b, .stored k)
  | none =>
    match guard with
    | some oc => (b, oc)
    | none =>
      let r := compileN E.f E.ord (runK E b calls) o kids
      (r.1, r.2.1)

mutual
/-- what the first `Compile(copts)` of a freshly declared graph answers -/
def Decl.first (E : Env) : Decl → COpts → Outcome
  | .mk cmp i o st ops re once guard, co =>
    let r := DOps.build E ops (Builder.new cmp i o st)
    (attempt E r.1 (re ++ once) guard co r.2).2
/-- replay the declaring calls; for every sub-graph node that was accepted, the answer of its
    graph's compile (in declaration order) -/
def DOps.build (E : Env) : DOps → Builder → Builder × List Outcome
  | .nil, b => (b, [])
  | .op o rest, b => DOps.build E rest (stepK E b o).1
  | .sub key child co rest, b =>
    let r := addNode E.f b (subSpec key child.inT child.outT)
    let r' := DOps.build E rest r.1
    (r'.1, if r.2.isOk then Decl.first E child co :: r'.2 else r'.2)
end

/-- the Compile got as far as its sub-graph nodes and one of them failed -/
def attemptAtKids (E : Env) (b : Builder) (calls : List Op) (guard : Option Outcome) (o : COpts)
    (kids : List Outcome) : Bool :=
  b.buildError.isNone && guard.isNone && (runK E b calls).buildError.isNone &&
  (compilePre E.f (runK E b calls) o).isNone && kids.any (fun oc => !oc.isOk)

/-- consecutive Compiles of one declared graph: `pending` = the recorded inputs not replayed
    yet; with every answer, whether it is the error of a sub-graph -/
def compilesFrom (E : Env) (re : List Op) (guard : Option Outcome) (kids : List Outcome) :
    Builder → List Op → List COpts → List (Outcome × Bool)
  | _, _, [] => []
  | b, pending, co :: rest =>
    let r := attempt E b (re ++ pending) guard co kids
    let ran := b.buildError.isNone && guard.isNone
    (r.2, attemptAtKids E b (re ++ pending) guard co kids) ::
      compilesFrom E re guard kids r.1 (if ran then [] else pending) rest

def Decl.compilesX (E : Env) : Decl → List COpts → List (Outcome × Bool)
  | .mk cmp i o st ops re once guard, cos =>
    let r := DOps.build E ops (Builder.new cmp i o st)
    compilesFrom E re guard r.2 r.1 once cos

def Decl.compiles (E : Env) (d : Decl) (cos : List COpts) : List Outcome :=
  (d.compilesX E cos).map (·.1)

/-- the sub-graph nodes `addNode` accepted, with their compile options (declaration order) -/
def DOps.subs (E : Env) : DOps → Builder → List (Decl × COpts)
  | .nil, _ => []
  | .op o rest, b => DOps.subs E rest (stepK E b o).1
  | .sub key child co rest, b =>
    let r := addNode E.f b (subSpec key child.inT child.outT)
    (if r.2.isOk then [(child, co)] else []) ++ DOps.subs E rest r.1

/-- the answers of the failing children: the error of a failed parent Compile that got as far
    as its children is one of these -/
def Decl.kidOutcomes (E : Env) : Decl → List Outcome
  | .mk cmp i o st ops _ _ _ => (DOps.build E ops (Builder.new cmp i o st)).2

/-! ## the Workflow API -/

inductive InKind where
  | input      -- AddInput: control + data
  | dep        -- AddDependency: control only
  | indirect   -- AddInputWithOptions(…, WithNoDirectDependency()): data only
  deriving DecidableEq, Repr, Inhabited

structure WfIn where
  src : Key
  kind : InKind
  mapped : Option Nat
  deriving DecidableEq, Repr, Inhabited

inductive WfBody where
  | plain (passthrough : Bool) (inTy outTy : Ty)
  | graph (child : Decl) (copts : COpts)

structure WfNode where
  key : Key
  body : WfBody
  ins : List WfIn

structure WfBranch where
  src : Key
  ty : Ty
  ends : List Key
  deriving DecidableEq, Repr, Inhabited

structure WfDecl where
  inT : Ty
  outT : Ty
  stateTy : Option Nat
  nodes : List WfNode
  endIns : List WfIn       -- inputs declared on `wf.End()`
  branches : List WfBranch

/-- the `addEdgeWithMappings` call one recorded input turns into -/
def WfIn.op (dst : Key) (i : WfIn) : Op :=
  .edge i.src dst (i.kind == .indirect) (i.kind == .dep) (if i.kind == .dep then none else i.mapped)

def wfNodeOps : List WfNode → DOps
  | [] => .nil
  | n :: ns =>
    match n.body with
    | .plain pt i o =>
      .op (.node { key := n.key, passthrough := pt, inTy := i, outTy := o, pre := none, post := none,
                   nodeKeyOpt := false }) (wfNodeOps ns)
    | .graph child co => .sub n.key child co (wfNodeOps ns)

/-- the recorded inputs, one group per `WorkflowNode` (`n.addInputs`): the declared nodes in
    declaration order, then END -/
def WfDecl.groups (d : WfDecl) : List (List Op) :=
  d.nodes.map (fun n => n.ins.map (WfIn.op n.key)) ++ [d.endIns.map (WfIn.op END)]

/-- `Workflow.compile` replays the groups in the order it visits `wf.workflowNodes`; inside a
    group the calls keep their order.  `order` lists group indices. -/
def WfDecl.inputOpsBy (d : WfDecl) (order : List Nat) : List Op :=
  order.flatMap (fun i => (d.groups[i]?).getD [])

def WfDecl.inputOps (d : WfDecl) : List Op :=
  d.nodes.flatMap (fun n => n.ins.map (WfIn.op n.key)) ++ d.endIns.map (WfIn.op END)

/-- Source fact `declared`: the nodes are visited in the order they were declared (a slice of
    keys); `false` = `for _, n := range wf.workflowNodes` over the Go map – any order `adv`. -/
def replayOrder (declared : Bool) (adv : List Nat) (n : Nat) : List Nat :=
  if declared then List.range n else adv

def WfDecl.branchOps (d : WfDecl) : List Op :=
  d.branches.map (fun br => .branch br.src br.ty br.ends true)

/-- `wf.workflowNodes[endNode]` exists: some Add…Node call named that key (whatever `addNode`
    said about it) -/
def WfDecl.declares (d : WfDecl) (k : Key) : Bool := d.nodes.any (fun n => n.key == k)

def WfDecl.badBranchEnd (d : WfDecl) : Bool :=
  d.branches.any (fun br => br.ends.any (fun e => e != END && !d.declares e))

/-- `Workflow.compile` walks the end nodes of every recorded branch and calls a method on
    `wf.workflowNodes[endNode]`.  Source fact `endsChecked`: the lookup is checked and a missing
    node is an error; `false` = the nil entry is dereferenced (the call panics). -/
def WfDecl.guard (endsChecked : Bool) (d : WfDecl) : Option Outcome :=
  if d.badBranchEnd then some (if endsChecked then .fresh .branchUnknownEnd else .panic) else none

def WfDecl.lower (endsChecked : Bool) (d : WfDecl) : Decl :=
  .mk .workflow d.inT d.outT d.stateTy (wfNodeOps d.nodes) d.branchOps d.inputOps (d.guard endsChecked)

/-- the same Workflow when its recorded inputs are replayed group by group in `order` -/
def WfDecl.lowerBy (endsChecked : Bool) (d : WfDecl) (order : List Nat) : Decl :=
  .mk .workflow d.inT d.outT d.stateTy (wfNodeOps d.nodes) d.branchOps (d.inputOpsBy order) (d.guard endsChecked)

/-- a plain list of builder calls as a declaration (the Graph API) -/
def DOps.ofList : List Op → DOps
  | [] => .nil
  | o :: os => .op o (DOps.ofList os)

end EinoV.Build
