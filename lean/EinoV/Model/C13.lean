/-
  C13 — error wrapping model (compose/error.go, graph_run.go failure paths,
  graph_manager.go executor recover).

  `GoErr` is the shape of an `error` value as far as `errors.Is` / `errors.As` can see it:
  the `Unwrap` chain.  `internal` is `*compose.internalError`; whether it takes part in the
  chain is the source fact `hasUnwrap` (does `*internalError` have `Unwrap() error`
  returning `origError`), passed as a parameter.
-/
namespace EinoV.C13

abbrev Key := String

inductive GoErr where
  /-- a comparable error value (`errors.New`, a user error, a sentinel); identity = `id` -/
  | leaf (id : Nat)
  /-- `fmt.Errorf("...: %w", e)` -/
  | wrapf (e : GoErr)
  /-- `*internalError{typ, streamWrapperPath, nodePath, origError}` -/
  | internal (graphRun : Bool) (nodePath : List Key) (streamPath : List Nat) (orig : GoErr)
  /-- `safe.NewPanicErr(info, stack)`: no `Unwrap` -/
  | panicE (info : Nat)
  /-- `*interruptError` / `*subGraphInterruptError` -/
  | interrupt
  deriving Repr, DecidableEq, Inhabited

/-- `errors.Is(e, leaf target)`: walk the `Unwrap` chain comparing with `==`. -/
def errorsIs (hasUnwrap : Bool) : GoErr → Nat → Bool
  | .leaf i, t => i == t
  | .wrapf e, t => errorsIs hasUnwrap e t
  | .internal _ _ _ o, t => if hasUnwrap then errorsIs hasUnwrap o t else false
  | .panicE _, _ => false
  | .interrupt, _ => false

/-- `errors.As(e, &ie)` for `*internalError`: the first internal error in the chain.
    Returned as its four fields. (The first match is the outermost one, so the result does
    not depend on whether `internalError` itself unwraps.) -/
def asInternal : GoErr → Option (Bool × List Key × List Nat × GoErr)
  | .leaf _ => none
  | .wrapf e => asInternal e
  | .internal g np sp o => some (g, np, sp, o)
  | .panicE _ => none
  | .interrupt => none

/-- `isInterruptError`: `errors.As` for the two interrupt error types. -/
def isInterrupt (hasUnwrap : Bool) : GoErr → Bool
  | .leaf _ => false
  | .wrapf e => isInterrupt hasUnwrap e
  | .internal _ _ _ o => if hasUnwrap then isInterrupt hasUnwrap o else false
  | .panicE _ => false
  | .interrupt => true

/-- error.go `newGraphRunError` -/
def newGraphRunError (e : GoErr) : GoErr := .internal true [] [] e

/-- error.go `wrapGraphNodeError`: interrupts pass through; an internal error found with
    `errors.As` gets the key prepended *and is returned itself* (outer `%w` layers are
    dropped); anything else becomes a fresh NodeRun error. -/
def wrapNode (hasUnwrap : Bool) (key : Key) (e : GoErr) : GoErr :=
  if isInterrupt hasUnwrap e then e else
  match asInternal e with
  | some (g, np, sp, o) => .internal g (key :: np) sp o
  | none => .internal false [key] [] e

/-- error.go `wrapStreamWrapperError` -/
def wrapStream (hasUnwrap : Bool) (action : Nat) (e : GoErr) : GoErr :=
  if isInterrupt hasUnwrap e then e else
  match asInternal e with
  | some (g, np, sp, o) => .internal g np (action :: sp) o
  | none => .internal false [] [action] e

/-- node path recorded in the error the run returns (`internalError.nodePath`) -/
def nodePath (e : GoErr) : List Key :=
  match asInternal e with
  | some (_, np, _, _) => np
  | none => []

/-- One nesting level a failure travels through on its way out: the key of the node
    (in the enclosing graph) whose execution failed, and the stream-paradigm adaptors
    (runnable.go) the error passes between the node body and the graph loop. -/
structure Level where
  key : Key
  adaptors : List Nat
  deriving Repr

/-- The error the outermost run returns when the body of the node at the innermost level
    fails with `e`.  `levels` is listed outermost first.  Each level applies the adaptors
    (innermost adaptor first) and then `wrapGraphNodeError` in
    `resolveInterruptCompletedTasks`; the run returns that error as is. -/
def failThrough (hasUnwrap : Bool) : List Level → GoErr → GoErr
  | [], e => e
  | l :: ls, e =>
    let inner := failThrough hasUnwrap ls e
    let adapted := l.adaptors.foldr (fun a acc => wrapStream hasUnwrap a acc) inner
    wrapNode hasUnwrap l.key adapted

/-- A graph-level failure (`newGraphRunError`) raised inside the graph reached through
    `levels` (e.g. the step limit, cancellation). -/
def graphFailThrough (hasUnwrap : Bool) (levels : List Level) (e : GoErr) : GoErr :=
  failThrough hasUnwrap levels (newGraphRunError e)

/-! ### the context of the run ends (graph_run.go, top of the step loop)

  Between two steps the loop looks at `ctx.Done()`; when it is closed the run stops with
  `newGraphRunError(fmt.Errorf("…: %w", ctx.Err()))`.  What `ctx.Err()` is depends on HOW the
  context ended: `cancel()` → `context.Canceled`, an expired deadline / timeout →
  `context.DeadlineExceeded`, a `context.Context` of the caller's own → whatever its `Err()`
  returns.  `CtxEnd` is that cause; the sentinels have the fixed identities below. -/

def canceledId : Nat := 1001
def deadlineId : Nat := 1002

inductive CtxEnd where
  /-- `cancel()` (also `WithCancelCause`: `Err()` stays `context.Canceled`) -/
  | canceled
  /-- deadline / timeout expired (also `WithTimeoutCause`) -/
  | deadline
  /-- a context type of the caller whose `Err()` returns its own comparable error value -/
  | custom (id : Nat)
  deriving Repr, DecidableEq

/-- identity of the value `ctx.Err()` returns -/
def CtxEnd.id : CtxEnd → Nat
  | .canceled => canceledId
  | .deadline => deadlineId
  | .custom i => i

/-- what the step loop wraps when it finds the context done.  `reportsCtxErr` is the source fact
    "the `%w` operand is `ctx.Err()` of the run's own context"; the other value stands for a
    fixed cancellation sentinel built once (whatever made the context end). -/
def loopCtxError (reportsCtxErr : Bool) (c : CtxEnd) : GoErr :=
  .wrapf (.leaf (if reportsCtxErr then c.id else canceledId))

/-- the error the outermost run returns when the context ends while the graph reached through
    the first `endAt` of `levels` is between two steps (that graph's loop is the one that
    notices: the enclosing loops are waiting for their sub-graph node).  `endAt = 0`: the
    outermost graph itself — in particular a context that is already done when the run starts. -/
def ctxEndThrough (hasUnwrap reportsCtxErr : Bool) (levels : List Level) (endAt : Nat) (c : CtxEnd) : GoErr :=
  graphFailThrough hasUnwrap (levels.take endAt) (loopCtxError reportsCtxErr c)

/-! ### an interrupt and a node failure meet (graph_run.go, eager mode)

  In eager mode (Workflow) the loop takes the tasks of the run ONE at a time, in the order in
  which they complete.  A task it takes may put the loop at an interrupt point: the task itself
  asks for it (`InterruptAndRerun`, a nested graph that interrupted: its "error" is an interrupt),
  or its key is an interrupt-after node, or one of the tasks it makes ready is an
  interrupt-before node (`point k`).  At an interrupt point the loop DRAINS the tasks still in
  flight (`tm.waitAll()`) and classifies them with `resolveInterruptCompletedTasks` like any
  other completed task; `drainChecked` is the source fact "the error that classification returns
  for the drained tasks is looked at" (false: it is dropped and the run reports the interrupt). -/

inductive RoundResult where
  /-- the run returns this error -/
  | failed (e : GoErr)
  /-- the run returns an interrupt error (checkpoint written) -/
  | interrupted
  /-- every task was taken, nothing failed, no interrupt point -/
  | goesOn
  deriving Repr, DecidableEq

/-- the first task, in the given order, that really failed (an interrupt is not a failure) -/
def firstFailure (hasUnwrap : Bool) : List (Key × Option GoErr) → Option (Key × GoErr)
  | [] => none
  | (k, some e) :: rest => if isInterrupt hasUnwrap e then firstFailure hasUnwrap rest else some (k, e)
  | (_, none) :: rest => firstFailure hasUnwrap rest

/-- the loop is at an interrupt point and drains the tasks still in flight -/
def drainAtInterrupt (hasUnwrap drainChecked : Bool) (inFlight : List (Key × Option GoErr)) : RoundResult :=
  if drainChecked then
    match firstFailure hasUnwrap inFlight with
    | some (k, e) => .failed (wrapNode hasUnwrap k e)
    | none => .interrupted
  else .interrupted

/-- the eager loop over the tasks in the order in which they complete -/
def eagerRun (hasUnwrap drainChecked : Bool) (point : Key → Bool) : List (Key × Option GoErr) → RoundResult
  | [] => .goesOn
  | (k, some e) :: rest =>
    if isInterrupt hasUnwrap e then drainAtInterrupt hasUnwrap drainChecked rest
    else .failed (wrapNode hasUnwrap k e)
  | (k, none) :: rest =>
    if point k then drainAtInterrupt hasUnwrap drainChecked rest
    else eagerRun hasUnwrap drainChecked point rest

/-! ### what the caller can read: the error's text; observers on the way out

  `wrapGraphNodeError` does not build a new error for every nesting level: it finds the one
  `*internalError` with `errors.As`, prepends the key IN PLACE and returns that same object.  The
  node path a caller of the public API sees is the one `Error()` prints (`node path: [a, b, c]`).
  On its way out the error may be read by anybody: an `OnError` callback handler that logs
  `err.Error()`, a lambda / tool that runs a compiled graph and wraps its error with
  `fmt.Errorf("…: %w", err)` (which formats the text).  `Hop` is one thing that happens to the error
  between the failing body and the caller; `memoises` is the source fact "`Error()` keeps the text
  it rendered first" (false: the text is a function of the current fields). -/

inductive Hop where
  /-- the step loop of one more enclosing graph: `wrapGraphNodeError(key, err)` -/
  | wrap (key : Key)
  /-- somebody calls `err.Error()` -/
  | observe
  /-- `fmt.Errorf("…: %w", err)`: reads the text, adds a `%w` layer -/
  | rewrap
  deriving Repr, DecidableEq

/-- the travelling error: its `Unwrap` chain, and the text the one `*internalError` in it has
    memoised (as the path that text names), if any -/
structure ErrSt where
  err : GoErr
  cache : Option (List Key)
  deriving Repr

def observeSt (memoises : Bool) (st : ErrSt) : ErrSt :=
  if memoises && (asInternal st.err).isSome && st.cache.isNone then { st with cache := some (nodePath st.err) } else st

def hop (hasUnwrap memoises : Bool) (st : ErrSt) : Hop → ErrSt
  | .wrap k =>
    -- an internal error already in the chain is the object that is returned (with its memo);
    -- otherwise a fresh object
    { err := wrapNode hasUnwrap k st.err, cache := if (asInternal st.err).isSome then st.cache else none }
  | .observe => observeSt memoises st
  | .rewrap => let st' := observeSt memoises st; { st' with err := .wrapf st'.err }

/-- the error the caller gets when the body fails with `e`; hops innermost first -/
def travel (hasUnwrap memoises : Bool) (hops : List Hop) (e : GoErr) : ErrSt :=
  hops.foldl (hop hasUnwrap memoises) { err := e, cache := none }

/-- the node path the text of the error names -/
def textPath (st : ErrSt) : List Key :=
  match st.cache with
  | some p => p
  | none => nodePath st.err

def hopKeys : List Hop → List Key
  | [] => []
  | .wrap k :: r => k :: hopKeys r
  | _ :: r => hopKeys r

/-- What a user node body may return: an error that is not itself framework-made. -/
def userErr : GoErr → Bool
  | .leaf _ => true
  | .wrapf e => userErr e
  | .internal .. => false
  | .panicE _ => true
  | .interrupt => false

/-! ### panic containment: goroutine bodies -/

inductive BodyOutcome where
  | ok | err (e : GoErr) | panic (info : Nat)
  deriving Repr

inductive TaskOutcome where
  | ok | err (e : GoErr) | processCrash
  deriving Repr, DecidableEq

/-- A framework goroutine running a user body.  With a deferred `recover` that stores the
    error, a panic becomes that task's error; without it the process dies. -/
def runInGoroutine (recovers : Bool) : BodyOutcome → TaskOutcome
  | .ok => .ok
  | .err e => .err e
  | .panic i => if recovers then .err (.panicE i) else .processCrash


/-! ### several tasks of one step fail -/

/-- what `resolveInterruptCompletedTasks` returns for the completed tasks of a step, in
    collection order: with `asIs` the wrapped error of the first failed task it meets; otherwise
    (an aggregation into a new error value) an opaque error that wraps nothing -/
def reportStep (hasUnwrap asIs : Bool) : List (Key × Option GoErr) → Option GoErr
  | [] => none
  | (k, some e) :: rest =>
    if asIs then some (wrapNode hasUnwrap k e)
    else
      -- aggregated: a fresh error value (text only) unless this is the only failure
      if rest.any (fun t => t.2.isSome) then some (.internal true [] [] (.panicE 0)) else some (wrapNode hasUnwrap k e)
  | (_, none) :: rest => reportStep hasUnwrap asIs rest

/-! ### panics at any user-code site of a task; the state lock

  One step of a run: several tasks, each running user code at a sequence of sites — the node
  body, and (any number of times) a critical section on the run's state mutex in which user
  code runs (`compose.ProcessState`, a state pre/post handler).  `Act` is one thing a task
  does; an event list `List (Key × Act)` is one interleaving of the tasks of the step (the
  events of one task appear in program order; critical sections serialise, so a critical
  section is one event).  The theorems quantify over all event lists, i.e. over all scripts
  and all interleavings. -/

/-- the source facts about the recover sites (parameters of the step model) -/
structure ExecFacts where
  /-- the function every task runs in (`taskManager.executor`) has a deferred `recover` -/
  recovers : Bool
  /-- that deferred handler performs nothing that can itself panic before it has recorded the
      error and queued the task; if it can, the model takes the case in which it does -/
  handlerClean : Bool
  /-- the state mutex is released by `defer` in every function of compose/state.go that runs
      user code under it -/
  unlockByDefer : Bool
  deriving Repr, DecidableEq

inductive Act where
  /-- lock the state, run a user handler (returns, or panics with `info`), unlock -/
  | useState (panics : Option Nat)
  /-- the body panics outside any critical section -/
  | panicBody (info : Nat)
  /-- the body returns an error -/
  | fail (e : GoErr)
  /-- the body returns normally -/
  | done
  deriving Repr, DecidableEq

inductive TState where
  | running
  /-- the task was handed back to the step loop with this error (`none` = success) -/
  | finished (r : Option GoErr)
  /-- waits for the state mutex, which nobody will ever release -/
  | blocked
  /-- a panic left the executor: the caller of the run sees a panic / the process dies -/
  | escaped
  deriving Repr, DecidableEq

structure StepSt where
  /-- the state mutex was left locked by a task that is gone -/
  leaked : Bool
  tasks : Key → TState

def StepSt.init : StepSt := { leaked := false, tasks := fun _ => .running }

def StepSt.set (st : StepSt) (k : Key) (v : TState) : StepSt :=
  { st with tasks := fun k' => if k' = k then v else st.tasks k' }

/-- a panic unwinds to the executor's deferred handler -/
def afterPanic (f : ExecFacts) (info : Nat) : TState :=
  if f.recovers && f.handlerClean then .finished (some (.panicE info)) else .escaped

/-- one event; events of a task that is no longer running are ignored (whatever the script
    says would come after a panic or a return is never executed) -/
def stepEv (f : ExecFacts) (st : StepSt) (ev : Key × Act) : StepSt :=
  match st.tasks ev.1 with
  | .running =>
    match ev.2 with
    | .useState p =>
      if st.leaked then st.set ev.1 .blocked else
      match p with
      | none => st
      | some i => { (st.set ev.1 (afterPanic f i)) with leaked := !f.unlockByDefer }
    | .panicBody i => st.set ev.1 (afterPanic f i)
    | .fail e => st.set ev.1 (.finished (some e))
    | .done => st.set ev.1 (.finished none)
  | _ => st

def runEvents (f : ExecFacts) (evs : List (Key × Act)) : StepSt := evs.foldl (stepEv f) .init

inductive StepResult where
  /-- the step never completes: the engine waits for a task that is blocked for ever -/
  | hang
  /-- a panic escaped the run -/
  | crash
  /-- the step completed; `some e` = the run fails with `e` -/
  | reported (e : Option GoErr)
  deriving Repr, DecidableEq

/-- the tasks of `order` that finished, in collection order, as `reportStep` takes them -/
def finishedOf (st : StepSt) (order : List Key) : List (Key × Option GoErr) :=
  order.filterMap fun k => match st.tasks k with | .finished r => some (k, r) | _ => none

/-- what a step whose tasks are `order` (collection order) comes to after the events `evs` -/
def stepResult (f : ExecFacts) (hasUnwrap asIs : Bool) (order : List Key) (evs : List (Key × Act)) : StepResult :=
  let st := runEvents f evs
  if order.any (fun k => st.tasks k == .blocked) then .hang
  else if order.any (fun k => st.tasks k == .escaped) then .crash
  else .reported (reportStep hasUnwrap asIs (finishedOf st order))


end EinoV.C13
