/-
  C13 — error wrapping model (compose/error.go, graph_run.go failure paths,
  graph_manager.go executor recover).

  `GoErr` is the shape of an `error` value as far as `errors.Is` / `errors.As` can see it:
  the `Unwrap` chain.  `internal` is `*compose.internalError`; whether it takes part in the
  chain is the source fact `hasUnwrap` (does `*internalError` have `Unwrap() error`
  returning `origError`), passed as a parameter.
-/
namespace EinoV.C13

abbrev Key := String

inductive GoErr where
  /-- a comparable error value (`errors.New`, a user error, a sentinel); identity = `id` -/
  | leaf (id : Nat)
  /-- `fmt.Errorf("...: %w", e)` -/
  | wrapf (e : GoErr)
  /-- `*internalError{typ, streamWrapperPath, nodePath, origError}` -/
  | internal (graphRun : Bool) (nodePath : List Key) (streamPath : List Nat) (orig : GoErr)
  /-- `safe.NewPanicErr(info, stack)`: no `Unwrap` -/
  | panicE (info : Nat)
  /-- `*interruptError` / `*subGraphInterruptError` -/
  | interrupt
  deriving Repr, DecidableEq, Inhabited

/-- `errors.Is(e, leaf target)`: walk the `Unwrap` chain comparing with `==`. -/
def errorsIs (hasUnwrap : Bool) : GoErr → Nat → Bool
  | .leaf i, t => i == t
  | .wrapf e, t => errorsIs hasUnwrap e t
  | .internal _ _ _ o, t => if hasUnwrap then errorsIs hasUnwrap o t else false
  | .panicE _, _ => false
  | .interrupt, _ => false

/-- `errors.As(e, &ie)` for `*internalError`: the first internal error in the chain.
    Returned as its four fields. (The first match is the outermost one, so the result does
    not depend on whether `internalError` itself unwraps.) -/
def asInternal : GoErr → Option (Bool × List Key × List Nat × GoErr)
  | .leaf _ => none
  | .wrapf e => asInternal e
  | .internal g np sp o => some (g, np, sp, o)
  | .panicE _ => none
  | .interrupt => none

/-- `isInterruptError`: `errors.As` for the two interrupt error types. -/
def isInterrupt (hasUnwrap : Bool) : GoErr → Bool
  | .leaf _ => false
  | .wrapf e => isInterrupt hasUnwrap e
  | .internal _ _ _ o => if hasUnwrap then isInterrupt hasUnwrap o else false
  | .panicE _ => false
  | .interrupt => true

/-- error.go `newGraphRunError` -/
def newGraphRunError (e : GoErr) : GoErr := .internal true [] [] e

/-- error.go `wrapGraphNodeError`: interrupts pass through; an internal error found with
    `errors.As` gets the key prepended *and is returned itself* (outer `%w` layers are
    dropped); anything else becomes a fresh NodeRun error. -/
def wrapNode (hasUnwrap : Bool) (key : Key) (e : GoErr) : GoErr :=
  if isInterrupt hasUnwrap e then e else
  match asInternal e with
  | some (g, np, sp, o) => .internal g (key :: np) sp o
  | none => .internal false [key] [] e

/-- error.go `wrapStreamWrapperError` -/
def wrapStream (hasUnwrap : Bool) (action : Nat) (e : GoErr) : GoErr :=
  if isInterrupt hasUnwrap e then e else
  match asInternal e with
  | some (g, np, sp, o) => .internal g np (action :: sp) o
  | none => .internal false [] [action] e

/-- node path recorded in the error the run returns (`internalError.nodePath`) -/
def nodePath (e : GoErr) : List Key :=
  match asInternal e with
  | some (_, np, _, _) => np
  | none => []

/-- One nesting level a failure travels through on its way out: the key of the node
    (in the enclosing graph) whose execution failed, and the stream-paradigm adaptors
    (runnable.go) the error passes between the node body and the graph loop. -/
structure Level where
  key : Key
  adaptors : List Nat
  deriving Repr

/-- The error the outermost run returns when the body of the node at the innermost level
    fails with `e`.  `levels` is listed outermost first.  Each level applies the adaptors
    (innermost adaptor first) and then `wrapGraphNodeError` in
    `resolveInterruptCompletedTasks`; the run returns that error as is. -/
def failThrough (hasUnwrap : Bool) : List Level → GoErr → GoErr
  | [], e => e
  | l :: ls, e =>
    let inner := failThrough hasUnwrap ls e
    let adapted := l.adaptors.foldr (fun a acc => wrapStream hasUnwrap a acc) inner
    wrapNode hasUnwrap l.key adapted

/-- A graph-level failure (`newGraphRunError`) raised inside the graph reached through
    `levels` (e.g. the step limit, cancellation). -/
def graphFailThrough (hasUnwrap : Bool) (levels : List Level) (e : GoErr) : GoErr :=
  failThrough hasUnwrap levels (newGraphRunError e)

/-- What a user node body may return: an error that is not itself framework-made. -/
def userErr : GoErr → Bool
  | .leaf _ => true
  | .wrapf e => userErr e
  | .internal .. => false
  | .panicE _ => true
  | .interrupt => false

/-! ### panic containment: goroutine bodies -/

inductive BodyOutcome where
  | ok | err (e : GoErr) | panic (info : Nat)
  deriving Repr

inductive TaskOutcome where
  | ok | err (e : GoErr) | processCrash
  deriving Repr, DecidableEq

/-- A framework goroutine running a user body.  With a deferred `recover` that stores the
    error, a panic becomes that task's error; without it the process dies. -/
def runInGoroutine (recovers : Bool) : BodyOutcome → TaskOutcome
  | .ok => .ok
  | .err e => .err e
  | .panic i => if recovers then .err (.panicE i) else .processCrash


/-! ### several tasks of one step fail -/

/-- what `resolveInterruptCompletedTasks` returns for the completed tasks of a step, in
    collection order: with `asIs` the wrapped error of the first failed task it meets; otherwise
    (an aggregation into a new error value) an opaque error that wraps nothing -/
def reportStep (hasUnwrap asIs : Bool) : List (Key × Option GoErr) → Option GoErr
  | [] => none
  | (k, some e) :: rest =>
    if asIs then some (wrapNode hasUnwrap k e)
    else
      -- aggregated: a fresh error value (text only) unless this is the only failure
      if rest.any (fun t => t.2.isSome) then some (.internal true [] [] (.panicE 0)) else some (wrapNode hasUnwrap k e)
  | (_, none) :: rest => reportStep hasUnwrap asIs rest

end EinoV.C13
