/-
  C09 — call options of concurrent runs (compose/utils.go `extractOption`,
  compose/tool_node.go `ToolsNode.Invoke/Stream`).

  Part 1 (`EinoV.C09.Opt`).  At the start of every run `extractOption` builds the per-run map
  `node key → []any`.  The map is a fresh object (fact `runBuildsOptMap`), but its VALUES are
  Go slices: whether they are storage of the run or windows into the caller's `Option.options`
  arrays is a separate question, and the latter are shared by every run that was given the
  same `compose.Option` value.  Go slice semantics are taken from the C10 model
  (`EinoV.C10.Slice/Heap/goAppend`: a slice is a window `(array, off, len, cap)`, `append`
  writes in place when `len + k ≤ cap`).

  An *extraction thread* is one (run, node) pair: the list of option-group slices of the call
  that reach the node, in call order.  A thread adds its groups one by one to what it has
  collected (`collect`), and later – when the node is executed – reads the collected slice.
  All threads of all runs are interleaved arbitrarily over one heap.

    collect copies = true  : `optMap[k] = append(optMap[k], opt.options...)`   (the code)
    collect copies = false : the first group is taken as it is, without copying  (the hazard)

  `copies` is the source fact `extractOptionCopies` (tools/factgen/c09.go).

  Part 2 (`EinoV.C09.Tools`).  A run through a ToolsNode that carries a `WithToolList` option
  converts the list and executes its tool calls against the conversion.  `memo = false`: the
  conversion is a local of the call (the code).  `memo = true`: the last list and its
  conversion are kept in two fields of the shared node, written one after the other.
-/
import EinoV.Model.C10

namespace EinoV.C09.Opt
open EinoV.C10 (Hd Slice Heap goAppend)

abbrev Path := List String

/-- one call option made by `WithLambdaOption(sl...)`, possibly designated to a node path -/
structure Group where
  desig : Bool
  target : Path
  sl : Slice
  deriving Repr, DecidableEq

/-- an undesignated option reaches every node that takes this option type (also inside nested
    graphs: it is handed to the sub-graph node as it is and extracted again); an option
    designated to a path reaches that node – or, when the path names a sub-graph node, every
    node below it -/
def Group.reaches (g : Group) (p : Path) : Bool := !g.desig || g.target.isPrefixOf p

/-- the slices of the groups of a call that reach node `p`, in call order -/
def reaching (gs : List Group) (p : Path) : List Slice := (gs.filter (·.reaches p)).map (·.sl)

/-- SPECIFICATION: what node `p` of a run must see – a function of the call's own groups and
    of the caller's memory as it was handed over -/
def visible (h0 : Heap) (gs : List Group) (p : Path) : List Hd :=
  ((reaching gs p).map h0.read).flatten

/-- `extractOption` adds one group to what it collected for a node -/
def collect (copies : Bool) (h : Heap) (acc g : Slice) : Heap × Slice :=
  if copies || acc.len != 0 then goAppend h acc (h.read g) else (h, g)

structure TState where
  pc : Nat
  acc : Slice
  seen : Option (List Hd)
  deriving Repr, DecidableEq

def TState.init : TState := ⟨0, Slice.nil, none⟩

structure St where
  heap : Heap
  th : Nat → TState

def St.init (h0 : Heap) : St := ⟨h0, fun _ => TState.init⟩

def upd (f : Nat → TState) (i : Nat) (v : TState) : Nat → TState := fun j => if j = i then v else f j

/-- one atomic step of thread `t`: collect its next group; when all are collected, the node
    runs and reads what was collected (once) -/
def step (copies : Bool) (prog : List (List Slice)) (st : St) (t : Nat) : St :=
  match prog[t]? with
  | none => st
  | some gs =>
    let ts := st.th t
    match gs[ts.pc]? with
    | some g =>
      let r := collect copies st.heap ts.acc g
      { heap := r.1, th := upd st.th t { ts with pc := ts.pc + 1, acc := r.2 } }
    | none =>
      if ts.seen.isSome then st
      else { st with th := upd st.th t { ts with seen := some (st.heap.read ts.acc) } }

def exec (copies : Bool) (prog : List (List Slice)) : List Nat → St → St
  | [], st => st
  | t :: rest, st => exec copies prog rest (step copies prog st t)

/-- what every thread has seen after the schedule -/
def seenAll (copies : Bool) (h0 : Heap) (prog : List (List Slice)) (sched : List Nat) : List (Option (List Hd)) :=
  let st := exec copies prog sched (St.init h0)
  (List.range prog.length).map fun t => (st.th t).seen

/-- every group slice is a window into an array the caller owns (exists before the runs) -/
def WF (h0 : Heap) (prog : List (List Slice)) : Prop :=
  ∀ gs, gs ∈ prog → ∀ g, g ∈ gs → g.arr < h0.length

/-- the caller's side: every option group of every call is a window into an array that exists
    before the runs start -/
def CallsWF (h0 : Heap) (calls : List (List Group)) : Prop :=
  ∀ gs, gs ∈ calls → ∀ g, g ∈ gs → g.sl.arr < h0.length

/-- the extraction threads of concurrent calls: thread `(i, p)` collects for node `p` the
    groups of call `i` that reach it -/
def progOf (calls : List (List Group)) (threads : List (Nat × Path)) : List (List Slice) :=
  threads.map fun ip => reaching (calls.getD ip.1 []) ip.2

end EinoV.C09.Opt

namespace EinoV.C09.Tools

/-- the two fields the seeded change adds to the shared `ToolsNode` (list ids) -/
structure Node where
  optTools : Option Nat
  optTuple : Option Nat
  deriving Repr, DecidableEq

structure RState where
  pc : Nat
  tuple : Option Nat   -- the conversion the run executes its tool calls against
  deriving Repr, DecidableEq

structure St where
  node : Node
  rs : Nat → RState

def St.init : St := ⟨⟨none, none⟩, fun _ => ⟨0, none⟩⟩

def upd (f : Nat → RState) (i : Nat) (v : RState) : Nat → RState := fun j => if j = i then v else f j

/-- one atomic step of run `i`, which carries tool list `lists i`.
    `memo = false` (the code): `tuple, err = convTools(ctx, opt.ToolList)` into a local.
    `memo = true`: `if tn.optTuple == nil || !same(tn.optTools, list) { tn.optTools = list;
    tn.optTuple = conv(list) }; return tn.optTuple` – three steps, the conversion (the user's
    `Info` calls) lies between the two writes. -/
def step (memo : Bool) (lists : Nat → Nat) (st : St) (i : Nat) : St :=
  let r := st.rs i
  if !memo then
    match r.pc with
    | 0 => { st with rs := upd st.rs i ⟨1, some (lists i)⟩ }
    | _ => st
  else
    match r.pc with
    | 0 =>
      if st.node.optTuple.isSome && st.node.optTools == some (lists i) then
        { st with rs := upd st.rs i ⟨3, st.node.optTuple⟩ }
      else
        { node := { st.node with optTools := some (lists i) }, rs := upd st.rs i ⟨1, none⟩ }
    | 1 => { node := { st.node with optTuple := some (lists i) }, rs := upd st.rs i ⟨2, none⟩ }
    | 2 => { st with rs := upd st.rs i ⟨3, st.node.optTuple⟩ }
    | _ => st

def exec (memo : Bool) (lists : Nat → Nat) : List Nat → St → St
  | [], st => st
  | i :: rest, st => exec memo lists rest (step memo lists st i)

/-! rendering for the correspondence check: a tool list is `(name, mark)` pairs, a tool call
    `(name, argument)`; a tool answers `mark:name(argument)`; an unknown name fails the run -/

def toolOut (l : List (String × String)) (call : String × String) : Option String :=
  (l.lookup call.1).map fun mark => mark ++ ":" ++ call.1 ++ "(" ++ call.2 ++ ")"

def joinWith (sep : String) : List String → String
  | [] => ""
  | [x] => x
  | x :: rest => x ++ sep ++ joinWith sep rest

def runOut (l : List (String × String)) (calls : List (String × String)) : Option String :=
  (calls.mapM (toolOut l)).map fun outs =>
    joinWith ";" ((outs.zipIdx).map fun (o, k) => "k" ++ toString k ++ "=" ++ o)

end EinoV.C09.Tools
