/-
  C20 — graphs used as nodes, after the parent has been compiled.

  Code: compose/graph.go `compile`: `g.compiled = true` is the last assignment of *every*
  successful `(*graph).compile`, whoever started it – the exported `Compile` of a Graph / Chain /
  Workflow (`compileAnyGraph`) or the loop of an enclosing graph's `compile` over its sub-graph
  nodes (`graphNode.compileIfNeeded` → `gn.g.compile(ctx, gn.nodeInfo.compileOption)`).  A graph
  that was compiled as a node of another graph is therefore frozen exactly like one the user
  compiled: every later Add* on it answers `ErrGraphCompiled`.

  `Decl.firstB` keeps the builder next to the answer of `Decl.first`; `Decl.subAt` walks a path of
  graph-node keys; `Decl.again` is a later Compile of a graph all of whose graphs are frozen.
  Later calls on a Workflow / Chain return nothing; what they leave behind:
  * `Workflow.Add…Node(key).AddInput(from)` on a frozen Workflow: `g.addNode` answers
    `ErrGraphCompiled` (dropped), the input is *recorded*; the next `Workflow.compile` replays it,
    `addEdgeWithMappings` answers `ErrGraphCompiled` and `Workflow.compile` returns that error
    (`if err := addInput(); err != nil { return nil, err }`) – on every later Compile, also those
    an enclosing graph starts.  Such a Workflow is called *poisoned* (`poison path`).
  * `Chain.Append…` on a frozen chain: `c.err = ErrChainCompiled`, which `Chain.compile` no longer
    looks at (`addEndIfNeeded` returns at `c.hasEnd`): no effect.

  Core Lean only (compiled into oracle_C20).
-/
import EinoV.Model.C20Wf

namespace EinoV.Build

def Decl.guard : Decl → Option Outcome | .mk _ _ _ _ _ _ _ g => g
def Decl.re : Decl → List Op | .mk _ _ _ _ _ re _ _ => re
def Decl.once : Decl → List Op | .mk _ _ _ _ _ _ once _ => once
def Decl.stateTy : Decl → Option Nat | .mk _ _ _ st _ _ _ _ => st

/-- the fresh builder of a declared graph -/
def Decl.new (d : Decl) : Builder := Builder.new d.cmp d.inT d.outT d.stateTy

/-- builder and answer of the first `Compile(co)` of a freshly declared graph -/
def Decl.firstB (E : Env) : Decl → COpts → Builder × Outcome
  | .mk cmp i o st ops re once guard, co =>
    let r := DOps.build E ops (Builder.new cmp i o st)
    attempt E r.1 (re ++ once) guard co r.2

/-- the builder after consecutive Compiles of one declared graph (`compilesFrom`, state only) -/
def compilesFromB (E : Env) (re : List Op) (guard : Option Outcome) (kids : List Outcome) :
    Builder → List Op → List COpts → Builder
  | b, _, [] => b
  | b, pending, co :: rest =>
    let r := attempt E b (re ++ pending) guard co kids
    let ran := b.buildError.isNone && guard.isNone
    compilesFromB E re guard kids r.1 (if ran then [] else pending) rest

def Decl.afterCompiles (E : Env) : Decl → List COpts → Builder
  | .mk cmp i o st ops re once guard, cos =>
    let r := DOps.build E ops (Builder.new cmp i o st)
    compilesFromB E re guard r.2 r.1 once cos

/-- the sub-graph nodes `addNode` accepted, with key and compile options (declaration order) -/
def DOps.subsK (E : Env) : DOps → Builder → List (Key × Decl × COpts)
  | .nil, _ => []
  | .op o rest, b => DOps.subsK E rest (stepK E b o).1
  | .sub key child co rest, b =>
    let r := addNode E.f b (subSpec key child.inT child.outT)
    (if r.2.isOk then [(key, child, co)] else []) ++ DOps.subsK E rest r.1

def findKey {α : Type} : List (Key × α) → Key → Option α
  | [], _ => none
  | (k, v) :: r, x => if k = x then some v else findKey r x

/-- the graph reached from `d` through the accepted graph nodes `path`, with the compile options
    attached to the last of them (`co` for the empty path) -/
def Decl.subAt (E : Env) : List Key → Decl → COpts → Option (Decl × COpts)
  | [], d, co => some (d, co)
  | k :: ks, d, _ =>
    match findKey (DOps.subsK E d.ops d.new) k with
    | some (c, cco) => Decl.subAt E ks c cco
    | none => none

mutual
/-- a later Compile of a graph that was compiled as a node (all graphs below it frozen too):
    its frozen builder is that of its first Compile -/
def Decl.again (E : Env) (poison : List Key → Bool) (path : List Key) : Decl → COpts → Outcome
  | .mk cmp i o st ops re once guard, co =>
    if poison path then .compiled
    else
      (compileN E.f E.ord (Decl.firstB E (.mk cmp i o st ops re once guard) co).1 co
        (DOps.againKids E poison path ops (Builder.new cmp i o st))).2.1
def DOps.againKids (E : Env) (poison : List Key → Bool) (path : List Key) : DOps → Builder → List Outcome
  | .nil, _ => []
  | .op o rest, b => DOps.againKids E poison path rest (stepK E b o).1
  | .sub key child co rest, b =>
    let r := addNode E.f b (subSpec key child.inT child.outT)
    let tl := DOps.againKids E poison path rest r.1
    if r.2.isOk then Decl.again E poison (path ++ [key]) child co :: tl else tl
end

/-- a later `Compile(co)` of the outermost graph, whose builder after the earlier Compiles is `b`
    (frozen: one of them succeeded) -/
def Decl.againTop (E : Env) (poison : List Key → Bool) (b : Builder) (d : Decl) (co : COpts) :
    Builder × Outcome × Bool :=
  if poison [] then (b, .compiled, false)
  else
    let kids := DOps.againKids E poison [] d.ops d.new
    let r := compileN E.f E.ord b co kids
    (r.1, r.2.1, (compilePre E.f b co).isNone && kids.any (fun oc => !oc.isOk))

/-- a later Add* call on a graph whose builder is `b` -/
def modOutcome (E : Env) (b : Builder) (op : Op) : Outcome := (stepK E b op).2.1

end EinoV.Build
