/-
  C20 — `WithInputKey` / `WithOutputKey` on top of the builder model.

  Code: compose/graph_node.go `graphNode.inputType()` / `outputType()` (with a key option the
  node *shows* `map[string]any` on that side, whatever `gn.cr` takes / returns) and
  `getGenericHelper()` (`ret.forMapInput()` / `ret.forMapOutput()` on the node's own helper);
  compose/generic_helper.go `forMapInput` / `forMapOutput`; compose/graph.go `addNode` (handler
  types are checked against the shown types), `updateToValidateMap` (reads the shown types, writes
  the own types `cr.inputType` / `cr.outputType` and asks `g.getNodeGenericHelper` at three places:
  successor typing, predecessor typing, the run-time converter of a may-assignable edge),
  `addBranch` (a pass-through start node takes the branch's input type while its *own* type is
  unknown), `compile` (one loop over the shown types, one over the own types, then
  `compileIfNeeded`, which wraps the node's runnable with `outputKeyedComposableRunnable` /
  `inputKeyedComposableRunnable`: `wrapper.genericHelper.forMapOutput()` / `.forMapInput()`).

  A pass-through node gets its own type – and its generic helper – from the first typed data
  neighbour.  With a key option its shown type on that side is fixed from the start, so edges on
  that side are checked at once and tell nothing about the own type: a keyed pass-through node
  can reach `updateToValidateMap` as a *typed-looking* neighbour, and `compile`, with a nil
  helper.  Source facts (`KFacts`):
  * `helperNilSafe`: `forMapInput` / `forMapOutput` accept a nil receiver (they only build the
    map side); `false` = they dereference it: the call panics.
  * `compileChecksOwnTypes`: `compile` refuses a node whose own input / output type is unknown;
    `false` = only the shown types are looked at.

  `XB` = the `Builder` (its node table holds the *own* types) + the map type + which nodes carry
  which key option.  Without key options every function below is the builder's
  (`Proofs/C20KeysTie.lean`).  Core Lean only (compiled into oracle_C20).

  Not modelled: key options on graph nodes (sub-graphs) and in the `decl` stream, field mappings
  into / out of keyed nodes, what a keyed node does with the map at run time.
-/
import EinoV.Model.C20Builder

namespace EinoV.Build

structure KFacts where
  helperNilSafe : Bool
  compileChecksOwnTypes : Bool
  deriving DecidableEq, Repr, Inhabited

/-- how a body may fail: an error value, or a run-time panic that escapes the call -/
inductive Fail where
  | err (k : ErrKind)
  | panic
  deriving DecidableEq, Repr, Inhabited

structure XB where
  b : Builder
  mapTy : Ty              -- `map[string]any`
  inKeys : List Key       -- nodes added with WithInputKey
  outKeys : List Key      -- nodes added with WithOutputKey
  deriving DecidableEq, Repr, Inhabited

def XB.ofB (b : Builder) (mapTy : Ty) : XB := { b, mapTy, inKeys := [], outKeys := [] }

def XB.keyed (x : XB) (k : Key) : Bool := x.inKeys.contains k || x.outKeys.contains k

/-- `g.getNodeInputType`: the shown type -/
def XB.nodeIn (x : XB) (k : Key) : Option Ty :=
  if x.inKeys.contains k then some x.mapTy else x.b.nodeIn k

/-- `g.getNodeOutputType`: the shown type -/
def XB.nodeOut (x : XB) (k : Key) : Option Ty :=
  if x.outKeys.contains k then some x.mapTy else x.b.nodeOut k

def XB.setTy (x : XB) (k : Key) (t : Ty) : XB := { x with b := x.b.setTy k t }

/-- `g.getNodeGenericHelper(k)` cannot be used: the node's own helper is nil (its own type was
    never inferred – a node's input type, output type and helper are always set together) and
    either the node has no key option – the nil pointer is handed on – or `forMapInput` /
    `forMapOutput` dereference it.  `helperNilOut` is asked of a start node (whose *output* type
    the work list just looked at), `helperNilIn` of an end node. -/
def XB.helperNilOut (K : KFacts) (x : XB) (k : Key) : Bool :=
  (x.b.nodeOut k).isNone && (!K.helperNilSafe || !x.keyed k)

def XB.helperNilIn (K : KFacts) (x : XB) (k : Key) : Bool :=
  (x.b.nodeIn k).isNone && (!K.helperNilSafe || !x.keyed k)

/-! ## the work list over shown types -/

def procEntriesX (K : KFacts) (im : Impl) (s : Key) (sTy : Option Ty) :
    List PEdge → XB → List PEdge → Bool → Except Fail (XB × List PEdge × Bool)
  | [], x, kept, ch => .ok (x, kept.reverse, ch)
  | pe :: rest, x, kept, ch =>
    match sTy, x.nodeIn pe.dst with
    | none, none => procEntriesX K im s sTy rest x (pe :: kept) ch
    | some st, none =>
      if x.helperNilOut K s then .error .panic
      else procEntriesX K im s sTy rest (x.setTy pe.dst st) kept true
    | none, some et =>
      if x.helperNilIn K pe.dst then .error .panic
      else procEntriesX K im s sTy rest (x.setTy s et) kept true
    | some st, some et =>
      match pe.mapped with
      | some t =>
        procEntriesX K im s sTy rest
          { x with b := { x.b with mapEdges := x.b.mapEdges ++ [(s, pe.dst)],
                                   fmRecords := x.b.fmRecords ++ [(pe.dst, t)] } }
          kept true
      | none =>
        match checkAssignable im (some st) (some et) with
        | .mustNot => .error (.err .edgeMismatch)
        | .may =>
          if x.helperNilIn K pe.dst then .error .panic
          else procEntriesX K im s sTy rest
            { x with b := { x.b with mayEdges := x.b.mayEdges ++ [(s, pe.dst)] } } kept true
        | .must => procEntriesX K im s sTy rest x kept true

def updRoundX (K : KFacts) (im : Impl) : List Key → XB → Bool → Except Fail (XB × Bool)
  | [], x, ch => .ok (x, ch)
  | s :: ks, x, ch =>
    match procEntriesX K im s (x.nodeOut s) (getSlice x.b.toValidate s) x [] false with
    | .error e => .error e
    | .ok (x', kept, ch') =>
      updRoundX K im ks { x' with b := { x'.b with toValidate := setSlice x'.b.toValidate s kept } } (ch || ch')

def updLoopX (K : KFacts) (im : Impl) (ord : Ord) : Nat → XB → Except Fail XB
  | 0, x => .ok x
  | fuel + 1, x =>
    match updRoundX K im (ord.keys x.b (x.b.toValidate.map (·.1))) x false with
    | .error e => .error e
    | .ok (x', ch) => if ch then updLoopX K im ord fuel x' else .ok x'

/-- `g.updateToValidateMap()` -/
def updateX (K : KFacts) (im : Impl) (ord : Ord) (x : XB) : Except Fail XB :=
  updLoopX K im ord (pendingCount x.b.toValidate + 1) x

/-! ## the three Add* functions -/

/-- a call on a keyed builder: the builder's `Op`, a node call with its key options -/
inductive XOp where
  | plain (op : Op)
  | node (n : NodeSpec) (inKey outKey : Bool)
  deriving DecidableEq, Repr, Inhabited

/-- the checks of addNode; the handler types are compared with what the node shows -/
def addNodeCheckX (x : XB) (n : NodeSpec) (ik ok : Bool) : Option ErrKind :=
  let b := x.b
  let shownIn : Option Ty := if ik then some x.mapTy else if n.passthrough then none else some n.inTy
  let shownOut : Option Ty := if ok then some x.mapTy else if n.passthrough then none else some n.outTy
  if n.key = END || n.key = START then some .reserved
  else if b.hasNode n.key then some .dupNode
  else if (n.pre.isSome || n.post.isSome) && b.stateTy.isNone then some .needState
  else if n.nodeKeyOpt && b.cmp != .chain then some .nodeKeyOpt
  else
    let preE : Option ErrKind :=
      match n.pre with
      | none => none
      | some h =>
        if b.stateTy != some h.stateTy then some .preStateTy
        else match shownIn with
          | none => if h.ty != .any then some .prePassthroughNotAny else none
          | some t => if t != h.ty then some .preTy else none
    match preE with
    | some e => some e
    | none =>
      match n.post with
      | none => none
      | some h =>
        if b.stateTy != some h.stateTy then some .postStateTy
        else match shownOut with
          | none => if h.ty != .any then some .postPassthroughNotAny else none
          | some t => if t != h.ty then some .postTy else none

/-- prologue / epilogue of the Add* functions around a body that may also panic -/
def guardedX (g : Guards) (x : XB) (body : Except Fail XB) : XB × Outcome :=
  match (if g.checkErr then x.b.buildError else none) with
  | some k => (x, .stored k)
  | none =>
    if g.checkCompiled && x.b.compiled then (x, .compiled) else
    match body with
    | .ok x' => (x', .ok)
    | .error (.err k) => (if g.storeErr then { x with b := { x.b with buildError := some k } } else x, .fresh k)
    | .error .panic => (x, .panic)

def addNodeX (f : Facts) (x : XB) (n : NodeSpec) (ik ok : Bool) : XB × Outcome :=
  guardedX f.nodeG x <|
    match addNodeCheckX x n ik ok with
    | some k => .error (.err k)
    | none => .ok { x with b := { x.b with nodes := x.b.nodes ++ [n.node] },
                           inKeys := if ik then x.inKeys ++ [n.key] else x.inKeys,
                           outKeys := if ok then x.outKeys ++ [n.key] else x.outKeys }

def addEdgeBodyX (K : KFacts) (im : Impl) (ord : Ord) (x : XB) (s e : Key) (noControl noData : Bool)
    (mapped : Option Nat) : Except Fail XB :=
  let b := x.b
  if s = END then .error (.err .endAsStart)
  else if e = START then .error (.err .startAsEnd)
  else if !b.hasNode s && s != START then .error (.err .unknownStart)
  else if !b.hasNode e && e != END then .error (.err .unknownEnd)
  else
    let r1 : Except Fail Builder :=
      if noControl then .ok b
      else if b.controlEdges.contains (s, e) then .error (.err .dupControl)
      else .ok { b with controlEdges := b.controlEdges ++ [(s, e)],
                        startNodes := if s = START then b.startNodes ++ [e] else b.startNodes,
                        endNodes := if e = END then b.endNodes ++ [s] else b.endNodes }
    match r1 with
    | .error k => .error k
    | .ok b1 =>
      if noData then .ok { x with b := b1 }
      else if b1.dataEdges.contains (s, e) then .error (.err .dupData)
      else
        match updateX K im ord { x with b := b1.addToValidate s { dst := e, mapped } } with
        | .error k => .error k
        | .ok x2 => .ok { x2 with b := { x2.b with dataEdges := x2.b.dataEdges ++ [(s, e)] } }

def addEdgeX (K : KFacts) (f : Facts) (im : Impl) (ord : Ord) (x : XB) (s e : Key) (noControl noData : Bool)
    (mapped : Option Nat) : XB × Outcome :=
  match (if f.edgeG.checkErr then x.b.buildError else none) with
  | some k => (x, .stored k)
  | none =>
    if f.edgeG.checkCompiled && x.b.compiled then (x, .compiled)
    else if noControl && noData then (x, .fresh .edgeBothNo)
    else guardedX { f.edgeG with checkErr := false, checkCompiled := false } x
           (addEdgeBodyX K im ord x s e noControl noData mapped)

def branchEndsX (K : KFacts) (im : Impl) (ord : Ord) (s : Key) : List Key → XB → Except Fail XB
  | [], x => .ok x
  | e :: es, x =>
    if !x.b.hasNode e && e != END then .error (.err .branchUnknownEnd)
    else
      match updateX K im ord { x with b := x.b.addToValidate s { dst := e, mapped := none } } with
      | .error k => .error k
      | .ok x1 =>
        branchEndsX K im ord s es
          { x1 with b := { x1.b with
              startNodes := if s = START then x1.b.startNodes ++ [e] else x1.b.startNodes,
              endNodes := if e = END then x1.b.endNodes ++ [s] else x1.b.endNodes } }

def addBranchBodyX (K : KFacts) (f : Facts) (im : Impl) (ord : Ord) (x : XB) (s : Key) (t : Ty)
    (ends : List Key) (skipData : Bool) : Except Fail XB :=
  let b := x.b
  if s = END then .error (.err .endAsStart)
  else if !b.hasNode s && s != START then .error (.err .branchUnknownStart)
  else if ends.length = 1 then .error (.err .branchSingle)
  else
    -- `g.nodes[startNode].cr.inputType == nil`: the node's own type
    let x1 :=
      if s != START && isPassthrough b s && (!f.branchGuarded || (b.nodeIn s).isNone)
      then x.setTy s t else x
    match checkAssignable im (x1.nodeOut s) (some t) with
    | .mustNot => .error (.err .branchMismatch)
    | r =>
      let x2 := { x1 with b := { x1.b with preBranch := x1.b.preBranch ++ [(s, r == .may)] } }
      let r3 : Except Fail XB := if f.branchPropagates then updateX K im ord x2 else .ok x2
      match r3 with
      | .error k => .error k
      | .ok x3 =>
        let r4 : Except Fail XB :=
          if skipData then .ok x3 else branchEndsX K im ord s (ord.ends x3.b ends) x3
        match r4 with
        | .error k => .error k
        | .ok x4 =>
          .ok { x4 with b := { x4.b with
            branches := x4.b.branches ++ [{ src := s, inTy := t, ends, noData := skipData }] } }

def addBranchX (K : KFacts) (f : Facts) (im : Impl) (ord : Ord) (x : XB) (s : Key) (t : Ty)
    (ends : List Key) (skipData : Bool) : XB × Outcome :=
  guardedX f.branchG x (addBranchBodyX K f im ord x s t ends skipData)

/-! ## compile -/

/-- some node shows no input or no output type (first loop of `compile`) -/
def XB.shownUntyped (x : XB) : Bool :=
  x.b.nodes.any (fun n => (!x.inKeys.contains n.key && n.inTy.isNone) || (!x.outKeys.contains n.key && n.outTy.isNone))

/-- a node with a key option whose own type was never inferred -/
def XB.keyedUntyped (x : XB) : Bool :=
  x.b.nodes.any (fun n => x.keyed n.key && (n.inTy.isNone || n.outTy.isNone))

/-- a node without key option whose type was never inferred -/
def XB.plainUntyped (x : XB) : Bool :=
  x.b.nodes.any (fun n => !x.keyed n.key && (n.inTy.isNone || n.outTy.isNone))

def compilePreX (K : KFacts) (f : Facts) (x : XB) (o : COpts) : Option ErrKind :=
  let b := x.b
  if (b.cmp = .chain || b.cmp = .workflow) && o.trigger != .unset then some .triggerModeOnChain
  else if b.cmp != .workflow && o.getState then some .getStateOutsideWorkflow
  else if b.startNodes.isEmpty then some .noStart
  else if b.endNodes.isEmpty then some .noEnd
  else if f.compileChecksTypes && x.shownUntyped then some .uninferred
  else if K.compileChecksOwnTypes && b.hasUntyped then some .uninferred
  else if b.hasPending then some .uninferred
  else if hasDup b.fmRecords then some .dupMapTarget
  else none

/-- after the checks: `compileIfNeeded` per node (the key wrappers call `forMapOutput()` /
    `forMapInput()` on the node's helper), Kahn's loop, the checkpointer tables (which read every
    node's helper: nil for an unkeyed node that never got a type), the step-limit rule -/
def compilePostX (K : KFacts) (x : XB) (ord : Ord) (o : COpts) : Option Outcome :=
  if !K.helperNilSafe && x.keyedUntyped then some .panic
  else if isDag x.b o && !validateDAG x.b ord then some (.fresh .dagLoop)
  else if x.plainUntyped then some .panic
  else if isDag x.b o && o.maxSteps > 0 then some (.fresh .maxStepsInDag)
  else none

def compileX (K : KFacts) (f : Facts) (ord : Ord) (x : XB) (o : COpts) : XB × Outcome × Option Runner :=
  match x.b.buildError with
  | some k => (x, .stored k, none)
  | none =>
    match compilePreX K f x o with
    | some k => (x, .fresh k, none)
    | none =>
      let x1 := { x with b := mutatePre f x.b }
      match compilePostX K x1 ord o with
      | some oc => (x1, oc, none)
      | none => ({ x1 with b := x1.b.setCompiled }, .ok, some (mkRunner f x.b o))

/-! ## call sequences -/

def stepX (K : KFacts) (f : Facts) (im : Impl) (ord : Ord) (x : XB) : XOp → XB × Outcome × Option Runner
  | .node n ik ok => let (x', o) := addNodeX f x n ik ok; (x', o, none)
  | .plain (.node n) => let (x', o) := addNodeX f x n false false; (x', o, none)
  | .plain (.edge s e nc nd m) => let (x', o) := addEdgeX K f im ord x s e nc nd m; (x', o, none)
  | .plain (.branch s t ends sk) => let (x', o) := addBranchX K f im ord x s t ends sk; (x', o, none)
  | .plain (.compile o) => compileX K f ord x o

def runX (K : KFacts) (f : Facts) (im : Impl) (ord : Ord) : XB → List XOp → XB × List Outcome × List Runner
  | x, [] => (x, [], [])
  | x, op :: ops =>
    let (x1, o, r) := stepX K f im ord x op
    let (x2, os, rs) := runX K f im ord x1 ops
    (x2, o :: os, (match r with | some y => [y] | none => []) ++ rs)

end EinoV.Build
