/-
  C19 — stream copies created for a finished task and what happens to each of them
  (`resolveCompletedTasks`, graph_run.go): the ledger of reader tokens, and an instrumented
  run that reports where a run leaves a produced stream without a consumer.
-/
import EinoV.Model.Engine

namespace EinoV.C19
open EinoV.Engine

/-- number of readers `copyItem(item, n)` returns: the item itself for n < 2, else n copies -/
def copyCount (n : Nat) : Nat := if n < 2 then 1 else n

/-- Reader tokens derived from one task's output stream and their disposition. -/
structure Ledger where
  created : Nat        -- readers in existence after both copy steps
  toBranches : Nat     -- handed to a branch condition (which consumes / closes it)
  toSuccessors : Nat   -- written to a successor's channel
  closed : Nat         -- closed by the framework as unused
  deriving Repr, DecidableEq

def Ledger.leaked (l : Ledger) : Nat := l.created - l.toBranches - l.toSuccessors - l.closed

/-- `resolveCompletedTasks` for a task with `W` data successors, `B` branches whose conditions
    selected `sel` targets in total, `dups` of the `sel + W` successor entries naming a target
    that an earlier entry already named (edge plus branch, or two branches, to one node):
      vs := copyItem(output, W + 2B);  branches get vs[W+B:]
      next := selected ++ writeTo
      if |next| > 0 { vs = vs[:W+B-1] ++ copyItem(vs[W+B-1], |next|-W-B+1);  next[i] gets vs[i] }
    A repeated target keeps the later copy; the copy it replaces must be released.
    `closesSurplus`: does the code close the readers nobody got; `closesReplaced`: does it
    close a copy that a later entry for the same target replaces (source facts). -/
def distribute (closesSurplus closesReplaced : Bool) (W B sel dups : Nat) : Ledger :=
  let next := sel + W
  let t1 := copyCount (W + 2 * B)
  if next = 0 then
    { created := t1, toBranches := B, toSuccessors := 0,
      closed := if closesSurplus then t1 - B else 0 }
  else
    -- (toCopyNum + 1 may be ≤ 0: then `copyItem` returns the item itself, as for 1)
    let created := t1 - 1 + copyCount (next + 1 - (W + B))
    { created := created, toBranches := B, toSuccessors := next - dups,
      closed := (if closesSurplus then created - B - next else 0) + (if closesReplaced then dups else 0) }

/-! ### instrumented run: preconditions of the property on a concrete run -/

structure RunInfo where
  ok : Bool                          -- the run returned a value
  droppedAtEnd : List Key            -- nodes whose input was ready together with END (dropped)
  tasks : List (Key × Nat × Nat × Nat)  -- executed task (incl. START): (W, B, selected)
  deriving Repr

def selectedCount {V} (n : Node V) (out : V) : Nat :=
  (n.branches.map (fun b => match b.cond out with | .ok ws => ws.length | .error _ => 0)).sum

def taskInfo {V} (r : Runner V) (d : Done V) : List (Key × Nat × Nat × Nat) :=
  match r.call? d.1 with
  | some n => [(d.1, n.writeTo.length, n.branches.length, selectedCount n d.2)]
  | none => []

/-- `calcNext`, also reporting which other nodes were ready when END was -/
def calcNextI {V} (ops : ValOps V) (r : Runner V) (cm : Chans V) (done : List (Done V)) :
    Except Err (Chans V × Next V × List Key) := do
  let res ← resolve r cm done
  let cm1 := updateValues r res.cm res.writes
  let cm2 := updateDeps r cm1 res.deps
  let (cm3, ready, bad) := getReady ops r.dag cm2
  if bad then throw { cls := .merge } else
  match alookup END ready with
  | some v => pure (cm3, .result v, (akeys ready).filter (· != END))
  | none => pure (cm3, .tasks ready, [])

def loopI {V} (ops : ValOps V) (r : Runner V) : Nat → Chans V → List (Key × V) → RunInfo → RunInfo
  | 0, _, _, info => info
  | fuel + 1, cm, tasks, info =>
    match runTasks r Sched.id 0 tasks with
    | .error _ => info
    | .ok done =>
      if done.isEmpty then info else
      let info := { info with tasks := info.tasks ++ done.flatMap (taskInfo r) }
      match calcNextI ops r cm done with
      | .error _ => info
      | .ok (_, .result _, dropped) => { info with ok := true, droppedAtEnd := dropped }
      | .ok (cm', .tasks ts, _) => loopI ops r fuel cm' ts info

def analyze {V} (ops : ValOps V) (r : Runner V) (input : V) : RunInfo :=
  let info0 : RunInfo := { ok := false, droppedAtEnd := [], tasks := taskInfo r (START, input) }
  match calcNextI ops r (initChans r) [(START, input)] with
  | .error _ => info0
  | .ok (_, .result _, dropped) => { info0 with ok := true, droppedAtEnd := dropped }
  | .ok (cm, .tasks ts, _) => loopI ops r r.fuel cm ts info0

end EinoV.C19
