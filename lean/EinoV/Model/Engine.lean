/-
  The graph execution engine of compose (graph_run.go, graph_manager.go, dag.go, pregel.go)
  as a pure, total, executable model.  Value mode; generic in the value type `V`.

  Go maps are association lists here; wherever Go iterates a map in random order the model
  iterates the list in its stored order and the theorems quantify over permutations.

  Mirrors, function by function:
    pregelChannel / dagChannel      → `Chan.reportValues/reportDeps/reportSkip/get`
    channelManager.reportBranch     → `reportBranch` (work list with fuel)
    channelManager.updateValues     → `updateValues`  (filter by declared data predecessors)
    channelManager.updateDependencies → `updateDeps`
    channelManager.getFromReadyChannels → `getReady`
    runner.calculateBranch          → `calcBranch`
    runner.resolveCompletedTasks    → `resolve`
    runner.calculateNextTasks       → `calcNext`
    runner.run (main loop)          → `loop` / `run`
-/
namespace EinoV.Engine

abbrev Key := String

def START : Key := "start"
def END : Key := "end"

/-- error classes the harness can observe (never message text) -/
inductive ErrClass where
  | user (id : Nat)      -- error returned by user code (node body)
  | branchUser (id : Nat) -- error returned by a branch condition
  | merge                -- fan-in merge failed (duplicate key / unsupported type)
  | maxSteps             -- ErrExceedMaxSteps
  | noTasks              -- "no tasks to execute"
  | badBranchEnd         -- branch returned a node that is not one of its ends
  | endSkipped           -- DAG: END became skipped ("unknown node: end" out of reportBranch)
  | fuel                 -- model ran out of fuel (never for well-formed acyclic DAG runners)
  deriving Repr, DecidableEq, Inhabited

/-- An error with the node path it is attributed to (outermost first). -/
structure Err where
  cls : ErrClass
  path : List Key := []
  deriving Repr, DecidableEq, Inhabited

def Err.wrapNode (k : Key) (e : Err) : Err := { e with path := k :: e.path }

/-- What the engine needs to know about values. `merge` is `mergeValues` (only called with
    ≥ 2 values), `zero` the zero value a DAG channel hands out when no data arrived. -/
structure ValOps (V : Type) where
  merge : List V → Option V
  zero : V

structure Branch (V : Type) where
  ends : List Key
  cond : V → Except Err (List Key)
  noData : Bool := false

structure Node (V : Type) where
  key : Key
  act : V → Except Err V
  writeTo : List Key := []          -- dataEdges[key]
  controls : List Key := []         -- controlEdges[key]
  branches : List (Branch V) := []

structure Runner (V : Type) where
  nodes : List (Node V)
  start : Node V                    -- inputChannels (key = START, act unused)
  dataPreds : List (Key × List Key)
  ctrlPreds : List (Key × List Key)
  maxSteps : Nat
  dag : Bool := false
  eager : Bool := false

/-! ### association lists (Go maps) -/

def alookup {α : Type} (k : Key) : List (Key × α) → Option α
  | [] => none
  | (k', v) :: rest => if k' == k then some v else alookup k rest

def aset {α : Type} (k : Key) (v : α) : List (Key × α) → List (Key × α)
  | [] => [(k, v)]
  | (k', v') :: rest => if k' == k then (k, v) :: rest else (k', v') :: aset k v rest

def akeys {α : Type} (m : List (Key × α)) : List Key := m.map (·.1)

def lookupList (k : Key) (m : List (Key × List Key)) : List Key := (alookup k m).getD []

def Runner.node? {V} (r : Runner V) (k : Key) : Option (Node V) := r.nodes.find? (·.key == k)

/-- `getSuccessors` -/
def Node.successors {V} (n : Node V) : List Key :=
  n.writeTo ++ n.controls ++ n.branches.flatMap (·.ends)

/-! ### channels -/

inductive Dep where
  | waiting | ready | skipped
  deriving Repr, DecidableEq, Inhabited

structure Chan (V : Type) where
  values : List (Key × V) := []
  ctrl : List (Key × Dep) := []
  data : List (Key × Bool) := []
  skipped : Bool := false

/-- `dagChannelBuilder` / `pregelChannelBuilder` -/
def Chan.init {V} (dag : Bool) (ctrlPreds dataPreds : List Key) : Chan V :=
  -- (Go maps: a predecessor listed twice — edge plus branch — is one entry)
  if dag then { ctrl := ctrlPreds.eraseDups.map (·, Dep.waiting), data := dataPreds.eraseDups.map (·, false) } else {}

/-- `reportValues` -/
def Chan.reportValues {V} (dag : Bool) (c : Chan V) (ins : List (Key × V)) : Chan V :=
  if dag then
    if c.skipped then c else
    ins.foldl (fun c (kv : Key × V) =>
      if (alookup kv.1 c.data).isSome then
        { c with data := aset kv.1 true c.data, values := aset kv.1 kv.2 c.values }
      else c) c
  else
    ins.foldl (fun c (kv : Key × V) => { c with values := aset kv.1 kv.2 c.values }) c

/-- `reportDependencies` -/
def Chan.reportDeps {V} (dag : Bool) (c : Chan V) (deps : List Key) : Chan V :=
  if dag then
    if c.skipped then c else
    deps.foldl (fun c k =>
      if (alookup k c.ctrl).isSome then { c with ctrl := aset k Dep.ready c.ctrl } else c) c
  else c

/-- `reportSkip`: returns the channel and "all control predecessors skipped". -/
def Chan.reportSkip {V} (dag : Bool) (c : Chan V) (keys : List Key) : Chan V × Bool :=
  if dag then
    let c1 := keys.foldl (fun (c : Chan V) k =>
      let c := if (alookup k c.ctrl).isSome then { c with ctrl := aset k Dep.skipped c.ctrl } else c
      if (alookup k c.data).isSome then { c with data := aset k true c.data } else c) c
    let all := c1.ctrl.all (fun p => p.2 == Dep.skipped)
    ({ c1 with skipped := all }, all)
  else (c, false)

inductive GetResult (V : Type) where
  | notReady
  | ready (v : V)
  | mergeErr

/-- the value handed out for a non-empty list of reported values: the single value, or
    `mergeValues` of ≥ 2 values -/
def collect {V} (ops : ValOps V) : List V → GetResult V
  | [] => .notReady
  | [v] => .ready v
  | vs => match ops.merge vs with
          | some v => .ready v
          | none => .mergeErr

/-- dagChannel readiness: not skipped, it has some predecessor at all (a channel without any
    predecessor is never ready), no control predecessor waiting, every data predecessor reported -/
def Chan.triggered {V} (c : Chan V) : Bool :=
  !c.skipped && !(c.ctrl.isEmpty && c.data.isEmpty) &&
  !c.ctrl.any (fun p => p.2 == Dep.waiting) && !c.data.any (fun p => p.2 == false)

/-- the deferred reset of `dagChannel.get` -/
def Chan.reset {V} (c : Chan V) : Chan V :=
  { c with values := [], ctrl := c.ctrl.map (fun p => (p.1, Dep.waiting)),
           data := c.data.map (fun p => (p.1, false)) }

/-- `get`: ready value (and the reset channel), or not ready.
    (Go: on a merge error the error is returned; the deferred reset still ran.) -/
def Chan.get {V} (ops : ValOps V) (dag : Bool) (c : Chan V) : Chan V × GetResult V :=
  if dag then
    if c.triggered then
      (c.reset, if c.values.isEmpty then .ready ops.zero else collect ops (c.values.map (·.2)))
    else (c, .notReady)
  else
    if c.values.isEmpty then (c, .notReady)
    else ({ c with values := [] }, collect ops (c.values.map (·.2)))

/-! ### channel manager -/

abbrev Chans (V : Type) := List (Key × Chan V)

def initChans {V} (r : Runner V) : Chans V :=
  (r.nodes.map (fun n => (n.key, Chan.init r.dag (lookupList n.key r.ctrlPreds) (lookupList n.key r.dataPreds))))
  ++ [(END, Chan.init r.dag (lookupList END r.ctrlPreds) (lookupList END r.dataPreds))]

def modChan {V} (cm : Chans V) (k : Key) (f : Chan V → Chan V) : Chans V :=
  cm.map (fun p => if p.1 == k then (p.1, f p.2) else p)

/-- one `reportSkip([from])` on channel `k`; returns whether the channel thereby *became*
    skipped (pregel channels ignore skips: `pregelChannel.reportSkip` returns false).
    Go appends `k` to the work list whenever `reportSkip` returns true, i.e. also when `k` was
    skipped already; processing a key a second time changes nothing (skip states only grow) and
    the "unknown node" error is raised the first time END is popped, so the model pushes a key
    only when it turns skipped — same final state, same error, linear work list. -/
def skipOne {V} (dag : Bool) (cm : Chans V) (k from_ : Key) : Chans V × Bool :=
  if !dag then (cm, false) else
  match alookup k cm with
  | none => (cm, false)
  | some c =>
    let res := c.reportSkip dag [from_]
    (modChan cm k (fun _ => res.1), res.2 && !c.skipped)

/-- report to channel `s` that `from_` skipped it; collect `s` if it thereby became skipped -/
def skipStep {V} (dag : Bool) (from_ : Key) (acc : Chans V × List Key) (s : Key) : Chans V × List Key :=
  let res := skipOne dag acc.1 s from_
  (res.1, if res.2 then acc.2 ++ [s] else acc.2)

/-- `reportBranch`'s work list: propagate skips to successors. A skipped key without a
    successors entry (only END) is the error "unknown node". `fuel` bounds the number of
    pops (each node is appended at most once per time it turns skipped). -/
def propagateSkips {V} (r : Runner V) : Nat → Chans V → List Key → Except Err (Chans V)
  | 0, cm, _ => .ok cm
  | _, cm, [] => .ok cm
  | fuel + 1, cm, k :: rest =>
    match r.node? k with
    | none => .error { cls := .endSkipped }
    | some n =>
      let res := n.successors.foldl (skipStep r.dag k) (cm, [])
      propagateSkips r fuel res.1 (rest ++ res.2)

def reportBranch {V} (r : Runner V) (cm : Chans V) (from_ : Key) (skippedNodes : List Key) :
    Except Err (Chans V) :=
  let res := skippedNodes.foldl (skipStep r.dag from_) (cm, [])
  propagateSkips r ((r.nodes.length + 2) * (r.nodes.length + 2)) res.1 res.2

/-- `updateValues`: per target keep only declared data predecessors, then reportValues. -/
def updateValues {V} (r : Runner V) (cm : Chans V) (writes : List (Key × List (Key × V))) : Chans V :=
  writes.foldl (fun cm (w : Key × List (Key × V)) =>
    let dps := lookupList w.1 r.dataPreds
    let ins := w.2.filter (fun kv => dps.contains kv.1)
    modChan cm w.1 (fun c => c.reportValues r.dag ins)) cm

/-- `updateDependencies` -/
def updateDeps {V} (r : Runner V) (cm : Chans V) (deps : List (Key × List Key)) : Chans V :=
  deps.foldl (fun cm (d : Key × List Key) =>
    let cps := lookupList d.1 r.ctrlPreds
    modChan cm d.1 (fun c => c.reportDeps r.dag (d.2.filter cps.contains))) cm

/-- `getFromReadyChannels`: every ready channel hands out its value and is reset. -/
def getReady {V} (ops : ValOps V) (dag : Bool) : Chans V → Chans V × List (Key × V) × Bool
  | [] => ([], [], false)
  | (k, c) :: rest =>
    let (c', g) := c.get ops dag
    let (rest', outs, bad) := getReady ops dag rest
    match g with
    | .notReady => ((k, c') :: rest', outs, bad)
    | .ready v => ((k, c') :: rest', (k, v) :: outs, bad)
    | .mergeErr => ((k, c') :: rest', outs, true)

/-! ### resolving completed tasks -/

/-- a completed task: node key and its (post-processed) output -/
abbrev Done (V : Type) := Key × V

def Runner.call? {V} (r : Runner V) (k : Key) : Option (Node V) :=
  if k == START then some r.start else r.node? k

/-- the targets selected by the branches of a node on its output (pure part of
    `calculateBranch`): every branch condition is evaluated; a condition returning a node
    that is not one of its ends is an error -/
def selectOf {V} (n : Node V) (out : V) : Except Err (List Key) := do
  let sel ← n.branches.mapM (fun b => do
    let ws ← b.cond out
    if ws.all b.ends.contains then pure ws else throw { cls := .badBranchEnd })
  pure sel.flatten

/-- ends of some branch of the node that no branch selected — except the successors the node
    also triggers through a plain control edge (those are routed to whatever the branches say) -/
def skippedOf {V} (n : Node V) (selected : List Key) : List Key :=
  (n.branches.flatMap (·.ends)).eraseDups.filter (fun e => !selected.contains e && !n.controls.contains e)

/-- `calculateBranch`: evaluate every branch of the node on its output; nodes that are an
    end of some branch and selected by none are reported skipped. -/
def calcBranch {V} (r : Runner V) (cm : Chans V) (n : Node V) (out : V) :
    Except Err (Chans V × List Key) := do
  let selected ← selectOf n out
  let cm' ← reportBranch r cm n.key (skippedOf n selected)
  pure (cm', selected)

structure Resolved (V : Type) where
  cm : Chans V
  writes : List (Key × List (Key × V))     -- writeChannelValues[to][from]
  deps : List (Key × List Key)             -- newDependencies[to] = [from…]

def addWrite {V} (ws : List (Key × List (Key × V))) (to from_ : Key) (v : V) : List (Key × List (Key × V)) :=
  aset to (aset from_ v ((alookup to ws).getD [])) ws

def addDep (ds : List (Key × List Key)) (to from_ : Key) : List (Key × List Key) :=
  aset to ((alookup to ds).getD [] ++ [from_]) ds

/-- one iteration of `resolveCompletedTasks` -/
def resolveStep {V} (r : Runner V) (acc : Resolved V) (t : Done V) : Except Err (Resolved V) :=
  match r.call? t.1 with
  | none => pure acc
  | some n => do
    let (cm', selected) ← calcBranch r acc.cm n t.2
    pure { cm := cm',
           writes := (selected ++ n.writeTo).foldl (fun ws k => addWrite ws k t.1 t.2) acc.writes,
           deps := selected.foldl (fun ds k => addDep ds k t.1)
                     (n.controls.foldl (fun ds k => addDep ds k t.1) acc.deps) }

/-- `resolveCompletedTasks` -/
def resolve {V} (r : Runner V) (cm : Chans V) (done : List (Done V)) : Except Err (Resolved V) :=
  done.foldlM (resolveStep r) { cm := cm, writes := [], deps := [] }

inductive Next (V : Type) where
  | result (v : V)
  | tasks (ts : List (Key × V))

/-- `calculateNextTasks` -/
def calcNext {V} (ops : ValOps V) (r : Runner V) (cm : Chans V) (done : List (Done V)) :
    Except Err (Chans V × Next V) := do
  let res ← resolve r cm done
  let cm1 := updateValues r res.cm res.writes
  let cm2 := updateDeps r cm1 res.deps
  let (cm3, ready, bad) := getReady ops r.dag cm2
  if bad then throw { cls := .merge } else
  match alookup END ready with
  | some v => pure (cm3, .result v)
  | none => pure (cm3, .tasks ready)

/-! ### running tasks -/

/-- the order in which the tasks of step `n` are collected (completion order) -/
abbrev Sched (V : Type) := Nat → List (Key × Except Err V) → List (Key × Except Err V)

def Sched.id {V} : Sched V := fun _ l => l

/-- run one task's node body (a key without a node keeps its input) -/
def execOne {V} (r : Runner V) (t : Key × V) : Key × Except Err V :=
  match r.node? t.1 with
  | none => (t.1, .ok t.2)
  | some n => (t.1, n.act t.2)

/-- collect one finished task: a failure is wrapped with the node key
    (`wrapGraphNodeError` in `resolveInterruptCompletedTasks`) -/
def collectOne {V} (t : Key × Except Err V) : Except Err (Done V) :=
  match t.2 with
  | .ok o => .ok (t.1, o)
  | .error e => .error (e.wrapNode t.1)

/-- run the node bodies of one batch and collect them in the schedule's order; the first
    failure in that order is the step's error. -/
def runTasks {V} (r : Runner V) (sched : Sched V) (step : Nat) (ts : List (Key × V)) :
    Except Err (List (Done V)) :=
  (sched step (ts.map (execOne r))).mapM collectOne

/-- one entry of the superstep trace: the tasks submitted in that step -/
abbrev Trace (V : Type) := List (List (Key × V))

structure Outcome (V : Type) where
  result : Except Err V
  trace : Trace V

def Outcome.okVal? {V} (o : Outcome V) : Option V := match o.result with | .ok v => some v | .error _ => none
def Outcome.errCls? {V} (o : Outcome V) : Option ErrClass := match o.result with | .ok _ => none | .error e => some e.cls

/-- main loop (batch collection: all tasks of a step are waited for).
    `fuel` is `maxSteps - step` in Pregel mode (the guard `step >= maxSteps`), and a bound
    no acyclic run can exhaust in DAG mode (there the code has no step limit). -/
def loop {V} (ops : ValOps V) (r : Runner V) (sched : Sched V) :
    Nat → Chans V → List (Key × V) → Trace V → Outcome V
  | 0, _, _, tr => { result := .error { cls := if r.dag then .fuel else .maxSteps }, trace := tr.reverse }
  | fuel + 1, cm, tasks, tr =>
    let tr' := tasks :: tr
    match runTasks r sched tr.length tasks with
    | .error e => { result := .error e, trace := tr'.reverse }
    | .ok done =>
      if done.isEmpty then { result := .error { cls := .noTasks }, trace := tr'.reverse } else
      match calcNext ops r cm done with
      | .error e => { result := .error e, trace := tr'.reverse }
      | .ok (_, .result v) => { result := .ok v, trace := tr'.reverse }
      | .ok (cm', .tasks ts) => loop ops r sched fuel cm' ts tr'

def Runner.fuel {V} (r : Runner V) : Nat :=
  if r.dag then r.nodes.length + 2 else r.maxSteps

/-- `runner.run` (value mode, no interrupts) under a completion schedule -/
def runS {V} (ops : ValOps V) (r : Runner V) (sched : Sched V) (input : V) : Outcome V :=
  match calcNext ops r (initChans r) [(START, input)] with
  | .error e => { result := .error e, trace := [] }
  | .ok (_, .result v) => { result := .ok v, trace := [] }
  | .ok (cm, .tasks ts) => loop ops r sched r.fuel cm ts []

/-- `runner.run` with tasks collected in submission order -/
def run {V} (ops : ValOps V) (r : Runner V) (input : V) : Outcome V := runS ops r Sched.id input

end EinoV.Engine
