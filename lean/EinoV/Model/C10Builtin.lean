/-
  C10 — the built-in components that issue callbacks THEMSELVES, and what they issue when
  something faults at each point of their execution.

  The graph injects node-level callbacks only for components that do not fire their own
  (`compose/utils.go`, `runnable.go`); for the others nobody but the component reports the
  unit.  The shipped components that do so:

  * `components/prompt.DefaultChatTemplate` (`IsCallbacksEnabled() = true`): `Format` fires
    `OnStart`, formats its message templates one after the other, fires `OnEnd`; an error is
    reported by a deferred closure that looks at the function's error result.
  * `flow/retriever/utils.ConcurrentRetrieveWithCallback`: one goroutine per task, each makes
    a context with the retriever's own RunInfo (`ReuseHandlers`), fires `OnStart`, calls the
    retriever, fires `OnError` or `OnEnd`; a panic of the retriever is recovered and reported
    with `OnError`.
  * `flow/retriever/router` (`routerRetriever.Retrieve`): a *Router* stage and a *FusionFunc*
    stage, each in a context of its own (`ReuseHandlers`) with `OnStart`, then `OnError` or
    `OnEnd`; between them the selected retrievers run as tasks of
    `ConcurrentRetrieveWithCallback`.
  * `flow/retriever/multiquery` (`multiQueryRetriever.Retrieve`): the query-rewriting chain
    (a compiled `compose.Chain` invoked inside the node — possibly containing a
    `DefaultChatTemplate` of its own), one retrieve task per query, and a *FusionFunc* stage.

  A node of the shape family is one of these (or a plain lambda), the called graph is
      START → n₁ ∥ … ∥ n_k → join → END
  with at most one level of nested graphs of the same form.  Every declaration says where the
  fault is: which message template fails to format, what the router function does, which
  retriever fails or panics, whether the fusion function fails …  `bUnits` lists the execution
  units of the run with the callbacks each of them issues; the unit machine (Model/C10.lean)
  does the rest.
-/
import EinoV.Model.C10
import EinoV.Model.C10Runs

namespace EinoV.C10

/-- source facts about the self-firing components -/
structure BFacts where
  /-- `DefaultChatTemplate.Format`: the deferred `if err != nil { OnError }` reads the error the
      function returns (a named result that every `return …, e` assigns, not a variable the
      returned error never reaches) -/
  tplErrDeferred : Bool
  /-- `DefaultChatTemplate.Format`: `OnStart` precedes the formatting loop and `OnEnd` follows it,
      both unconditional statements of the function body -/
  tplStartEndUnconditional : Bool
  /-- `ConcurrentRetrieveWithCallback`: the `err != nil` path of a task calls `OnError` before it returns -/
  taskErrReported : Bool
  /-- `ConcurrentRetrieveWithCallback`: the deferred `recover()` block calls `OnError` -/
  taskPanicReported : Bool
  /-- `routerRetriever.Retrieve`: every error return of the Router stage is preceded by `OnError` -/
  routeErrReported : Bool
  /-- `routerRetriever.Retrieve`: the error return of the FusionFunc stage is preceded by `OnError` -/
  routerFusionErrReported : Bool
  /-- `multiQueryRetriever.Retrieve`: the error return of the FusionFunc stage is preceded by `OnError` -/
  mqFusionErrReported : Bool
  /-- `router.NewRetriever` stores the router function it computed (the configured one, or the
      default "all retrievers" when `Config.Router` is nil) — not `config.Router` itself -/
  routerDefaultInstalled : Bool
  deriving DecidableEq, Repr

/-! ## DefaultChatTemplate.Format -/

/-- The body of `Format` after `OnStart`: `for _, template := range t.templates { msgs, err :=
    template.Format(…); if err != nil { return nil, err } … }; OnEnd; return result, nil`.
    `fails[k]`: formatting the `k`-th message template fails.  Result: the callbacks the body
    fires, and whether it returned an error. -/
def tplBody : List Bool → List Timing × Bool
  | [] => ([Timing.end_], false)
  | true :: _ => ([], true)
  | false :: rest => tplBody rest

/-- the callbacks of one `Format` call: `OnStart`, the body, then the deferred block, which
    fires `OnError` iff it sees a non-nil error — it sees the returned one iff `errDeferred` -/
def tplCalls (errDeferred : Bool) (fails : List Bool) : List Timing :=
  let b := tplBody fails
  Timing.start :: (b.1 ++ (if b.2 && errDeferred then [Timing.error] else []))

def tplFails (fails : List Bool) : Bool := (tplBody fails).2

/-! ## one stage / one task -/

/-- `ctx = OnStart(ctx, …); r, err := f(ctx, …); if err != nil { OnError(ctx, err); return }; OnEnd(ctx, r)` -/
def stageCalls (errReported : Bool) (fails : Bool) : List Timing :=
  Timing.start :: (if fails then (if errReported then [Timing.error] else []) else [Timing.end_])

/-- how one retriever call of `ConcurrentRetrieveWithCallback` goes -/
inductive TaskOut where
  | ok | err | panic
  deriving DecidableEq, Repr

def TaskOut.failed : TaskOut → Bool
  | .ok => false | _ => true

def taskCalls (bf : BFacts) : TaskOut → List Timing
  | .ok => [Timing.start, Timing.end_]
  | .err => Timing.start :: (if bf.taskErrReported then [Timing.error] else [])
  | .panic => Timing.start :: (if bf.taskPanicReported then [Timing.error] else [])

/-! ## declarations -/

/-- what the router function does -/
inductive RouteD where
  /-- returns the names of `children` -/
  | ok
  /-- returns an error -/
  | err
  /-- returns no name -/
  | none_
  /-- returns a name that is not registered (the stage ends normally; the lookup fails afterwards) -/
  | unknown
  /-- `Config.Router` is nil: the default router selects all registered retrievers -/
  | dflt
  deriving DecidableEq, Repr

structure RouterD where
  route : RouteD
  /-- the retrievers the route selects: `GetType()` and outcome of each -/
  children : List (String × TaskOut)
  fusionFails : Bool
  deriving Repr

/-- how the multi-query retriever rewrites the query -/
inductive RewriteD where
  /-- `Config.RewriteHandler`: one lambda node `CustomQueryRewriter` -/
  | handler (fails : Bool)
  /-- `Config.RewriteLLM` (+ `RewriteTemplate`): `Converter` → chat template → chat model → `OutputParser`;
      `tpl`: which message templates of the template fail to format -/
  | llm (tpl : List Bool) (modelFails parserFails : Bool)
  deriving Repr

structure MqD where
  rewrite : RewriteD
  /-- `GetType()` of `Config.OrigRetriever` -/
  origType : String
  /-- one per query the rewriting produced (after truncation to `MaxQueriesNum`) -/
  queries : List TaskOut
  fusionFails : Bool
  deriving Repr

inductive BNode where
  | tpl (key : String) (fails : List Bool)
  | router (key : String) (d : RouterD)
  | mq (key : String) (d : MqD)
  | lam (key : String) (fails : Bool)
  deriving Repr

inductive BTop where
  | node (n : BNode)
  | sub (key : String) (ns : List BNode)
  deriving Repr

structure BShape where
  /-- the graph is run with `Stream` (else `Invoke`) -/
  stream : Bool
  nodes : List BTop
  deriving Repr

/-! ## which stages are reached, what fails -/

/-- the Router stage ends with an error (the default router of a retriever without registered
    retrievers cannot exist: `NewRetriever` rejects the configuration) -/
def RouterD.routeFails (d : RouterD) : Bool :=
  match d.route with
  | .err => true
  | .none_ => true
  | .unknown => false
  | .ok => d.children.isEmpty
  | .dflt => d.children.isEmpty

/-- the selected retrievers run -/
def RouterD.tasksRun (d : RouterD) : Bool :=
  !d.routeFails && d.route != .unknown

def RouterD.fusionRuns (d : RouterD) : Bool :=
  d.tasksRun && d.children.all (fun c => !c.2.failed)

def RouterD.fails (d : RouterD) : Bool :=
  !d.fusionRuns || d.fusionFails

def RewriteD.fails : RewriteD → Bool
  | .handler f => f
  | .llm tpl m p => tplFails tpl || m || p

def MqD.fusionRuns (d : MqD) : Bool := !d.rewrite.fails && d.queries.all (fun q => !q.failed)

def MqD.fails (d : MqD) : Bool := !d.fusionRuns || d.fusionFails

def BNode.fails (bf : BFacts) : BNode → Bool
  | .tpl _ fs => tplFails fs
  | .router _ d => d.fails || (d.route == .dflt && !bf.routerDefaultInstalled)
  | .mq _ d => d.fails
  | .lam _ f => f

def BNode.key : BNode → String
  | .tpl k _ => k | .router k _ => k | .mq k _ => k | .lam k _ => k

/-! ## run infos -/

def tplInfo (name : String) : String := renderInfo name "Default" "ChatTemplate"
def routerNodeInfo (path : List String) : String := renderInfo (nodeName path) "Router" "Retriever"
def mqNodeInfo (path : List String) : String := renderInfo (nodeName path) "MultiQuery" "Retriever"
/-- `ctxWithRouterRunInfo` / `ctxWithFusionRunInfo`: `Name = Type + Component` -/
def routeStageInfo : String := renderInfo "RouterLambda" "Router" "Lambda"
def fusionStageInfo : String := renderInfo "FusionFuncLambda" "FusionFunc" "Lambda"
/-- `ctxWithRetrieverRunInfo`: the retriever's `GetType()`, `Name = Type + "Retriever"` -/
def taskInfo (ty : String) : String := renderInfo (ty ++ "Retriever") ty "Retriever"
def rewriteChainInfo : String := renderInfo "QueryRewrite" "" "Chain"
/-- the type the harness's chat model reports -/
def rewriteModelInfo : String := renderInfo "" "CM" "ChatModel"

/-! ## the units -/

/-- a unit whose context is made with `ReuseHandlers` below the node at `node` (the tool-call
    form of the unit machine), firing `prog` itself -/
def stageUnit (node : List String) (tag info : String) (prog : List Timing) : UnitSpec :=
  ⟨node ++ [tag], true, info, .self prog, false⟩

def wrappedEnd (fails : Bool) : EndKind := if fails then .err else .ok

def routerUnits (bf : BFacts) (path : List String) (d : RouterD) : List UnitSpec :=
  if d.route == .dflt && !bf.routerDefaultInstalled then
    -- `e.router` is nil: calling it panics after the Router stage's `OnStart`, inside the
    -- node-level wrapper, which has fired `OnStart` and fires nothing more
    [⟨path, false, routerNodeInfo path, .self [Timing.start], false⟩,
     stageUnit path "#route" routeStageInfo [Timing.start]]
  else
    ⟨path, false, routerNodeInfo path, .wrapped false (wrappedEnd d.fails), false⟩ ::
    stageUnit path "#route" routeStageInfo (stageCalls bf.routeErrReported d.routeFails) ::
    ((if d.tasksRun then
        (List.range d.children.length).zip d.children |>.map fun (i, c) =>
          stageUnit path ("#task" ++ toString i) (taskInfo c.1) (taskCalls bf c.2)
      else []) ++
     (if d.fusionRuns then
        [stageUnit path "#fusion" fusionStageInfo (stageCalls bf.routerFusionErrReported d.fusionFails)]
      else []))

/-- the nodes of the rewriting chain that run, in order (a chain stops at the first failure) -/
def rewriteNodes (bf : BFacts) (chain : List String) : RewriteD → List UnitSpec
  | .handler f =>
    [⟨chain ++ ["node_0"], false, renderInfo "CustomQueryRewriter" "" "Lambda", .wrapped false (wrappedEnd f), false⟩]
  | .llm tpl m p =>
    ⟨chain ++ ["node_0"], false, renderInfo "Converter" "" "Lambda", .wrapped false .ok, false⟩ ::
    ⟨chain ++ ["node_1"], false, tplInfo "", .self (tplCalls bf.tplErrDeferred tpl), true⟩ ::
    (if tplFails tpl then [] else
      ⟨chain ++ ["node_2"], false, rewriteModelInfo, .wrapped false (wrappedEnd m), false⟩ ::
      (if m then [] else
        [⟨chain ++ ["node_3"], false, renderInfo "OutputParser" "" "Lambda", .wrapped false (wrappedEnd p), false⟩]))

def mqUnits (bf : BFacts) (path : List String) (d : MqD) : List UnitSpec :=
  let chain := path ++ ["QueryRewrite"]
  ⟨path, false, mqNodeInfo path, .wrapped false (wrappedEnd d.fails), false⟩ ::
  -- the chain is always run with Invoke, in the node's context
  ⟨chain, false, rewriteChainInfo, .graph false (if d.rewrite.fails then .lateErr else .ok), true⟩ ::
  (rewriteNodes bf chain d.rewrite ++
   (if d.rewrite.fails then [] else
      (List.range d.queries.length).zip d.queries |>.map fun (i, q) =>
        stageUnit path ("#task" ++ toString i) (taskInfo d.origType) (taskCalls bf q)) ++
   (if d.fusionRuns then
      [stageUnit path "#fusion" fusionStageInfo (stageCalls bf.mqFusionErrReported d.fusionFails)]
    else []))

def bNodeUnits (bf : BFacts) (pre : List String) : BNode → List UnitSpec
  | .tpl key fs => [⟨pre ++ [key], false, tplInfo (nodeName (pre ++ [key])), .self (tplCalls bf.tplErrDeferred fs), true⟩]
  | .router key d => routerUnits bf (pre ++ [key]) d
  | .mq key d => mqUnits bf (pre ++ [key]) d
  | .lam key f => [⟨pre ++ [key], false, lamInfo (pre ++ [key]) "Li", .wrapped false (wrappedEnd f), false⟩]

/-- the units of one layer `START → ns → join → END` below `pre`: every node of the layer runs
    (the run waits for all tasks of a step), `join` iff none of them failed -/
def bLevelUnits (bf : BFacts) (pre : List String) (ns : List BNode) : List UnitSpec :=
  ns.flatMap (bNodeUnits bf pre) ++ (if ns.any (·.fails bf) then [] else [joinUnit pre])

def BTop.fails (bf : BFacts) : BTop → Bool
  | .node n => n.fails bf
  | .sub _ ns => ns.any (·.fails bf)

def bTopUnits (bf : BFacts) (stream : Bool) : BTop → List UnitSpec
  | .node n => bNodeUnits bf [] n
  | .sub key ns =>
    ⟨[key], false, subInfo [key], .graph stream (if ns.any (·.fails bf) then .lateErr else .ok), true⟩ ::
    bLevelUnits bf [key] ns

def BShape.fails (bf : BFacts) (sh : BShape) : Bool := sh.nodes.any (·.fails bf)

/-- all units of the run, the called graph first -/
def bUnits (bf : BFacts) (sh : BShape) : List UnitSpec :=
  ⟨[], false, rootInfo, .graph sh.stream (if sh.fails bf then .lateErr else .ok), true⟩ ::
  (sh.nodes.flatMap (bTopUnits bf sh.stream) ++ (if sh.fails bf then [] else [joinUnit []]))

end EinoV.C10
