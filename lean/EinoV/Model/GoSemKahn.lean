/-
  Additions to the prelude `Model/GoSem.lean` for the translated `validateDAG`
  (Gen/TransC20.lean, compose/graph.go).  Core Lean only.

  * the values of `chanSubscribeTo` are pointers to structs: an entry is read with `GoMap.get?`
    (`none` = the nil pointer of a missing entry; reading a field through it panics);
  * an assignment `m[e] = …` to another key of a map that is being ranged over is translated with
    the guard "e is a key of m": adding a key during a range makes Go's iteration order-dependent
    in an unspecified way, which the translation does not model — the explicit outcome
    `GoOutcome.unspecified`;
  * Go `int` is `Int` in this unit (counters go below zero).
-/
import EinoV.Model.GoSemMgr
namespace EinoV.GoSem

/-- outcome of a translated function that may leave the translated semantics: a nil dereference
    (Go panics), an effect Go leaves unspecified, or the results -/
inductive GoOutcome (α : Type) where
  | panic
  | unspecified
  | ret (a : α)

end EinoV.GoSem
