/-
  C16 — call options on their way from the task to the node body: the four call paradigms and
  the key wrappers of `WithInputKey` / `WithOutputKey`.

  Code: compose/graph_node.go `graphNode.compileIfNeeded` (a node added with `WithOutputKey(k)`
  is wrapped by `outputKeyedComposableRunnable`, then one added with `WithInputKey(k)` by
  `inputKeyedComposableRunnable`), compose/runnable.go (the two wrappers: each replaces the
  node's `i` closure – the invoke path – and its `t` closure – the transform path – by a
  closure that picks / adds the map key and calls the wrapped closure), compose/graph_run.go
  (`runner.run`: `Invoke` runs every node through `i`, `Stream` / `Collect` / `Transform`
  through `t` (`runnableInvoke` / `runnableTransform`); `runner.toComposableRunnable`: a nested
  graph's `i` is `r.invoke`, its `t` is `r.transform`, so the whole tree runs on the path the
  outermost call chose).

  `extractOption` (Model/C16.lean `extract`) computes the option list of a node's *task*; the
  body of the node is called with what the wrappers around it hand on.  Whether a wrapper
  hands the list on is a source fact per wrapper and per closure (`KeyFacts`).  The model
  below is `runNode` / `runNodes` / `run` of Model/C16.lean with that one extra step
  (`deliver`); Proofs/C16Keys.lean shows that with the facts found in the source the extra
  step is the identity: what a node receives depends neither on the paradigm nor on the keys.
-/
import EinoV.Model.C16

namespace EinoV.C16

/-- The four ways a compiled graph is called (`Runnable.Invoke/Stream/Collect/Transform`). -/
inductive Paradigm where
  | invoke | stream | collect | transform
  deriving DecidableEq, Repr

/-- `Invoke` runs every node (and every nested graph) through its `i` closure; the other three
    are implemented by `transform`: every node runs through its `t` closure. -/
def Paradigm.onStreamPath : Paradigm → Bool
  | .invoke => false
  | _ => true

/-- Source facts about the key wrappers: does the replaced closure pass the variadic option
    list on to the closure it wraps (`i(ctx, v, opts...)`, `t(ctx, nInput, opts...)`). -/
structure KeyFacts where
  /-- `inputKeyedComposableRunnable`, closure `wrapper.i` -/
  inKeyFwdInvoke : Bool
  /-- `inputKeyedComposableRunnable`, closure `wrapper.t` -/
  inKeyFwdTransform : Bool
  /-- `outputKeyedComposableRunnable`, closure `wrapper.i` -/
  outKeyFwdInvoke : Bool
  /-- `outputKeyedComposableRunnable`, closure `wrapper.t` -/
  outKeyFwdTransform : Bool
  deriving DecidableEq, Repr

/-- The keys a node was added with (`WithInputKey`, `WithOutputKey`); `none` = no wrapper. -/
structure Wrap where
  inKey : Option Key
  outKey : Option Key
  deriving DecidableEq, Repr

def Wrap.plain : Wrap := { inKey := none, outKey := none }

mutual
/-- A node together with the keys it was added with. -/
inductive WNode where
  | comp (key : Key) (ty : Nat) (w : Wrap)
  | pass (key : Key) (w : Wrap)
  | graph (key : Key) (children : WNodes) (w : Wrap)
inductive WNodes where
  | nil
  | cons (n : WNode) (ns : WNodes)
end

deriving instance DecidableEq for WNode, WNodes

mutual
/-- what `extractOption` sees of a node: the keys are not part of `graphNode.action` -/
def WNode.erase : WNode → Node
  | .comp k ty _ => .comp k ty
  | .pass k _ => .pass k
  | .graph k ch _ => .graph k ch.erase
def WNodes.erase : WNodes → Nodes
  | .nil => .nil
  | .cons n ns => .cons n.erase ns.erase
end

/-- do all wrappers around the node hand the option list on, on the path the call runs on -/
def Wrap.forwards (K : KeyFacts) (par : Paradigm) (w : Wrap) : Bool :=
  (w.inKey.isNone || (if par.onStreamPath then K.inKeyFwdTransform else K.inKeyFwdInvoke)) &&
  (w.outKey.isNone || (if par.onStreamPath then K.outKeyFwdTransform else K.outKeyFwdInvoke))

/-- what the node's own runnable is called with when its task holds `items` (`optMap[nodeKey]`):
    a wrapper that does not pass `opts...` on calls it with no option at all -/
def deliver (K : KeyFacts) (par : Paradigm) (w : Wrap) (items : List Item) : List Item :=
  if w.forwards K par then items else []

mutual
/-- `runNode` with the wrappers between the task and the node. The node callbacks
    (`initNodeCallbacks`) are set up by the enclosing graph from its own option list, outside
    the wrappers; a nested graph reads its options (`convertOption[Option]`) inside them. -/
def runNodeW (F : Facts) (K : KeyFacts) (par : Paradigm) (pre : Path) (gH : List Nat)
    (opts : List Opt) (log : Log) : WNode → Except RunErr (List Entry)
  | .comp k _ w =>
    .ok [{ path := pre ++ [k], isGraph := false, vals := valsOf (deliver K par w (itemsFor log k)),
           handlers := gH ++ nodeHandlers opts k }]
  | .pass _ _ => .ok []
  | .graph k ch w =>
    let sub := optsOf (deliver K par w (itemsFor log k))
    match extract F ch.erase sub with
    | .error e => .error (pre ++ [k], e)
    | .ok log' =>
      let gH' := (gH ++ nodeHandlers opts k) ++ graphHandlers sub
      match runNodesW F K par (pre ++ [k]) gH' sub log' ch with
      | .error e => .error e
      | .ok es => .ok ({ path := pre ++ [k], isGraph := true, vals := [], handlers := gH' } :: es)
def runNodesW (F : Facts) (K : KeyFacts) (par : Paradigm) (pre : Path) (gH : List Nat)
    (opts : List Opt) (log : Log) : WNodes → Except RunErr (List Entry)
  | .nil => .ok []
  | .cons n ns =>
    match runNodeW F K par pre gH opts log n with
    | .error e => .error e
    | .ok a =>
      match runNodesW F K par pre gH opts log ns with
      | .error e => .error e
      | .ok b => .ok (a ++ b)
end

/-- One call of the outermost graph in paradigm `par` with the caller's options. -/
def runW (F : Facts) (K : KeyFacts) (par : Paradigm) (g : WNodes) (opts : List Opt) :
    Except RunErr (List Entry) :=
  match extract F g.erase opts with
  | .error e => .error ([], e)
  | .ok log =>
    match runNodesW F K par [] (graphHandlers opts) opts log g with
    | .error e => .error e
    | .ok es => .ok ({ path := [], isGraph := true, vals := [], handlers := graphHandlers opts } :: es)

/-- One call: graph with keys, indices into the caller's store of Option values, paradigm. -/
structure CallW where
  g : WNodes
  ixs : List Nat
  par : Paradigm

def CallW.erase (c : CallW) : Call := { g := c.g.erase, ixs := c.ixs }

/-- A sequence of calls sharing the store (`runCalls` with paradigms and keys). -/
def runCallsW (F : Facts) (K : KeyFacts) :
    List Opt → List CallW → List (Except RunErr (List Entry)) × List Opt
  | store, [] => ([], store)
  | store, c :: cs =>
    let r := runW F K c.par c.g (pick store c.ixs)
    let rest := runCallsW F K (storeAfter F store c.erase) cs
    (r :: rest.1, rest.2)

end EinoV.C16
