/-
  C03 — the two places where the run loop (compose/graph_run.go `runner.run`) and
  `taskManager.submit` (compose/graph_manager.go) decide WHAT is started and HOW MUCH is
  collected, on top of the hand-off transition system of `Model/C03.lean`.

  Part A (protocol level).
    * `submitP`: `submit(tasks)` with pre-processors (state pre-handlers) that may fail.  Source
      fact `submitPreprocessesFirst`: a first loop runs the pre-processor of EVERY task and
      returns at the first failure, before the inline decision and before any `num += 1` /
      `go executor`.  The other value models "each task is started right after its own
      pre-processor" (goroutine tasks in list order, the inlined task last).
    * `interruptPath`: what the run loop does when an interrupt-before / interrupt-after point
      is hit: it collects what is still outstanding and then writes the checkpoint and
      returns.  Source fact `interruptPathWaitsAll`: the collecting call is `tm.waitAll()`
      (returns only when `waitOne` reports `num == 0`).  The other value models `tm.wait()`,
      which in eager mode (`needAll = false`) is ONE `waitOne`.

  Part B (engine level, reference for the harness family "intr").  Acyclic graphs of part 3/4
  of `Model/C03.lean`, compiled with interrupt-before / interrupt-after node sets, run as a
  sequence of Invokes (first run + resumes) under a completion priority `order`, in batch
  mode (supersteps) or eager mode (one completion at a time).  Per Invoke the model gives the
  release script the harness enforces, the outcome (result / interrupt info) and what has been
  started and collected when the Invoke returns.
-/
import EinoV.Model.C03

namespace EinoV.C03

/-! ## Part A: protocol level -/

/-- Source facts about `taskManager.submit` and the interrupt path of `runner.run`. -/
structure LoopFacts where
  /-- `submit`: a loop over all tasks that runs the pre-processors (returning on the first
      error) precedes the inline decision and every start; nothing after it can fail -/
  submitPreprocessesFirst : Bool
  /-- `run`: every branch of the main loop that ends in `handleInterrupt…` first collects
      with `tm.waitAll()` -/
  interruptPathWaitsAll : Bool
  deriving Repr, DecidableEq

/-- the order in which `submit` starts the tasks: the goroutine tasks in list order, then the
    inlined first task (if the first task is inlined) -/
def startOrder (F : Facts) (needAll : Bool) (s : St) (ts : List Task) : List Task :=
  match ts with
  | [] => []
  | t :: rest => if inlines F needAll s (t :: rest) then rest ++ [t] else t :: rest

/-- `taskManager.submit(ts)` where the pre-processors of the tasks in `bad` fail.  Result:
    the state after the call and whether the call returned an error (the run loop then returns
    `failed to submit tasks` at once: no collector step follows).  `none`: not enabled. -/
def submitP (F : Facts) (L : LoopFacts) (needAll : Bool) (s : St) (ts bad : List Task) :
    Option (St × Bool) :=
  if s.coll ≠ .idle then none else
  if L.submitPreprocessesFirst then
    -- first loop: every pre-processor in list order, the first failure returns
    if ts.any bad.contains then some (s, true)
    else (step F needAll s (.submit ts)).map fun s' => (s', false)
  else
    -- each task is started right after its own pre-processor
    let ord := startOrder F needAll s ts
    let okPrefix := ord.takeWhile fun t => !bad.contains t
    if okPrefix.length = ord.length then (step F needAll s (.submit ts)).map fun s' => (s', false)
    else
      -- the tasks before the failing one have been started (as goroutines: the inlined task
      -- comes last); `submit` returns the error
      some ({ s with running := s.running ++ okPrefix
                     num := s.num + okPrefix.length
                     submitted := s.submitted ++ okPrefix }, true)

/-- does the collecting call of the interrupt path return in state `s`, after `k` receives of
    its own?  `waitAll`: when `waitOne` reports `num == 0`.  Eager `wait`: after one `waitOne`
    (or at once when `num == 0`). -/
def pathReturns (L : LoopFacts) (needAll : Bool) (k : Nat) (s : St) : Bool :=
  s.coll == .idle && (s.num == 0 || (!(L.interruptPathWaitsAll || needAll) && decide (1 ≤ k)))

def Ev.isRecv : Ev → Bool
  | .recv => true
  | _ => false

/-- The interrupt path consuming a schedule of executor `finish` steps and its own collector
    steps: the state in which the collecting call returns (the run loop then writes the
    checkpoint and `Invoke` returns).  `none`: the schedule contains a `submit` / a step that
    is not enabled, or it ends before the call has returned. -/
def interruptPath (F : Facts) (L : LoopFacts) (needAll : Bool) : Nat → St → List Ev → Option St
  | k, s, [] => if pathReturns L needAll k s then some s else none
  | k, s, e :: es =>
    if pathReturns L needAll k s then some s else
    if e.isSubmit then none else
    match step F needAll s e with
    | none => none
    | some s' => interruptPath F L needAll (if e.isRecv then k + 1 else k) s' es

/-! ## Part B: engine level — graphs with interrupt-before / interrupt-after nodes -/

structure ICfg where
  g : GCase
  /-- Workflow (eager) vs Graph (batch; the generated graphs are layered, so any-predecessor
      and all-predecessor triggering start the same nodes in the same supersteps) -/
  eager : Bool
  before : List Key
  after : List Key
  /-- completion priority (a permutation of the node keys) -/
  order : List Key

/-- `l` sorted by priority; keys missing from `order` last -/
def prio (order l : List Key) : List Key :=
  order.filter l.contains ++ l.filter fun k => !order.contains k

/-- receive the completion of `k` and resolve it (no submission) -/
def iCollect (g : GCase) (st : EState) (k : Key) : EState :=
  let out := match g.nodes.find? (fun n => n.key == k) with
    | some n => bodyOut k (eInputs st n)
    | none => ""
  { st with cells := st.cells ++ resolveWrites [mkTask g k out], done := st.done ++ [k] }

def iStart (st : EState) (ks : List Key) : EState := { st with started := st.started ++ ks }

inductive IOut where
  | ok
  /-- `InterruptInfo.BeforeNodes`, `.AfterNodes`, the tasks saved in the checkpoint -/
  | interrupt (before after pending : List Key)
  /-- nothing in flight and END not ready (`no tasks to execute`) -/
  | stuck
  deriving Repr, DecidableEq

/-- one line of the release script: open the gate of `release` when every node of `inflight`
    is inside its body -/
structure IStep where
  release : Key
  inflight : List Key
  deriving Repr

structure IInvoke where
  out : IOut
  steps : List IStep
  /-- at the return of the Invoke -/
  st : EState
  /-- what the interrupt path collected after the interrupt point had been hit (the
      executions that were outstanding at that moment, under `waitAll`) -/
  drained : List Key := []

/-- started and not collected -/
def iUncollected (st : EState) : List Key := st.started.filter fun k => !st.done.contains k

/-- collect `ks` in this order, logging the script lines -/
def iDrain (g : GCase) : EState → List Key → List Key → List IStep → EState × List IStep
  | st, [], _, acc => (st, acc)
  | st, k :: ks, infl, acc => iDrain g (iCollect g st k) ks (infl.erase k) (acc ++ [⟨k, infl⟩])

/-- the end of an Invoke once an interrupt point has been hit: `next` = the tasks computed
    from the completion(s) just resolved, `infl` = what is still outstanding -/
def iInterrupt (c : ICfg) (L : LoopFacts) (st : EState) (infl next bef aft : List Key)
    (acc : List IStep) : IInvoke :=
  let all := prio c.order infl
  let dl := if L.interruptPathWaitsAll || !c.eager then all else all.take 1
  let r := iDrain c.g st dl infl acc
  let st2 := r.1
  let aft2 := aft ++ dl.filter c.after.contains
  let newNext := (eReady c.g st2).filter fun k => !next.contains k
  if eEndReady c.g st2 then ⟨.ok, r.2, st2, dl⟩
  else ⟨.interrupt (bef ++ newNext.filter c.before.contains) aft2 (next ++ newNext), r.2, st2, dl⟩

/-- eager run loop: one completion per iteration -/
def iEager (c : ICfg) (L : LoopFacts) : Nat → EState → List Key → List IStep → IInvoke
  | 0, st, _, acc => ⟨.stuck, acc, st, []⟩
  | n + 1, st, infl, acc =>
    match (prio c.order infl).head? with
    | none => ⟨.stuck, acc, st, []⟩
    | some k =>
      let st1 := iCollect c.g st k
      let infl1 := infl.erase k
      let acc1 := acc ++ [⟨k, infl⟩]
      let aft := if c.after.contains k then [k] else []
      let next := eReady c.g st1
      if eEndReady c.g st1 then ⟨.ok, acc1, st1, []⟩ else
      let bef := next.filter c.before.contains
      if bef.isEmpty && aft.isEmpty then iEager c L n (iStart st1 next) (infl1 ++ next) acc1
      else iInterrupt c L st1 infl1 next bef aft acc1

/-- batch run loop: one superstep per iteration (nothing is outstanding after `wait`) -/
def iBatch (c : ICfg) (L : LoopFacts) : Nat → EState → List Key → List IStep → IInvoke
  | 0, st, _, acc => ⟨.stuck, acc, st, []⟩
  | n + 1, st, infl, acc =>
    if infl.isEmpty then ⟨.stuck, acc, st, []⟩ else
    let r := iDrain c.g st (prio c.order infl) infl acc
    let st1 := r.1
    let aft := (prio c.order infl).filter c.after.contains
    let next := eReady c.g st1
    if eEndReady c.g st1 then ⟨.ok, r.2, st1, []⟩ else
    let bef := next.filter c.before.contains
    if bef.isEmpty && aft.isEmpty then iBatch c L n (iStart st1 next) next r.2
    else iInterrupt c L st1 [] next bef aft r.2

def iLoop (c : ICfg) (L : LoopFacts) (st : EState) (infl : List Key) : IInvoke :=
  if c.eager then iEager c L (c.g.nodes.length + 1) st infl []
  else iBatch c L (c.g.nodes.length + 1) st infl []

def iInit (g : GCase) : EState :=
  { cells := resolveWrites [mkTask g startKey g.input], done := [startKey], started := [startKey] }

/-- the first Invoke: the tasks computed from START are subject to interrupt-before -/
def iFirst (c : ICfg) (L : LoopFacts) : IInvoke :=
  let st0 := iInit c.g
  let next := eReady c.g st0
  let bef := next.filter c.before.contains
  if !bef.isEmpty then ⟨.interrupt bef [] next, [], st0, []⟩
  else iLoop c L (iStart st0 next) next

/-- a resumed Invoke: the tasks of the checkpoint are submitted at once -/
def iResume (c : ICfg) (L : LoopFacts) (st : EState) (pending : List Key) : IInvoke :=
  iLoop c L (iStart st pending) pending

/-- first run and resumes until a run does not end in an interrupt (at most `fuel` resumes) -/
def iRuns (c : ICfg) (L : LoopFacts) : Nat → IInvoke → List IInvoke
  | 0, v => [v]
  | n + 1, v =>
    match v.out with
    | .interrupt _ _ pending => v :: iRuns c L n (iResume c L v.st pending)
    | _ => [v]

def iAll (c : ICfg) (L : LoopFacts) : List IInvoke :=
  iRuns c L (2 * c.g.nodes.length + 2) (iFirst c L)

end EinoV.C03
