/-
  C04 — a compiled graph whose nodes are *packed components*, and its four calls.

  `Model/C04.lean` models `newRunnablePacker` (one component, four forms); `Model/Engine.lean`
  the run loop of a compiled graph.  This file puts them together the way compose does
  (graph.go `compile` → `composableRunnable`, graph_run.go `run`, runnable.go):

    * a node is a component packed by `newRunnablePacker` (`comp`), a pass-through (`pass`)
      or a compiled graph used as a node (`graph`);
    * `Invoke` of the compiled graph runs the engine on values and executes every node's
      Invoke form (`valueRunner`, `Packed.i`);
    * `Transform` runs the engine on streams and executes every node's Transform form
      (`streamRunner`, `Packed.t`); a plain (value) branch condition is wrapped by
      `collectByInvoke`: it concatenates its copy of the stream, then decides; the fan-in
      of streams (`MergeStreamReaders`) is `(opsS z).merge`: the sources' chunks, one source
      after the other (one of the arrival orders; only concatenations are compared); a
      ready all-predecessor channel without values hands out the one-chunk stream `[z]`;
    * `Stream` of the compiled graph is `streamByTransform` (Transform on the one-chunk
      stream), `Collect` is `collectByTransform` (Transform, then concatenate).

  Streams are chunk lists (`List V`).  Core Lean only.
-/
import EinoV.Model.C04

namespace EinoV.C04
open EinoV.Engine

/-- A component: one deterministic function `f`, the way it splits its output into chunks
    when it streams, and the paradigms it implements natively (`nativeOf`). -/
structure Comp (V : Type) where
  f : V → Except Err V
  chunk : V → List V
  hasI : Bool := true
  hasS : Bool := false
  hasC : Bool := false
  hasT : Bool := false

/-- the four forms `newRunnablePacker` derives for the component -/
def Comp.packed {V} (co : ChunkOps V) (pref : Pref) (c : Comp V) : Packed V :=
  pack co pref (nativeOf co c.f c.chunk c.hasI c.hasS c.hasC c.hasT)

/-- what a node executes; `S` is the type of the graphs that may be used as nodes -/
inductive Kind (V S : Type) where
  | comp (c : Comp V)
  | pass
  | graph (sub : S)

/-- a node of the graph definition: its body and its wiring (as `Engine.Node`); branch
    conditions are plain value conditions (`NewGraphBranch`) -/
structure GNode (V S : Type) where
  key : Key
  kind : Kind V S
  writeTo : List Key := []
  controls : List Key := []
  branches : List (Branch V) := []

/-- a graph definition over components; wiring fields as in `Engine.Runner` (`start` is the
    wiring of START; its `kind` is never executed) -/
structure GraphOf (V S : Type) where
  nodes : List (GNode V S)
  start : GNode V S
  dataPreds : List (Key × List Key)
  ctrlPreds : List (Key × List Key)
  maxSteps : Nat
  dag : Bool := false
  eager : Bool := false

/-- the Invoke and the Transform form of the graphs used as nodes -/
structure SubSem (V S : Type) where
  i : S → V → Except Err V
  t : S → List V → Except Err (List V)

/-- what the node executes in value mode (its Invoke form) -/
def Kind.actI {V S} (co : ChunkOps V) (pref : Pref) (sem : SubSem V S) : Kind V S → V → Except Err V
  | .comp c => (c.packed co pref).i
  | .pass => .ok
  | .graph sub => sem.i sub

/-- what the node executes in stream mode (its Transform form) -/
def Kind.actT {V S} (co : ChunkOps V) (pref : Pref) (sem : SubSem V S) : Kind V S → List V → Except Err (List V)
  | .comp c => (c.packed co pref).t
  | .pass => .ok
  | .graph sub => sem.t sub

/-- a plain branch condition in stream mode: `collectByInvoke` (concatenate, then decide) -/
def collected {V} (co : ChunkOps V) (b : Branch V) : Branch (List V) :=
  { ends := b.ends, noData := b.noData, cond := fun s => concat co s >>= b.cond }

def GNode.valueNode {V S} (co : ChunkOps V) (pref : Pref) (sem : SubSem V S) (n : GNode V S) : Node V :=
  { key := n.key, act := n.kind.actI co pref sem, writeTo := n.writeTo, controls := n.controls,
    branches := n.branches }

def GNode.streamNode {V S} (co : ChunkOps V) (pref : Pref) (sem : SubSem V S) (n : GNode V S) : Node (List V) :=
  { key := n.key, act := n.kind.actT co pref sem, writeTo := n.writeTo, controls := n.controls,
    branches := n.branches.map (collected co) }

/-- the compiled graph in value mode -/
def GraphOf.valueRunner {V S} (co : ChunkOps V) (pref : Pref) (sem : SubSem V S) (g : GraphOf V S) : Runner V :=
  { nodes := g.nodes.map (GNode.valueNode co pref sem), start := g.start.valueNode co pref sem,
    dataPreds := g.dataPreds, ctrlPreds := g.ctrlPreds, maxSteps := g.maxSteps, dag := g.dag, eager := g.eager }

/-- the compiled graph in stream mode -/
def GraphOf.streamRunner {V S} (co : ChunkOps V) (pref : Pref) (sem : SubSem V S) (g : GraphOf V S) :
    Runner (List V) :=
  { nodes := g.nodes.map (GNode.streamNode co pref sem), start := g.start.streamNode co pref sem,
    dataPreds := g.dataPreds, ctrlPreds := g.ctrlPreds, maxSteps := g.maxSteps, dag := g.dag, eager := g.eager }

/-- stream-mode fan-in: the sources' chunk lists one after the other.  What a ready
    all-predecessor channel without any value hands out in stream mode (dag.go `get`:
    `ch.emptyStream()`) is `emptyStreamFromGeneric` (generic_helper.go): a pipe into which the
    zero value is sent once and which is then closed — the one-chunk stream `[z]` carrying the
    value-mode zero `z`, not a stream without chunks. -/
def opsS {V} (z : V) : ValOps (List V) := { merge := fun ls => some ls.flatten, zero := [z] }

/-- `Invoke` of the compiled graph -/
def GraphOf.invoke {V S} (co : ChunkOps V) (pref : Pref) (opsV : ValOps V) (sem : SubSem V S)
    (g : GraphOf V S) (x : V) : Except Err V :=
  (run opsV (g.valueRunner co pref sem) x).result

/-- `Transform` of the compiled graph -/
def GraphOf.transform {V S} (co : ChunkOps V) (pref : Pref) (opsV : ValOps V) (sem : SubSem V S)
    (g : GraphOf V S) (xs : List V) : Except Err (List V) :=
  (run (opsS opsV.zero) (g.streamRunner co pref sem) xs).result

/-! ### graphs as nodes, to any depth

`Graph V d`: graph definitions whose graph nodes hold a `Graph V (d - 1)`; `Graph V 0` has
component and pass-through nodes only (its `graph` kind is uninhabited).  Every finite
nesting is a `Graph V d` for some `d` (`Graph.lift` embeds depth `d` into depth `d + 1`). -/

def Graph (V : Type) : Nat → Type
  | 0 => GraphOf V Empty
  | d + 1 => GraphOf V (Graph V d)

/-- depth 0: there is no graph to use as a node -/
def emptySem {V} : SubSem V Empty := { i := fun s => s.elim, t := fun s => s.elim }

/-- Invoke / Transform of the graphs of depth `d` (mutually with the nodes that use them) -/
def graphSem {V} (co : ChunkOps V) (pref : Pref) (opsV : ValOps V) : (d : Nat) → SubSem V (Graph V d)
  | 0 =>
    { i := fun (g : GraphOf V Empty) => g.invoke co pref opsV emptySem,
      t := fun (g : GraphOf V Empty) => g.transform co pref opsV emptySem }
  | d + 1 =>
    { i := fun (g : GraphOf V (Graph V d)) => g.invoke co pref opsV (graphSem co pref opsV d),
      t := fun (g : GraphOf V (Graph V d)) => g.transform co pref opsV (graphSem co pref opsV d) }

/-- the four calls of the compiled graph, as compose builds them:
    Invoke = value-mode run; Transform = stream-mode run; Stream = `streamByTransform`;
    Collect = `collectByTransform`. -/
def invoke {V} (co : ChunkOps V) (pref : Pref) (opsV : ValOps V) {d : Nat} (g : Graph V d) (x : V) :
    Except Err V := (graphSem co pref opsV d).i g x

def transform {V} (co : ChunkOps V) (pref : Pref) (opsV : ValOps V) {d : Nat} (g : Graph V d) (xs : List V) :
    Except Err (List V) := (graphSem co pref opsV d).t g xs

def stream {V} (co : ChunkOps V) (pref : Pref) (opsV : ValOps V) {d : Nat} (g : Graph V d) (x : V) :
    Except Err (List V) := transform co pref opsV g [x]

def collect {V} (co : ChunkOps V) (pref : Pref) (opsV : ValOps V) {d : Nat} (g : Graph V d) (xs : List V) :
    Except Err V := transform co pref opsV g xs >>= concat co

/-- the two runners of a compiled graph of depth `d`:
    `invoke g x = (run opsV (valueRunner g) x).result`,
    `transform g xs = (run (opsS opsV.zero) (streamRunner g) xs).result` (both by `rfl` at every depth) -/
def valueRunner {V} (co : ChunkOps V) (pref : Pref) (opsV : ValOps V) : {d : Nat} → Graph V d → Runner V
  | 0, g => GraphOf.valueRunner co pref emptySem g
  | d + 1, g => GraphOf.valueRunner co pref (graphSem co pref opsV d) g

def streamRunner {V} (co : ChunkOps V) (pref : Pref) (opsV : ValOps V) : {d : Nat} → Graph V d → Runner (List V)
  | 0, g => GraphOf.streamRunner co pref emptySem g
  | d + 1, g => GraphOf.streamRunner co pref (graphSem co pref opsV d) g

end EinoV.C04

namespace EinoV.C04
open EinoV.Engine

/-! ### a shallower graph used where a deeper one is expected -/

def Kind.mapSub {V S S'} (f : S → S') : Kind V S → Kind V S'
  | .comp c => .comp c
  | .pass => .pass
  | .graph sub => .graph (f sub)

def GNode.mapSub {V S S'} (f : S → S') (n : GNode V S) : GNode V S' :=
  { key := n.key, kind := n.kind.mapSub f, writeTo := n.writeTo, controls := n.controls, branches := n.branches }

def GraphOf.mapSub {V S S'} (f : S → S') (g : GraphOf V S) : GraphOf V S' :=
  { nodes := g.nodes.map (GNode.mapSub f), start := g.start.mapSub f, dataPreds := g.dataPreds,
    ctrlPreds := g.ctrlPreds, maxSteps := g.maxSteps, dag := g.dag, eager := g.eager }

/-- a graph of nesting depth `d` is a graph of nesting depth `d + 1` -/
def Graph.lift {V} : (d : Nat) → Graph V d → Graph V (d + 1)
  | 0, g => GraphOf.mapSub (fun e => e.elim) g
  | d + 1, g => GraphOf.mapSub (Graph.lift d) g

end EinoV.C04

namespace EinoV.C04
open EinoV.Engine

/-! ### the side conditions of the agreement theorem (`Props/C04.lean`) -/

/-- a component the property speaks about: its chunker splits a value into at least one
    chunk and the chunks concatenate to the value ("however producers split their output"),
    and it natively implements at least one paradigm -/
structure Comp.Valid {V} (co : ChunkOps V) (c : Comp V) : Prop where
  chunkConcat : ∀ v, concat co (c.chunk v) = .ok v
  chunkNonempty : ∀ v, c.chunk v ≠ []
  native : (c.hasI || c.hasS || c.hasC || c.hasT) = true

def Kind.OK {V S} (co : ChunkOps V) (subOK : S → Prop) : Kind V S → Prop
  | .comp c => c.Valid co
  | .pass => True
  | .graph sub => subOK sub

/-- every node (and START) is a valid component, a pass-through or a graph that is itself OK -/
def GraphOf.OK {V S} (co : ChunkOps V) (subOK : S → Prop) (g : GraphOf V S) : Prop :=
  ∀ n, (n = g.start ∨ n ∈ g.nodes) → n.kind.OK co subOK

/-- the same at every nesting level -/
def Graph.OK {V} (co : ChunkOps V) : (d : Nat) → Graph V d → Prop
  | 0, g => GraphOf.OK co (fun _ => True) g
  | d + 1, g => GraphOf.OK co (Graph.OK co d) g

end EinoV.C04
