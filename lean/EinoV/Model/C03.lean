/-
  C03 — the taskManager hand-off protocol (compose/graph_manager.go:258-372) and the
  bookkeeping of `resolveCompletedTasks` (compose/graph_run.go:631-667).

  Part 1: the task manager as an atomic-step transition system.  A step is one critical
  section / channel operation of the Go code:

    submit ts   taskManager.submit (after the pre-processors): decide whether the first task
                is run inline, `num++` per task, start the goroutines
    finish t e  the deferred function of `executor`: Lock; l.PushBack(t); updateChan; Unlock;
                `e` = the execution ended with `task.err != nil` (a node error, a recovered
                panic, `InterruptAndRerun`, the interrupt of a nested graph)
    recv        waitOne: `num--; ta := <-t.done`
    refill      waitOne: Lock; updateChan; Unlock

  An execution that ended with an error is handed back by `waitOne` through the early return
  `if ta.err != nil { return ta, true }`.  For a plain node error the run ends there; for
  `InterruptAndRerun` and sub-graph interrupts the run loop *goes on collecting*
  (`tm.waitAll()`, compose/graph_run.go:303-311): the collection of an erroring-but-continuing
  execution is an ordinary `recv` of a task in `errs`, and whether the re-fill is also on that
  path is the source fact `refillOnErrorPath`.

  The statement order inside these functions, the capacity of `done` and the inline
  condition are *source facts* (`Facts`), regenerated from /repo on every run.

  Part 2: `resolveCompletedTasks` as a function from a batch of completed tasks to the
  channel writes (a map keyed by (to, from)) and the dependency lists.

  Part 3: a small batch engine over acyclic graphs built on part 2, used by the oracle as
  the order-free reference result for the black-box runs.
-/
namespace EinoV.C03

/-! ## Part 1: task manager -/

/-- one started node execution (an execution id, not a node key: a node that runs twice
    gives two tasks) -/
abbrev Task := Nat

/-- Source facts about compose/graph_manager.go. -/
structure Facts where
  /-- `waitOne` runs `Lock; updateChan; Unlock` after `<-t.done` on the path of a task
      without error (no return in between except under `if ta.err != nil`) -/
  waitOneRefills : Bool
  /-- the re-fill of `waitOne` also precedes the early return `if ta.err != nil { return }`
      (no return at all between the receive and the re-fill) -/
  refillOnErrorPath : Bool
  /-- `make(chan *task, N)` in `initTaskManager` -/
  doneCap : Nat
  /-- `executor`'s deferred function is `Lock; l.PushBack; updateChan; Unlock` in this order
      (false: the hand-off `updateChan` does not see the pushed task) -/
  pushUnderLock : Bool
  /-- `submit` runs the first task inline iff `num == 0 && (len(tasks) == 1 || needAll)` -/
  firstTaskInline : Bool
  /-- the inlined task is removed from the slice that is spawned (`tasks = tasks[1:]`) -/
  inlineRemovesFirst : Bool
  deriving Repr, DecidableEq

/-- where the run-loop goroutine (the only caller of submit / wait) is -/
inductive Coll where
  /-- outside `submit` / `waitOne` critical windows -/
  | idle
  /-- inside `submit`, running task `t` synchronously -/
  | inline (t : Task)
  /-- inside `waitOne`, between `<-t.done` and the re-fill -/
  | window
  deriving Repr, DecidableEq

structure St where
  /-- executions started and not yet pushed -/
  running : List Task
  /-- `taskManager.l`: finished, queued behind the channel -/
  l : List Task
  /-- buffer of `taskManager.done` (at most `doneCap` entries) -/
  ch : List Task
  /-- `taskManager.num` -/
  num : Nat
  coll : Coll
  /-- what `waitOne` returned so far, in order -/
  got : List Task
  /-- ghost: everything handed to `submit` so far -/
  submitted : List Task
  /-- executions that finished with `task.err != nil` (set at `finish`) -/
  errs : List Task
  deriving Repr, DecidableEq

def St.init : St := ⟨[], [], [], 0, .idle, [], [], []⟩

/-- `updateChan`: move heads of `l` into the channel while there is room. -/
def updateChan (cap : Nat) (l ch : List Task) : List Task × List Task :=
  let k := cap - ch.length
  (l.drop k, ch ++ l.take k)

inductive Ev where
  | submit (ts : List Task)
  | finish (t : Task) (err : Bool)
  | recv
  | refill
  deriving Repr, DecidableEq

def Ev.isSubmit : Ev → Bool
  | .submit _ => true
  | _ => false

/-- does `submit ts` run its first task inline in state `s`? -/
def inlines (F : Facts) (needAll : Bool) (s : St) (ts : List Task) : Bool :=
  F.firstTaskInline && s.num == 0 && (ts.length == 1 || needAll)

/-- One step; `none` = the event is not enabled in `s`. -/
def step (F : Facts) (needAll : Bool) (s : St) : Ev → Option St
  | .submit ts =>
    if s.coll ≠ .idle then none else
    match ts with
    | [] => some s
    | t :: rest =>
      let inl := inlines F needAll s (t :: rest)
      -- goroutines started by the `for` loop, then the synchronous one
      let started :=
        if inl then (if F.inlineRemovesFirst then rest else t :: rest) ++ [t] else t :: rest
      some { s with running := s.running ++ started
                    num := s.num + started.length
                    coll := if inl then .inline t else .idle
                    submitted := s.submitted ++ (t :: rest) }
  | .finish t err =>
    if s.running.contains t then
      let p := if F.pushUnderLock then updateChan F.doneCap (s.l ++ [t]) s.ch
               else let q := updateChan F.doneCap s.l s.ch; (q.1 ++ [t], q.2)
      some { s with running := s.running.erase t
                    l := p.1
                    ch := p.2
                    coll := if s.coll = .inline t then .idle else s.coll
                    errs := if err then t :: s.errs else s.errs }
    else none
  | .recv =>
    if s.coll ≠ .idle then none else
    if s.num = 0 then none else
    match s.ch with
    | [] => none
    | t :: ch' =>
      some { s with num := s.num - 1
                    ch := ch'
                    got := s.got ++ [t]
                    -- `if ta.err != nil { return ta, true }`: before or after the re-fill
                    coll := if F.waitOneRefills && (F.refillOnErrorPath || !s.errs.contains t)
                            then .window else .idle }
  | .refill =>
    if s.coll = .window then
      let p := updateChan F.doneCap s.l s.ch
      some { s with l := p.1, ch := p.2, coll := .idle }
    else none

/-- run a schedule; `none` as soon as an event is not enabled -/
def run (F : Facts) (needAll : Bool) : St → List Ev → Option St
  | s, [] => some s
  | s, e :: es => match step F needAll s e with
    | some s' => run F needAll s' es
    | none => none

/-- states reachable from the initial task manager by any schedule -/
def Reachable (F : Facts) (needAll : Bool) (s : St) : Prop :=
  ∃ evs, run F needAll St.init evs = some s

/-- the facts the protocol is correct for -/
def Facts.Good (F : Facts) : Prop :=
  F.waitOneRefills = true ∧ F.pushUnderLock = true ∧ F.inlineRemovesFirst = true ∧ 1 ≤ F.doneCap ∧
  F.refillOnErrorPath = true

instance (F : Facts) : Decidable F.Good := by unfold Facts.Good; exact inferInstance

/-- the protocol invariant -/
structure Inv (F : Facts) (s : St) : Prop where
  count : s.num = s.running.length + s.l.length + s.ch.length
  cap : s.ch.length ≤ F.doneCap
  handoff : s.coll ≠ .window → s.l ≠ [] → s.ch.length = F.doneCap
  conserve : (s.got ++ (s.ch ++ s.l) ++ s.running).Perm s.submitted
  inl : ∀ t, s.coll = .inline t → t ∈ s.running

/-- termination measure of the collector loop -/
def measure (s : St) : Nat :=
  2 * s.num + (if s.coll = .window then 1 else 0) + s.running.length

/-! ## Part 2: resolveCompletedTasks -/

abbrev Key := String

/-- what `resolveCompletedTasks` reads of one completed task -/
structure CTask (V : Type) where
  /-- `t.nodeKey` -/
  key : Key
  /-- `t.call.controls` -/
  controls : List Key
  /-- `t.call.writeTo` -/
  writeTo : List Key
  /-- result of `calculateBranch` (selected successors; a function of this task only) -/
  branchSel : List Key
  /-- `t.output` (every successor gets its own copy) -/
  out : V

/-- a cell of `writeChannelValues`: (to, from) -/
abbrev Cell := Key × Key

/-- `writeChannelValues[next][t.nodeKey] = vs[i]` for `next` in `nextNodeKeys` -/
def taskWrites {V} (t : CTask V) : List (Cell × V) :=
  (t.branchSel ++ t.writeTo).map fun n => ((n, t.key), t.out)

/-- `newDependencies[key] = append(newDependencies[key], t.nodeKey)`: controls, then branch -/
def taskDeps {V} (t : CTask V) : List (Key × Key) :=
  (t.controls ++ t.branchSel).map fun k => (k, t.key)

/-- all map assignments of the loop over the batch, in program order -/
def resolveWrites {V} (b : List (CTask V)) : List (Cell × V) := b.flatMap taskWrites

def resolveDeps {V} (b : List (CTask V)) : List (Key × Key) := b.flatMap taskDeps

/-- value of a Go map after a sequence of assignments: the last one wins -/
def lookupLast {K V} [DecidableEq K] (c : K) : List (K × V) → Option V
  | [] => none
  | (k, v) :: r =>
    match lookupLast c r with
    | some x => some x
    | none => if k = c then some v else none

/-- `writeChannelValues[to][from]` -/
def cellOf {V} (b : List (CTask V)) (to frm : Key) : Option V :=
  lookupLast (to, frm) (resolveWrites b)

/-- `newDependencies[k]` -/
def depsOf {V} (b : List (CTask V)) (k : Key) : List Key :=
  ((resolveDeps b).filter (fun p => p.1 == k)).map (·.2)

/-- how `dagChannel.reportDependencies` consumes a dependency list: as a set -/
def dagReady (ctrlPreds : List Key) (deps : List Key) : Bool :=
  ctrlPreds.all fun p => deps.contains p

/-! ## Part 3: a batch engine over acyclic graphs (reference result for the oracle) -/

structure GNode where
  key : Key
  preds : List Key
  deriving Repr

structure GCase where
  /-- every node, any order -/
  nodes : List GNode
  /-- predecessors of END -/
  endPreds : List Key
  input : String
  deriving Repr

def startKey : Key := "start"
def endKey : Key := "end"

/-- the deterministic node body both sides use: `key(p1=v1,p2=v2)` over the inputs in the
    order of `preds` (the harness lists them sorted) -/
def bodyOut (key : Key) (ins : List (Key × String)) : String :=
  key ++ "(" ++ ",".intercalate (ins.map fun p => p.1 ++ "=" ++ p.2) ++ ")"

def succsOf (g : GCase) (k : Key) : List Key :=
  (g.nodes.filter (fun n => n.preds.contains k)).map (·.key)
    ++ (if g.endPreds.contains k then [endKey] else [])

structure GState where
  cells : List (Cell × String)
  done : List Key
  execs : List Key

def mkTask (g : GCase) (key : Key) (out : String) : CTask String :=
  { key := key, controls := succsOf g key, writeTo := succsOf g key, branchSel := [], out := out }

/-- nodes whose predecessors have all completed and that have not run yet -/
def readyNodes (g : GCase) (st : GState) : List GNode :=
  g.nodes.filter fun n => !st.done.contains n.key && n.preds.all st.done.contains

def inputsOf (st : GState) (n : GNode) : List (Key × String) :=
  n.preds.filterMap fun p => (lookupLast (n.key, p) st.cells).map fun v => (p, v)

/-- one superstep: run every ready node, resolve the batch, write the channels -/
def gStep (g : GCase) (st : GState) : GState :=
  let batch := (readyNodes g st).map fun n => mkTask g n.key (bodyOut n.key (inputsOf st n))
  { cells := st.cells ++ resolveWrites batch
    done := st.done ++ batch.map (·.key)
    execs := st.execs ++ batch.map (·.key) }

/-- END has received everything it waits for -/
def endReady (g : GCase) (st : GState) : Bool := g.endPreds.all st.done.contains

/-- supersteps until END is ready (the run returns) or nothing is ready -/
def gLoop (g : GCase) : Nat → GState → GState
  | 0, st => st
  | n + 1, st =>
    if endReady g st || (readyNodes g st).isEmpty then st else gLoop g n (gStep g st)

def gInit (g : GCase) : GState :=
  { cells := resolveWrites [mkTask g startKey g.input], done := [startKey], execs := [] }

def gRun (g : GCase) : GState := gLoop g (g.nodes.length + 1) (gInit g)

/-- the supersteps of a batch run, in order: the nodes submitted together in each -/
def gBatchesLoop (g : GCase) : Nat → GState → List (List Key)
  | 0, _ => []
  | n + 1, st =>
    if endReady g st || (readyNodes g st).isEmpty then []
    else (readyNodes g st).map (·.key) :: gBatchesLoop g n (gStep g st)

def gBatches (g : GCase) : List (List Key) := gBatchesLoop g (g.nodes.length + 1) (gInit g)

/-- the value END receives: one entry per END predecessor -/
def gResult (g : GCase) : List (Key × String) :=
  let st := gRun g
  g.endPreds.filterMap fun p => (lookupLast (endKey, p) st.cells).map fun v => (p, v)

/-- fixpoint of "has a path to END" over at most `fuel` rounds -/
def feedsEnd (g : GCase) : Nat → List Key → List Key
  | 0, acc => acc
  | n + 1, acc =>
    let more := (g.nodes.filter fun m =>
      !acc.contains m.key && (succsOf g m.key).any acc.contains).map (·.key)
    if more.isEmpty then acc else feedsEnd g n (acc ++ more)

/-! ## Part 4: eager execution (Workflow) over the same graphs

  `wait` hands back one completion at a time; its successors are submitted at once; the run
  returns as soon as END is ready.  `order` is the completion priority (a schedule): at every
  step the first started, not yet collected node of `order` is the one that completes. -/

structure EState where
  cells : List (Cell × String)
  /-- collected (completion resolved) -/
  done : List Key
  /-- submitted to the task manager -/
  started : List Key

def eEndReady (g : GCase) (st : EState) : Bool := g.endPreds.all st.done.contains

/-- nodes to submit: not started yet, every predecessor collected -/
def eReady (g : GCase) (st : EState) : List Key :=
  (g.nodes.filter fun n => !st.started.contains n.key && n.preds.all st.done.contains).map (·.key)

def eInputs (st : EState) (n : GNode) : List (Key × String) :=
  n.preds.filterMap fun p => (lookupLast (n.key, p) st.cells).map fun v => (p, v)

/-- collect the completion of `k`, resolve it, submit what became ready -/
def eCollect (g : GCase) (st : EState) (k : Key) : EState :=
  let out := match g.nodes.find? (fun n => n.key == k) with
    | some n => bodyOut k (eInputs st n)
    | none => ""
  let st1 : EState :=
    { st with cells := st.cells ++ resolveWrites [mkTask g k out], done := st.done ++ [k] }
  { st1 with started := st1.started ++ eReady g st1 }

def eNext (order : List Key) (st : EState) : Option Key :=
  order.find? fun k => st.started.contains k && !st.done.contains k

def eLoop (g : GCase) (order : List Key) : Nat → EState → EState
  | 0, st => st
  | n + 1, st =>
    if eEndReady g st then st else
    match eNext order st with
    | none => st
    | some k => eLoop g order n (eCollect g st k)

def eInit (g : GCase) : EState :=
  let st0 : EState :=
    { cells := resolveWrites [mkTask g startKey g.input], done := [startKey], started := [startKey] }
  { st0 with started := st0.started ++ eReady g st0 }

def eRun (g : GCase) (order : List Key) : EState := eLoop g order (g.nodes.length + 1) (eInit g)

/-- started executions that were never collected when the run returned -/
def eUncollected (st : EState) : List Key := st.started.filter fun k => !st.done.contains k

def eResult (g : GCase) (st : EState) : List (Key × String) :=
  g.endPreds.filterMap fun p => (lookupLast (endKey, p) st.cells).map fun v => (p, v)

/-- `k` has a path to END -/
inductive Reaches (g : GCase) : Key → Prop where
  | direct {k : Key} : k ∈ g.endPreds → Reaches g k
  | via {k : Key} {n : GNode} : n ∈ g.nodes → k ∈ n.preds → Reaches g n.key → Reaches g k

end EinoV.C03
