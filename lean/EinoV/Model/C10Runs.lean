/-
  C10 — which execution units a run of a small graph has, and how each of them ends, when
  some node executions or tool calls *interrupt* (return `compose.InterruptAndRerun`, or an
  error wrapping it) on their first execution, and the run is then resumed from the
  checkpoint.  (compose/graph_run.go: `resolveInterruptCompletedTasks`,
  `handleInterruptWithSubGraphAndRerunNodes`, `restoreTasks`; compose/tool_node.go.)

  Shape family (the one the harness builds): the called graph is
      START → n₁ ∥ … ∥ n_k → join → END
  where a node is a lambda (native paradigm i/s/c/t, possibly firing its own callbacks), a
  ToolsNode with some tools (invokable / streamable / both, possibly `IsCallbacksEnabled`),
  or a nested graph of the same form one level deep.

  * first run: every node of the layer executes; a node that interrupts ends with the
    interrupt outcome; a ToolsNode one of whose tool calls interrupts, and a nested graph one
    of whose nodes interrupts, end with the interrupt outcome too (the error they return wraps
    the interrupt); `join` runs iff nothing of its layer interrupted; the graph ends with an
    error (the interrupt error) iff something interrupted.
  * resumed run: exactly the interrupted nodes execute again (a ToolsNode repeats all its tool
    calls, a nested graph resumes its own interrupted nodes), nothing interrupts, `join` runs.

  The result is a list of `UnitSpec`s (Model/C10.lean), i.e. for each unit its path, its own
  RunInfo and how it issues callbacks; the unit machine does the rest.
-/
import EinoV.Model.C10

namespace EinoV.C10

/-- native paradigm of a lambda: invoke, stream, collect, transform -/
inductive LK where
  | i | s | c | t
  deriving DecidableEq, Repr

def LK.inStream : LK → Bool
  | .c => true | .t => true | _ => false
def LK.outStream : LK → Bool
  | .s => true | .t => true | _ => false
def LK.name : LK → String
  | .i => "i" | .s => "s" | .c => "c" | .t => "t"

structure ToolD where
  key : String
  /-- implements `InvokableTool` -/
  hasInv : Bool
  /-- implements `StreamableTool` -/
  hasStr : Bool
  /-- `IsCallbacksEnabled() = true`: fires `callbacks.OnStart` / `OnEnd` / `OnEndWithStreamOutput` /
      `OnError` itself -/
  cb : Bool
  /-- interrupts on its first execution -/
  intr : Bool
  deriving Repr

inductive InnerD where
  /-- `self`: the lambda is declared with `WithLambdaCallbackEnable(true)` and fires its own callbacks -/
  | lam (key : String) (lk : LK) (self : Bool) (intr : Bool)
  | tools (key : String) (ts : List ToolD)
  deriving Repr

inductive TopD where
  | inner (n : InnerD)
  | sub (key : String) (ns : List InnerD)
  deriving Repr

structure Shape where
  /-- the graph is run with `Stream` (else `Invoke`) -/
  stream : Bool
  nodes : List TopD
  deriving Repr

def InnerD.interrupts : InnerD → Bool
  | .lam _ _ _ intr => intr
  | .tools _ ts => ts.any (·.intr)

def TopD.interrupts : TopD → Bool
  | .inner n => n.interrupts
  | .sub _ ns => ns.any (·.interrupts)

def Shape.interrupts (sh : Shape) : Bool := sh.nodes.any (·.interrupts)

/-! ## run infos of the family (`WithNodeName("n:" + path)`, `WithLambdaType("L" + lk)`,
    `GetType() = "T" + tool name`, `WithGraphName("G")`) -/

def renderInfo (name type comp : String) : String := name ++ "|" ++ type ++ "|" ++ comp
def nodeName (path : List String) : String := "n:" ++ "/".intercalate path
def rootInfo : String := renderInfo "G" "" "Graph"
def lamInfo (path : List String) (type : String) : String := renderInfo (nodeName path) type "Lambda"
def toolsInfo (path : List String) : String := renderInfo (nodeName path) "" "ToolsNode"
def subInfo (path : List String) : String := renderInfo (nodeName path) "" "Graph"
/-- a tool call's own RunInfo: `Name: task.name, Type: meta.componentImplType, Component: Tool` -/
def toolInfo (t : ToolD) : String := renderInfo t.key ("T" ++ t.key) "Tool"

/-! ## how each unit ends -/

/-- which of the tool's functions the ToolsNode ends up calling (runnablePacker preference):
    `Invoke` uses the invokable if there is one, `Stream` the streamable if there is one -/
def ToolD.usesStream (t : ToolD) (stream : Bool) : Bool := if stream then t.hasStr else !t.hasInv

/-- `act`: this execution interrupts -/
def ToolD.kind (t : ToolD) (stream act : Bool) : UKind :=
  if t.cb then
    .self [Timing.start, if act then Timing.error else if t.usesStream stream then Timing.endStream else Timing.end_]
  else
    .wrapped false (if act then .intr else if t.usesStream stream then .okStream else .ok)

def lamKind (lk : LK) (self act : Bool) : UKind :=
  if self then .self [Timing.start, if act then Timing.error else Timing.end_]
  else .wrapped lk.inStream (if act then .intr else if lk.outStream then .okStream else .ok)

/-- `first`: the first run (everything executes for the first time) / the resumed run -/
def innerUnits (stream first : Bool) (pre : List String) : InnerD → List UnitSpec
  | .lam key lk self intr =>
    [⟨pre ++ [key], false, lamInfo (pre ++ [key]) (if self then "Lself" else "L" ++ lk.name),
      lamKind lk self (first && intr), self⟩]
  | .tools key ts =>
    ⟨pre ++ [key], false, toolsInfo (pre ++ [key]),
      .wrapped false (if first && ts.any (·.intr) then .intr else if stream then .okStream else .ok), false⟩ ::
    ts.map (fun t => ⟨pre ++ [key, t.key], true, toolInfo t, t.kind stream (first && t.intr), t.cb⟩)

def joinUnit (pre : List String) : UnitSpec :=
  ⟨pre ++ ["join"], false, lamInfo (pre ++ ["join"]) "Li", .wrapped false .ok, false⟩

/-- the units of one layer `START → ns → join → END` below `pre` -/
def levelUnits (stream first : Bool) (pre : List String) (ns : List InnerD) : List UnitSpec :=
  (ns.filter (fun n => first || n.interrupts)).flatMap (innerUnits stream first pre) ++
  (if first && ns.any (·.interrupts) then [] else [joinUnit pre])

def topUnits (stream first : Bool) : TopD → List UnitSpec
  | .inner n => innerUnits stream first [] n
  | .sub key ns =>
    ⟨[key], false, subInfo [key], .graph stream (if first && ns.any (·.interrupts) then .lateErr else .ok), true⟩ ::
    levelUnits stream first [key] ns

/-- all units of the first (`first = true`) / the resumed run, the called graph first -/
def runUnits (sh : Shape) (first : Bool) : List UnitSpec :=
  ⟨[], false, rootInfo, .graph sh.stream (if first && sh.interrupts then .lateErr else .ok), true⟩ ::
  ((sh.nodes.filter (fun n => first || n.interrupts)).flatMap (topUnits sh.stream first) ++
   (if first && sh.interrupts then [] else [joinUnit []]))

/-- the unit ends with an error callback (it interrupted, contains something that did, or failed) -/
def UKind.isInterrupt : UKind → Bool
  | .wrapped _ .intr => true
  | .wrapped _ .err => true
  | .graph _ .lateErr => true
  | .graph _ .earlyErr => true
  | .self own => own.contains Timing.error
  | _ => false

/-- how many runs the scenario has: the first one, and the resumed one if something interrupted -/
def Shape.runs (sh : Shape) : List Bool := if sh.interrupts then [true, false] else [true]

/-! ## a resume whose restore is refused

    The resumed call loads the checkpoint and then fails while restoring it — here: the caller's
    `WithStateModifier` returns an error for the path of the called graph (`top`) or of a nested
    graph that interrupted (`sub key`).  `runner.run` returns from inside the restore, before the
    place where the body calls `onGraphStart`: that is the `earlyErr` return path of the graph
    unit (the deferred block fires the start callback, then the error callback).  Nothing below
    that graph runs; for `sub` the other interrupted nodes of the top layer run again next to it,
    the called graph fails with the node's error and `join` does not run. -/
inductive ResumeFail where
  | top
  | sub (key : String)
  deriving Repr, DecidableEq

def failedResumeUnits (sh : Shape) : ResumeFail → List UnitSpec
  | .top => [⟨[], false, rootInfo, .graph sh.stream .earlyErr, true⟩]
  | .sub key =>
    ⟨[], false, rootInfo, .graph sh.stream .lateErr, true⟩ ::
    (sh.nodes.filter (·.interrupts)).flatMap fun n =>
      match n with
      | .sub k ns =>
        if k == key then [⟨[k], false, subInfo [k], .graph sh.stream .earlyErr, true⟩]
        else topUnits sh.stream false (.sub k ns)
      | .inner m => topUnits sh.stream false (.inner m)

/-- The callbacks of a graph execution that fails while a checkpoint is being restored.
    `startedBefore`: the failing step lies after a place where the body calls `onGraphStart`.
    `flagSet` (source fact `startSetsFlag`): every `onGraphStart` of the body is followed at once by
    `haveOnStart = true`, so the deferred block (`if !haveOnStart { onGraphStart }`) knows. -/
def restoreFailCalls (flagSet hasDefer deferStarts isStream startedBefore : Bool) : List Timing :=
  let body : List Timing × Bool := if startedBefore then ([startT isStream], flagSet) else ([], false)
  body.1 ++ (if hasDefer then (if !body.2 && deferStarts then [startT isStream] else []) ++ [Timing.error] else [])

end EinoV.C10
