/-
  Additions to the prelude for the translated `extractOption` (Gen/TransC16.lean; gotrans phase 6).
  Core Lean only.

  * `reflect.Type` is an opaque, nil-able, comparable type: `GoType = Option Nat` — `none` is the nil Type
    (also what `reflect.TypeOf` returns for a nil interface value), `some t` the identity of a type descriptor.
    Package reflect documents that `==` on Type values is type identity; nothing else about types is used.
  * an element of a `[]any` is a value of the abstract type `V`; where the code stores an `Option` struct in
    a `[]any` the translation wraps it with the external `anyOfOption` (generated in the unit).
-/
import EinoV.Model.GoSemTab
namespace EinoV.GoSem

/-- `reflect.Type`: nil, or the identity of a type -/
abbrev GoType := Option Nat

end EinoV.GoSem
