/-
  C12 — the type registry as a state machine (`GenericRegister`,
  internal/serialization/serialization.go; `compose.RegisterSerializableType` forwards to it).

  The registry is process-global and filled by a SEQUENCE of calls `GenericRegister[T](key)`
  (init functions of several packages, user code, tests).  `Model/C12.lean` reads a registry
  through `Ctx.reg` (`tyOfKey` = `m[key]`, `keyOf` = `rm[t]`, first match); here the list is
  the log of the accepted registrations, NEWEST FIRST, so that "first match" is exactly what
  two Go maps give after `m[key] = t; rm[t] = key` (a later store under the same key / for the
  same type overwrites the earlier one).  With the three guards of the source in place nothing
  is ever overwritten and the order does not matter.

  `regStep` mirrors the body of `GenericRegister`:
      t := T with its pointers stripped
      if key == ""          { return error }     -- guard `emptyKey`
      if _, ok := m[key]; ok { return error }     -- guard `keyTaken`
      if _, ok := rm[t]; ok  { return error }     -- guard `typeTaken`
      m[key] = t; rm[t] = key; return nil
  Which guards are present is a source fact (`RegFacts`, tools/factgen/c12.go
  `registerGuards`); with a guard missing the model describes the tree without it (negation
  witnesses in Props/C12.lean).
-/
import EinoV.Model.C12

namespace EinoV.C12

/-- the registry: accepted registrations (key, type), newest first -/
abbrev Reg := List (Name × GoTy)

/-- which of the three guards `GenericRegister` has (source facts) -/
structure RegFacts where
  rejectsEmptyKey : Bool
  rejectsTakenKey : Bool
  rejectsTakenType : Bool
  deriving DecidableEq, Repr

/-- what one call returns: `nil`, or the error of the guard that fired -/
inductive RegOutcome where
  | accepted
  | emptyKey
  | keyTaken
  | typeTaken
  deriving DecidableEq, Repr

/-- one call `GenericRegister[ty](key)` -/
structure RegOp where
  key : Name
  ty : GoTy
  deriving DecidableEq, Repr

/-- `_, ok := m[key]` -/
def Reg.hasKey (r : Reg) (k : Name) : Bool := r.any (fun e => e.1 == k)
/-- `_, ok := rm[t]` -/
def Reg.hasTy (r : Reg) (t : GoTy) : Bool := r.any (fun e => e.2 == t)

/-- one call of `GenericRegister` -/
def regStep (RF : RegFacts) (r : Reg) (op : RegOp) : RegOutcome × Reg :=
  if RF.rejectsEmptyKey && op.key == "" then (.emptyKey, r)
  else if RF.rejectsTakenKey && r.hasKey op.key then (.keyTaken, r)
  else if RF.rejectsTakenType && r.hasTy op.ty.strip then (.typeTaken, r)
  else (.accepted, (op.key, op.ty.strip) :: r)

/-- the registry after a sequence of calls -/
def regAfter (RF : RegFacts) : Reg → List RegOp → Reg
  | r, [] => r
  | r, op :: ops => regAfter RF (regStep RF r op).2 ops

/-- what the calls of a sequence returned, in order -/
def regOutcomes (RF : RegFacts) : Reg → List RegOp → List RegOutcome
  | _, [] => []
  | r, op :: ops => (regStep RF r op).1 :: regOutcomes RF (regStep RF r op).2 ops

/-- the context after a sequence of `GenericRegister` calls (struct declarations are Go
    source, they do not change) -/
def Ctx.after (RF : RegFacts) (ctx : Ctx) (ops : List RegOp) : Ctx :=
  { ctx with reg := regAfter RF ctx.reg ops }

/-- the registry half of `Ctx.ok` -/
def regOK (r : Reg) : Bool :=
  r.all (fun e => e.1 != "" && (r.find? (fun x => x.1 == e.1)).map (·.2) == some e.2
                  && (r.find? (fun x => x.2 == e.2)).map (·.1) == some e.1)

/-- the call repeats a registration that is in force: the same (pointer-stripped) type under
    the same key.  The code answers it with the `keyTaken` error and changes nothing; the
    property does not care whether such a call reports an error or not. -/
def Reg.samePair (r : Reg) (op : RegOp) : Bool :=
  (r.find? (fun e => e.1 == op.key)).map (·.2) == some op.ty.strip
  && (r.find? (fun e => e.2 == op.ty.strip)).map (·.1) == some op.key

end EinoV.C12
