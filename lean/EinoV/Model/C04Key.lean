/-
  What reaches a node added with `WithInputKey(k)` (compose/runnable.go `inputKeyedComposableRunnable`,
  compose/generic_helper.go `defaultStreamMapFilter`), for every shape the value under `k` can have
  in the producer's `map[string]any`: absent, an untyped nil, a value of another type, a value of
  the node's input type.

  Value mode: `input[k]` is looked up (absent: the "cannot find input key" error) and handed to the
  node, whose typed wrapper refuses a nil / wrongly typed `any` ("unexpected input type": a panic
  of the call wrapper, recovered by the task executor and returned as the node's error).
  Stream mode: the producer's stream is converted chunk-wise: a chunk without the key is dropped
  (`ErrNoValue`), a chunk whose value has the node's type yields that value, and a chunk whose value
  is nil or of another type yields an ERROR ITEM — provided the conversion function can describe the
  offending value without dereferencing a nil `reflect.Type` (source fact `streamFilterNilSafe`);
  without that guard `Recv` itself panics in whatever goroutine reads the stream (`panicsAt`).
-/
import EinoV.Model.C04Lazy
namespace EinoV.C04
open EinoV.Engine

/-- the value found under the input key in one chunk / in the whole map -/
inductive KVal (V : Type) where
  | absent
  | nilVal
  | wrong
  | good (v : V)
  deriving Repr

def errNoKey : Err := { cls := .user 9997 }       -- "cannot find input key"
def errKeyType : Err := { cls := .user 9995 }     -- value under the key has not the node's input type

/-- value mode: `inputKeyedComposableRunnable.i` followed by the node's typed call wrapper -/
def keyValue {V} : KVal V → Except Err V
  | .absent => .error errNoKey
  | .nilVal => .error errKeyType
  | .wrong => .error errKeyType
  | .good v => .ok v

/-- stream mode with a nil-safe conversion function: `StreamReaderWithConvert` of
    `defaultStreamMapFilter` — drop, forward, or an error item (what a draining reader sees up to
    the first error item) -/
def keyStream {V} : List (KVal V) → LStream V
  | [] => { chunks := [] }
  | .absent :: rest => keyStream rest
  | .good v :: rest => let s := keyStream rest; { s with chunks := v :: s.chunks }
  | .nilVal :: _ => { chunks := [], err := some errKeyType }
  | .wrong :: _ => { chunks := [], err := some errKeyType }

/-- does `Recv` on the converted stream panic (in the reader's goroutine) instead of returning an
    item?  Only when the conversion function is not nil-safe and some chunk carries an untyped nil
    before any wrongly typed value ends the stream. -/
def panicsAt {V} (nilSafe : Bool) : List (KVal V) → Bool
  | [] => false
  | .absent :: rest => panicsAt nilSafe rest
  | .good _ :: rest => panicsAt nilSafe rest
  | .nilVal :: _ => !nilSafe
  | .wrong :: _ => false

end EinoV.C04
