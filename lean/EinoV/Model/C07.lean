/-
  C07 — run-time side of the type story: what happens to a value of a given *dynamic* type
  on its way through a compiled graph (compose/graph_manager.go edge / pre-branch handlers =
  the converters installed on "may" connections, generic_helper.go defaultValueChecker;
  compose/runnable.go and branch.go: the `input.(T)` assertions that panic;
  runnable.go toGenericRunnable: the final `out.(O)`).

  The builder side (Add*, type inference, compile) is EinoV/Model/C20Builder.lean.
  Values are abstracted to their dynamic type, always a concrete type (`Dyn` = its id; nil
  interface values are outside the model).  Node bodies are parameters: an arbitrary function
  from the input's dynamic type to the output's.  Core Lean only.
-/
import EinoV.Model.C20Builder

namespace EinoV.C07
open EinoV.Build

abbrev Dyn := Nat

/-- Go assignability of a value with dynamic concrete type `d` to static type `t`
    (`v.(T)` succeeds) -/
def dynOk (im : Impl) (d : Dyn) : Ty → Bool
  | .conc c => c == d
  | t => implements im (.conc d) t

inductive RunRes where
  | ok
  | typeErr      -- ordinary error from a run-time type check (converter on a "may" connection)
  | panic        -- a type assertion failed: `unexpected input type`
  | steps        -- step limit exceeded
  | stuck        -- no task left and END not reached ("no tasks to execute")
  | merge        -- two values reached one node in the same superstep (fan-in merge: not modelled)
  | badPick      -- a branch condition returned a node that is not one of its end nodes (ordinary error)
  deriving DecidableEq, Repr, Inhabited

def _root_.EinoV.Build.Runner.node (r : Runner) (k : Key) : Option Node := findNode r.nodes k

/-- declared input type of a node of the runner (`g.getNodeInputType`) -/
def _root_.EinoV.Build.Runner.inOf (r : Runner) (k : Key) : Option Ty :=
  if k = START then some r.inT else if k = END then some r.outT else
  match findNode r.nodes k with
  | some n => n.inTy
  | none => none

/-- declared output type (`g.getNodeOutputType`) -/
def _root_.EinoV.Build.Runner.outOf (r : Runner) (k : Key) : Option Ty :=
  if k = START then some r.inT else if k = END then some r.outT else
  match findNode r.nodes k with
  | some n => n.outTy
  | none => none

def _root_.EinoV.Build.Runner.isPassthrough (r : Runner) (k : Key) : Bool :=
  match r.node k with
  | some n => n.passthrough
  | none => false

/-- user code: what a node returns for an input, which end a branch picks -/
structure Code where
  body : Key → Dyn → Dyn
  pick : Key → Nat → Dyn → Key     -- (branch start, index among all branches, value) ↦ chosen end

inductive Ev where
  | pass | typeErr | panic | badPick
  deriving DecidableEq, Repr

/-- the converter installed on the data connection `a → b` (if any) checks a value of
    dynamic type `d`: generic_helper.go defaultValueChecker, an ordinary error -/
def convert (im : Impl) (r : Runner) (a b : Key) (d : Dyn) : Ev :=
  match r.inOf b with
  | none => .pass
  | some t => if r.mayEdges.contains (a, b) && !dynOk im d t then .typeErr else .pass

/-- the assertion at the receiving side – the node's `input.(I)` (also what its state
    pre-handler asserts), or the final `out.(O)` for END; a pass-through node asserts nothing -/
def assertIn (im : Impl) (r : Runner) (b : Key) (d : Dyn) : Ev :=
  match r.inOf b with
  | none => .pass
  | some t => if r.isPassthrough b then .pass else if !dynOk im d t then .panic else .pass

/-- the value leaving a node reaches the condition of a branch (input type `t`, converter
    installed iff `conv`): converter first, then the branch's `input.(T)` -/
def arriveBranch (im : Impl) (t : Ty) (conv : Bool) (d : Dyn) : Ev :=
  if conv && !dynOk im d t then .typeErr
  else if !dynOk im d t then .panic
  else .pass

structure Delivery where
  src : Key
  dst : Key
  d : Dyn
  deriving DecidableEq, Repr

def zipIdx {α : Type} : List α → Nat → List (Nat × α)
  | [], _ => []
  | x :: xs, i => (i, x) :: zipIdx xs (i + 1)

/-- branches of the runner with their global index and converter flag -/
def _root_.EinoV.Build.Runner.branchTable (r : Runner) : List (Nat × BranchRec × Bool) :=
  (zipIdx (r.branches.zip (r.preBranch.map (·.2))) 0).map (fun p => (p.1, p.2.1, p.2.2))

/-- everything that happens once node `k` (or START) has produced a value of dynamic type
    `d`: its branch conditions are evaluated, the value is handed to the data successors
    through the edge converters -/
def emit (im : Impl) (r : Runner) (c : Code) (k : Key) (d : Dyn) : List Ev × List Delivery :=
  let es := (r.dataEdges.filter (·.1 = k)).map (fun e => ({ src := k, dst := e.2, d } : Delivery))
  let bs := r.branchTable.filter (fun p => p.2.1.src = k)
  let bevs := bs.map (fun p =>
    match arriveBranch im p.2.1.inTy p.2.2 d with
    | .pass => if p.2.1.ends.contains (c.pick k p.1 d) then .pass else .badPick
    | e => e)
  let bd := bs.filterMap (fun p =>
    if p.2.1.noData then none else some ({ src := k, dst := c.pick k p.1 d, d } : Delivery))
  let ds := es ++ bd
  (bevs ++ ds.map (fun dl => convert im r dl.src dl.dst dl.d), ds)

def worst : List Ev → Ev
  | [] => .pass
  | .panic :: _ => .panic
  | .typeErr :: es => (match worst es with | .panic => .panic | _ => .typeErr)
  | .badPick :: es => (match worst es with | .pass => .badPick | e => e)
  | .pass :: es => worst es

/-- one task: the node asserts its input, runs, and emits -/
def task (im : Impl) (r : Runner) (c : Code) (dl : Delivery) : List Ev × List Delivery :=
  match assertIn im r dl.dst dl.d with
  | .pass =>
    -- START / END are not nodes: no body runs there (END is settled before it could be a task)
    let out := if r.isPassthrough dl.dst || dl.dst = START || dl.dst = END then dl.d else c.body dl.dst dl.d
    emit im r c dl.dst out
  | e => ([e], [])

/-- one superstep: all tasks of the level -/
def level (im : Impl) (r : Runner) (c : Code) : List Delivery → List Ev × List Delivery
  | [] => ([], [])
  | dl :: rest =>
    let (e1, d1) := task im r c dl
    let (e2, d2) := level im r c rest
    (e1 ++ e2, d1 ++ d2)

def hasDupDst : List Delivery → Bool
  | [] => false
  | dl :: rest => rest.any (·.dst = dl.dst) || hasDupDst rest

/-- after the events of a superstep passed: END reached (final `out.(O)`), fan-in, or go on -/
def settle (im : Impl) (r : Runner) (ds : List Delivery) : Option RunRes :=
  if hasDupDst ds then some .merge
  else match ds.find? (·.dst = END) with
    | some dl => some (match assertIn im r END dl.d with | .pass => .ok | _ => .panic)
    | none => if ds.isEmpty then some .stuck else none

def runLevels (im : Impl) (r : Runner) (c : Code) : Nat → List Delivery → RunRes
  | 0, _ => .steps
  | fuel + 1, ds =>
    let (evs, next) := level im r c ds
    match worst evs with
    | .panic => .panic
    | .typeErr => .typeErr
    | .badPick => .badPick
    | .pass =>
      match settle im r next with
      | some res => res
      | none => runLevels im r c fuel next

/-- a whole run on an input of dynamic type `d0` (which the caller's Go types force to
    inhabit the graph's input type) -/
def runGraph (im : Impl) (r : Runner) (c : Code) (fuel : Nat) (d0 : Dyn) : RunRes :=
  let (evs, ds) := emit im r c START d0
  match worst evs with
  | .panic => .panic
  | .typeErr => .typeErr
  | .badPick => .badPick
  | .pass =>
    match settle im r ds with
    | some res => res
    | none => runLevels im r c fuel ds

end EinoV.C07
