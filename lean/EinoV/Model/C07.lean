/-
  C07 — run-time side of the type story: what happens to a value of a given *dynamic* type
  on its way through a compiled graph (compose/graph_manager.go edge / pre-branch handlers =
  the converters installed on "may" connections, generic_helper.go defaultValueChecker;
  compose/runnable.go and branch.go: the `input.(T)` assertions that panic;
  runnable.go toGenericRunnable: the final `out.(O)`).

  The builder side (Add*, type inference, compile) is EinoV/Model/C20Builder.lean.
  Values are abstracted to their dynamic type, always a concrete type (`Dyn` = its id; nil
  interface values are outside the model).  Node bodies are parameters: an arbitrary function
  from the input's dynamic type to the output's.  Core Lean only.
-/
import EinoV.Model.C20Builder

namespace EinoV.C07
open EinoV.Build

abbrev Dyn := Nat

/-- Go assignability of a value with dynamic concrete type `d` to static type `t`
    (`v.(T)` succeeds) -/
def dynOk (im : Impl) (d : Dyn) : Ty → Bool
  | .conc c => c == d
  | t => implements im (.conc d) t

inductive RunRes where
  | ok
  | typeErr      -- ordinary error from a run-time type check (converter on a "may" connection)
  | panic        -- a type assertion failed: `unexpected input type`
  | steps        -- ran out of steps
  deriving DecidableEq, Repr, Inhabited

def _root_.EinoV.Build.Runner.node (r : Runner) (k : Key) : Option Node := findNode r.nodes k

def _root_.EinoV.Build.Runner.inOf (r : Runner) (k : Key) : Option Ty :=
  if k = END then some r.outT else (r.node k).bind (·.inTy)

def _root_.EinoV.Build.Runner.outOf (r : Runner) (k : Key) : Option Ty :=
  if k = START then some r.inT else (r.node k).bind (·.outTy)

def _root_.EinoV.Build.Runner.isPassthrough (r : Runner) (k : Key) : Bool :=
  match r.node k with
  | some n => n.passthrough
  | none => false

/-- user code: what a node returns for an input, which end a branch picks -/
structure Code where
  body : Key → Dyn → Dyn
  pick : Key → Nat → Dyn → Key     -- (branch start, index among all branches, value) ↦ chosen end

inductive Ev where
  | pass | typeErr | panic
  deriving DecidableEq, Repr

/-- a value of dynamic type `d` travels over the data connection `a → b`: converter first
    (only if one was installed), then the assertion at the receiving side – the node's
    `input.(I)` (also what its state pre-handler asserts), or the final `out.(O)` for END;
    a pass-through node asserts nothing. -/
def arrive (im : Impl) (r : Runner) (a b : Key) (d : Dyn) : Ev :=
  match r.inOf b with
  | none => .pass          -- untyped pass-through: nothing is asserted
  | some t =>
    if r.mayEdges.contains (a, b) && !dynOk im d t then .typeErr
    else if r.isPassthrough b then .pass
    else if !dynOk im d t then .panic
    else .pass

/-- the value leaving node `a` reaches the condition of the `i`-th branch (input type `t`,
    converter installed iff `conv`) -/
def arriveBranch (im : Impl) (t : Ty) (conv : Bool) (d : Dyn) : Ev :=
  if conv && !dynOk im d t then .typeErr
  else if !dynOk im d t then .panic
  else .pass

structure Delivery where
  src : Key
  dst : Key
  d : Dyn
  deriving DecidableEq, Repr

def zipIdx {α : Type} : List α → Nat → List (Nat × α)
  | [], _ => []
  | x :: xs, i => (i, x) :: zipIdx xs (i + 1)

/-- branches of the runner with their global index and converter flag -/
def _root_.EinoV.Build.Runner.branchTable (r : Runner) : List (Nat × BranchRec × Bool) :=
  (zipIdx (r.branches.zip (r.preBranch.map (·.2))) 0).map (fun p => (p.1, p.2.1, p.2.2))

/-- everything that happens after node `k` produced a value of dynamic type `d`:
    events at its branch conditions, and the deliveries to its data successors -/
def emit (im : Impl) (r : Runner) (c : Code) (k : Key) (d : Dyn) : List Ev × List Delivery :=
  let es := (r.dataEdges.filter (·.1 = k)).map (fun e => ({ src := k, dst := e.2, d } : Delivery))
  let bs := r.branchTable.filter (fun p => p.2.1.src = k)
  let evs := bs.map (fun p => arriveBranch im p.2.1.inTy p.2.2 d)
  let bd := bs.filterMap (fun p =>
    if p.2.1.noData then none else some ({ src := k, dst := c.pick k p.1 d, d } : Delivery))
  (evs, es ++ bd)

def worst : List Ev → Ev
  | [] => .pass
  | .panic :: _ => .panic
  | .typeErr :: es => (match worst es with | .panic => .panic | _ => .typeErr)
  | .pass :: es => worst es

/-- one superstep: every delivery of the level arrives; nodes that received run and emit -/
def level (im : Impl) (r : Runner) (c : Code) : List Delivery → List Ev × List Delivery
  | [] => ([], [])
  | dl :: rest =>
    let e := arrive im r dl.src dl.dst dl.d
    let (evs, next) := level im r c rest
    match e with
    | .pass =>
      if dl.dst = END then (e :: evs, next)
      else
        let out := if r.isPassthrough dl.dst then dl.d else c.body dl.dst dl.d
        let (bevs, ds) := emit im r c dl.dst out
        (e :: bevs ++ evs, ds ++ next)
    | _ => (e :: evs, next)

def runLevels (im : Impl) (r : Runner) (c : Code) : Nat → List Delivery → RunRes
  | 0, _ => .steps
  | fuel + 1, ds =>
    match ds with
    | [] => .ok
    | _ =>
      let (evs, next) := level im r c ds
      match worst evs with
      | .panic => .panic
      | .typeErr => .typeErr
      | .pass => runLevels im r c fuel next

/-- a whole run on an input of dynamic type `d0` (which the caller's Go types force to
    inhabit the graph's input type) -/
def runGraph (im : Impl) (r : Runner) (c : Code) (fuel : Nat) (d0 : Dyn) : RunRes :=
  let (evs, ds) := emit im r c START d0
  match worst evs with
  | .panic => .panic
  | .typeErr => .typeErr
  | .pass => runLevels im r c fuel ds

end EinoV.C07
