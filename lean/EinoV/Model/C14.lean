/-
  C14 — chunk concatenation model.

  schema/message.go   `ConcatMessages`, `concatToolCalls`
  internal/concat.go  `ConcatItems`, `concatMaps`, `concatSliceValue`, `toSliceValue`, `concatFuncs`
  compose/stream_concat.go `concatStreamReader`

  Everything returns `Except Err`.  A Go panic (nil dereference / index out of range) is the
  explicit outcome `Err.panic` at the places where the code can take it; `Err.fuel` is the
  artefact of the fuel-indexed recursion over nested maps (proved unreachable with enough
  fuel).  Source facts (the `concatFuncs` table, presence of the conflict checks, whether
  `concatMaps` guards nil interface values) are the fields of `Cfg`, a parameter of every
  function.
-/
namespace EinoV.C14

inductive Err where
  | fail    -- an ordinary `error` return
  | panic   -- a Go run-time panic
  | fuel    -- model artefact: recursion fuel exhausted (nesting deeper than the fuel)
  deriving Repr, DecidableEq, Inhabited

/-- how `concatSliceValue` combines ≥ 1 values of one Go type -/
inductive Rule where
  | concatStr       -- registered `concatStrings`
  | useLast         -- registered `useLast[T]`
  | singleNonZero   -- not registered: all zero → zero, one non-zero → it, more → error
  deriving Repr, DecidableEq, Inhabited

structure Cfg where
  /-- `concatFuncs`: Go type name → registered rule -/
  table : List (String × Rule)
  /-- `concatMaps` skips nil interface values (a nil value is "absent") instead of handing
      them to `reflect.TypeOf`/`reflect.SliceOf` -/
  nilAbsent : Bool
  /-- conflict checks of `ConcatMessages`: role, name, tool-call id of the message -/
  roleCheck : Bool
  nameCheck : Bool
  tcidCheck : Bool
  /-- conflict checks of `concatToolCalls`: id, type, function name -/
  tcIdCheck : Bool
  tcTypeCheck : Bool
  tcNameCheck : Bool
  deriving Repr

def Cfg.rule (cfg : Cfg) (ty : String) : Rule :=
  match cfg.table.lookup ty with
  | some r => r
  | none => .singleNonZero

/-! ## value universe of `map[string]any` extras -/

/-- A value stored in an `any`: `nil`, a non-map value of the Go type named `ty` with
    payload `v` (`v = ""` ⇔ `reflect.Value.IsZero`), or a nested `map[string]any`. -/
inductive XVal where
  | nil
  | sc (ty : String) (v : String)
  | map (kvs : List (String × XVal))
  deriving Repr, Inhabited

abbrev KVs := List (String × XVal)

def XVal.isNil : XVal → Bool
  | .nil => true
  | _ => false

def XVal.depth : XVal → Nat
  | .map kvs => 1 + go kvs
  | _ => 0
where go : List (String × XVal) → Nat
  | [] => 0
  | (_, v) :: r => max v.depth (go r)

abbrev depthKVs : KVs → Nat := XVal.depth.go

/-! ## strings -/

def joinS : List String → String
  | [] => ""
  | x :: xs => x ++ joinS xs

/-! ## `concatSliceValue` on values of one non-map type -/

/-- `vs` are the payloads, in chunk order (the code guarantees ≥ 1; `useLast` indexes
    `s[len(s)-1]`, which is the modelled panic site). -/
def combineSc (rule : Rule) (ty : String) (vs : List String) : Except Err XVal :=
  match rule with
  | .concatStr => .ok (.sc ty (joinS vs))
  | .useLast =>
    match vs.getLast? with
    | none => .error .panic
    | some v => .ok (.sc ty v)
  | .singleNonZero =>
    match vs.filter (fun v => v != "") with
    | [] => .ok (.sc ty "")
    | [v] => .ok (.sc ty v)
    | _ :: _ :: _ => .error .fail

def asSc (ty : String) : XVal → Except Err String
  | .sc ty' v => if ty' = ty then .ok v else .error .fail
  | _ => .error .fail

def asMap : XVal → Except Err KVs
  | .map kvs => .ok kvs
  | _ => .error .fail

/-- the values of one key after the `toSliceValue` stage: type check against the first
    value, then `concatMaps` / `concatSliceValue`.  `rec` concatenates nested maps. -/
def perKeyW (cfg : Cfg) (rec : List KVs → Except Err KVs) : List XVal → Except Err XVal
  | [] => .ok .nil                       -- only nil values seen: the key keeps a nil value
  | .nil :: _ => .error .panic           -- reflect.SliceOf(reflect.TypeOf(nil))
  | .sc ty v :: rest => do
    let ps ← rest.mapM (asSc ty)
    combineSc (cfg.rule ty) ty (v :: ps)
  | .map kvs :: rest => do
    let ms ← rest.mapM asMap
    let r ← rec (kvs :: ms)
    pure (.map r)

/-- with the guard, nil interface values are not gathered at all -/
def dropNil (cfg : Cfg) (vs : List XVal) : List XVal :=
  if cfg.nilAbsent then vs.filter (fun v => !v.isNil) else vs

/-- One key of `concatMaps`: `vs` = the values gathered for the key, in chunk order. -/
def perKey (cfg : Cfg) (rec : List KVs → Except Err KVs) (vs : List XVal) : Except Err XVal :=
  perKeyW cfg rec (dropNil cfg vs)

/-- keys in order of first appearance -/
def keysOf : List String → List String
  | [] => []
  | k :: ks => k :: (keysOf ks).filter (fun x => x != k)

def vals (evs : KVs) (k : String) : List XVal :=
  (evs.filter (fun p => p.1 == k)).map (·.2)

/-- `concatMaps` on the flattened (key, value) occurrences of all chunks. -/
def concatEvs (cfg : Cfg) : Nat → KVs → Except Err KVs
  | 0, _ => .error .fuel
  | n + 1, evs =>
    (keysOf (evs.map (·.1))).mapM (fun k => do
      let v ← perKey cfg (fun ms => concatEvs cfg n ms.flatten) (vals evs k)
      pure (k, v))

/-- internal/concat.go `concatMaps` -/
def concatMaps (cfg : Cfg) (n : Nat) (ms : List KVs) : Except Err KVs :=
  concatEvs cfg n ms.flatten

/-! ## tool calls -/

structure TC where
  index : Option Int
  id : String
  type : String
  name : String
  args : String
  /-- everything else of the struct (`Extra`), opaque -/
  extra : Nat
  deriving Repr, DecidableEq, Inhabited

/-- first non-empty value wins; a different later non-empty value is an error when the
    check is present -/
def pick (check : Bool) (a b : String) : Except Err String :=
  if b = "" then .ok a
  else if a = "" then .ok b
  else if check && a != b then .error .fail
  else .ok a

def mergeTC (cfg : Cfg) (g c : TC) : Except Err TC := do
  let id ← pick cfg.tcIdCheck g.id c.id
  let ty ← pick cfg.tcTypeCheck g.type c.type
  let nm ← pick cfg.tcNameCheck g.name c.name
  pure { g with id := id, type := ty, name := nm, args := g.args ++ c.args }

/-- groups keyed by index, kept strictly ascending -/
def insertG (cfg : Cfg) (i : Int) (c : TC) : List (Int × TC) → Except Err (List (Int × TC))
  | [] => .ok [(i, c)]
  | (j, g) :: rest =>
    if i < j then .ok ((i, c) :: (j, g) :: rest)
    else if i = j then do
      let g' ← mergeTC cfg g c
      pure ((j, g') :: rest)
    else do
      let r ← insertG cfg i c rest
      pure ((j, g) :: r)

structure TCState where
  nils : List TC
  groups : List (Int × TC)
  deriving Repr

def stepTC (cfg : Cfg) (s : TCState) (c : TC) : Except Err TCState :=
  match c.index with
  | none => .ok { s with nils := s.nils ++ [c] }
  | some i => do
    let g ← insertG cfg i c s.groups
    pure { s with groups := g }

def TCState.out (s : TCState) : List TC := s.nils ++ s.groups.map (·.2)

/-- schema/message.go `concatToolCalls`: nil-index calls first (arrival order), then one
    merged call per index, ascending. -/
def concatTC (cfg : Cfg) (cs : List TC) : Except Err (List TC) := do
  let s ← cs.foldlM (stepTC cfg) ⟨[], []⟩
  pure s.out

/-! ## messages -/

structure Usage where
  prompt : Int
  completion : Int
  total : Int
  deriving Repr, DecidableEq, Inhabited

structure Meta where
  finish : String
  usage : Option Usage
  logprobs : Option (List Nat)
  deriving Repr, DecidableEq, Inhabited

structure Msg where
  role : String
  name : String
  toolCallID : String
  content : String
  multi : List Nat
  toolCalls : List TC
  rmeta : Option Meta
  extra : KVs
  deriving Repr, Inhabited

/-- role / name / tool-call id of the message: first non-empty, later different → error -/
def firstNE (check : Bool) : String → List String → Except Err String
  | acc, [] => .ok acc
  | acc, x :: xs => do
    let a ← pick check acc x
    firstNE check a xs

def lastNEs (acc : String) : List String → String
  | [] => acc
  | x :: xs => lastNEs (if x = "" then acc else x) xs

def lastNEl (acc : List Nat) : List (List Nat) → List Nat
  | [] => acc
  | x :: xs => lastNEl (if x = [] then acc else x) xs

def imax (m r : Int) : Int := if m > r then m else r

/-- the `ResponseMeta` part of one loop iteration of `ConcatMessages` -/
def stepMeta (acc : Option Meta) (m : Option Meta) : Option Meta :=
  match m with
  | none => acc
  | some x =>
    let a : Meta := match acc with
      | some a => a
      | none => { finish := "", usage := none, logprobs := none }
    some {
      finish := if x.finish = "" then a.finish else x.finish
      usage := match x.usage with
        | none => a.usage
        | some u =>
          let r : Usage := match a.usage with
            | some r => r
            | none => ⟨0, 0, 0⟩
          some ⟨imax u.prompt r.prompt, imax u.completion r.completion, imax u.total r.total⟩
      logprobs := match x.logprobs with
        | none => a.logprobs
        | some l =>
          let r : List Nat := match a.logprobs with
            | some r => r
            | none => []
          some (r ++ l) }

def concatMeta (ms : List (Option Meta)) : Option Meta := ms.foldl stepMeta none

/-- schema/message.go `ConcatMessages` on non-nil messages -/
def concatMsgs (cfg : Cfg) (n : Nat) (ms : List Msg) : Except Err Msg := do
  let role ← firstNE cfg.roleCheck "" (ms.map (·.role))
  let name ← firstNE cfg.nameCheck "" (ms.map (·.name))
  let tcid ← firstNE cfg.tcidCheck "" (ms.map (·.toolCallID))
  let tcs ← concatTC cfg (ms.flatMap (·.toolCalls))
  let extra ← concatMaps cfg n ((ms.map (·.extra)).filter (fun e => !e.isEmpty))
  pure { role := role, name := name, toolCallID := tcid
         content := joinS (ms.map (·.content))
         multi := lastNEl [] (ms.map (·.multi))
         toolCalls := tcs
         rmeta := concatMeta (ms.map (·.rmeta))
         extra := extra }

def allSome {α} : List (Option α) → Option (List α)
  | [] => some []
  | none :: _ => none
  | some x :: r => match allSome r with
    | some l => some (x :: l)
    | none => none

/-- `ConcatMessages` on `[]*Message`: a nil chunk is an error -/
def concatMsgPtrs (cfg : Cfg) (n : Nat) (cs : List (Option Msg)) : Except Err Msg :=
  match allSome cs with
  | none => .error .fail
  | some ms => concatMsgs cfg n ms

/-! ## compose/stream_concat.go `concatStreamReader` (drained chunks → one value) -/

/-- empty stream → error; one chunk → that chunk, untouched; otherwise `ConcatItems` -/
def concatStream {α} (core : List α → Except Err α) : List α → Except Err α
  | [] => .error .fail
  | [x] => .ok x
  | xs => core xs

def concatStrChunks (cfg : Cfg) (xs : List String) : Except Err String :=
  concatStream (fun xs => match combineSc (cfg.rule "string") "string" xs with
    | .ok (.sc _ v) => .ok v
    | .ok _ => .error .fail
    | .error e => .error e) xs

def concatMapChunks (cfg : Cfg) (n : Nat) : List KVs → Except Err KVs :=
  concatStream (concatMaps cfg n)

def concatMsgChunks (cfg : Cfg) (n : Nat) : List (Option Msg) → Except Err (Option Msg) :=
  concatStream (fun cs => (concatMsgPtrs cfg n cs).map some)

/-! ## `[]*Message` chunks -/

/-- one position of `concatMessageArray`: the non-nil messages found at that position, in
    chunk order: none → nil, one → that message untouched, more → `ConcatMessages` -/
def concatCol (cfg : Cfg) (n : Nat) (col : List (Option Msg)) : Except Err (Option Msg) :=
  match col.filterMap id with
  | [] => .ok none
  | [m] => .ok (some m)
  | ms => (concatMsgs cfg n ms).map some

/-- schema/message.go `concatMessageArray` (registered for `[]*Message` chunks): all arrays
    must have the length of the first one (`mas[0]` is the modelled panic site), then
    position-wise. -/
def concatArr (cfg : Cfg) (n : Nat) (mas : List (List (Option Msg))) : Except Err (List (Option Msg)) :=
  match mas with
  | [] => .error .panic
  | a0 :: _ =>
    if mas.all (fun a => a.length == a0.length) then
      (List.range a0.length).mapM (fun i => concatCol cfg n (mas.map (fun a => a.getD i none)))
    else .error .fail

def concatArrChunks (cfg : Cfg) (n : Nat) : List (List (Option Msg)) → Except Err (List (Option Msg)) :=
  concatStream (concatArr cfg n)

end EinoV.C14
