/-
  C14 — chunk concatenation model.

  schema/message.go   `ConcatMessages`, `concatToolCalls`
  internal/concat.go  `ConcatItems`, `concatMaps`, `concatSliceValue`, `toSliceValue`, `concatFuncs`
  compose/stream_concat.go `concatStreamReader`

  Everything returns `Except Err`.  A Go panic (nil dereference / index out of range) is the
  explicit outcome `Err.panic` at the places where the code can take it; `Err.fuel` is the
  artefact of the fuel-indexed recursion over nested maps (proved unreachable with enough
  fuel).  Source facts (the `concatFuncs` table, presence of the conflict checks, whether
  `concatMaps` guards nil interface values, whether that guard tests `Kind() == Interface`
  before `IsNil()`, whether the recursion into nested maps is decided by the *kind* of the
  gathered values' type, whether `ConcatItems` handles a nil interface result) are the fields
  of `Cfg`, a parameter of every function.

  Typed maps.  A map value carries the Go name of its element type (`et`): `"any"` for
  `map[string]any`, `"string"` for `map[string]string`, `"map[string]string"` for
  `map[string]map[string]string`, `"[]string"`, `"c14S"` (a struct) ….  The Go type of the map
  value is `"map[string]" ++ et`; values stored in a map whose element type is not `any` are
  values of that type (Go's type system; the functions below are total on ill-typed trees,
  too, and the theorems do not need a typing hypothesis).
-/
namespace EinoV.C14

inductive Err where
  | fail    -- an ordinary `error` return
  | panic   -- a Go run-time panic
  | fuel    -- model artefact: recursion fuel exhausted (nesting deeper than the fuel)
  deriving Repr, DecidableEq, Inhabited

/-- how `concatSliceValue` combines ≥ 1 values of one Go type -/
inductive Rule where
  | concatStr       -- registered `concatStrings`
  | useLast         -- registered `useLast[T]`
  | singleNonZero   -- not registered: all zero → zero, one non-zero → it, more → error
  deriving Repr, DecidableEq, Inhabited

structure Cfg where
  /-- `concatFuncs`: Go type name → registered rule -/
  table : List (String × Rule)
  /-- `concatMaps` skips nil interface values (a nil value is "absent") instead of handing
      them to `reflect.TypeOf`/`reflect.SliceOf` -/
  nilAbsent : Bool
  /-- that guard is `val.Kind() == reflect.Interface && val.IsNil()`: `IsNil` is only called on
      interface values.  `false` = the guard calls `val.IsNil()` on every gathered value, which
      panics for element kinds that cannot be nil (string, numbers, bool, struct). -/
  guardKindFirst : Bool
  /-- `concatMaps` recurses when the *kind* of the gathered values' type is `Map`
      (`v.Type().Elem().Kind() == reflect.Map`).  `false` = only `map[string]any` values
      recurse, every other map type is handed to `concatSliceValue`. -/
  recurseByKind : Bool
  /-- `ConcatItems` returns the zero value of `T` when the concatenated value is a nil
      interface (every chunk of an interface-typed stream was nil) instead of type-asserting
      `cv.Interface().(T)` on it (which panics) -/
  nilResultGuard : Bool
  /-- conflict checks of `ConcatMessages`: role, name, tool-call id of the message -/
  roleCheck : Bool
  nameCheck : Bool
  tcidCheck : Bool
  /-- conflict checks of `concatToolCalls`: id, type, function name -/
  tcIdCheck : Bool
  tcTypeCheck : Bool
  tcNameCheck : Bool
  /-- the final sort of `concatToolCalls` (calls without an index first, the others by index)
      is a *stable* sort (`sort.SliceStable`).  Calls without an index all compare equal, so
      their arrival order survives only because of stability.  `false` = `sort.Slice`, which
      is an insertion sort (stable) up to 12 elements and makes no promise above. -/
  tcSortStable : Bool
  deriving Repr

def Cfg.rule (cfg : Cfg) (ty : String) : Rule :=
  match cfg.table.lookup ty with
  | some r => r
  | none => .singleNonZero

/-- both facts about `concatMaps` that the typed-map results rest on have the value the
    theorems are proved for -/
def Cfg.Std (cfg : Cfg) : Prop := cfg.guardKindFirst = true ∧ cfg.recurseByKind = true

instance (cfg : Cfg) : Decidable cfg.Std := by unfold Cfg.Std; infer_instance

/-! ## value universe: what a map chunk / an `Extra` can hold -/

/-- A value: `nil` (the nil interface; only possible where the static type is an interface),
    a non-map value of the Go type named `ty` with payload `v` (`v = ""` ⇔
    `reflect.Value.IsZero`), or a map with string keys whose element type is named `et`
    (`"any"` = `map[string]any`).  A nil map and an empty map are the same value here
    (`concatMaps` never distinguishes them: `MapKeys` of a nil map is empty and the result is
    always built with `MakeMap`). -/
inductive XVal where
  | nil
  | sc (ty : String) (v : String)
  | map (et : String) (kvs : List (String × XVal))
  deriving Repr, Inhabited

abbrev KVs := List (String × XVal)

def XVal.isNil : XVal → Bool
  | .nil => true
  | _ => false

def XVal.depth : XVal → Nat
  | .map _ kvs => 1 + go kvs
  | _ => 0
where go : List (String × XVal) → Nat
  | [] => 0
  | (_, v) :: r => max v.depth (go r)

abbrev depthKVs : KVs → Nat := XVal.depth.go

/-! ## strings -/

def joinS : List String → String
  | [] => ""
  | x :: xs => x ++ joinS xs

/-! ## `concatSliceValue` on values of one non-map type -/

/-- `vs` are the payloads, in chunk order (the code guarantees ≥ 1; `useLast` indexes
    `s[len(s)-1]`, which is the modelled panic site). -/
def combineSc (rule : Rule) (ty : String) (vs : List String) : Except Err XVal :=
  match rule with
  | .concatStr => .ok (.sc ty (joinS vs))
  | .useLast =>
    match vs.getLast? with
    | none => .error .panic
    | some v => .ok (.sc ty v)
  | .singleNonZero =>
    match vs.filter (fun v => v != "") with
    | [] => .ok (.sc ty "")
    | [v] => .ok (.sc ty v)
    | _ :: _ :: _ => .error .fail

def asSc (ty : String) : XVal → Except Err String
  | .sc ty' v => if ty' = ty then .ok v else .error .fail
  | _ => .error .fail

/-- `toSliceValue`'s type test for a map value: the same map type (= the same element type) -/
def asMap (et : String) : XVal → Except Err KVs
  | .map et' kvs => if et' = et then .ok kvs else .error .fail
  | _ => .error .fail

/-- the values of one key after the `toSliceValue` stage: type check against the first
    value, then `concatMaps` (the type's kind is `Map`, whatever the element type) /
    `concatSliceValue`.  `rec et` concatenates nested maps of element type `et`. -/
def perKeyW (cfg : Cfg) (rec : String → List KVs → Except Err KVs) : List XVal → Except Err XVal
  | [] => .ok .nil                       -- only nil values seen: the key keeps a nil value
  | .nil :: _ => .error .panic           -- reflect.SliceOf(reflect.TypeOf(nil))
  | .sc ty v :: rest => do
    let ps ← rest.mapM (asSc ty)
    combineSc (cfg.rule ty) ty (v :: ps)
  | .map et kvs :: rest => do
    let ms ← rest.mapM (asMap et)
    let r ← rec et (kvs :: ms)
    pure (.map et r)

/-- the other value of the `recurseByKind` fact: only `map[string]any` values recurse; a map
    of any other type goes to `concatSliceValue`, which has no function registered for it:
    all zero → zero, one non-zero → it, more → error (zero = nil map, identified with the
    empty map in this universe). -/
def perKeyWNoKind (cfg : Cfg) (rec : String → List KVs → Except Err KVs) : List XVal → Except Err XVal
  | .map et kvs :: rest =>
    if et = "any" then perKeyW cfg rec (.map et kvs :: rest)
    else do
      let ms ← rest.mapM (asMap et)
      match (kvs :: ms).filter (fun m => !m.isEmpty) with
      | [] => .ok (.map et [])
      | [m] => .ok (.map et m)
      | _ :: _ :: _ => .error .fail
  | ws => perKeyW cfg rec ws

/-- with the guard, nil interface values are not gathered at all -/
def dropNil (cfg : Cfg) (vs : List XVal) : List XVal :=
  if cfg.nilAbsent then vs.filter (fun v => !v.isNil) else vs

/-- One key of `concatMaps`: `vs` = the values gathered for the key, in chunk order. -/
def perKey (cfg : Cfg) (rec : String → List KVs → Except Err KVs) (vs : List XVal) : Except Err XVal :=
  perKeyW cfg rec (dropNil cfg vs)

/-- … with the recursion decided as the `recurseByKind` fact says -/
def perKeyF (cfg : Cfg) (rec : String → List KVs → Except Err KVs) (vs : List XVal) : Except Err XVal :=
  if cfg.recurseByKind then perKey cfg rec vs else perKeyWNoKind cfg rec (dropNil cfg vs)

def isPrefix (p s : String) : Bool := p.toList.isPrefixOf s.toList

/-- element types whose `reflect.Value.IsNil` is legal (map, slice, pointer kinds; by name) -/
def nillableTy (et : String) : Bool := isPrefix "map[" et || isPrefix "[]" et || isPrefix "*" et

/-- The gather loop's `val.IsNil()` panics: the guard is there, it does not test
    `Kind() == Interface` first, and the maps' element type is a kind that cannot be nil. -/
def guardPanics (cfg : Cfg) (et : String) : Bool :=
  cfg.nilAbsent && !cfg.guardKindFirst && !(et == "any") && !nillableTy et

/-- keys in order of first appearance -/
def keysOf : List String → List String
  | [] => []
  | k :: ks => k :: (keysOf ks).filter (fun x => x != k)

def vals (evs : KVs) (k : String) : List XVal :=
  (evs.filter (fun p => p.1 == k)).map (·.2)

/-- `concatMaps` on the flattened (key, value) occurrences of all chunks; `et` = the element
    type of the maps being concatenated. -/
def concatEvs (cfg : Cfg) : Nat → String → KVs → Except Err KVs
  | 0, _, _ => .error .fuel
  | n + 1, et, evs =>
    if guardPanics cfg et && !evs.isEmpty then .error .panic
    else
      (keysOf (evs.map (·.1))).mapM (fun k => do
        let v ← perKeyF cfg (fun et' ms => concatEvs cfg n et' ms.flatten) (vals evs k)
        pure (k, v))

/-- internal/concat.go `concatMaps` on maps of type `map[string]et` -/
def concatMaps (cfg : Cfg) (n : Nat) (et : String) (ms : List KVs) : Except Err KVs :=
  concatEvs cfg n et ms.flatten

/-! ## tool calls -/

structure TC where
  index : Option Int
  id : String
  type : String
  name : String
  args : String
  /-- everything else of the struct (`Extra`), opaque -/
  extra : Nat
  deriving Repr, DecidableEq, Inhabited

/-- first non-empty value wins; a different later non-empty value is an error when the
    check is present -/
def pick (check : Bool) (a b : String) : Except Err String :=
  if b = "" then .ok a
  else if a = "" then .ok b
  else if check && a != b then .error .fail
  else .ok a

def mergeTC (cfg : Cfg) (g c : TC) : Except Err TC := do
  let id ← pick cfg.tcIdCheck g.id c.id
  let ty ← pick cfg.tcTypeCheck g.type c.type
  let nm ← pick cfg.tcNameCheck g.name c.name
  pure { g with id := id, type := ty, name := nm, args := g.args ++ c.args }

/-- groups keyed by index, kept strictly ascending -/
def insertG (cfg : Cfg) (i : Int) (c : TC) : List (Int × TC) → Except Err (List (Int × TC))
  | [] => .ok [(i, c)]
  | (j, g) :: rest =>
    if i < j then .ok ((i, c) :: (j, g) :: rest)
    else if i = j then do
      let g' ← mergeTC cfg g c
      pure ((j, g') :: rest)
    else do
      let r ← insertG cfg i c rest
      pure ((j, g) :: r)

structure TCState where
  nils : List TC
  groups : List (Int × TC)
  deriving Repr

def stepTC (cfg : Cfg) (s : TCState) (c : TC) : Except Err TCState :=
  match c.index with
  | none => .ok { s with nils := s.nils ++ [c] }
  | some i => do
    let g ← insertG cfg i c s.groups
    pure { s with groups := g }

def TCState.out (s : TCState) : List TC := s.nils ++ s.groups.map (·.2)

/-- schema/message.go `concatToolCalls`: nil-index calls first (arrival order), then one
    merged call per index, ascending. -/
def concatTC (cfg : Cfg) (cs : List TC) : Except Err (List TC) := do
  let s ← cs.foldlM (stepTC cfg) ⟨[], []⟩
  pure s.out

/-! ### the code-level shape of `concatToolCalls`: gather, merge per index, **sort**

  `concatTC` above is the specification-level function (groups are kept ascending while
  they are built).  The Go function does something else: it appends the calls without an
  index to `merged` in arrival order, then appends one merged call per index **in the
  iteration order of a Go map** (arbitrary, different from run to run), and finally sorts
  `merged` with the comparator `tcLess`.  `concatTCGo` is that shape; the map's iteration
  order is the parameter `ord` (any permutation of the groups), the sort is `finalSort`.
  `toolcalls_any_map_order` (Props/C14.lean) proves `concatTCGo = concatTC` for every `ord`
  and lists of every length when the sort is stable. -/

/-- the comparator of the final sort: a call without an index is less than every call with
    one, two indexed calls compare by index, two calls without an index are not ordered -/
def tcLess (a b : TC) : Bool :=
  match a.index, b.index with
  | none, some _ => true
  | some i, some j => decide (i < j)
  | _, none => false

/-- one step of the stable insertion sort: `x` arrived before everything in the (sorted)
    tail and goes in front of the first element that is not less than it -/
def insStable (x : TC) : List TC → List TC
  | [] => [x]
  | y :: ys => if tcLess y x then y :: insStable x ys else x :: y :: ys

/-- `sort.SliceStable(merged, tcLess)`: elements that compare equal keep their order -/
def sortStable (xs : List TC) : List TC := xs.foldr insStable []

/-- position of the first greatest element of `x :: xs` (`0` = `x`) -/
def maxPos : TC → List TC → Nat × TC
  | x, [] => (0, x)
  | x, y :: ys =>
    let (i, m) := maxPos y ys
    if tcLess x m then (i + 1, m) else (0, x)

/-- a sort that is *not* stable (the representative the model uses for `sort.Slice` above
    12 elements; Go's pdqsort itself is not modelled — any algorithm that only promises a
    sorted permutation would do): selection sort that swaps the first greatest element of
    the unsorted part with its last element. -/
def sortBySwaps : Nat → List TC → List TC
  | 0, xs => xs
  | _ + 1, [] => []
  | fuel + 1, x :: rest =>
    let (i, m) := maxPos x rest
    -- the last element goes where the greatest one was (`set` beyond the end: no change,
    -- the greatest element already is the last one), the greatest element to the end
    let init := (x :: rest).dropLast
    let last := (x :: rest).getLastD x
    sortBySwaps fuel (init.set i last) ++ [m]

/-- `sort.Slice(merged, tcLess)`: insertion sort up to 12 elements (package sort), no
    stability above -/
def sortSlice (xs : List TC) : List TC :=
  if xs.length ≤ 12 then sortStable xs else sortBySwaps xs.length xs

def finalSort (cfg : Cfg) (xs : List TC) : List TC :=
  if cfg.tcSortStable then sortStable xs else sortSlice xs

/-- schema/message.go `concatToolCalls` as written: `merged` = the calls without an index in
    arrival order, then one merged call per index in the map's iteration order `ord`, then
    the final sort. -/
def concatTCGo (cfg : Cfg) (ord : List (Int × TC) → List (Int × TC)) (cs : List TC) : Except Err (List TC) := do
  let s ← cs.foldlM (stepTC cfg) ⟨[], []⟩
  pure (finalSort cfg (s.nils ++ (ord s.groups).map (·.2)))

/-! ## messages -/

structure Usage where
  prompt : Int
  completion : Int
  total : Int
  deriving Repr, DecidableEq, Inhabited

structure Meta where
  finish : String
  usage : Option Usage
  logprobs : Option (List Nat)
  deriving Repr, DecidableEq, Inhabited

structure Msg where
  role : String
  name : String
  toolCallID : String
  content : String
  multi : List Nat
  toolCalls : List TC
  rmeta : Option Meta
  extra : KVs
  deriving Repr, Inhabited

/-- role / name / tool-call id of the message: first non-empty, later different → error -/
def firstNE (check : Bool) : String → List String → Except Err String
  | acc, [] => .ok acc
  | acc, x :: xs => do
    let a ← pick check acc x
    firstNE check a xs

def lastNEs (acc : String) : List String → String
  | [] => acc
  | x :: xs => lastNEs (if x = "" then acc else x) xs

def lastNEl (acc : List Nat) : List (List Nat) → List Nat
  | [] => acc
  | x :: xs => lastNEl (if x = [] then acc else x) xs

def imax (m r : Int) : Int := if m > r then m else r

/-- the `ResponseMeta` part of one loop iteration of `ConcatMessages` -/
def stepMeta (acc : Option Meta) (m : Option Meta) : Option Meta :=
  match m with
  | none => acc
  | some x =>
    let a : Meta := match acc with
      | some a => a
      | none => { finish := "", usage := none, logprobs := none }
    some {
      finish := if x.finish = "" then a.finish else x.finish
      usage := match x.usage with
        | none => a.usage
        | some u =>
          let r : Usage := match a.usage with
            | some r => r
            | none => ⟨0, 0, 0⟩
          some ⟨imax u.prompt r.prompt, imax u.completion r.completion, imax u.total r.total⟩
      logprobs := match x.logprobs with
        | none => a.logprobs
        | some l =>
          let r : List Nat := match a.logprobs with
            | some r => r
            | none => []
          some (r ++ l) }

def concatMeta (ms : List (Option Meta)) : Option Meta := ms.foldl stepMeta none

/-- schema/message.go `ConcatMessages` on non-nil messages -/
def concatMsgs (cfg : Cfg) (n : Nat) (ms : List Msg) : Except Err Msg := do
  let role ← firstNE cfg.roleCheck "" (ms.map (·.role))
  let name ← firstNE cfg.nameCheck "" (ms.map (·.name))
  let tcid ← firstNE cfg.tcidCheck "" (ms.map (·.toolCallID))
  let tcs ← concatTC cfg (ms.flatMap (·.toolCalls))
  let extra ← concatMaps cfg n "any" ((ms.map (·.extra)).filter (fun e => !e.isEmpty))
  pure { role := role, name := name, toolCallID := tcid
         content := joinS (ms.map (·.content))
         multi := lastNEl [] (ms.map (·.multi))
         toolCalls := tcs
         rmeta := concatMeta (ms.map (·.rmeta))
         extra := extra }

def allSome {α} : List (Option α) → Option (List α)
  | [] => some []
  | none :: _ => none
  | some x :: r => match allSome r with
    | some l => some (x :: l)
    | none => none

/-- `ConcatMessages` on `[]*Message`: a nil chunk is an error -/
def concatMsgPtrs (cfg : Cfg) (n : Nat) (cs : List (Option Msg)) : Except Err Msg :=
  match allSome cs with
  | none => .error .fail
  | some ms => concatMsgs cfg n ms

/-! ## compose/stream_concat.go `concatStreamReader` (drained chunks → one value) -/

/-- empty stream → error; one chunk → that chunk, untouched; otherwise `ConcatItems` -/
def concatStream {α} (core : List α → Except Err α) : List α → Except Err α
  | [] => .error .fail
  | [x] => .ok x
  | xs => core xs

def concatStrChunks (cfg : Cfg) (xs : List String) : Except Err String :=
  concatStream (fun xs => match combineSc (cfg.rule "string") "string" xs with
    | .ok (.sc _ v) => .ok v
    | .ok _ => .error .fail
    | .error e => .error e) xs

/-- chunks of type `map[string]et` -/
def concatMapChunks (cfg : Cfg) (n : Nat) (et : String) : List KVs → Except Err KVs :=
  concatStream (concatMaps cfg n et)

/-- `ConcatItems` on chunks of type `any` (`concatSliceValue` with an interface element type:
    no function is registered, zero ⇔ nil interface, no type comparison): all nil → the nil
    interface, which `cv.Interface().(T)` cannot be asserted to (a panic unless guarded); one
    non-nil chunk → it; more → error. -/
def anyCore (cfg : Cfg) (xs : List XVal) : Except Err XVal :=
  match xs.filter (fun v => !v.isNil) with
  | [] => if cfg.nilResultGuard then .ok .nil else .error .panic
  | [v] => .ok v
  | _ :: _ :: _ => .error .fail

def concatAnyChunks (cfg : Cfg) : List XVal → Except Err XVal :=
  concatStream (anyCore cfg)

def concatMsgChunks (cfg : Cfg) (n : Nat) : List (Option Msg) → Except Err (Option Msg) :=
  concatStream (fun cs => (concatMsgPtrs cfg n cs).map some)

/-! ## `[]*Message` chunks -/

/-- one position of `concatMessageArray`: the non-nil messages found at that position, in
    chunk order: none → nil, one → that message untouched, more → `ConcatMessages` -/
def concatCol (cfg : Cfg) (n : Nat) (col : List (Option Msg)) : Except Err (Option Msg) :=
  match col.filterMap id with
  | [] => .ok none
  | [m] => .ok (some m)
  | ms => (concatMsgs cfg n ms).map some

/-- schema/message.go `concatMessageArray` (registered for `[]*Message` chunks): all arrays
    must have the length of the first one (`mas[0]` is the modelled panic site), then
    position-wise. -/
def concatArr (cfg : Cfg) (n : Nat) (mas : List (List (Option Msg))) : Except Err (List (Option Msg)) :=
  match mas with
  | [] => .error .panic
  | a0 :: _ =>
    if mas.all (fun a => a.length == a0.length) then
      (List.range a0.length).mapM (fun i => concatCol cfg n (mas.map (fun a => a.getD i none)))
    else .error .fail

def concatArrChunks (cfg : Cfg) (n : Nat) : List (List (Option Msg)) → Except Err (List (Option Msg)) :=
  concatStream (concatArr cfg n)

end EinoV.C14
