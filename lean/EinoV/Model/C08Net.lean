/-
  C08 — a network of stream readers built with the public constructors of package schema
  (Pipe, StreamReaderFromArray, StreamReaderWithConvert, Copy, MergeStreamReaders) and
  driven by Send / Close(writer) / Recv / Close(reader).  It is assembled from the component
  step functions of `EinoV/Model/C08.lean` (`Pipe.send/recv/closeSend/closeRecv`,
  `convItem`, `CopyCore.peekLocal/fill/close`, `selCases` + `List.erase` of the merge).

  Forwarding goroutines (`toStream`, stream.go:504-535, :645-676, started when a converted
  or copied reader is merged) are modelled *lazily*: the forwarder plus its 5-slot stream is
  a transparent FIFO, so an item is taken from the underlying reader at the moment the
  merged reader delivers it.  Every real trace is a trace of the lazy model (the real
  forwarder can only have taken items that were already there); what the lazy model cannot
  know is how far the real forwarder has read ahead, which matters for exactly one
  observable: the return value of `Send` between "merged reader closed" and "forwarder
  noticed" (`FwdSt.pending`).  There both results are allowed (`sendCode = 3`).

  Non-determinism (which ready source a select picks) is resolved by the observation: `recvAll`
  enumerates every outcome the model allows, the oracle keeps the one that was observed.
-/
import EinoV.Model.C08

namespace EinoV.C08

/-- the convert functions of the case language -/
structure ConvSpec where
  add : Nat
  skipMod : Nat   -- 0 = never skip; else skip (ErrNoValue) when v % skipMod = skipRem
  skipRem : Nat
  errMod : Nat    -- 0 = never fail; else return an error when v % errMod = errRem
  errRem : Nat
  deriving DecidableEq, Repr, Inhabited

def ConvSpec.fn (c : ConvSpec) (v : Nat) : ConvOut :=
  if c.skipMod ≠ 0 ∧ v % c.skipMod = c.skipRem then .skip
  else if c.errMod ≠ 0 ∧ v % c.errMod = c.errRem then .fail (v + c.add) (v + c.add)
  else .val (v + c.add)

structure Facts where
  copy : CopyFacts
  tbl : List (List (Nat × Nat))
  maxSel : Nat
  fwdCloses : Bool   -- a forwarding goroutine closes its source reader when it exits

/-- state of a forwarding goroutine + its stream, seen from the merged reader -/
inductive FwdSt where
  | running   -- forwarding
  | ended     -- got io.EOF from its source: stream closed for sending, source closed
  | pending   -- the merged reader closed the stream; the goroutine has not noticed yet
  | stopped   -- noticed: source closed
  deriving DecidableEq, Repr, Inhabited

inductive Node where
  | pipe (p : Pipe)
  | arr (rest : List Item)
  | conv (src : Nat) (g : ConvSpec)
  | parent (src : Nat) (core : CopyCore)
  | child (par : Nat) (idx : Nat)
  | merge (sts : List Nat) (chosen : List Nat)
  | fpipe (src : Nat) (st : FwdSt)
  | dead
  deriving Repr, Inhabited, BEq

structure Net where
  nodes : Array Node := #[]
  readers : List Nat := []   -- readers the caller holds and may still use
  writers : List Nat := []   -- pipes whose StreamWriter the caller holds
  deriving Repr, Inhabited, BEq

def Net.setNode (n : Net) (id : Nat) (x : Node) : Net := { n with nodes := n.nodes.setIfInBounds id x }
def Net.push (n : Net) (x : Node) : Net × Nat := ({ n with nodes := n.nodes.push x }, n.nodes.size)

/-- `Close` of reader `id` (stream.go:186-201 and the per-type close functions). -/
def closeAll (F : Facts) : Nat → Net → Nat → Option Net
  | 0, _, _ => none
  | fuel + 1, net, id =>
    match net.nodes[id]? with
    | some (.pipe p) => (p.closeRecv).map fun p' => net.setNode id (.pipe p')
    | some (.arr _) => some net
    | some (.conv src _) => closeAll F fuel net src
    | some (.child par idx) =>
      match net.nodes[par]? with
      | some (.parent src core) =>
        let r := core.close F.copy idx
        let net' := net.setNode par (.parent src r.1)
        if r.2 then closeAll F fuel net' src else some net'
      | _ => none
    | some (.merge sts _) =>
      sts.foldlM (fun (n : Net) (sid : Nat) =>
        match n.nodes[sid]? with
        | some (.pipe p) => (p.closeRecv).map fun p' => n.setNode sid (.pipe p')
        | some (.fpipe src .running) => some (n.setNode sid (.fpipe src .pending))
        | some (.fpipe _ .ended) => some n
        | _ => none) net
    | _ => none

inductive SrcStatus where
  | blocked
  | closed (net : Net)
  | items (outs : List (Item × Net))

/-- every outcome of `Recv` on reader `id` that the model allows; `[]` = the call blocks. -/
def recvAll (F : Facts) : Nat → Net → Nat → List (Res × Net)
  | 0, _, _ => []
  | fuel + 1, net, id =>
    match net.nodes[id]? with
    | some (.pipe p) =>
      match p.recv with
      | some (p', r) => [(r, net.setNode id (.pipe p'))]
      | none => []
    | some (.arr rest) =>
      match rest with
      | x :: r => [(.item x, net.setNode id (.arr r))]
      | [] => [(.eof, net)]
    | some (.conv src g) =>
      (recvAll F fuel net src).flatMap fun o =>
        match o.1 with
        | .eof => [(.eof, o.2)]
        | .item it =>
          match convItem g.fn it with
          | some y => [(.item y, o.2)]
          | none => recvAll F fuel o.2 id
    | some (.child par idx) =>
      match net.nodes[par]? with
      | some (.parent src core) =>
        match core.peekLocal F.copy idx with
        | .closed => []
        | .have r c' => [(r, net.setNode par (.parent src c'))]
        | .fill k => (recvAll F fuel net src).map fun o =>
            (o.1, o.2.setNode par (.parent src (core.fill idx k o.1)))
      | _ => []
    | some (.merge sts chosen) =>
      if chosen.isEmpty then [(.eof, net)] else
      let cases := selCases F.tbl F.maxSel chosen.length
      let stats : List (Nat × SrcStatus) := cases.filterMap fun ab =>
        match chosen[ab.1]?, chosen[ab.2]? with
        | some sa, some sb =>
          match sts[sa]? with
          | none => none
          | some sid =>
            match net.nodes[sid]? with
            | some (.pipe p) =>
              match p.recv with
              | none => some (sb, .blocked)
              | some (p', .item x) => some (sb, .items [(x, net.setNode sid (.pipe p'))])
              | some (_, .eof) => some (sb, .closed net)
            | some (.fpipe src .running) =>
              let outs := recvAll F fuel net src
              match outs.find? (fun o => o.1.isEof) with
              | some o =>
                -- the forwarder sees io.EOF: closeSend on its stream, Close on its source
                let n1 := o.2.setNode sid (.fpipe src .ended)
                if F.fwdCloses then
                  match closeAll F fuel n1 src with
                  | some n' => some (sb, .closed n')
                  | none => none
                else some (sb, .closed n1)
              | none =>
                if outs.isEmpty then some (sb, .blocked)
                else some (sb, .items (outs.filterMap fun o => o.1.item?.map (·, o.2)))
            | some (.fpipe _ .ended) => some (sb, .closed net)
            | _ => none
        | _, _ => none
      -- a source found closed and drained is dropped from chosenList and the loop goes round
      -- again (no observable effect, so it is done first); otherwise any ready source may fire
      match stats.findSome? (fun s => match s.2 with | .closed n' => some (s.1, n') | _ => none) with
      | some (sb, n') => recvAll F fuel (n'.setNode id (.merge sts (chosen.erase sb))) id
      | none => stats.flatMap fun s =>
          match s.2 with
          | .items outs => outs.map fun o => (Res.item o.1, o.2)
          | _ => []
    | _ => []

/-- the pipes that feed reader `id` -/
def reach : Nat → Net → Nat → List Nat
  | 0, _, _ => []
  | fuel + 1, net, id =>
    match net.nodes[id]? with
    | some (.pipe _) => [id]
    | some (.conv src _) => reach fuel net src
    | some (.child par _) =>
      match net.nodes[par]? with
      | some (.parent src _) => reach fuel net src
      | _ => []
    | some (.merge sts _) => sts.flatMap fun s => reach fuel net s
    | some (.fpipe src _) => reach fuel net src
    | _ => []

/-- is a select (a point of non-determinism) below reader `id`? -/
def hasMerge : Nat → Net → Nat → Bool
  | 0, _, _ => true
  | fuel + 1, net, id =>
    match net.nodes[id]? with
    | some (.conv src _) => hasMerge fuel net src
    | some (.child par _) =>
      match net.nodes[par]? with
      | some (.parent src _) => hasMerge fuel net src
      | _ => false
    | some (.merge sts _) => sts.length > 1
    | _ => false

def pendings (net : Net) : List Nat :=
  (List.range net.nodes.size).filter fun i =>
    match net.nodes[i]? with
    | some (.fpipe _ .pending) => true
    | _ => false

/-- forwarder `f` notices that its stream was closed: it closes its source. -/
def resolveOne (F : Facts) (fuel : Nat) (net : Net) (f : Nat) : Option Net :=
  match net.nodes[f]? with
  | some (.fpipe src .pending) =>
    let n1 := net.setNode f (.fpipe src .stopped)
    if F.fwdCloses then closeAll F fuel n1 src else some n1
  | _ => some net

def resolveRound (F : Facts) (fuel : Nat) (net : Net) : Option Net :=
  (pendings net).foldlM (resolveOne F fuel) net

/-- every forwarder that has to notice a close does so, repeatedly (closing the source of one
    forwarder can close the stream of the next one further down); also returns the number of
    rounds that were needed. -/
def resolveFix (F : Facts) (fuel : Nat) : Nat → Net → Nat → Option (Net × Nat)
  | 0, net, k => some (net, k)
  | r + 1, net, k =>
    if (pendings net).isEmpty then some (net, k) else
    match resolveRound F fuel net with
    | none => none
    | some net' => resolveFix F fuel r net' (k + 1)

def resolveAll (F : Facts) (fuel : Nat) (net : Net) : Option Net :=
  (resolveFix F fuel (net.nodes.size + 1) net 0).map (·.1)

def getPipe (net : Net) (p : Nat) : Option Pipe :=
  match net.nodes[p]? with
  | some (.pipe x) => some x
  | _ => none

/-- the forwarders that still have to notice and whose source reaches pipe `p` notice now,
    round after round, until `p`'s reading side is closed or nothing changes -/
def resolveReaching (F : Facts) (fuel : Nat) : Nat → Net → Nat → Option Net
  | 0, net, _ => some net
  | r + 1, net, p =>
    match getPipe net p with
    | none => some net
    | some x =>
      if x.recvClosed then some net else
      let ps := (pendings net).filter fun (f : Nat) =>
        match net.nodes[f]? with
        | some (.fpipe src .pending) => (reach fuel net src).contains p
        | _ => false
      if ps.isEmpty then some net else
      match ps.foldlM (resolveOne F fuel) net with
      | none => none
      | some net' => resolveReaching F fuel r net' p

/-- number of rounds of forwarders noticing after which the reading side of `p` is closed -/
def roundsToClose (F : Facts) (fuel : Nat) : Nat → Net → Nat → Nat → Option Nat
  | 0, _, _, _ => none
  | r + 1, net, p, k =>
    match getPipe net p with
    | none => none
    | some x =>
      if x.recvClosed then some k else
      if (pendings net).isEmpty then none else
      match resolveRound F fuel net with
      | none => none
      | some net' => roundsToClose F fuel r net' p (k + 1)

/-- what `Send` on pipe `p` may do now: 0 = may block, 1 = returns false, 2 = returns true,
    3 = either (a forwarder is about to close the reading side). -/
def sendCode (F : Facts) (fuel : Nat) (net : Net) (p : Nat) : Nat :=
  match getPipe net p with
  | none => 0
  | some x =>
    let it : Item := ⟨0, 0⟩
    match x.send it with
    | some (_, true) => 2
    | some (_, false) =>
      match (resolveAll F fuel net).bind (getPipe · p) with
      | some y => if y.recvClosed then 3 else 1
      | none => 1
    | none => 0

/-- If every forwarder that still has to notice a close did so, would the reading side of
    `p` be closed?  Then repeated `Send`s must report it after at most `cap + 6 * rounds`
    accepted items (each forwarder on the way needs one item to notice, and one that has not
    been told yet can take 5 items into its stream and hold a sixth); `some 0` = it is closed
    already. -/
def drainBound (F : Facts) (fuel : Nat) (net : Net) (p : Nat) : Option Nat :=
  match getPipe net p with
  | none => none
  | some x =>
    match roundsToClose F fuel (net.nodes.size + 2) net p 0 with
    | some 0 => some 0
    | some k => some (x.cap + 6 * k)
    | none => none

/-! ### operations of the case language -/

inductive Op where
  | pipe (cap : Nat)
  | arr (items : List Nat)
  | conv (r : Nat) (g : ConvSpec)
  | copy (r : Nat) (n : Nat)
  | merge (rs : List Nat)
  | send (p : Nat) (it : Item) (obsClosed : Bool)
  | feed (p : Nat) (items : List Item)   -- items accepted by concurrent Sends (capacity not checked)
  | closeSend (p : Nat)
  | recv (r : Nat) (obs : Res)
  | close (r : Nat)
  deriving Repr

def pushMany (net : Net) (xs : List Node) : Net × List Nat :=
  xs.foldl (fun acc x => let r := acc.1.push x; (r.1, acc.2 ++ [r.2])) (net, [])

/-- `MergeStreamReaders` (stream.go:696-746) for ≥ 2 readers. -/
def mkMerge (net : Net) (rs : List Nat) : Option (Net × Nat) := do
  let step := fun (acc : Net × List Nat × List Item) (r : Nat) =>
    match acc.1.nodes[r]? with
    | some (.pipe _) => some (acc.1, acc.2.1 ++ [r], acc.2.2)
    | some (.arr rest) => some (acc.1, acc.2.1, acc.2.2 ++ rest)
    | some (.merge sts _) => some (acc.1.setNode r .dead, acc.2.1 ++ sts, acc.2.2)   -- absorbed: its sources now belong to the new reader
    | some (.conv _ _) | some (.child _ _) =>
      let r' := acc.1.push (.fpipe r .running)
      some (r'.1, acc.2.1 ++ [r'.2], acc.2.2)
    | _ => none
  let (net1, ss, arr) ← rs.foldlM step (net, [], [])
  if ss.isEmpty && !arr.isEmpty then
    let r := net1.push (.arr arr)
    pure r
  else
    let (net2, ss2) :=
      if !arr.isEmpty then
        let r := net1.push (.pipe ⟨arr.length, arr, true, false⟩)
        (r.1, ss ++ [r.2])
      else (net1, ss)
    pure (net2.push (.merge ss2 (List.range ss2.length)))

def allDistinct : List Nat → Bool
  | [] => true
  | x :: xs => !xs.contains x && allDistinct xs

/-- One operation together with what the implementation was observed to return.
    `.error` starting with "bad-op" = the harness issued something it should not have;
    starting with "mismatch" = the observation is not a behaviour of the model. -/
def applyOp (F : Facts) (fuel : Nat) (net : Net) : Op → Except String (Net × List Nat)
  | .pipe cap =>
    let r := net.push (.pipe (Pipe.new cap))
    .ok ({ r.1 with readers := r.1.readers ++ [r.2], writers := r.1.writers ++ [r.2] }, [r.2])
  | .arr items =>
    let r := net.push (.arr (items.map fun v => ⟨v, 0⟩))
    .ok ({ r.1 with readers := r.1.readers ++ [r.2] }, [r.2])
  | .conv r g =>
    if !net.readers.contains r then .error "bad-op: conv of a reader not held" else
    let x := net.push (.conv r g)
    .ok ({ x.1 with readers := x.1.readers.erase r ++ [x.2] }, [x.2])
  | .copy r n =>
    if !net.readers.contains r then .error "bad-op: copy of a reader not held" else
    if n < 2 then .ok (net, [r]) else
    match net.nodes[r]? with
    | some (.arr rest) =>
      let x := pushMany net (List.replicate n (.arr rest))
      .ok ({ x.1 with readers := x.1.readers.erase r ++ x.2 }, x.2)
    | some _ =>
      let p := net.push (.parent r (CopyCore.new n))
      let x := pushMany p.1 ((List.range n).map fun i => .child p.2 i)
      .ok ({ x.1 with readers := x.1.readers.erase r ++ x.2 }, x.2)
    | none => .error "bad-op: copy of nothing"
  | .merge rs =>
    if rs.length == 1 && rs.all net.readers.contains then .ok (net, rs) else   -- `return srs[0]`
    if rs.length < 2 || !allDistinct rs || !rs.all net.readers.contains then .error "bad-op: merge arguments" else
    match mkMerge net rs with
    | none => .error "bad-op: merge of a non-reader"
    | some (net', id) => .ok ({ net' with readers := net'.readers.filter (fun r => !rs.contains r) ++ [id] }, [id])
  | .send p it obsClosed =>
    if !net.writers.contains p then .error "bad-op: send on a writer not held" else
    match getPipe net p with
    | none => .error "bad-op: send on a non-pipe"
    | some x =>
      if x.sendClosed then .error "bad-op: send after the writer was closed" else
      match x.send it, obsClosed with
      | some (_, true), true => .ok (net, [])
      | some (_, true), false => .error "mismatch:send-accepted-after-all-readers-closed"
      | some (x', false), false => .ok (net.setNode p (.pipe x'), [])
      | none, false =>
        -- only issued while draining at tear-down: the real forwarder had made room
        match drainBound F fuel net p with
        | some _ => .ok (net.setNode p (.pipe { x with buf := x.buf ++ [it] }), [])
        | none => .error "bad-op: send that may block"
      | _, true =>
        match resolveReaching F fuel (net.nodes.size + 1) net p with
        | none => .error "model-error: close while resolving a forwarder"
        | some net' =>
          match getPipe net' p with
          | some y => if y.recvClosed then .ok (net', []) else .error "mismatch:send-reported-closed-but-a-reader-is-open"
          | none => .error "model-error"
  | .feed p items =>
    match getPipe net p with
    | none => .error "bad-op: feed on a non-pipe"
    | some x =>
      if x.sendClosed then .error "bad-op: feed after the writer was closed" else
      .ok (net.setNode p (.pipe { x with buf := x.buf ++ items }), [])
  | .closeSend p =>
    if !net.writers.contains p then .error "bad-op: close of a writer not held" else
    match (getPipe net p).bind Pipe.closeSend with
    | none => .error "bad-op: second close of a writer"
    | some x' => .ok (net.setNode p (.pipe x'), [])
  | .recv r obs =>
    if !net.readers.contains r then .error "bad-op: recv on a reader not held" else
    let outs := recvAll F fuel net r
    match outs.find? (fun o => o.1 == obs) with
    | some o => .ok (o.2, [])
    | none =>
      if outs.isEmpty then .error "mismatch:recv-returned-but-nothing-can-be-delivered"
      else match obs with
        | .eof => .error "mismatch:recv-eof-but-items-remain"
        | .item _ =>
          if outs.any (fun o => o.1.isEof) then .error "mismatch:recv-item-after-end-of-stream"
          else .error "mismatch:recv-wrong-item"
  | .close r =>
    if !net.readers.contains r then .error "bad-op: close of a reader not held" else
    match closeAll F fuel net r with
    | none => .error "mismatch:model-double-close"
    | some net' => .ok ({ net' with readers := net'.readers.erase r }, [])

def dedupNets (l : List Net) : List Net :=
  l.foldl (fun acc n => if acc.any (· == n) then acc else acc ++ [n]) []

/-- The same value can reach a reader along two paths (two copies of one stream merged
    together), so one observation may have several explanations: the oracle keeps every
    model state that explains the trace so far (at most `maxStates`).  An observation is a
    mismatch only if no explanation is left. -/
def maxStates : Nat := 48

def applyOpSet (F : Facts) (fuel : Nat) (nets : List Net) (op : Op) : Except String (List Net × List Nat) :=
  match op with
  | .recv r obs =>
    if !nets.all (fun n => n.readers.contains r) then .error "bad-op: recv on a reader not held" else
    let outs := nets.flatMap fun net => recvAll F fuel net r
    let good := outs.filterMap fun o => if o.1 == obs then some o.2 else none
    if !good.isEmpty then
      let d := dedupNets good
      -- more explanations than are kept: say so instead of risking to drop the right one
      if d.length > maxStates then .error "inconclusive:too-many-explanations" else .ok (d, [])
    else
    if outs.isEmpty then .error "mismatch:recv-returned-but-nothing-can-be-delivered"
    else match obs with
      | .eof => .error "mismatch:recv-eof-but-items-remain"
      | .item _ =>
        if outs.any (fun o => o.1.isEof) then .error "mismatch:recv-item-after-end-of-stream"
        else .error "mismatch:recv-wrong-item"
  | _ =>
    let rs := nets.map fun n => applyOp F fuel n op
    let oks := rs.filterMap fun r => match r with | .ok x => some x | .error _ => none
    match oks with
    | x :: _ => .ok (dedupNets (oks.map (·.1)), x.2)
    | [] =>
      match rs with
      | .error e :: _ => .error e
      | _ => .error "model-error: no state"

/-- run a whole trace; on failure report the index of the offending operation -/
def runOps (F : Facts) (fuel : Nat) : List Net → Nat → List Op → Except (Nat × String) (List Net × List Nat)
  | nets, _, [] => .ok (nets, [])
  | nets, i, [op] =>
    match applyOpSet F fuel nets op with
    | .ok r => .ok r
    | .error e => .error (i, e)
  | nets, i, op :: rest =>
    match applyOpSet F fuel nets op with
    | .ok r => runOps F fuel r.1 (i + 1) rest
    | .error e => .error (i, e)

end EinoV.C08
