/-
  The meaning given to the Go constructs that `tools/factgen/gotrans.go` translates
  (Gen/Trans*.lean are generated against this prelude).  Core Lean only.

  * a Go `map[string]T` owned by one object is an association list (`GoMap T`) — the same
    representation the engine model uses (`alookup` / `aset`), so the refinement theorems relate
    translated code and model without a data refinement;
  * `error` is `Option GoErr` (`nil` = `none`); an error value keeps only the format string;
  * `any` is the abstract value type `V` of the engine model; `nil : any` is `default`;
  * externals (func-typed struct fields, package functions that are modelled elsewhere) are the
    fields of `Ext V`.
-/
import EinoV.Model.Engine
namespace EinoV.GoSem
open EinoV.Engine

abbrev GoMap (α : Type) := List (String × α)

/-- `_, ok := m[k]` -/
def GoMap.has {α} (m : GoMap α) (k : String) : Bool := (alookup k m).isSome
/-- `m[k] = v` -/
def GoMap.set {α} (m : GoMap α) (k : String) (v : α) : GoMap α := aset k v m
/-- `m[k]` (the zero value when absent) -/
def GoMap.getD' {α} (m : GoMap α) (k : String) (zero : α) : α := (alookup k m).getD zero

inductive GoErr where
  | mk (format : String)
  deriving Repr, DecidableEq, Inhabited

/-- the externals of the translated channel code -/
structure Ext (V : Type) where
  zeroValue : V
  emptyStream : V
  /-- `mergeValues(vs)`: value and error -/
  mergeValues : List V → V × Option GoErr

/-- Go `for range` in the `Id` monad is this structural recursion (`forIn_id`) -/
def goLoop {α β : Type} (f : α → β → ForInStep β) : List α → β → β
  | [], b => b
  | a :: l, b => match f a b with
    | .done b' => b'
    | .yield b' => goLoop f l b'

end EinoV.GoSem
