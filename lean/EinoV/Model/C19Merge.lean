/-
  C19 — the merged reader (`multiStreamReader`, schema/stream.go): the reader every fan-in is
  built from (`schema.MergeStreamReaders`: `mergeValues` of a DAG / Pregel channel,
  `ToolsNode.Stream`, the inputs of a Workflow node).

  State: the merged sources, how many chunks of each the reader has handed on, `chosenList`
  (the sources whose end the reader has not observed yet) and the `closeRecv` signals sent so
  far.  `recv` either hands on a chunk of a source still in `chosenList`, or observes that such a
  source has ended and drops it from `chosenList`.  `close` signals a set of sources that
  depends on the shape of the loop in `multiStreamReader.close` (source fact `mergeCloseLoop`).

  A sender emits through an unbuffered channel: it is released once all its chunks have been
  taken (it then closes its side by itself) or once its stream got the `closeRecv` signal.
  Core only (compiled into the oracle).
-/
namespace EinoV.C19.Merge

/-- which sources the loop of `multiStreamReader.close` signals -/
inductive CloseShape where
  | allSources      -- for _, s := range msr.sts { s.closeRecv() }
  | openValues      -- for _, i := range msr.chosenList { msr.sts[i].closeRecv() }
  | openPositions   -- for i := range msr.chosenList { msr.sts[i].closeRecv() }
  | other
  deriving DecidableEq, Repr

/-- the canonical text factgen produces for the loop (range variables renamed K, V) -/
def CloseShape.ofFact (s : String) : CloseShape :=
  if s = "range msr.sts: V.closeRecv()" then .allSources
  else if s = "range msr.chosenList: msr.sts[V].closeRecv()" then .openValues
  else if s = "range msr.chosenList: msr.sts[K].closeRecv()" then .openPositions
  else .other

/-- the shapes under which an early close releases every sender -/
def CloseShape.sound : CloseShape → Bool
  | .allSources => true
  | .openValues => true
  | _ => false

structure Src where
  len : Nat          -- chunks the sender emits before it closes its side
  pre : Bool := false  -- the sender had finished before the merge (buffered items: merged arrays)
  deriving DecidableEq, Repr

structure St where
  srcs : List Src
  got : List Nat         -- chunks of each source handed on by `recv`
  chosen : List Nat      -- `chosenList`
  signalled : List Nat   -- `closeRecv` calls, in order
  deriving DecidableEq, Repr

def init (srcs : List Src) : St :=
  { srcs := srcs, got := srcs.map (fun _ => 0), chosen := List.range srcs.length, signalled := [] }

def St.lenOf (s : St) (i : Nat) : Nat := (s.srcs.map Src.len).getD i 0
def St.gotOf (s : St) (i : Nat) : Nat := s.got.getD i 0
def St.preOf (s : St) (i : Nat) : Bool := (s.srcs.map Src.pre).getD i false

inductive Ev where
  | chunk (i : Nat)   -- `recv` hands on the next chunk of source i
  | ended (i : Nat)   -- `recv` picks source i, finds it closed and drops it from `chosenList`
  deriving DecidableEq, Repr

/-- one pick of `recv`; `none`: the reader cannot do this -/
def step (s : St) : Ev → Option St
  | .chunk i =>
    if i ∈ s.chosen ∧ s.gotOf i < s.lenOf i then some { s with got := s.got.set i (s.gotOf i + 1) } else none
  | .ended i =>
    if i ∈ s.chosen ∧ s.gotOf i = s.lenOf i then some { s with chosen := s.chosen.erase i } else none

def run (s : St) : List Ev → Option St
  | [] => some s
  | e :: es => match step s e with
    | some s' => run s' es
    | none => none

/-- the sources `close` signals, in order -/
def closeTargets (sh : CloseShape) (s : St) : List Nat :=
  match sh with
  | .allSources => List.range s.srcs.length
  | .openValues => s.chosen
  | .openPositions => List.range s.chosen.length
  | .other => []

def close (sh : CloseShape) (s : St) : St := { s with signalled := s.signalled ++ closeTargets sh s }

/-- the sender of source i is not (or no longer) blocked on a send -/
def St.released (s : St) (i : Nat) : Bool :=
  s.preOf i || s.gotOf i == s.lenOf i || s.signalled.contains i

/-! ### replaying an observed consumer trace (used by the oracle) -/

/-- observe the end of every source that has delivered all its chunks (the most `recv` can have seen) -/
def observeAll (s : St) : St :=
  { s with chosen := s.chosen.filter (fun i => s.gotOf i != s.lenOf i) }

/-- replay the chunks the consumer received (source positions, in order); `eager`: the reader
    observes the end of a source as early as it can, otherwise as late as it can (never, unless
    the consumer read to the end).  `none`: no run of the reader delivers this trace. -/
def replay (eager : Bool) (s : St) : List Nat → Option St
  | [] => some (if eager then observeAll s else s)
  | i :: is =>
    let s0 := if eager then observeAll s else s
    match step s0 (.chunk i) with
    | some s' => replay eager s' is
    | none => none

def allDelivered (s : St) : Bool := (List.range s.srcs.length).all (fun i => s.gotOf i == s.lenOf i)

structure Verdict where
  admissible : Bool        -- some run of the reader delivers the trace
  release : List Nat       -- sources whose sender is released after the close, whatever ends `recv` observed
  ended : List Nat         -- sources whose end `recv` may have observed before the close
  stillOpen : List Nat     -- sources that had not delivered everything when the consumer closed
  deriving Repr

/-- the consumer received `trace`, then saw EOF (`eof`) or closed early -/
def judge (sh : CloseShape) (srcs : List Src) (trace : List Nat) (eof : Bool) : Verdict :=
  let idx := List.range srcs.length
  match replay true (init srcs) trace, replay false (init srcs) trace with
  | some se, some sl =>
    let ok := !eof || allDelivered se
    let ce := close sh se
    let cl := close sh sl
    { admissible := ok,
      release := idx.filter (fun i => ce.released i && cl.released i),
      ended := idx.filter (fun i => !se.chosen.contains i),
      stillOpen := idx.filter (fun i => se.chosen.contains i) }
  | _, _ => { admissible := false, release := [], ended := [], stillOpen := [] }

end EinoV.C19.Merge
