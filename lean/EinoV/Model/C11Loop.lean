/-
  C11 — a node that is executed again inside a resumed run (a cycle leads back to it).

  Code modelled
  * compose/graph_run.go `handleInterruptWithSubGraphAndRerunNodes`: a graph node whose nested
    graph interrupted is saved as the next task with `cp.SkipPreHandler[nodeKey] = true` — its
    state pre-handler ran before the interrupt and must not run again when the node is
    resumed ("subgraph won't run pre-handler again, but rerun nodes will").
  * `restoreTasks`: every task rebuilt from the checkpoint gets
    `skipPreHandler: skipPreHandler[key]` — a field of that one `task`.
  * `createTasks` (calculateNextTasks): tasks the run loop creates later — in particular when a
    Pregel cycle leads back to the same node — are built without the field (false).
  * compose/graph_manager.go `submit`: `if currentTask.call.preProcessor != nil &&
    !currentTask.skipPreHandler { …run the pre-processor… }`; `waitOne` runs the post-processor
    of every finished task.

  The model.  `LoopNode` is one node of a resumed run with its state handlers; execution 0 is
  the task rebuilt from the checkpoint, executions 1, 2, … are the tasks created when the cycle
  comes back to the node.  `skipsPre perTask cpSkip k` says whether `submit` skips the
  pre-handler of execution `k`; `perTask` is the source fact "the skip mark is a field of the
  restored task" (`false`: it is looked up by node key in something that lives as long as the
  run, so it applies to every later execution as well).  `loopProg` is the pipeline of all
  executions, one after the other — a thread of the machines of Model/C11.lean.
-/
import EinoV.Model.C11

namespace EinoV.C11

variable {S V : Type}

/-- a node with its state handlers; `body k` = what the `k`-th execution does between them (for
    `k = 0`: what was left of the node at the interrupt — the rest of the nested graph) -/
structure LoopNode (S V : Type) where
  pre : Option (Wrapper × (S → V → S × V))
  body : Nat → List (Op S V)
  post : Option (Wrapper × (S → V → S × V))

/-- the operation of an optional handler -/
def hOp : Option (Wrapper × (S → V → S × V)) → List (Op S V)
  | some (w, f) => [Op.st w f]
  | none => []

/-- Does `submit` skip the pre-handler of the `k`-th execution of a node in a resumed run.
    `cpSkip` = `cp.SkipPreHandler[node]` (the node is a graph node whose nested graph
    interrupted); `perTask` (source fact): the mark is carried by the restored task only. -/
def skipsPre (perTask cpSkip : Bool) (k : Nat) : Bool := cpSkip && (k == 0 || !perTask)

/-- the pipeline of the `k`-th execution -/
def execProg (perTask cpSkip : Bool) (nd : LoopNode S V) (k : Nat) : List (Op S V) :=
  (if skipsPre perTask cpSkip k then [] else hOp nd.pre) ++ nd.body k ++ hOp nd.post

/-- executions 0 … n, one after the other -/
def loopProg (perTask cpSkip : Bool) (nd : LoopNode S V) (n : Nat) : List (Op S V) :=
  (List.range (n + 1)).flatMap (execProg perTask cpSkip nd)

/-- the `k`-th execution as a task of Model/C11.lean (`Task.prog` is `execProg`) -/
def execTask (perTask cpSkip : Bool) (nd : LoopNode S V) (k : Nat) (input : V) : Task S V :=
  { input := input
    pre := if skipsPre perTask cpSkip k then none else nd.pre
    body := nd.body k
    post := nd.post }

def isPreOp : Op S V → Bool
  | .st .pre _ => true
  | .st .streamPre _ => true
  | _ => false

def isPostOp : Op S V → Bool
  | .st .post _ => true
  | .st .streamPost _ => true
  | _ => false

/-- the handlers go through the handler wrappers, the body does not -/
structure LoopNode.WF (nd : LoopNode S V) : Prop where
  pre : ∀ w f, nd.pre = some (w, f) → w = .pre ∨ w = .streamPre
  post : ∀ w f, nd.post = some (w, f) → w = .post ∨ w = .streamPost
  body : ∀ k, ∀ o ∈ nd.body k, isPreOp o = false ∧ isPostOp o = false

end EinoV.C11
