/-
  C15 — embedded (anonymous) struct fields and promoted selectors.

  Go: "a field or method f of an embedded field in a struct x is called promoted if x.f is a legal
  selector that denotes that field"; "x.f is shorthand for x.A.f" (spec, Selectors / Struct types).
  The field mapping code resolves every path segment with `reflect` `FieldByName`, which follows
  embedding, so a segment may name a promoted field.

  The model keeps the core of `Model/C15.lean` (whose struct navigation knows declared fields
  only) and *lowers* promoted selectors in front of it: a path is elaborated to the explicit path
  it is shorthand for (`ID` ↦ `Base.ID`), type-directed for target paths and for the static check,
  value-directed for the extraction at run time (below an interface-typed slot the struct type is
  known only then).  Everything the core proves about paths is then a statement about the slots
  the declared paths *denote*: two targets overlap when their elaborations are prefix-related,
  a source path through a nil embedded pointer is a source path through a nil pointer (an error),
  a target path through an embedded pointer instantiates it like any other pointer on the way.

  Which fields are embedded is not part of `FTy` (the core needs no notion of it): it is a side
  table of (struct type name, field name) pairs; an embedded field is an ordinary field whose name
  is the name of its type.

  Selector resolution: a declared field first, otherwise the embedded fields in declaration order,
  depth-first.  Go resolves breadth-first and refuses ambiguous selectors; on types where no
  selector is reachable at two places of which the depth-first one is not the shallowest the two
  coincide (the harness checks this for every type of its menu against `reflect`).
-/
import EinoV.Model.C15
namespace EinoV.C15

/-- the embedded fields: (struct type name, field name) -/
abbrev Emb := List (String × String)

mutual
/-- the selector `s` looked for below the embedded fields of `struct sn {fs}` -/
def promotedF (e : Emb) (s : Seg) (sn : String) : FFields → Option Path
  | .nil => none
  | .cons n t r =>
    if e.contains (sn, n) then
      match selEmb e s t with
      | some p => some (n :: p)
      | none => promotedF e s sn r
    else promotedF e s sn r
/-- … in an embedded field of type `T` or `*T` -/
def selEmb (e : Emb) (s : Seg) : FTy → Option Path
  | .struct sn fs => if (fieldTy fs s).isSome then some [s] else promotedF e s sn fs
  | .ptr t => selPtr e s t
  | _ => none
def selPtr (e : Emb) (s : Seg) : FTy → Option Path
  | .struct sn fs => if (fieldTy fs s).isSome then some [s] else promotedF e s sn fs
  | _ => none
end

/-- the explicit path the selector `s` stands for on a value of type `t` (a struct or a pointer to
    a struct): `[s]` for a declared field, `[A, …, s]` for a promoted one; `none` = no such field -/
def selT (e : Emb) (s : Seg) (t : FTy) : Option Path := selEmb e s t

/-- elaboration of a path against a static type: target paths, and both paths of a mapping for
    the static check.  Below an interface-typed slot the segments are kept (a target there is
    expanded to `map[string]any`, the segments are keys); a segment that does not resolve is
    kept, with everything after it (the core then reports what the code reports). -/
def elabTy (e : Emb) : FTy → Path → Path
  | _, [] => []
  | t, s :: r =>
    match t with
    | .map el => s :: elabTy e el r
    | _ =>
      match selT e s t with
      | some p =>
        match slotTy t p with
        | some ft => p ++ elabTy e ft r
        | none => s :: r
      | none => s :: r

/-- elaboration of a source path on the value it is extracted from (the interface value `a`),
    following the dynamic types.  Where the extraction cannot go on (nil pointer, absent key, nil
    interface) the rest is kept: the extraction along the result fails at that place. -/
def elabVal (e : Emb) (f : TakeFacts) : Taken → Path → Path
  | _, [] => []
  | a, s :: r =>
    match a with
    | none => s :: r
    | some (.map el, v) =>
      match v with
      | .map kvs =>
        match kvs.lookup s with
        | some x => s :: elabVal e f (unstore el x) r
        | none => s :: r
      | _ => s :: r
    | some (ty, _) =>
      match selT e s ty with
      | some p =>
        match takeFrom f a false p with
        | .ok b => p ++ elabVal e f b r
        | .error _ => p ++ r
      | none => s :: r

/-- a mapping as the static check and the overlap check have to see it -/
def elabMapping (e : Emb) (pt st : FTy) (m : Mapping) : Mapping :=
  { src := elabTy e pt m.src, dst := elabTy e st m.dst }

/-- the source path of an (elaborated) mapping as the extraction walks it on the value `v` -/
def runPath (e : Emb) (f : TakeFacts) (pt : FTy) (v : FVal) (m : Mapping) : Path :=
  elabVal e f (unstore pt v) m.src

/-! ## one edge, one run — with the source path resolved on the value -/

/-- `fieldMapE` with the extraction path given by `rp` (the run-time checker still belongs to
    the mapping as declared) -/
def fieldMapR (f : TakeFacts) (allowMissing : Bool) (pt : FTy) (v : FVal) (rp : Mapping → Path) :
    List Mapping → Except RunErr (List (Mapping × Taken))
  | [] => .ok []
  | m :: rest =>
    match take f pt v (rp m) with
    | .error .keyMissing =>
      if allowMissing then fieldMapR f allowMissing pt v rp rest else .error .request
    | .error .bad => .error .request
    | .error .panic => .error .panic
    | .ok a =>
      match fieldMapR f allowMissing pt v rp rest with
      | .ok l => .ok ((m, a) :: l)
      | .error e => .error e

def edgesMapR (f : TakeFacts) (vf : ValidateFacts) (allowMissing : Bool) (st : FTy)
    (rp : Edge → Mapping → Path) : List Edge → Except RunErr (List (Path × Taken))
  | [] => .ok []
  | e :: rest =>
    match fieldMapR f allowMissing e.pt e.v (rp e) e.ms with
    | .error err => .error err
    | .ok l =>
      if checkPanicE vf e.pt st e.ms l then .error .panic
      else if checkE vf e.pt st e.ms l then
        match edgesMapR f vf allowMissing st rp rest with
        | .ok l' => .ok (l.map (fun (m, a) => (m.dst, a)) ++ l')
        | .error err => .error err
      else .error .request

def runNodeR (f : TakeFacts) (vf : ValidateFacts) (allowMissing : Bool) (st : FTy)
    (rp : Edge → Mapping → Path) (es : List Edge) : Except RunErr FVal :=
  match edgesMapR f vf allowMissing st rp es with
  | .error e => .error e
  | .ok l =>
    match convertTo st l with
    | some v => .ok v
    | none => .error .panic

/-- an edge as declared → the edge the core runs: mappings elaborated against the static types -/
def elabEdge (e : Emb) (st : FTy) (ed : Edge) : Edge :=
  { ed with ms := ed.ms.map (elabMapping e ed.pt st) }

/-- what the successor receives when selectors may be promoted: the declared mappings are
    elaborated, extraction follows the value -/
def runNodeP (e : Emb) (f : TakeFacts) (vf : ValidateFacts) (allowMissing : Bool) (st : FTy)
    (es : List Edge) : Except RunErr FVal :=
  runNodeR f vf allowMissing st (fun ed m => runPath e f ed.pt ed.v m) (es.map (elabEdge e st))

/-- compile-time acceptance: overlap detection on the slots the target paths denote, static
    validation of the elaborated mappings -/
def compileOKP (e : Emb) (tf : TrieFacts) (vf : ValidateFacts) (st : FTy)
    (decls : List (FTy × List Mapping)) : Bool :=
  compileOK tf vf st (decls.map (fun d => (d.1, d.2.map (elabMapping e d.1 st))))

end EinoV.C15
