/-
  C10 — callback handler lists and dispatch
  (internal/callbacks/inject.go, manager.go; compose/utils.go initGraphCallbacks /
  initNodeCallbacks / runWithCallbacks; compose/graph_run.go deferred graph callbacks;
  compose/tool_node.go per-tool-call run info).

  Go slice semantics are explicit: a `Slice` is a window `(array id, off, len, cap)` into a
  heap of fixed-size arrays; `goAppend` writes in place when `len + k ≤ cap` and allocates
  otherwise.  Whether `AppendHandlers` / `On` append to the *inherited* slice itself or to a
  fresh copy are source facts (`Facts.appendCopies`, `Facts.onCopies`) passed as parameters.

  Execution units (the graph, every node execution, every tool call) are the entries of a
  `Prog`; each owns a callback context created from its parent's context and a short
  program of callback timings (start, then end / stream end / error).  A schedule is an
  arbitrary list of events `mk i` (unit i creates its context) / `step i` (unit i fires its
  next callback); disabled events are no-ops, so "for every interleaving" is `∀ evs`.
-/
namespace EinoV.C10

/-! ## handlers and timings -/

/-- callbacks/interface.go: TimingOnStart … TimingOnEndWithStreamOutput (iota order) -/
inductive Timing where
  | start | end_ | error | startStream | endStream
  deriving DecidableEq, Repr, Inhabited

def Timing.toNat : Timing → Nat
  | .start => 0 | .end_ => 1 | .error => 2 | .startStream => 3 | .endStream => 4

def Timing.isStart : Timing → Bool
  | .start => true | .startStream => true | _ => false

def Timing.isStream : Timing → Bool
  | .startStream => true | .endStream => true | _ => false

/-- A handler value: its identity and its optional `TimingChecker`
    (`none` = the handler does not implement it, every timing is delivered;
     `some m` = `Needed(t)` is bit `t` of `m`). -/
structure Hd where
  id : Nat
  mask : Option Nat
  deriving DecidableEq, Repr, Inhabited

def Hd.needed (h : Hd) (t : Timing) : Bool :=
  match h.mask with
  | none => true
  | some m => m.testBit t.toNat

/-! ## Go slices over a heap of arrays -/

structure Slice where
  arr : Nat
  off : Nat
  len : Nat
  cap : Nat
  deriving DecidableEq, Repr, Inhabited

/-- the nil slice -/
def Slice.nil : Slice := ⟨0, 0, 0, 0⟩

/-- array id = index; an array never changes its length -/
abbrev Heap := List (List Hd)

def Heap.read (h : Heap) (s : Slice) : List Hd :=
  (((h[s.arr]?).getD []).drop s.off).take s.len

/-- overwrite `xs.length` cells of `a` starting at `pos` -/
def writeAt (a : List Hd) (pos : Nat) (xs : List Hd) : List Hd :=
  a.take pos ++ xs ++ a.drop (pos + xs.length)

/-- runtime.roundupsize for 16-byte elements (an interface value): size classes are every
    16 bytes up to 256 bytes and every 32 bytes up to 512 bytes.  Exact for ≤ 32 elements,
    which is all the harness generates; beyond that the model keeps the requested size. -/
def roundCap (c : Nat) : Nat :=
  if c ≤ 16 then c else if c ≤ 32 then c + c % 2 else c

/-- runtime.nextslicecap (go1.20+): `need` if it exceeds twice the old capacity, else
    double (old capacity < 256). -/
def growCap (oldCap need : Nat) : Nat :=
  roundCap (if need > 2 * oldCap then need else if oldCap < 256 then 2 * oldCap else need)

/-- Go's built-in `append(s, xs...)`. -/
def goAppend (h : Heap) (s : Slice) (xs : List Hd) : Heap × Slice :=
  if s.len + xs.length ≤ s.cap then
    (h.set s.arr (writeAt ((h[s.arr]?).getD []) (s.off + s.len) xs),
     { s with len := s.len + xs.length })
  else
    let content := h.read s ++ xs
    let c := growCap s.cap content.length
    (h ++ [content ++ List.replicate (c - content.length) default],
     { arr := h.length, off := 0, len := content.length, cap := c })

/-- `n := make([]Handler, len(s), len(s)+len(xs)); copy(n, s); append(n, xs...)`
    (equivalently `append(s[:len(s):len(s)], xs...)`): always a fresh array. -/
def copyAppend (h : Heap) (s : Slice) (xs : List Hd) : Heap × Slice :=
  let content := h.read s ++ xs
  (h ++ [content], { arr := h.length, off := 0, len := content.length, cap := content.length })

def appendH (copies : Bool) (h : Heap) (s : Slice) (xs : List Hd) : Heap × Slice :=
  if copies then copyAppend h s xs else goAppend h s xs

/-! ## source facts -/

structure Facts where
  /-- `AppendHandlers` appends the designated handlers to a copy of the inherited slice -/
  appendCopies : Bool
  /-- `On` builds `handlers ++ globalHandlers` without appending to `mgr.handlers` itself -/
  onCopies : Bool
  /-- `OnStartHandle` / the stream-input start handle run the handlers last to first -/
  startReversed : Bool
  /-- `InitCallbacks` ALWAYS stores a manager in the context it returns — the `nil` manager when
      there is neither a call handler nor a global handler — so whatever manager the incoming
      context carried (handlers and run info of the surrounding unit) is overwritten -/
  initInstalls : Bool
  deriving DecidableEq, Repr

/-! ## execution units -/

inductive Kind where
  /-- `InitCallbacks(ctx, info, s...)`: the manager keeps the caller's slice `s` as is.  `ctx` is
      the parent unit's context if the declaration has a parent (work detached from the run by
      user code inside a node), else a context without manager. -/
  | init (s : Slice)
  /-- `AppendHandlers(parentCtx, info, designated...)` (initGraphCallbacks / initNodeCallbacks) -/
  | append
  /-- `ReuseHandlers(parentCtx, info)` (tool calls) -/
  | reuse
  deriving DecidableEq, Repr

structure UnitDecl where
  parent : Option Nat
  kind : Kind
  /-- handlers designated to this unit (ignored for `init` / `reuse`) -/
  desig : List Hd
  /-- the unit's RunInfo (name / type / component, rendered) -/
  info : String
  /-- the callback timings this unit fires, in program order -/
  prog : List Timing
  deriving Repr

structure Prog where
  /-- arrays that exist before the run (the caller's handler slices) -/
  arrays : Heap
  /-- `callbacks.GlobalHandlers` (constant during the run; `newManager` copies it) -/
  globals : List Hd
  units : List UnitDecl
  deriving Repr

structure Ctx where
  slice : Slice
  info : String
  deriving Repr, DecidableEq

structure LogEv where
  unit : Nat
  info : String
  h : Hd
  t : Timing
  deriving DecidableEq, Repr

structure St where
  heap : Heap
  ctxs : Nat → Option Ctx
  pc : Nat → Nat
  log : List LogEv

def upd {α : Type} (f : Nat → α) (i : Nat) (v : α) : Nat → α := fun j => if j = i then v else f j

inductive Ev where
  | mk (i : Nat)
  | step (i : Nat)
  deriving DecidableEq, Repr

def St.init (P : Prog) : St := ⟨P.arrays, fun _ => none, fun _ => 0, []⟩

/-- the slice the new context is built from; `none` = the parent context does not exist yet
    (the event is not enabled).  A unit can only be created below an earlier unit. -/
def parentSlice (st : St) (d : UnitDecl) (i : Nat) : Option Slice :=
  match d.parent with
  | none => if d.kind = .reuse then none else some Slice.nil
  | some p => if p < i then (st.ctxs p).map (·.slice) else none

/-- an `init` unit declared below a parent is created from the parent's context: enabled only
    once an earlier parent has its context -/
def initEnabled (st : St) (d : UnitDecl) (i : Nat) : Bool :=
  match d.parent with
  | none => true
  | some p => decide (p < i) && (st.ctxs p).isSome

/-- What `InitCallbacks(parentCtx, info, s...)` leaves in the context.  With `initInstalls`
    (the source) it is the new manager `(s, info)` in every case; for an empty `s` without global
    handlers that is the `nil` manager, under which nobody is called.  If instead the function
    returned the incoming context untouched when there is nothing to install
    (`initInstalls = false`), the inherited manager — the surrounding unit's handlers AND its
    run info — would stay in force. -/
def initCtx (F : Facts) (P : Prog) (st : St) (d : UnitDecl) (s : Slice) : Ctx :=
  if F.initInstalls || !(s.len == 0 && P.globals.isEmpty) then ⟨s, d.info⟩
  else
    match d.parent with
    | none => ⟨s, d.info⟩
    | some p => (st.ctxs p).getD ⟨s, d.info⟩

def doMk (F : Facts) (P : Prog) (st : St) (i : Nat) : St :=
  match P.units[i]? with
  | none => st
  | some d =>
    if (st.ctxs i).isSome then st else
    match d.kind with
    | .init s =>
      if s.arr < P.arrays.length && initEnabled st d i then
        { st with ctxs := upd st.ctxs i (some (initCtx F P st d s)) }
      else st
    | .append =>
      match parentSlice st d i with
      | none => st
      | some ps =>
        let r := appendH F.appendCopies st.heap ps d.desig
        { st with heap := r.1, ctxs := upd st.ctxs i (some ⟨r.2, d.info⟩) }
    | .reuse =>
      match parentSlice st d i with
      | none => st
      | some ps => { st with ctxs := upd st.ctxs i (some ⟨ps, d.info⟩) }

/-- inject.go `On`: the list the timing filter runs over, `append(mgr.handlers, mgr.globalHandlers...)` -/
def onList (onCopies : Bool) (h : Heap) (s : Slice) (g : List Hd) : Heap × List Hd :=
  if onCopies then (h, h.read s ++ g)
  else
    let r := goAppend h s g
    (r.1, r.1.read r.2)

/-- timing filter, then the order the handle function runs the handlers in -/
def dispatch (rev : Bool) (t : Timing) (hs : List Hd) : List Hd :=
  let f := hs.filter (fun h => h.needed t)
  if t.isStart && rev then f.reverse else f

def doStep (F : Facts) (P : Prog) (st : St) (i : Nat) : St :=
  match P.units[i]?, st.ctxs i with
  | some d, some c =>
    match d.prog[st.pc i]? with
    | none => st
    | some t =>
      let r := onList F.onCopies st.heap c.slice P.globals
      { st with heap := r.1, pc := upd st.pc i (st.pc i + 1),
                log := st.log ++ (dispatch F.startReversed t r.2).map (fun h => ⟨i, c.info, h, t⟩) }
  | _, _ => st

def stepEv (F : Facts) (P : Prog) (st : St) : Ev → St
  | .mk i => doMk F P st i
  | .step i => doStep F P st i

def runFrom (F : Facts) (P : Prog) : St → List Ev → St
  | st, [] => st
  | st, e :: es => runFrom F P (stepEv F P st e) es

def run (F : Facts) (P : Prog) (evs : List Ev) : St := runFrom F P (St.init P) evs

/-- the handler list of unit `i` as the code computes it, in the final state -/
def handlersFor (st : St) (i : Nat) : Option (List Hd) := (st.ctxs i).map (fun c => st.heap.read c.slice)

/-! ## specification: inherited ++ designated, by recursion over the unit tree -/

def spec (P : Prog) (i : Nat) : List Hd :=
  match P.units[i]? with
  | none => []
  | some d =>
    match d.kind with
    | .init s => P.arrays.read s
    | .append =>
      match d.parent with
      | none => d.desig
      | some p => if _h : p < i then spec P p ++ d.desig else []
    | .reuse =>
      match d.parent with
      | none => []
      | some p => if _h : p < i then spec P p else []
termination_by i

def unitInfo (P : Prog) (i : Nat) : String := ((P.units[i]?).map (·.info)).getD ""
def unitProg (P : Prog) (i : Nat) : List Timing := ((P.units[i]?).map (·.prog)).getD []

/-- the events unit `i` must have produced after firing the timings `ts` with handler list `hs` -/
def render (rev : Bool) (i : Nat) (info : String) (hs : List Hd) : List Timing → List LogEv
  | [] => []
  | t :: ts => (dispatch rev t hs).map (fun h => ⟨i, info, h, t⟩) ++ render rev i info hs ts

def projLog (log : List LogEv) (i : Nat) : List LogEv := log.filter (fun e => e.unit == i)

/-! ## what a unit fires: the three places the framework issues callbacks from -/

/-- how the wrapped function returned.  `intr`: it returned an interrupt
    (`compose.InterruptAndRerun`, an error wrapping it, or a sub-graph interrupt) — for the
    wrapper this is `err != nil` like any failure, for the run it is a suspension. -/
inductive EndKind where
  | ok | okStream | err | intr
  deriving DecidableEq, Repr

def startT (stream : Bool) : Timing := if stream then .startStream else .start
/-- the finishing callback that belongs to an outcome -/
def endT : EndKind → Timing
  | .ok => .end_ | .okStream => .endStream | .err => .error | .intr => .error

/-- compose/utils.go `runWithCallbacks`, the callbacks of one *returned* call:
    `onStart; r; if err != nil { … onError; return }; onEnd; return`.
    `onErrorAlways` (source fact): nothing returns between `r` and the `onError` call, i.e.
    `onError` is reached on every `err != nil` path.  The one class of errors the runtime
    itself tells apart (`isInterruptError`) is the interrupt: with `onErrorAlways = false`
    the model lets exactly that path leave before `onError`. -/
def wrapperCalls (onErrorAlways : Bool) (startStream : Bool) (k : EndKind) : List Timing :=
  startT startStream ::
    (match k with
     | .intr => if onErrorAlways then [Timing.error] else []
     | k => [endT k])

/-- the return paths of `runner.run` (graph_run.go) -/
inductive RunPath where
  /-- an error return before `onGraphStart` was reached (invalid options, checkpoint load …) -/
  | earlyErr
  /-- `onGraphStart` … an error return from the loop -/
  | lateErr
  /-- `onGraphStart` … `return result, nil` -/
  | ok
  deriving DecidableEq, Repr

/-- `runner.run` as written: the body sets `haveOnStart` when it calls `onGraphStart`; the
    deferred block (present iff `hasDefer`) calls `onGraphStart` if it was not called
    (iff `deferStartsIfMissing`), then `onGraphError` or `onGraphEnd`. -/
def runCalls (hasDefer deferStartsIfMissing : Bool) (isStream : Bool) (p : RunPath) : List Timing :=
  let body : List Timing × Bool × Bool :=   -- calls, haveOnStart, err != nil
    match p with
    | .earlyErr => ([], false, true)
    | .lateErr => ([startT isStream], true, true)
    | .ok => ([startT isStream], true, false)
  let deferred : List Timing :=
    if hasDefer then
      (if !body.2.1 && deferStartsIfMissing then [startT isStream] else []) ++
      (if body.2.2 then [Timing.error] else [if isStream then Timing.endStream else Timing.end_])
    else []
  body.1 ++ deferred

/-! ## stream payload copies (inject.go `OnWithStreamHandle`) -/

/-- `inOuts := cpy(len(handlers) + extra)`; handler `i` gets `inOuts[i]`, the flow continues
    with `inOuts[len(inOuts)-1]`.  Returns (copy index per handler, copy index of the flow,
    number of copies); no handler → no copy, the flow keeps the original (`none`). -/
def assignCopies (extra : Nat) (n : Nat) : List Nat × Option Nat × Nat :=
  if n = 0 then ([], none, 0) else (List.range n, some (n + extra - 1), n + extra)

/-- A copied stream (schema `StreamReader.Copy`): the source is pulled lazily, pulled items
    are kept for the readers that have not seen them yet; each reader has its own cursor
    (`none` = closed). -/
structure Copies where
  src : List Nat
  buf : List Nat
  cur : List (Option Nat)
  deriving Repr, DecidableEq

def Copies.mk' (items : List Nat) (n : Nat) : Copies := ⟨items, [], List.replicate n (some 0)⟩

/-- reader `r` receives: the next item it has not seen (pulling the source if needed) -/
def Copies.recv (c : Copies) (r : Nat) : Copies × Option Nat :=
  match c.cur[r]? with
  | some (some k) =>
    if k < c.buf.length then ({ c with cur := c.cur.set r (some (k + 1)) }, c.buf[k]?)
    else match c.src with
      | [] => (c, none)
      | x :: xs => ({ src := xs, buf := c.buf ++ [x], cur := c.cur.set r (some (k + 1)) }, some x)
  | _ => (c, none)

def Copies.close (c : Copies) (r : Nat) : Copies := { c with cur := c.cur.set r none }

inductive ROp where
  | recv (r : Nat)
  | close (r : Nat)
  deriving Repr, DecidableEq

def ROp.reader : ROp → Nat
  | .recv r => r | .close r => r

def Copies.apply (c : Copies) : ROp → Copies
  | .recv r => (c.recv r).1
  | .close r => c.close r

/-- everything reader `r` still receives if it reads to the end (`fuel` ≥ remaining items) -/
def Copies.drain (c : Copies) (r : Nat) : Nat → List Nat
  | 0 => []
  | fuel + 1 =>
    match c.recv r with
    | (c', some x) => x :: Copies.drain c' r fuel
    | (_, none) => []

/-! ## compose level: which handlers are designated to which unit -/

structure Opt where
  hs : List Hd
  /-- `DesignateNode` / `DesignateNodeWithPath` targets; empty = applies to the called graph -/
  paths : List (List String)
  deriving Repr

/-- how a unit issues its callbacks -/
inductive UKind where
  /-- a graph (`runner.run`) -/
  | graph (isStream : Bool) (p : RunPath)
  /-- a component wrapped by `runWithCallbacks` because it does not fire callbacks itself -/
  | wrapped (startStream : Bool) (k : EndKind)
  /-- a component that fires its own callbacks (`IsCallbacksEnabled`): the framework adds none;
      the list is what the component does -/
  | self (own : List Timing)
  deriving Repr

structure UnitSpec where
  /-- node keys from the called graph down to this unit; `[]` = the called graph itself -/
  path : List String
  /-- tool call inside a ToolsNode: context made with `ReuseHandlers` -/
  toolCall : Bool
  /-- the unit's own RunInfo (name / type / component, rendered) -/
  info : String
  kind : UKind
  /-- the component implements `IsCallbacksEnabled() = true` (it fires its own callbacks) -/
  cbEnabled : Bool
  deriving Repr

/-- the source facts of the compose level (compose/graph_run.go, utils.go, tool_node.go) -/
structure CFacts where
  /-- `runner.run` has the deferred end/error block -/
  hasDefer : Bool
  /-- … which calls `onGraphStart` if the body did not -/
  deferStarts : Bool
  /-- `runWithCallbacks` reaches `onError` on every `err != nil` path -/
  wrapperOnErrorAlways : Bool
  /-- `runToolCallTaskBy{Invoke,Stream}` make the tool call's context with the tool's own
      RunInfo unconditionally — also for a tool that fires its own callbacks -/
  toolOwnInfoAlways : Bool
  deriving DecidableEq, Repr

structure Case where
  globals : List Hd
  /-- handlers the caller put into the context with `callbacks.InitCallbacks` before the call,
      and the spare capacity of the slice he passed -/
  userInit : Option (List Hd × Nat)
  opts : List Opt
  units : List UnitSpec
  deriving Repr

/-- initGraphCallbacks: `cbs = append(cbs, opt.handler...)` over the options without paths,
    starting from nil (always Go's append, whatever the facts). -/
def buildCbs (opts : List Opt) : Heap × Slice :=
  (opts.filter (fun o => o.paths.isEmpty)).foldl (fun (acc : Heap × Slice) o => goAppend acc.1 acc.2 o.hs) ([], Slice.nil)

/-- initNodeCallbacks (+ extractOption forwarding path suffixes into sub-graphs): the handlers
    of every option one of whose paths is this unit's path, in option order. -/
def designated (opts : List Opt) (path : List String) : List Hd :=
  (opts.filter (fun o => o.paths.contains path)).flatMap (·.hs)

def kindProg (cf : CFacts) : UKind → List Timing
  | .graph s p => runCalls cf.hasDefer cf.deferStarts s p
  | .wrapped s k => wrapperCalls cf.wrapperOnErrorAlways s k
  | .self own => own

/-- index (in `c.units`) of the unit that owns the context this unit's context is made from -/
def parentIdx (us : List UnitSpec) (u : UnitSpec) : Option Nat :=
  us.findIdx? (fun v => v.path == u.path.dropLast && !v.toolCall)

/-- The RunInfo in the context a unit's callbacks are fired with.  compose/tool_node.go
    `runToolCallTaskBy{Invoke,Stream}`: `ctx = ReuseHandlers(ctx, &RunInfo{task.name, …})` before
    the tool runs.  If that were done only for tools the framework wraps
    (`toolOwnInfoAlways = false`), a tool firing its own callbacks would fire them in the
    ToolsNode's context, i.e. with the ToolsNode's RunInfo. -/
def effInfo (cf : CFacts) (us : List UnitSpec) (u : UnitSpec) : String :=
  if u.toolCall && u.cbEnabled && !cf.toolOwnInfoAlways then
    match parentIdx us u with
    | some p => ((us[p]?).map (·.info)).getD u.info
    | none => u.info
  else u.info

/-- one unit of a compose run as a unit of the machine; `shift` = 1 if unit 0 is the caller's context -/
def mkUnit (cf : CFacts) (c : Case) (root : UnitDecl) (shift : Nat) (u : UnitSpec) : UnitDecl :=
  if u.path.isEmpty && !u.toolCall then
    { root with info := effInfo cf c.units u, prog := kindProg cf u.kind }
  else
    ⟨(parentIdx c.units u).map (· + shift), if u.toolCall then .reuse else .append,
     designated c.opts u.path, effInfo cf c.units u, kindProg cf u.kind⟩

/-- The units of a compose run.  Unit 0 is the caller's context (if `userInit`) or the called
    graph; `c.units[0]` must be the called graph (`path = []`). -/
def progOf (cf : CFacts) (c : Case) : Prog :=
  let cbs := buildCbs c.opts
  match c.userInit with
  | none =>
    { arrays := if cbs.1.isEmpty then [[]] else cbs.1, globals := c.globals,
      units := c.units.map (mkUnit cf c ⟨none, .init cbs.2, [], "", []⟩ 0) }
  | some (hs, spare) =>
    let base : Heap := if cbs.1.isEmpty then [[]] else cbs.1
    let ua : List Hd := hs ++ List.replicate spare default
    { arrays := base ++ [ua], globals := c.globals,
      units := ⟨none, .init ⟨base.length, 0, hs.length, hs.length + spare⟩, [], "caller", []⟩ ::
               c.units.map (mkUnit cf c ⟨some 0, .append, base.read cbs.2, "", []⟩ 1) }

/-- the canonical sequential schedule: every unit is created, then fires its whole program -/
def seqSchedule (P : Prog) : List Ev :=
  (List.range P.units.length).map Ev.mk ++
  (List.range P.units.length).flatMap (fun i => List.replicate (unitProg P i).length (Ev.step i))

end EinoV.C10
