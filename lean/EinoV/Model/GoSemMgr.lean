/-
  Additions to the prelude `Model/GoSem.lean` for the translated channel manager
  (Gen/TransMgr.lean, compose/graph_manager.go).  Core Lean only.

  * the values of `channelManager.channels` are objects with pointer semantics: an entry is read with
    `GoMap.get?` (`none` = the nil interface value of a missing entry) when a method is called
    through a reference to it, and the mutated object is written back with `GoMap.set`;
  * a method call through a nil interface value panics in Go: functions in which this can happen
    return `MayPanic`;
  * the edge / pre-node handler managers are externals (`MgrExt`).
-/
import EinoV.Model.GoSem
namespace EinoV.GoSem
open EinoV.Engine

/-- `m[k]` where the values are objects: `none` is the nil interface value of a missing entry -/
def GoMap.get? {α} (m : GoMap α) (k : String) : Option α := alookup k m

/-- the externals of the translated channel manager: the edge and pre-node handler managers
    (`edgeHandlerManager.handle(from, to, value, isStream)`, `preNodeHandlerManager.handle(key, value, isStream)`) -/
structure MgrExt (V : Type) where
  edgeHandle : String → String → V → Bool → V × Option GoErr
  preNodeHandle : String → V → Bool → V × Option GoErr

/-- outcome of a translated function that may call a method through a nil interface value
    (a missing map entry): the Go function panics, or returns its results -/
inductive MayPanic (α : Type) where
  | panic
  | ret (a : α)

end EinoV.GoSem
