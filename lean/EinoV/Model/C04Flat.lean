/-
  C04 — instantiation of the chunk operations for the case-language value universe
  (`FlatMap` = map[string]any with string values): per-key string concatenation
  (`concatMaps` + string join of internal/concat.go) and the chunkers of the case language.
-/
import EinoV.Model.C04
import EinoV.Model.FlatMap

namespace EinoV.C04
open EinoV EinoV.Engine

/-- per-key concatenation of map chunks, in chunk order -/
def flatConcatItems (chunks : List FlatMap) : FlatMap :=
  chunks.foldl (fun acc m => m.foldl (fun acc kv =>
    match acc.find? (·.1 == kv.1) with
    | some old => FlatMap.insertSorted kv.1 (old.2 ++ kv.2) acc
    | none => FlatMap.insertSorted kv.1 kv.2 acc) acc) []

def flatChunkOps : ChunkOps FlatMap :=
  { concatItems := fun cs => .ok (flatConcatItems cs), emptyErr := { cls := .user 9999 } }

/-- split a string by the size pattern; the remainder is the last chunk; always ≥ 1 chunk -/
def chunkChars : List Nat → List Char → List (List Char)
  | [], cs => [cs]
  | n :: ns, cs => if cs.length ≤ n then [cs] else cs.take n :: chunkChars ns (cs.drop n)

def chunkStr (pat : List Nat) (s : String) : List String :=
  (chunkChars (pat.map (· + 1)) s.toList).map String.ofList

/-- chunker of a single-key map value {k: s}: chunks {k: piece}; other maps: one chunk -/
def flatChunk (pat : List Nat) (v : FlatMap) : List FlatMap :=
  match v with
  | [(k, s)] => (chunkStr pat s).map (fun p => [(k, p)])
  | _ => [v]

/-- stream-mode values: chunk lists; fan-in merge = the sources' chunks one source after
    the other (one of the interleavings `MergeStreamReaders` may produce); the zero stream is
    one chunk carrying the zero value (the empty map), as `emptyStreamFromGeneric` builds it -/
def streamOps : ValOps (List FlatMap) := { merge := fun ls => some ls.flatten, zero := [[]] }

end EinoV.C04
