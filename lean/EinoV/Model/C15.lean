/-
  C15 — Workflow field mappings (compose/field_mapping.go, compose/workflow.go).

  Executable model, core Lean only.  Source facts are explicit parameters (`TrieFacts`,
  `TakeFacts`, `ValidateFacts`, `ChainFacts`); `EinoV/Expected/C15.lean` holds the values the
  theorems are proved for.

  * `FTy` / `FVal`      the type and value universe (structs, pointers, map[string]T, any, basics,
                        slices / funcs / channels as opaque leaves `opq`, non-empty interfaces
                        `iface name impls` with the spellings of the types implementing them)
  * `take`              `fieldMap` + `takeOne`: extraction along a source path
  * `assign`            `assignOne`: assignment along a target path, instantiating pointers and
                        maps on the way, expanding `any` to `map[string]any`
  * `convertTo`         fold of `assign` over the (to ↦ taken) map in a given iteration order
  * `checkMapped`       the trie of `WorkflowNode.checkAndAddMappedPath`, as the code has it,
                        parametrised by its structural facts
  * `noOverlap`         the order-free specification
  * `validate`          the static checker (`validateFieldMapping`) and its run-time checkers
                        (`runtimeCheck`: does a value pass; `checkPanics`: does the checker of a
                        source path through an interface dereference the nil `reflect.Type`)

  Struct values are kept aligned with their type (fields in declaration order); navigation is
  type-directed and positional, exactly like `reflect` (a `reflect.Value` cannot disagree with
  its `reflect.Type`).  On a value that is not aligned with the type the model re-instantiates
  the missing part; no such value is ever produced by the model or sent by the harness.
-/
namespace EinoV.C15

abbrev Seg := String
abbrev Path := List Seg

/-! ## types and values -/

/-- kinds the field mapping code never navigates and only ever moves as a whole: `[]T`, `func…`,
    `chan T`.  All three have a nil value in Go; the code's own list of kinds "for which an untyped
    nil is acceptable" (`reflect.Map, Slice, Ptr, Interface`, three copies in field_mapping.go) has
    the slice only. -/
inductive OKind where
  | slice | func | chan
  deriving DecidableEq, Repr, Inhabited

mutual
inductive FTy where
  | str | int
  | any
  | ptr (t : FTy)
  | map (t : FTy)                       -- map[string]t
  | struct (name : String) (fs : FFields)
  | opq (k : OKind) (name : String)     -- an opaque leaf type, identified by its Go spelling
  /-- a non-empty interface type (`fmt.Stringer`, any named interface other than `any`);
      `impls` = the Go spellings of the concrete types of the universe that implement it
      (`reflect.Type.Implements`) -/
  | iface (name : String) (impls : List String)
  deriving DecidableEq, Repr, Inhabited
inductive FFields where
  | nil
  | cons (n : String) (t : FTy) (r : FFields)
  deriving DecidableEq, Repr, Inhabited
end

mutual
inductive FVal where
  | str (s : String) | int (i : Int)    -- (a non-nil value of an opaque type is `str token`)
  | nil                                 -- nil pointer / nil map / nil interface / nil slice, func, chan
  | ptr (v : FVal)                      -- non-nil pointer
  | obj (fs : FKVs)                     -- struct value, fields in declaration order
  | map (kvs : FKVs)                    -- non-nil map, keys kept sorted by `FKVs.ins`
  | box (t : FTy) (v : FVal)            -- non-nil interface value with dynamic type t
  deriving DecidableEq, Repr, Inhabited
inductive FKVs where
  | nil
  | cons (k : String) (v : FVal) (r : FKVs)
  deriving DecidableEq, Repr, Inhabited
end

/-- what `f.Interface()` hands on: `none` = nil interface (an invalid `reflect.Value`),
    `some (ty, v)` = dynamic type and value -/
abbrev Taken := Option (FTy × FVal)

mutual
/-- Go zero value -/
def zero : FTy → FVal
  | .str => .str ""
  | .int => .int 0
  | .any => .nil
  | .ptr _ => .nil
  | .map _ => .nil
  | .struct _ fs => .obj (zeroFields fs)
  | .opq _ _ => .nil
  | .iface _ _ => .nil
def zeroFields : FFields → FKVs
  | .nil => .nil
  | .cons n t r => .cons n (zero t) (zeroFields r)
end

/-- field_mapping.go `newInstanceByType` (maps made, pointers allocated recursively) -/
def newInstance : FTy → FVal
  | .map _ => .map .nil
  | .ptr t => .ptr (newInstance t)
  | t => zero t

namespace FKVs

def lookup : FKVs → String → Option FVal
  | .nil, _ => none
  | .cons k v r, s => if s = k then some v else lookup r s

/-- ordered insert / overwrite (canonical form of a map: keys increasing) -/
def ins (s : String) (v : FVal) : FKVs → FKVs
  | .nil => .cons s v .nil
  | .cons k w r =>
    if s < k then .cons s v (.cons k w r)
    else if s = k then .cons s v r
    else .cons k w (ins s v r)

def toList : FKVs → List (String × FVal)
  | .nil => []
  | .cons k v r => (k, v) :: toList r

/-- first value, `d` when there is none (positional struct access) -/
def headD : FKVs → FVal → FVal
  | .cons _ v _, _ => v
  | .nil, d => d

def tail : FKVs → FKVs
  | .cons _ _ tl => tl
  | .nil => .nil

end FKVs

/-- the Go spelling of a type (`reflect.Type.String()` without the package), the key of the
    `impls` lists -/
def tyName : FTy → String
  | .str => "string"
  | .int => "int"
  | .any => "interface {}"
  | .ptr t => "*" ++ tyName t
  | .map t => "map[string]" ++ tyName t
  | .struct n _ => n
  | .opq _ n => n
  | .iface n _ => n

/-- an interface type: `any` or a non-empty interface (`reflect.Interface` kind) -/
def isIface : FTy → Bool
  | .any | .iface _ _ => true
  | _ => false

/-- `src.Implements(dst)` for a non-empty interface `dst`: concrete types only (the universe has
    no interface whose method set includes another non-empty interface's) -/
def implements (src dst : FTy) : Bool :=
  match dst with
  | .iface _ impls => !isIface src && impls.contains (tyName src)
  | _ => false

/-- `reflect.Type.AssignableTo` in this universe: identical types, the target is `any`, or the
    target is a non-empty interface the source implements -/
def assignable (src dst : FTy) : Bool := dst == .any || src == dst || implements src dst

/-- the kinds for which the code accepts an untyped nil (`reflect.Map, Slice, Ptr, Interface`:
    the run-time checkers of `validateFieldMapping`, `checkAndExtractToField`,
    `checkAndExtractToMapKey`); func and chan are not among them -/
def nilable : FTy → Bool
  | .any | .ptr _ | .map _ => true
  | .opq .slice _ => true
  | .iface _ _ => true
  | _ => false

/-- what is written into a slot of static type `st`: `none` = not storable -/
def store (st : FTy) : Taken → Option FVal
  | none => if nilable st then some .nil else none
  | some (ty, v) =>
    if assignable ty st then some (if isIface st then .box ty v else v) else none

/-- the interface value read out of a slot of static type `st`.  (A value of a non-empty
    interface type always has a dynamic type that implements it; a `box` that does not — no such
    value is ever produced by the model or sent by the harness — reads as the nil interface.) -/
def fits (ty st : FTy) : Bool :=
  match st with
  | .iface _ _ => implements ty st
  | _ => true

def unstore (st : FTy) (v : FVal) : Taken :=
  if isIface st then
    match v with
    | .box ty x => if fits ty st then some (ty, x) else none
    | _ => none
  else some (st, v)

/-! ## positional struct access (aligned with the type) -/

/-- type of field `s` -/
def fieldTy : FFields → Seg → Option FTy
  | .nil, _ => none
  | .cons n t r, s => if s = n then some t else fieldTy r s

/-- current value of field `s` (missing tail = zero) -/
def fieldGet : FFields → FKVs → Seg → Option (FTy × FVal)
  | .nil, _, _ => none
  | .cons n t r, kvs, s =>
    if s = n then some (t, kvs.headD (zero t)) else fieldGet r kvs.tail s

/-- rewrite field `s` with `f`; `none` = no such field or `f` failed (a missing tail keeps
    standing for zero values) -/
def fieldUpd (f : FTy → FVal → Option FVal) : FFields → FKVs → Seg → Option FKVs
  | .nil, _, _ => none
  | .cons n t r, kvs, s =>
    if s = n then (f t (kvs.headD (zero t))).map (fun v' => .cons n v' kvs.tail)
    else (fieldUpd f r kvs.tail s).map (fun tl' => .cons n (kvs.headD (zero t)) tl')

/-! ## assignment along a target path (`assignOne`) -/

/-- the struct a value of type `t` is navigated as (one pointer level is followed and
    instantiated, like `instantiateIfNeeded` + `Elem`) -/
def structOf : FTy → Option FFields
  | .struct _ fs => some fs
  | .ptr (.struct _ fs) => some fs
  | _ => none

def derefRec (t : FTy) (fs : FFields) (d : FVal) : FKVs :=
  match t, d with
  | .ptr _, .ptr (.obj kvs) => kvs
  | .struct _ _, .obj kvs => kvs
  | _, _ => zeroFields fs

def rewrap (t : FTy) (kvs : FKVs) : FVal :=
  match t with
  | .ptr _ => .ptr (.obj kvs)
  | _ => .obj kvs

def mapOf (t : FTy) (d : FVal) : Option (FTy × FKVs) :=
  match t with
  | .any => some (.any, match d with | .box (.map .any) (.map kvs) => kvs | _ => .nil)
  | .map e => some (e, match d with | .map kvs => kvs | _ => .nil)
  | _ => none

def remap (t : FTy) (kvs : FKVs) : FVal :=
  match t with
  | .any => .box (.map .any) (.map kvs)
  | _ => .map kvs

/-- `assignOne(dest, taken, to)` on a destination `d` of type `t`.  `none` = the Go code returns
    an error (and `convertTo` panics "convertTo failed when must succeed"). -/
def assign : FTy → FVal → Path → Taken → Option FVal
  | t, _, [], a => store t a
  | t, d, s :: r, a =>
    match mapOf t d with
    | some (e, kvs) =>
      -- map[string]e, or `any` expanded to map[string]any: instantiate the entry, go on
      let cur := (kvs.lookup s).getD (newInstance e)
      (assign e cur r a).map (fun v' => remap t (kvs.ins s v'))
    | none =>
      match structOf t with
      | some fs =>
        (fieldUpd (fun ft fv => assign ft fv r a) fs (derefRec t fs d) s).map (rewrap t)
      | none => none

/-- reading a target path back, type-directed, through what is instantiated and what is not yet
    instantiated alike: a nil pointer reads as the zero struct and an absent map entry as the
    instance `assign` would create, i.e. "still zero" -/
def getT : FTy → FVal → Path → Option (FTy × FVal)
  | t, d, [] => some (t, d)
  | t, d, s :: r =>
    match mapOf t d with
    | some (e, kvs) => getT e ((kvs.lookup s).getD (newInstance e)) r
    | none =>
      match structOf t with
      | some fs =>
        match fieldGet fs (derefRec t fs d) s with
        | some (ft, fv) => getT ft fv r
        | none => none
      | none => none

/-- keys of the map (or `any` hole expanded to a map) found at path `c`, read like `getT` -/
def keysAt (t : FTy) (d : FVal) (c : Path) : Option (List String) :=
  match getT t d c with
  | some (ct, cv) =>
    match mapOf ct cv with
    | some (_, kvs) => some (kvs.toList.map (·.1))
    | none => none
  | none => none

/-- static type of the slot at a target path -/
def slotTy : FTy → Path → Option FTy
  | t, [] => some t
  | t, s :: r =>
    match t with
    | .any => slotTy .any r
    | .map e => slotTy e r
    | _ =>
      match structOf t with
      | some fs => match fieldTy fs s with
        | some ft => slotTy ft r
        | none => none
      | none => none

/-- `convertTo(mappings, typ)`: fresh instance, then `assignOne` for every entry of the
    `map[string]any`, in the order the Go map iteration happens to produce -/
def convertFrom (t : FTy) (d : FVal) : List (Path × Taken) → Option FVal
  | [] => some d
  | (p, a) :: rest => (assign t d p a).bind (fun d' => convertFrom t d' rest)

def convertTo (t : FTy) (l : List (Path × Taken)) : Option FVal :=
  convertFrom t (newInstance t) l

/-! ## extraction along a source path (`fieldMap`, `takeOne`) -/

/-- structural facts of `takeOne` / `fieldMap` -/
structure TakeFacts where
  /-- `takeOne` does not call `.Type()` on an invalid `reflect.Value` (nil interface) -/
  guardsInvalid : Bool
  /-- `takeOne` checks the result of `.Elem()` before `FieldByName` (nil pointer / nil
      interface / pointer to a non-struct) -/
  guardsElem : Bool
  /-- `fieldMap` returns the remaining extraction errors instead of panicking -/
  returnsGenericErr : Bool
  deriving DecidableEq, Repr

inductive GErr where
  | keyMissing      -- `errMapKeyNotFound`
  | bad             -- any other request-time error
  | panic           -- a panic leaves `fieldMap`
  deriving DecidableEq, Repr

/-- one `takeOne` step on the interface value `a`; `viaIface` = the static type of the slot it
    was read from is an interface.  Result: static type and raw value of the slot reached. -/
def takeStep (f : TakeFacts) (a : Taken) (viaIface : Bool) (s : Seg) : Except GErr (FTy × FVal) :=
  match a with
  | none =>
    -- reflect.ValueOf(nil): Kind() == Invalid, default branch
    if f.guardsInvalid then .error .bad else .error .panic
  | some (.map e, .map kvs) =>
    match kvs.lookup s with
    | some v => .ok (e, v)
    | none => .error .keyMissing
  | some (.map _, _) => .error .keyMissing                 -- nil map: MapIndex is invalid
  | some (.struct _ fs, .obj kvs) =>
    match fieldGet fs kvs s with
    | some r => .ok r
    | none => if f.returnsGenericErr then .error .bad else .error .panic
  | some (.ptr (.struct _ fs), .ptr (.obj kvs)) =>
    match fieldGet fs kvs s with
    | some r => .ok r
    | none => if f.returnsGenericErr then .error .bad else .error .panic
  | some (.ptr _, _) =>
    -- nil pointer, or pointer to something that is not a struct: Elem() then FieldByName
    if f.guardsElem then .error .bad else .error .panic
  | some (_, _) =>
    -- basic kinds: errInterfaceNotValidForFieldMapping when reached through an interface
    if viaIface then .error .bad
    else if f.returnsGenericErr then .error .bad else .error .panic

/-- the `for i, path := range fromPath` loop of `fieldMap` -/
def takeFrom (f : TakeFacts) (a : Taken) (viaIface : Bool) : Path → Except GErr Taken
  | [] => .ok a
  | s :: r =>
    match takeStep f a viaIface s with
    | .error e => .error e
    | .ok (st, v) => takeFrom f (unstore st v) (isIface st) r

/-- extraction of one mapping's source path from a predecessor output of static type `t` -/
def take (f : TakeFacts) (t : FTy) (v : FVal) (p : Path) : Except GErr Taken :=
  takeFrom f (unstore t v) false p

/-! ## overlap detection (`checkAndAddMappedPath`) -/

mutual
inductive Trie where
  | term                         -- `struct{}{}`
  | node (cs : Kids)             -- `map[string]any`
  deriving DecidableEq, Repr, Inhabited
inductive Kids where
  | nil
  | cons (k : String) (t : Trie) (r : Kids)
  deriving DecidableEq, Repr, Inhabited
end

namespace Kids
def find : Kids → String → Option Trie
  | .nil, _ => none
  | .cons k t r, s => if s = k then some t else find r s
def set (s : String) (t : Trie) : Kids → Kids
  | .nil => .cons s t .nil
  | .cons k u r => if s = k then .cons k t r else .cons k u (set s t r)
end Kids

/-- structural facts of `checkAndAddMappedPath` -/
structure TrieFacts where
  /-- a path that runs into an existing terminal is rejected -/
  rejectsThroughTerminal : Bool
  /-- an existing inner node is descended into (not replaced by a fresh map) -/
  descendsExisting : Bool
  /-- a path that ends on an existing inner node (a prefix of an earlier path) is rejected -/
  rejectsEndOnInner : Bool
  /-- a whole-input dependency (no mappings) declared after field mappings is rejected -/
  rejectsWholeAfterFields : Bool
  /-- an empty target path (`FromField`) is treated as mapping the whole input -/
  emptyPathIsWhole : Bool
  deriving DecidableEq, Repr

/-- insert one non-empty target path below a node; `none` = conflict -/
def insPath (f : TrieFacts) : Kids → Path → Option Kids
  | cs, [] => some cs
  | cs, [s] =>
    match cs.find s with
    | some .term => if f.rejectsThroughTerminal then none else some (cs.set s .term)
    | some (.node _) => if f.rejectsEndOnInner then none else some (cs.set s .term)
    | none => some (cs.set s .term)
  | cs, s :: r =>
    match cs.find s with
    | some .term =>
      if f.rejectsThroughTerminal then none
      else (insPath f .nil r).map (fun sub => cs.set s (.node sub))
    | some (.node sub0) =>
      (insPath f (if f.descendsExisting then sub0 else .nil) r).map (fun sub => cs.set s (.node sub))
    | none => (insPath f .nil r).map (fun sub => cs.set s (.node sub))

/-- `n.mappedFieldPath[""]`: absent / `struct{}{}` (= `.term`) / a map -/
abbrev MState := Option Trie

def addPaths (f : TrieFacts) : Trie → List Path → Option Trie
  | t, [] => some t
  | .term, _ :: _ => none
  | .node cs, p :: rest =>
    match p with
    | [] =>
      if f.emptyPathIsWhole then (if cs = .nil then addPaths f .term rest else none)
      else addPaths f (.node cs) rest
    | _ => match insPath f cs p with
      | some cs' => addPaths f (.node cs') rest
      | none => none

/-- one call `checkAndAddMappedPath(paths)`; `none` = error returned -/
def checkAdd (f : TrieFacts) (st : MState) (paths : List Path) : Option MState :=
  match st with
  | some .term => none
  | some (.node cs) =>
    if paths.isEmpty then (if f.rejectsWholeAfterFields then none else some st)
    else (addPaths f (.node cs) paths).map some
  | none =>
    if paths.isEmpty then some (some .term)
    else (addPaths f (.node .nil) paths).map some

/-- all declarations of one node, in declaration order (one group per `AddInput`) -/
def checkFrom (f : TrieFacts) (st : MState) : List (List Path) → Bool
  | [] => true
  | g :: rest => match checkAdd f st g with
    | some st' => checkFrom f st' rest
    | none => false

def checkMapped (f : TrieFacts) (groups : List (List Path)) : Bool := checkFrom f none groups

/-- graph.go compile: "duplicate mapping target field" -/
def dupFree : List Path → Bool
  | [] => true
  | p :: rest => !rest.contains p && dupFree rest

/-- the target paths a node's declarations assign (a dependency without mappings assigns the
    whole input = the empty path) -/
def targets (groups : List (List Path)) : List Path :=
  groups.flatMap (fun g => if g.isEmpty then [[]] else g)

/-- what Workflow compilation accepts as far as overlap detection is concerned -/
def acceptedOverlap (f : TrieFacts) (groups : List (List Path)) : Bool :=
  checkMapped f groups && dupFree (groups.flatten)

/-! ## the order-free specification -/

def prefixRel (p q : Path) : Prop := p <+: q ∨ q <+: p

instance (p q : Path) : Decidable (prefixRel p q) := by unfold prefixRel; exact inferInstance

/-- no two targets equal or prefix-related -/
def noOverlap (ps : List Path) : Prop := ps.Pairwise (fun p q => ¬ prefixRel p q)

instance (ps : List Path) : Decidable (noOverlap ps) := by unfold noOverlap; exact inferInstance

/-! ## static validation (`validateFieldMapping`, `checkAndExtractFieldType`) -/

/-- structural facts of the static checker -/
structure ValidateFacts where
  /-- `checkAndExtractFieldType` rejects a last path segment applied to a type that has neither
      fields nor keys (and is not an interface) -/
  rejectsTrailingSegment : Bool
  /-- every run-time checker closure sees the field type of its own mapping (not the variable
      shared by all iterations of the loop) -/
  checkerPerMapping : Bool
  /-- the checker's stream form keeps the chunk type `map[string]any` -/
  streamCheckerKeepsChunkType : Bool
  /-- the run-time checker installed for a source path that crosses an interface before its last
      segment tests `reflect.TypeOf(a) == nil` before it calls a method on it -/
  ifaceCheckerGuardsNil : Bool
  /-- `checkAndExtractFieldType` reports a LAST path segment applied to an interface type other
      than `any` as an intermediate interface, like every earlier segment (what is below is known
      only at request time: a source path gets the run-time checker, a target path is refused —
      nothing can be instantiated below a non-empty interface); without it the interface type
      itself is taken for the type of the slot -/
  lastSegmentBelowIfaceIsIntermediate : Bool
  /-- `checkAndExtractFieldType` follows ONE pointer level in front of a struct (what `takeOne`
      and `checkAndExtractToField` walk); a pointer to a pointer is not walked -/
  derefsOnePointerLevel : Bool
  deriving DecidableEq, Repr

/-- `checkAndExtractFieldType`: `(type reached, intermediate interface)`; `none` = error.  A
    segment applied to an interface type is an "intermediate interface"; the one exception is a
    last segment below `any` (a target there is a key of the `map[string]any` the hole is expanded
    to, a source gets the `assignableTypeMay` checker against `any`). -/
def extractTy (rejectTrailing : Bool) : FTy → Path → Option (FTy × Bool)
  | t, [] => some (t, false)
  | t, s :: r =>
    match t with
    | .map e => extractTy rejectTrailing e r
    | _ =>
      match structOf t with
      | some fs => match fieldTy fs s with
        | some ft => extractTy rejectTrailing ft r
        | none => none
      | none =>
        if r.isEmpty then
          (if t = .any then some (t, false)
           else if isIface t then some (t, true)
           else if rejectTrailing then none else some (t, false))
        else if isIface t then some (t, true)
        else none

/-- all pointer levels in front of a struct removed (`for extracted.Kind() == reflect.Ptr`) -/
def structOfDeep : FTy → Option FFields
  | .struct _ fs => some fs
  | .ptr t => structOfDeep t
  | _ => none

/-- `checkAndExtractFieldType` as a function of the two facts above: `ifaceLast = false` = a last
    segment below any interface is let through with the interface type as the slot type,
    `oneDeref = false` = every pointer level is removed statically.  `extractTyG r true true` is
    `extractTy r` (`extractTyG_eq`, Proofs/C15). -/
def extractTyG (rejectTrailing ifaceLast oneDeref : Bool) : FTy → Path → Option (FTy × Bool)
  | t, [] => some (t, false)
  | t, s :: r =>
    match t with
    | .map e => extractTyG rejectTrailing ifaceLast oneDeref e r
    | _ =>
      match (if oneDeref then structOf t else structOfDeep t) with
      | some fs => match fieldTy fs s with
        | some ft => extractTyG rejectTrailing ifaceLast oneDeref ft r
        | none => none
      | none =>
        if r.isEmpty then
          (if t = .any then some (t, false)
           else if isIface t then some (t, ifaceLast)
           else if rejectTrailing then none else some (t, false))
        else if isIface t then some (t, true)
        else none

/-- the static path check the facts describe -/
def extractTyF (vf : ValidateFacts) : FTy → Path → Option (FTy × Bool) :=
  if vf.lastSegmentBelowIfaceIsIntermediate && vf.derefsOnePointerLevel then extractTy vf.rejectsTrailingSegment
  else extractTyG vf.rejectsTrailingSegment vf.lastSegmentBelowIfaceIsIntermediate vf.derefsOnePointerLevel

/-- `validateStructOrMap` -/
def structOrMap : FTy → Bool
  | .map _ | .struct _ _ | .ptr _ => true
  | _ => false

inductive Assignable where | must | mustNot | may
  deriving DecidableEq, Repr

/-- utils.go `checkAssignable` -/
def checkAssignable (src dst : FTy) : Assignable :=
  if dst = src then .must
  else if dst = .any then .must
  else if implements src dst then .must
  else if src = .any then .may
  else if isIface src then (if implements dst src then .may else .mustNot)
  else .mustNot

structure Mapping where
  src : Path
  dst : Path
  deriving DecidableEq, Repr

/-- per mapping: `none` = static error; `some none` = no run-time check; `some (some (st, viaPath))`
    = run-time checker against the successor field type `st`; `viaPath` = it is the checker of a
    source path that crosses an interface before its last segment
    (`predecessorIntermediateInterface`), the other one is the `assignableTypeMay` checker.  Both
    demand the same: a typed value must be assignable, an untyped nil is admitted exactly for the
    `nilable` kinds. -/
def validateOne (vf : ValidateFacts) (pt st : FTy) (m : Mapping) : Option (Option (FTy × Bool)) :=
  match extractTyF vf pt m.src, extractTyF vf st m.dst with
  | some (pf, pI), some (sf, sI) =>
    if sI then (if sf = .any then some none else none)
    else if pI then some (some (sf, true))
    else match checkAssignable pf sf with
      | .mustNot => none
      | .may => some (some (sf, false))
      | .must => some none
  | _, _ => none

/-- the whole-edge preconditions of `validateFieldMapping` -/
def validateEdge (vf : ValidateFacts) (pt st : FTy) (ms : List Mapping) : Bool :=
  let fromAll := ms.any (fun m => m.src.isEmpty)
  let toAll := ms.any (fun m => m.dst.isEmpty)
  if fromAll && toAll then false
  else if !toAll && !(structOrMap st || st == .any) then false
  else if !fromAll && !structOrMap pt then false
  else ms.all (fun m => (validateOne vf pt st m).isSome)

/-- the run-time checker installed for a mapping: does the value pass -/
def runtimeCheck (chk : Option (FTy × Bool)) (a : Taken) : Bool :=
  match chk with
  | none => true
  | some (st, _) =>
    match a with
    | none => nilable st
    | some (ty, _) => assignable ty st

/-- … does it panic: the interface-path checker calls `reflect.TypeOf(a).AssignableTo(…)`; on an
    untyped nil `reflect.TypeOf` is the nil `reflect.Type` and the call dereferences it, unless the
    checker looks first -/
def checkPanics (vf : ValidateFacts) (chk : Option (FTy × Bool)) (a : Taken) : Bool :=
  match chk, a with
  | some (_, true), none => !vf.ifaceCheckerGuardsNil
  | _, _ => false

/-! ## one edge, one run -/

inductive RunErr where
  | request          -- an ordinary error of the run
  | panic            -- a panic leaves Invoke / Stream
  deriving DecidableEq, Repr

/-- `fieldMap(mappings, allowMapKeyNotFound)`: the `to ↦ taken` entries of one edge -/
def fieldMapE (f : TakeFacts) (allowMissing : Bool) (pt : FTy) (v : FVal) :
    List Mapping → Except RunErr (List (Mapping × Taken))
  | [] => .ok []
  | m :: rest =>
    match take f pt v m.src with
    | .error .keyMissing =>
      if allowMissing then fieldMapE f allowMissing pt v rest else .error .request
    | .error .bad => .error .request
    | .error .panic => .error .panic
    | .ok a =>
      match fieldMapE f allowMissing pt v rest with
      | .ok l => .ok ((m, a) :: l)
      | .error e => .error e

/-- the checker a mapping gets: with `checkerPerMapping` its own successor field type, otherwise
    the one the shared loop variable holds after the loop (the last mapping's) -/
def checkerOf (vf : ValidateFacts) (pt st : FTy) (ms : List Mapping) (m : Mapping) : Option (FTy × Bool) :=
  match (validateOne vf pt st m).getD none with
  | none => none
  | some (ty, strict) =>
    if vf.checkerPerMapping then some (ty, strict)
    else match ms.getLast? with
      | some l => match extractTyF vf st l.dst with
        | some (lt, _) => some (lt, strict)
        | none => some (ty, strict)
      | none => some (ty, strict)

/-- the checker handler appended after `fieldMap` on the same edge -/
def checkE (vf : ValidateFacts) (pt st : FTy) (ms : List Mapping) (l : List (Mapping × Taken)) : Bool :=
  l.all (fun (m, a) => runtimeCheck (checkerOf vf pt st ms m) a)

/-- some checker of the edge panics on its value -/
def checkPanicE (vf : ValidateFacts) (pt st : FTy) (ms : List Mapping) (l : List (Mapping × Taken)) : Bool :=
  l.any (fun (m, a) => checkPanics vf (checkerOf vf pt st ms m) a)

/-- one data edge into the successor: predecessor output type and value, its mappings -/
structure Edge where
  pt : FTy
  v : FVal
  ms : List Mapping
  deriving Repr

/-- the edge handlers of all predecessors, in the given order -/
def edgesMap (f : TakeFacts) (vf : ValidateFacts) (allowMissing : Bool) (st : FTy) :
    List Edge → Except RunErr (List (Path × Taken))
  | [] => .ok []
  | e :: rest =>
    match fieldMapE f allowMissing e.pt e.v e.ms with
    | .error err => .error err
    | .ok l =>
      if checkPanicE vf e.pt st e.ms l then .error .panic
      else if checkE vf e.pt st e.ms l then
        match edgesMap f vf allowMissing st rest with
        | .ok l' => .ok (l.map (fun (m, a) => (m.dst, a)) ++ l')
        | .error err => .error err
      else .error .request

/-- what the successor receives: edge handlers, merge, `convertTo` (in the order given) -/
def runNode (f : TakeFacts) (vf : ValidateFacts) (allowMissing : Bool) (st : FTy) (es : List Edge) :
    Except RunErr FVal :=
  match edgesMap f vf allowMissing st es with
  | .error e => .error e
  | .ok l =>
    match convertTo st l with
    | some v => .ok v
    | none => .error .panic      -- "convertTo failed when must succeed"

/-- compile-time acceptance of one successor's declarations: overlap detection, duplicate
    check, static validation of every edge -/
def compileOK (tf : TrieFacts) (vf : ValidateFacts) (st : FTy) (decls : List (FTy × List Mapping)) : Bool :=
  acceptedOverlap tf (decls.map (fun d => d.2.map (·.dst)))
    && decls.all (fun d => d.2.isEmpty || validateEdge vf d.1 st d.2)

/-! ## the pre-node handler chain (graph_manager.go `preNodeHandlerManager.handle`) and static
   values (workflow.go `SetStaticValue`, the handler built in `Workflow.compile`)

  A node with field mappings gets the pre-node handler `inputFieldMappingConverter` (graph.go
  compile); a Workflow node with static values gets the handler "merge the static values" *in
  front of it* (workflow.go compile).  `handle` applies the list of handlers in a value twin
  (`invoke`) and a stream twin (`transform`).  A stream is modelled by the list of its chunks.  -/

/-- structural facts of one `…HandlerManager.handle` -/
structure ChainFacts where
  /-- the value twin applies every handler of the list (the loop only leaves on an error) -/
  valueAppliesAll : Bool
  /-- the stream twin applies every handler of the list (assign and continue; no `return` in
      the loop body) -/
  streamAppliesAll : Bool
  deriving DecidableEq, Repr

/-- `handlerPair`: value twin and stream twin (`.error` = an error or a panic surfaces when the
    value / the stream is produced or read) -/
structure HandlerPair (V : Type) (E : Type) where
  invoke : V → Except E V
  transform : List V → Except E (List V)

/-- the value twin of `handle`: `for _, v := range handlers { value, err = v.invoke(value) … }`.
    `all = false`: the loop is left after the first handler. -/
def chainValue {V E : Type} (all : Bool) : List (HandlerPair V E) → V → Except E V
  | [], v => .ok v
  | h :: rest, v =>
    match h.invoke v with
    | .error e => .error e
    | .ok v' => if all then chainValue all rest v' else .ok v'

/-- the stream twin of `handle`: `for _, v := range handlers { value = v.transform(value) }` -/
def chainStream {V E : Type} (all : Bool) : List (HandlerPair V E) → List V → Except E (List V)
  | [], cs => .ok cs
  | h :: rest, cs =>
    match h.transform cs with
    | .error e => .error e
    | .ok cs' => if all then chainStream all rest cs' else .ok cs'

/-- a handler commutes with concatenation: transforming the chunks and concatenating gives what
    the value twin gives on the concatenated chunks -/
def Commutes {V E : Type} (concat : List V → V) (h : HandlerPair V E) : Prop :=
  ∀ cs, (h.transform cs).map concat = h.invoke (concat cs)

/-- the same, required only on the chunk lists that actually occur along the chain started on `cs` -/
def CommutesAlong {V E : Type} (concat : List V → V) : List (HandlerPair V E) → List V → Prop
  | [], _ => True
  | h :: rest, cs =>
    (h.transform cs).map concat = h.invoke (concat cs) ∧
    ∀ cs', h.transform cs = .ok cs' → CommutesAlong concat rest cs'

/-- what travels towards a node with field mappings: before the converter a `map[string]any`
    keyed by the joined target paths, after it the typed node input -/
inductive NodeIn where
  | entries (l : List (Path × Taken))
  | val (v : FVal)
  deriving DecidableEq, Repr, Inhabited

/-- utils.go `mergeMap`: a key present on both sides is an error -/
def dupKey (a b : List (Path × Taken)) : Bool := a.any (fun x => b.any (fun y => x.1 == y.1))

def NodeIn.isEntries : NodeIn → Bool
  | .entries _ => true
  | .val _ => false

/-- the handler `Workflow.compile` installs for the static values `st` of a node (stored keyed by
    the joined path): value twin `mergeValues([in, value])`, stream twin "merge a one-chunk
    stream holding `value` into the incoming stream" -/
def staticHandler (st : List (Path × Taken)) : HandlerPair NodeIn RunErr where
  invoke
    | .entries l => if dupKey l st then .error .request else .ok (.entries (l ++ st))
    | .val _ => .error .request                 -- `mergeValues`: unsupported type
  transform cs :=
    if cs.all NodeIn.isEntries then .ok (cs ++ [.entries st]) else .error .request

/-- `buildFieldMappingConverter[I]`: `convertTo` on a `map[string]any`, a panic on anything else -/
def convertIn (T : FTy) : NodeIn → Except RunErr NodeIn
  | .entries l =>
    match convertTo T l with
    | some v => .ok (.val v)
    | none => .error .panic                     -- "convertTo failed when must succeed"
  | .val _ => .error .panic                     -- unexpected input type

/-- `buildStreamFieldMappingConverter[I]`: every chunk is converted on its own -/
def convertAll (T : FTy) : List NodeIn → Except RunErr (List NodeIn)
  | [] => .ok []
  | c :: cs =>
    match convertIn T c with
    | .error e => .error e
    | .ok v =>
      match convertAll T cs with
      | .error e => .error e
      | .ok vs => .ok (v :: vs)

def converterHandler (T : FTy) : HandlerPair NodeIn RunErr where
  invoke := convertIn T
  transform := convertAll T

/-- the pre-node handlers of a node with field mappings and the static values `st`: the static
    handler is put in front (workflow.go: `append([]handlerPair{pair}, …)`), none when there are
    no static values -/
def nodeHandlers (T : FTy) (st : List (Path × Taken)) : List (HandlerPair NodeIn RunErr) :=
  if st.isEmpty then [converterHandler T] else [staticHandler st, converterHandler T]

/-- the node input assembled in non-streaming execution from the merged edge entries `mapped` -/
def assembleStatic (f : ChainFacts) (T : FTy) (st mapped : List (Path × Taken)) : Except RunErr NodeIn :=
  chainValue f.valueAppliesAll (nodeHandlers T st) (.entries mapped)

/-- the chunks a node receives in streaming execution from the incoming map chunks -/
def assembleStaticStream (f : ChainFacts) (T : FTy) (st : List (Path × Taken)) (chunks : List NodeIn) :
    Except RunErr (List NodeIn) :=
  chainStream f.streamAppliesAll (nodeHandlers T st) chunks

/-! ### concatenation of chunks

  `map[string]any` chunks keyed by joined paths concatenate to their union (values under the same
  key are concatenated).  Typed chunks are
  concatenated field by field: strings in arrival order, the other basic kinds "the one that is
  set", maps by key (internal/concat.go `concatMaps`; for struct-typed node inputs the function
  the harness registers with `RegisterStreamChunkConcatFunc`, which is this one). -/

mutual
def mergeV : FVal → FVal → FVal
  | .nil, b => b
  | .str x, .str y => .str (x ++ y)
  | .int x, .int y => if y = 0 then .int x else .int y
  | .ptr a, .ptr b => .ptr (mergeV a b)
  | .obj fa, .obj fb => .obj (mergeFields fa fb)
  | .map ka, .map kb => .map (mergeKVs ka kb)
  | .box t a, .box t' b => if t = t' then .box t (mergeV a b) else .box t' b
  | a, .nil => a
  | _, b => b
def mergeFields : FKVs → FKVs → FKVs
  | .nil, fb => fb
  | .cons n a ra, .cons _ b rb => .cons n (mergeV a b) (mergeFields ra rb)
  | .cons n a ra, .nil => .cons n a ra
def mergeKVs : FKVs → FKVs → FKVs
  | .nil, kb => kb
  | .cons k a ra, kb =>
    match kb.lookup k with
    | some b => (mergeKVs ra kb).ins k (mergeV a b)
    | none => (mergeKVs ra kb).ins k a
end

deriving instance DecidableEq for Except

/-- concatenation of two interface values found under the same key of `map[string]any` chunks -/
def mergeTaken : Taken → Taken → Taken
  | none, b => b
  | a, none => a
  | some (_, v), some (ty', v') => some (ty', mergeV v v')

/-- `concatMaps` on chunks keyed by joined paths: a key seen before has its values concatenated
    (a string arriving in pieces), a new key is added -/
def insEntry (p : Path) (t : Taken) : List (Path × Taken) → List (Path × Taken)
  | [] => [(p, t)]
  | (q, u) :: r => if q = p then (q, mergeTaken u t) :: r else (q, u) :: insEntry p t r

def mergeEntries (a b : List (Path × Taken)) : List (Path × Taken) :=
  b.foldl (fun acc x => insEntry x.1 x.2 acc) a

def NodeIn.merge : NodeIn → NodeIn → NodeIn
  | .entries a, .entries b => .entries (mergeEntries a b)
  | .val a, .val b => .val (mergeV a b)
  | _, b => b

def concatIn (cs : List NodeIn) : NodeIn := cs.foldl NodeIn.merge (.entries [])

end EinoV.C15
