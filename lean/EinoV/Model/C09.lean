/-
  C09 — a compiled runnable is safe for concurrent use; runs are isolated.

  Model (deliberately thin, see DESIGN.md §4 C09).  N runs of ONE compiled object are
  interleaved at step granularity.  What a run reads and writes is split into five *slots*
  that mirror what `runner.run` (compose/graph_run.go) works on:

    cm   – the channel manager and its channels            (`cm := r.initChannelManager(..)`)
    tm   – the task manager / superstep progress           (`tm := r.initTaskManager(..)`)
    opt  – the per-node option map of this call            (`optMap := extractOption(..)`)
    st   – the graph state created by the generator        (`ctx = r.runCtx(ctx)`)
    cap  – every *other* location run-time code writes: variables of a constructor captured
           by a closure that ended up in the compiled object, fields of the `runner`
           receiver, package-level variables

  Whether a slot is a per-run object or lives in the shared compiled object is a *source
  fact* (`Alloc`, regenerated from /repo by tools/factgen/c09.go) and a parameter of the
  model: with the flag on, run `i` finds the slot in its private part of the heap, with the
  flag off every run finds it in the one shared cell.  A step of run `i` loads its five
  slots, applies an ARBITRARY function (node bodies, handlers, branch conditions, the
  framework's own bookkeeping) and stores them back.

  NOT modelled (observed with the race detector only): the Go memory model – a step is
  atomic here; goroutines *inside* one run (parallel nodes; that is C03/C10/C11).
-/
namespace EinoV.C09

/-- the five slots a step of a run works on -/
structure Slots where
  cm : String
  tm : Nat
  opt : String
  st : Nat
  cap : String
  deriving Repr, DecidableEq, Inhabited

/-- source facts: which slot is allocated per run (true) / lives in the compiled object (false) -/
structure Alloc where
  cm : Bool
  tm : Bool
  opt : Bool
  st : Bool
  cap : Bool
  deriving Repr, DecidableEq

def Alloc.allPerRun : Alloc := ⟨true, true, true, true, true⟩

/-- From the facts of tools/factgen/c09.go.
    `cm` is per run when `run` binds a channel manager built by `initChannelManager`, whose
    literal holds a channel map made in that call (`cmFieldsFresh`) filled by builders that
    return fresh channels.  `tm` is per run when `run` binds a task manager built by
    `initTaskManager` AND the literal's completion queue is allocated in that call
    (`l: list.New()`, `done: make(chan …)`, fresh mutex: `tmQueueFresh`) – a queue taken from a
    pool is shared *in time* with the runs that used it before: their straggling node
    goroutines still hold it.  `cap` is per run exactly when the syntactic write-set
    `sharedWrites` (captured constructor variables, shared-receiver fields, package variables,
    sync.Pool / sync.Map traffic) and `nonFreshPerRunFields` are empty: then every other
    written location is a local of a function invocation that belongs to one run.
    `opt` is per run when `run` binds the map built by `extractOption` AND the values of that
    map are storage of the run (`extractOptionCopies`: every store is
    `optMap[k] = append(optMap[k], …)`, never a window into the caller's `Option.options`
    array, which every run that was given the same Option value shares – the slice-level
    account of this is EinoV/Model/C09Opt.lean). -/
def allocOf (runAllocsCM channelsPerRun cmFieldsFresh runAllocsTM tmQueueFresh runBuildsOptMap
    stateViaRunCtx : Bool) (sharedWrites nonFreshPerRunFields : List String)
    (extractOptionCopies : Bool := true) : Alloc :=
  { cm := runAllocsCM && channelsPerRun && cmFieldsFresh, tm := runAllocsTM && tmQueueFresh,
    opt := runBuildsOptMap && extractOptionCopies, st := stateViaRunCtx,
    cap := sharedWrites.isEmpty && nonFreshPerRunFields.isEmpty }

/-- the heap: one shared cell group (the compiled object) and one private group per run -/
structure Heap where
  shared : Slots
  priv : Nat → Slots

/-- what run `i` sees -/
def load (a : Alloc) (h : Heap) (i : Nat) : Slots :=
  { cm := if a.cm then (h.priv i).cm else h.shared.cm
    tm := if a.tm then (h.priv i).tm else h.shared.tm
    opt := if a.opt then (h.priv i).opt else h.shared.opt
    st := if a.st then (h.priv i).st else h.shared.st
    cap := if a.cap then (h.priv i).cap else h.shared.cap }

/-- run `i` writes its slots back -/
def store (a : Alloc) (h : Heap) (i : Nat) (s : Slots) : Heap :=
  { shared :=
      { cm := if a.cm then h.shared.cm else s.cm
        tm := if a.tm then h.shared.tm else s.tm
        opt := if a.opt then h.shared.opt else s.opt
        st := if a.st then h.shared.st else s.st
        cap := if a.cap then h.shared.cap else s.cap }
    priv := fun j =>
      if j = i then
        { cm := if a.cm then s.cm else (h.priv j).cm
          tm := if a.tm then s.tm else (h.priv j).tm
          opt := if a.opt then s.opt else (h.priv j).opt
          st := if a.st then s.st else (h.priv j).st
          cap := if a.cap then s.cap else (h.priv j).cap }
      else h.priv j }

/-- one atomic step of run `i`; `step i` is arbitrary (it may depend on the run: inputs,
    options and callbacks differ per call) -/
def stepRun (a : Alloc) (step : Nat → Slots → Slots) (h : Heap) (i : Nat) : Heap :=
  store a h i (step i (load a h i))

/-- a schedule is the list of run indices in the order they take steps -/
def exec (a : Alloc) (step : Nat → Slots → Slots) : List Nat → Heap → Heap
  | [], h => h
  | i :: rest, h => exec a step rest (stepRun a step h i)

/-- run `i` executed alone for `n` steps -/
def alone (step : Nat → Slots → Slots) (i : Nat) : Nat → Slots → Slots
  | 0, s => s
  | n + 1, s => alone step i n (step i s)

/-! ### case language of the correspondence check (layered graphs)

A compiled graph of the harness is a list of layers; the value in flight is a string.
A plain layer with one node appends the node's tag; with several nodes (fan-out, then
fan-in through output keys and a join) it renders the map of the per-node results; a
branch layer picks one node from the length of the value.  Nodes may increment the graph
state and may append the per-call option.  The END result is `value#state`. -/

structure NodeSpec where
  tag : String
  inc : Bool      -- increments the graph state (ProcessState / state handler)
  useOpt : Bool   -- appends the per-call option designated to this node
  deriving Repr, DecidableEq

structure Layer where
  branch : Bool
  nodes : List NodeSpec
  deriving Repr, DecidableEq

def nodeOut (v opt : String) (n : NodeSpec) : String :=
  v ++ n.tag ++ (if n.useOpt then opt else "")

def incs (ns : List NodeSpec) : Nat := (ns.filter (·.inc)).length

def joinKV : List (String × String) → String
  | [] => ""
  | [(k, v)] => k ++ "=" ++ v
  | (k, v) :: rest => k ++ "=" ++ v ++ "," ++ joinKV rest

def applyLayer (l : Layer) (s : Slots) : Slots :=
  match l.nodes with
  | [] => s
  | [n] => { s with cm := nodeOut s.cm s.opt n, st := s.st + (if n.inc then 1 else 0) }
  | ns =>
    if l.branch then
      match ns[s.cm.length % ns.length]? with
      | some n => { s with cm := nodeOut s.cm s.opt n, st := s.st + (if n.inc then 1 else 0) }
      | none => s
    else
      { s with cm := "{" ++ joinKV (ns.map fun n => (n.tag, nodeOut s.cm s.opt n)) ++ "}",
               st := s.st + incs ns }

/-- the step function of a run of the layered graph: layer number `tm`, then idle -/
def layeredStep (prog : List Layer) (s : Slots) : Slots :=
  match prog[s.tm]? with
  | some l => { applyLayer l s with tm := s.tm + 1 }
  | none => s

def result (s : Slots) : String := s.cm ++ "#" ++ toString s.st

/-- initial heap for calls with the given inputs and options -/
def initHeap (calls : List (String × String)) : Heap :=
  { shared := ⟨"", 0, "", 0, ""⟩
    priv := fun i => match calls[i]? with
      | some (inp, opt) => ⟨inp, 0, opt, 0, ""⟩
      | none => ⟨"", 0, "", 0, ""⟩ }

/-- results of all calls after the interleaved execution `sched` -/
def runInterleaved (a : Alloc) (prog : List Layer) (calls : List (String × String))
    (sched : List Nat) : List String :=
  let h := exec a (fun _ => layeredStep prog) sched (initHeap calls)
  (List.range calls.length).map fun i => result (load a h i)

/-- result of one call run alone to completion -/
def runAlone (prog : List Layer) (inp opt : String) : String :=
  result (alone (fun _ => layeredStep prog) 0 prog.length ⟨inp, 0, opt, 0, ""⟩)

/-! ### the react `directReturn` closure (flow/agent/react/react.go buildReturnDirectly)

`err = compose.ProcessState(..)` inside the stream-convert closure assigns the *named
result of the constructor*; the next statement reads it.  Two atomic steps per run:
write the outcome of the run's own ProcessState into `cap`, then return what `cap` holds. -/
def directReturnStep (outcome : Nat → String) (i : Nat) (s : Slots) : Slots :=
  match s.tm with
  | 0 => { s with cap := outcome i, tm := 1 }
  | 1 => { s with cm := s.cap, tm := 2 }
  | _ => s

/-! ### a recycled completion queue (eager Workflow, early return, straggling sibling)

Slot `tm` abstracts the task manager's completion queue as the number of finished tasks
parked in it.  A node goroutine of run `i` finishing = `tm := tm + 1` in the queue run `i`
was given; the run loop of a run takes what it finds there as ITS completed task.  With a
per-run queue a straggler of a finished run parks its task where nobody looks; with a queue
recycled through the compiled object (`tm` shared) the next run finds it. -/
def queueStep (isStraggler : Nat → Bool) (i : Nat) (s : Slots) : Slots :=
  if isStraggler i then { s with tm := s.tm + 1 }                  -- executor: push the finished task
  else { s with cm := s.cm ++ toString s.tm, tm := 0 }             -- run loop: take what is parked

end EinoV.C09
