/-
  C08 — the merged reader above `maxSelectNum` live sources (family `wide` of the harness).

  `multiStreamReader` (schema/stream.go:372-440) keeps TWO descriptions of "the sources that have not
  ended yet":

  * `chosenList`  — the indices of the live sources; its length decides between the static select
                    (`receiveN`, over `chosenList`) and `reflect.Select`, and `recv` returns io.EOF when
                    it is empty;
  * `itemsCases`  — built only for more than `maxSelectNum` sources: one `reflect.SelectCase` per SOURCE
                    INDEX; the case of a source that ended is switched off (`Chan = reflect.Value{}`).
                    `reflect.Select(msr.itemsCases)` polls exactly the cases that are still on.

  The component model `MergeSt` (Model/C08.lean) and the network model describe the reflect path as a
  select over `chosenList` (`selCases` above `maxSel`).  That is right iff the two descriptions agree:
  a case is on iff its source is in `chosenList`.  `WideSt` models both, with the end-of-source
  bookkeeping as it is written in `recv` (source fact `WideFacts.disableByIndex`: the case that is
  switched off is `itemsCases[chosen]`, `chosen` being the SOURCE INDEX that `reflect.Select` returned;
  the other value: the position of `chosen` in `chosenList`, which differs from the index as soon as a
  lower-indexed source has ended).
-/
import EinoV.Model.C08

namespace EinoV.C08

structure WideFacts where
  /-- `msr.itemsCases[chosen].Chan = reflect.Value{}` (by source index); and `chosenList` loses exactly
      the element equal to `chosen` -/
  disableByIndex : Bool
  deriving DecidableEq, Repr

structure WideSt where
  armed : List Bool     -- per source index: `itemsCases[i].Chan` is still set
  chosen : List Nat     -- `chosenList`
  deriving DecidableEq, Repr

/-- `newMultiStreamReader` over `n` sources -/
def WideSt.init (n : Nat) : WideSt := ⟨List.replicate n true, List.range n⟩

/-- the sources one pass of the loop in `recv` polls: above `maxSel` live sources the cases that are
    on, otherwise `chosenList` (static select, `receiveN`) -/
def WideSt.polled (maxSel : Nat) (w : WideSt) : List Nat :=
  if w.chosen.length > maxSel then (List.range w.armed.length).filter fun s => w.armed[s]? == some true
  else w.chosen

/-- `recv` finds source `s` closed and drained (`ok = false`): enabled iff `s` is polled.  Above
    `maxSel` the case is switched off (by index, or — other fact value — at the position of `s` in
    `chosenList`), then `s` is removed from `chosenList`; in the static path only the removal. -/
def WideSt.noticeEnd (f : WideFacts) (maxSel : Nat) (w : WideSt) (s : Nat) : Option WideSt :=
  if !(w.polled maxSel).contains s then none
  else if w.chosen.length > maxSel then
    some ⟨if f.disableByIndex then w.armed.set s false
          else if w.chosen.contains s then w.armed.set (w.chosen.idxOf s) false else w.armed,
          w.chosen.erase s⟩
  else some ⟨w.armed, w.chosen.erase s⟩

/-- the ends of the sources `ends` are noticed one after the other -/
def WideSt.run (f : WideFacts) (maxSel : Nat) (w : WideSt) : List Nat → Option WideSt
  | [] => some w
  | s :: rest => match w.noticeEnd f maxSel s with
    | some w' => w'.run f maxSel rest
    | none => none

/-- an item is waiting in source `s` and in no other: does `recv` return it? (is `s` polled) -/
def WideSt.delivers (maxSel : Nat) (w : WideSt) (s : Nat) : Bool := (w.polled maxSel).contains s

end EinoV.C08
