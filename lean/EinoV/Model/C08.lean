/-
  C08 — stream components of package `schema` (schema/stream.go, schema/select.go) as
  atomic-step transition systems over item lists.

  * `Pipe`     = `stream[T]` (stream.go:269-325): bounded `items` channel + `closed` channel.
  * `convItem` = one iteration of `streamReaderWithConvert.recv` (stream.go:480-498).
  * `CopyCore` = `parentStreamReader` (stream.go:576-634): shared element list (`log`),
                 per-child cursor (`subStreamList`), `closedNum`; `CopySys` closes it over an
                 abstract source reader.
  * `MergeSt`  = `multiStreamReader` (stream.go:372-440) over its `[]*stream`, with the
                 select table of `receiveN` (select.go) as a parameter.

  A step that would block (or that the API contract forbids: second close of the same end,
  send after the writer was closed, recv on a closed copy) is *not enabled*: the step
  function returns `none`.  Source facts are explicit parameters (`CopyFacts`, the select
  table); the values extracted from /repo are in `EinoV/Gen/FactsC08.lean`.
-/
namespace EinoV.C08

/-- `streamItem[T]{chunk, err}`; `err = 0` is a nil error, any other number identifies an
    error value.  That value is never the sentinel `io.EOF` itself, but it may *wrap* it
    (`fmt.Errorf("…: %w", io.EOF)`) or claim it through an `Is` method: such an item is an
    ordinary error ELEMENT of the stream like any other (the harness sends all three kinds;
    which number carries which kind is the harness's business, the model does not look). -/
structure Item where
  chunk : Nat
  err : Nat
  deriving DecidableEq, Repr, Inhabited

/-- what one `Recv` returns -/
inductive Res where
  | item (i : Item)
  | eof
  deriving DecidableEq, Repr, Inhabited

def Res.item? : Res → Option Item
  | .item i => some i
  | .eof => none

def Res.isEof : Res → Bool
  | .eof => true
  | .item _ => false

/-! ## the end-of-stream test -/

/-- How the receive paths of copies (`parentStreamReader.peek`) and of the forwarding
    goroutines (`toStream`) decide that what their source returned is the end of the stream.
    `ident = true`: `err == io.EOF`, only the sentinel itself (`Res.eof`).  `ident = false`:
    `errors.Is(err, io.EOF)`, which also holds for an error *element* whose error value wraps
    or claims io.EOF (`wraps e`).  The component models below (`CopyCore.fill`, `recvAll` of the
    network model) tell the two apart by the constructor of `Res`: they are models of the
    identity test (source fact `eofByIdentity`, theorem `eof_test_is_identity`). -/
def endTest (ident : Bool) (wraps : Nat → Bool) : Res → Bool
  | .eof => true
  | .item i => !ident && i.err != 0 && wraps i.err

/-- the loop of a forwarding goroutine (`toStream`, stream.go:521-531) over a source that
    delivers `l` and then io.EOF, its stream being read to the end: what gets into the stream. -/
def fwdLoop (ident : Bool) (wraps : Nat → Bool) : List Item → List Item
  | [] => []
  | x :: rest => if endTest ident wraps (.item x) then [] else x :: fwdLoop ident wraps rest

/-- `n` successive `Recv`s of one copy (`peek`, stream.go:590-619) over a source that delivers
    `l` and then io.EOF: an element that the test takes for the end gets no `next` element and
    the cursor stays on it, so it is returned again and again. -/
def peekLoop (ident : Bool) (wraps : Nat → Bool) : Nat → List Item → List Res
  | 0, _ => []
  | n + 1, [] => List.replicate (n + 1) .eof
  | n + 1, x :: rest =>
    if endTest ident wraps (.item x) then List.replicate (n + 1) (.item x)
    else .item x :: peekLoop ident wraps n rest

/-! ## Pipe -/

structure Pipe where
  cap : Nat
  buf : List Item
  sendClosed : Bool   -- `close(s.items)` happened
  recvClosed : Bool   -- `close(s.closed)` happened
  deriving DecidableEq, Repr, Inhabited

def Pipe.new (cap : Nat) : Pipe := ⟨cap, [], false, false⟩

/-- `stream.send` when no receiver is waiting: `closed` is polled first, then the item is
    buffered if there is room; otherwise the call blocks (not enabled).  Sending after
    `closeSend` panics in Go (send on closed channel) and is outside the contract. -/
def Pipe.send (p : Pipe) (i : Item) : Option (Pipe × Bool) :=
  if p.sendClosed then none
  else if p.recvClosed then some (p, true)
  else if p.buf.length < p.cap then some ({ p with buf := p.buf ++ [i] }, false)
  else none

/-- `stream.send` meeting a receiver that already waits on an empty channel (the only way
    through a capacity-0 channel): the item goes straight to the receiver. -/
def Pipe.handoff (p : Pipe) : Option Pipe :=
  if p.sendClosed || p.recvClosed || !p.buf.isEmpty then none else some p

/-- `stream.recv`: next buffered item; `io.EOF` once the channel is closed and drained. -/
def Pipe.recv (p : Pipe) : Option (Pipe × Res) :=
  match p.buf with
  | x :: rest => some ({ p with buf := rest }, .item x)
  | [] => if p.sendClosed then some (p, .eof) else none

def Pipe.closeSend (p : Pipe) : Option Pipe :=
  if p.sendClosed then none else some { p with sendClosed := true }

def Pipe.closeRecv (p : Pipe) : Option Pipe :=
  if p.recvClosed then none else some { p with recvClosed := true }

inductive PEv where
  | send (i : Item)
  | handoff (i : Item)
  | recv
  | closeSend
  | closeRecv
  deriving DecidableEq, Repr

/-- history of one pipe (ghost state the theorems talk about) -/
structure PHist where
  accepted : List Item := []     -- items whose `Send` returned closed = false, in order
  refused : Nat := 0             -- `Send`s that returned closed = true
  recvd : List Item := []        -- items returned by `Recv`, in order
  eof : Bool := false            -- a `Recv` returned io.EOF
  itemAfterEof : Bool := false   -- a `Recv` returned an item after one returned io.EOF
  lateAccept : Bool := false     -- a `Send` returned closed = false after `closeRecv`
  deriving DecidableEq, Repr

def Pipe.stepH (ph : Pipe × PHist) : PEv → Option (Pipe × PHist)
  | .send i =>
    match ph.1.send i with
    | some (p', true) => some (p', { ph.2 with refused := ph.2.refused + 1 })
    | some (p', false) =>
      some (p', { ph.2 with
        accepted := ph.2.accepted ++ [i], lateAccept := ph.2.lateAccept || ph.1.recvClosed })
    | none => none
  | .handoff i =>
    match ph.1.handoff with
    | some p' =>
      some (p', { ph.2 with
        accepted := ph.2.accepted ++ [i], recvd := ph.2.recvd ++ [i],
        itemAfterEof := ph.2.itemAfterEof || ph.2.eof })
    | none => none
  | .recv =>
    match ph.1.recv with
    | some (p', .item x) =>
      some (p', { ph.2 with
        recvd := ph.2.recvd ++ [x], itemAfterEof := ph.2.itemAfterEof || ph.2.eof })
    | some (p', .eof) => some (p', { ph.2 with eof := true })
    | none => none
  | .closeSend => (ph.1.closeSend).map (·, ph.2)
  | .closeRecv => (ph.1.closeRecv).map (·, ph.2)

def Pipe.runH (ph : Pipe × PHist) : List PEv → Option (Pipe × PHist)
  | [] => some ph
  | e :: es => match Pipe.stepH ph e with
    | some ph' => Pipe.runH ph' es
    | none => none

/-! ## Convert -/

/-- result of the user's convert function on one chunk -/
inductive ConvOut where
  | val (v : Nat)
  | skip                         -- returned `ErrNoValue`
  | fail (chunk : Nat) (err : Nat) -- returned another error (err ≠ 0)
  deriving DecidableEq, Repr

/-- one iteration of `streamReaderWithConvert.recv` on a source item: a source error is
    passed on with a zero chunk; otherwise the convert function decides; `none` = the loop
    goes round again (item dropped). -/
def convItem (g : Nat → ConvOut) (i : Item) : Option Item :=
  if i.err ≠ 0 then some ⟨0, i.err⟩
  else match g i.chunk with
    | .val v => some ⟨v, 0⟩
    | .skip => none
    | .fail c e => some ⟨c, e⟩

/-- `streamReaderWithConvert.recv` over a source that will deliver exactly the items `l`
    and then `io.EOF`: result and what is left of the source. -/
def convRecv (g : Nat → ConvOut) : List Item → Res × List Item
  | [] => (.eof, [])
  | x :: rest => match convItem g x with
    | some y => (.item y, rest)
    | none => convRecv g rest

theorem convRecv_length (g : Nat → ConvOut) (l : List Item) : (convRecv g l).2.length ≤ l.length := by
  induction l with
  | nil => simp [convRecv]
  | cons x rest ih => unfold convRecv; split <;> simp <;> omega

/-- receive until `io.EOF` -/
def convDrain (g : Nat → ConvOut) (l : List Item) : List Item :=
  match h : convRecv g l with
  | (.eof, _) => []
  | (.item y, rest) =>
    have : rest.length < l.length := by
      cases l with
      | nil => simp [convRecv] at h
      | cons x xs =>
        have := convRecv_length g xs
        unfold convRecv at h
        split at h
        · simp at h; rw [← h.2]; simp
        · have h2 : (convRecv g xs).2 = rest := by rw [h]
          rw [← h2]; simp; omega
    y :: convDrain g rest
termination_by l.length

/-! ## Copy -/

/-- source facts of `parentStreamReader` -/
structure CopyFacts where
  fillOnce : Bool    -- `peek` reads the source inside `elem.once.Do`
  closeIncr : Bool   -- `close(idx)` does `atomic.AddUint32(&p.closedNum, 1)` after nil-ing the cursor
  closeAtLen : Bool  -- ... and calls `p.sr.Close()` iff the new value equals `len(p.subStreamList)`
  deriving DecidableEq, Repr

structure CopyCore where
  log : List Item               -- filled elements of the linked list, in order
  eofSeen : Bool                -- the tail element holds io.EOF
  cursors : List (Option Nat)   -- subStreamList: position in `log`; `none` = closed (nil)
  closedNum : Nat
  srcClosed : Nat               -- how many times `p.sr.Close()` ran
  deriving DecidableEq, Repr, Inhabited

def CopyCore.new (n : Nat) : CopyCore := ⟨[], false, List.replicate n (some 0), 0, 0⟩

inductive PeekNeed where
  | closed                          -- cursor is nil: ErrRecvAfterClosed (outside the contract)
  | have (r : Res) (c : CopyCore)   -- element already filled
  | fill (k : Nat)                  -- element `k` must be read from the source first
  deriving Repr

/-- `peek(idx)` up to the point where the source is needed. -/
def CopyCore.peekLocal (f : CopyFacts) (c : CopyCore) (idx : Nat) : PeekNeed :=
  match c.cursors[idx]? with
  | none => .closed
  | some none => .closed
  | some (some k) =>
    if !f.fillOnce then .fill k else
    match c.log[k]? with
    | some it => .have (.item it) { c with cursors := c.cursors.set idx (some (k + 1)) }
    | none => if c.eofSeen then .have .eof c else .fill k

/-- the body of `once.Do` plus the cursor update, given what `p.sr.Recv()` returned. -/
def CopyCore.fill (c : CopyCore) (idx k : Nat) (r : Res) : CopyCore :=
  match r with
  | .item it => { c with log := c.log.take k ++ [it], cursors := c.cursors.set idx (some (k + 1)) }
  | .eof => { c with eofSeen := true }

/-- `close(idx)`; the Bool says whether `p.sr.Close()` is called. -/
def CopyCore.close (f : CopyFacts) (c : CopyCore) (idx : Nat) : CopyCore × Bool :=
  match c.cursors[idx]? with
  | some (some _) =>
    let cn := if f.closeIncr then c.closedNum + 1 else c.closedNum
    let all := if f.closeAtLen then cn == c.cursors.length else cn + 1 == c.cursors.length
    ({ c with
        cursors := c.cursors.set idx none, closedNum := cn,
        srcClosed := if all then c.srcClosed + 1 else c.srcClosed }, all)
  | _ => (c, false)

/-- an abstract source reader -/
structure Src (σ : Type) where
  recv : σ → Option (Res × σ)   -- `none` = would block
  close : σ → σ

inductive CEv (σ : Type) where
  | recv (i : Nat)
  | close (i : Nat)
  | env (f : σ → σ)    -- anything the environment does to the source in between (writers sending, …)

structure CopySys (σ : Type) where
  core : CopyCore
  src : σ
  pulled : List Res := []          -- ghost: results of `p.sr.Recv()`, in call order
  outs : List (Nat × Res) := []    -- ghost: (child, result) of every child `Recv`, in order

def CopySys.init {σ : Type} (n : Nat) (s : σ) : CopySys σ := { core := CopyCore.new n, src := s }

def CopySys.step {σ : Type} (f : CopyFacts) (S : Src σ) (y : CopySys σ) : CEv σ → Option (CopySys σ)
  | .recv i =>
    match y.core.peekLocal f i with
    | .closed => none
    | .have r c' => some { y with core := c', outs := y.outs ++ [(i, r)] }
    | .fill k =>
      match S.recv y.src with
      | none => none
      | some (r, s') =>
        some { core := y.core.fill i k r, src := s', pulled := y.pulled ++ [r], outs := y.outs ++ [(i, r)] }
  | .close i =>
    let (c', cl) := y.core.close f i
    some { y with core := c', src := if cl then S.close y.src else y.src }
  | .env g => some { y with src := g y.src }

def CopySys.run {σ : Type} (f : CopyFacts) (S : Src σ) (y : CopySys σ) : List (CEv σ) → Option (CopySys σ)
  | [] => some y
  | e :: es => match y.step f S e with
    | some y' => y'.run f S es
    | none => none

/-- items child `i` received -/
def itemsOf (i : Nat) (outs : List (Nat × Res)) : List Item :=
  outs.filterMap fun o => if o.1 = i then o.2.item? else none

/-- child `i` saw io.EOF -/
def eofOf (i : Nat) (outs : List (Nat × Res)) : Bool :=
  outs.any fun o => o.1 = i && o.2.isEof

/-- the list-backed source: delivers its items, then io.EOF -/
def listSrc : Src (List Item) where
  recv := fun l => match l with
    | x :: rest => some (.item x, rest)
    | [] => some (.eof, [])
  close := fun l => l

/-! ## Merge -/

/-- The select used by `multiStreamReader.recv` when `n` sources remain: a list of cases
    `(a, b)` = "receive from `ss[chosenList[a]]`, report `chosenList[b]`".  Up to
    `maxSel` remaining sources the static table of `receiveN` is used, above it
    `reflect.Select` over every remaining source. -/
def selCases (tbl : List (List (Nat × Nat))) (maxSel n : Nat) : List (Nat × Nat) :=
  if n > maxSel then (List.range n).map fun j => (j, j)
  else match tbl[n]? with
    | some cs => cs
    | none => []     -- indexing the func-literal slice out of range panics

/-- the table is the intended one: entry `n` selects exactly `chosenList[0..n)` -/
def tblOK (tbl : List (List (Nat × Nat))) (maxSel : Nat) : Bool :=
  tbl.length == maxSel + 1 &&
  (List.range (maxSel + 1)).all fun n => tbl[n]? == some ((List.range n).map fun j => (j, j))

structure MergeSt where
  srcs : List Pipe      -- `sts`
  chosen : List Nat     -- `chosenList`
  outs : List (Nat × Item) := []   -- ghost: (source, item) delivered, in order
  acc : List (Nat × Item) := []    -- ghost: (source, item) accepted by `Send`, in order
  eofOut : Bool := false           -- ghost: `recv` returned io.EOF
  deriving Repr

def MergeSt.init (caps : List Nat) : MergeSt :=
  { srcs := caps.map Pipe.new, chosen := List.range caps.length }

inductive MEv where
  | sel (c : Nat)             -- case `c` of the current select fires
  | eof                       -- the loop condition `len(chosenList) > 0` fails
  | send (k : Nat) (i : Item) -- writer of source `k`
  | handoff (k : Nat) (i : Item) (c : Nat) -- writer of source k meets the select waiting in case c
  | closeSend (k : Nat)
  deriving DecidableEq, Repr

def setPipe (l : List Pipe) (k : Nat) (p : Pipe) : List Pipe := l.set k p

def MergeSt.step (tbl : List (List (Nat × Nat))) (maxSel : Nat) (m : MergeSt) : MEv → Option MergeSt
  | .sel c =>
    match (selCases tbl maxSel m.chosen.length)[c]? with
    | none => none
    | some (a, b) =>
      match m.chosen[a]?, m.chosen[b]? with
      | some sa, some sb =>
        match m.srcs[sa]? with
        | none => none
        | some p =>
          match p.recv with
          | none => none
          | some (p', .item x) => some { m with srcs := m.srcs.set sa p', outs := m.outs ++ [(sa, x)] }
          | some (_, .eof) => some { m with chosen := m.chosen.erase sb }
      | _, _ => none
  | .eof => if m.chosen.isEmpty then some { m with eofOut := true } else none
  | .send k i =>
    match m.srcs[k]? with
    | none => none
    | some p =>
      match p.send i with
      | none => none
      | some (p', true) => some { m with srcs := m.srcs.set k p' }
      | some (p', false) => some { m with srcs := m.srcs.set k p', acc := m.acc ++ [(k, i)] }
  | .handoff k i c =>
    match (selCases tbl maxSel m.chosen.length)[c]? with
    | none => none
    | some (a, _) =>
      if m.chosen[a]? = some k then
        match m.srcs[k]? with
        | none => none
        | some p =>
          match p.handoff with
          | none => none
          | some _ => some { m with outs := m.outs ++ [(k, i)], acc := m.acc ++ [(k, i)] }
      else none
  | .closeSend k =>
    match m.srcs[k]? with
    | none => none
    | some p => (p.closeSend).map fun p' => { m with srcs := m.srcs.set k p' }

def MergeSt.run (tbl : List (List (Nat × Nat))) (maxSel : Nat) (m : MergeSt) : List MEv → Option MergeSt
  | [] => some m
  | e :: es => match m.step tbl maxSel e with
    | some m' => m'.run tbl maxSel es
    | none => none

/-- items of source `k` in a tagged list -/
def ofSrc (k : Nat) (l : List (Nat × Item)) : List Item :=
  l.filterMap fun o => if o.1 = k then some o.2 else none

end EinoV.C08
