/-
  C10 — work that user code inside a node DETACHES from (or re-attaches to) the run's callback
  context with the public API of package `callbacks`, and who hears what is fired under it.

  Inside its body a node may derive a context from the one it was called with

      callbacks.InitCallbacks(ctx, info)            -- no handlers: detach completely
      callbacks.InitCallbacks(ctx, info, hs...)     -- detach and attach handlers of its own
      callbacks.ReuseHandlers(ctx, info)            -- keep the handlers, change the run info

  (any chain of these), and under the derived context fire callbacks itself
  (`callbacks.OnStart / OnEnd / OnError`), run a component that fires its own, or invoke a
  compiled inner graph (whose `initGraphCallbacks` / `initNodeCallbacks` then `AppendHandlers`
  on top of whatever the derived context carries, plus the handlers passed to that inner call).

  Every derived context and every inner graph / inner node is a unit of the unit machine
  (Model/C10.lean): `InitCallbacks` on the node's context is an `init` unit *with a parent*,
  `ReuseHandlers` a `reuse` unit, the inner graph and its node `append` units.  `detProg` adds
  them to the program of the surrounding compose run; the machine then says who hears what.

  Shape family of the harness: START → n₁ ∥ … ∥ n_k → join → END, every nᵢ a lambda whose body
  performs its work items one after the other and then returns (or fails).
-/
import EinoV.Model.C10
import EinoV.Model.C10Runs

namespace EinoV.C10

/-- one context derivation -/
inductive DOp where
  /-- `callbacks.InitCallbacks(ctx, info)` -/
  | init0
  /-- `callbacks.InitCallbacks(ctx, info, hs...)` -/
  | initH (hs : List Hd)
  /-- `callbacks.ReuseHandlers(ctx, info)` -/
  | reuse
  deriving Repr

/-- what is fired under the derived context -/
inductive DInner where
  /-- `OnStart`, then `OnEnd` (or `OnError`): by hand, or by a component that fires its own callbacks -/
  | fire (fails : Bool)
  /-- a compiled inner graph `START → step → END` invoked with the handlers `opts` as a call
      option; `stepFails`: its node returns an error -/
  | graph (opts : List Hd) (stepFails : Bool)
  deriving Repr

structure DWork where
  ops : List DOp
  inner : DInner
  deriving Repr

structure DNode where
  key : String
  /-- the node returns an error after its work items -/
  fails : Bool
  work : List DWork
  deriving Repr

structure DShape where
  stream : Bool
  nodes : List DNode
  deriving Repr

def DShape.fails (sh : DShape) : Bool := sh.nodes.any (·.fails)

/-- the units the framework itself creates: the called graph, the nodes, `join` -/
def dBaseUnits (sh : DShape) : List UnitSpec :=
  ⟨[], false, rootInfo, .graph sh.stream (if sh.fails then .lateErr else .ok), true⟩ ::
  (sh.nodes.map (fun n => (⟨[n.key], false, lamInfo [n.key] "Li", .wrapped false (if n.fails then .err else .ok), false⟩ : UnitSpec)) ++
   (if sh.fails then [] else [joinUnit []]))

/-! ## the units user code adds -/

def dCtxInfo (key : String) (j k : Nat) : String := renderInfo ("d:" ++ key ++ "." ++ toString j ++ "." ++ toString k) "" ""
def dGraphInfo (key : String) (j : Nat) : String := renderInfo ("ig:" ++ key ++ "." ++ toString j) "" "Graph"
def dStepInfo (key : String) (j : Nat) : String := renderInfo ("is:" ++ key ++ "." ++ toString j) "Li" "Lambda"

/-- arrays and units built so far -/
structure DAcc where
  arrays : Heap
  units : List UnitDecl
  deriving Repr

/-- one context derivation below `parent`; `prog` = what this context itself fires -/
def dOpUnit (acc : DAcc) (parent : Nat) (info : String) (prog : List Timing) : DOp → DAcc
  | .init0 => ⟨acc.arrays, acc.units ++ [⟨some parent, .init ⟨0, 0, 0, 0⟩, [], info, prog⟩]⟩
  | .initH hs =>
    ⟨acc.arrays ++ [hs], acc.units ++ [⟨some parent, .init ⟨acc.arrays.length, 0, hs.length, hs.length⟩, [], info, prog⟩]⟩
  | .reuse => ⟨acc.arrays, acc.units ++ [⟨some parent, .reuse, [], info, prog⟩]⟩

def dFireProg : DInner → List Timing
  | .fire fails => [Timing.start, if fails then Timing.error else Timing.end_]
  | .graph _ _ => []

/-- the chain of derivations of one work item; returns the index of the innermost context -/
def dOps (key : String) (j : Nat) (inner : DInner) : DAcc → Nat → Nat → List DOp → DAcc × Nat
  | acc, parent, _, [] => (acc, parent)
  | acc, parent, k, op :: rest =>
    let prog := if rest.isEmpty then dFireProg inner else []
    let acc' := dOpUnit acc parent (dCtxInfo key j k) prog op
    dOps key j inner acc' acc.units.length (k + 1) rest

def dWork (cf : CFacts) (key : String) (nodeIdx : Nat) (acc : DAcc) (j : Nat) (w : DWork) : DAcc :=
  let r := dOps key j w.inner acc nodeIdx 0 w.ops
  match w.inner with
  | .fire _ => r.1
  | .graph opts stepFails =>
    let g := r.1.units.length
    ⟨r.1.arrays, r.1.units ++
      [⟨some r.2, .append, opts, dGraphInfo key j, kindProg cf (.graph false (if stepFails then .lateErr else .ok))⟩,
       ⟨some g, .append, [], dStepInfo key j, kindProg cf (.wrapped false (if stepFails then .err else .ok))⟩]⟩

def dNodeWork (cf : CFacts) (acc : DAcc) (nodeIdx : Nat) (n : DNode) : DAcc :=
  ((List.range n.work.length).zip n.work).foldl (fun a jw => dWork cf n.key nodeIdx a jw.1 jw.2) acc

/-- The program of a run of the shape: the compose run's own units (`progOf`), then — after all
    of them, so that every parent index is smaller — the units user code adds inside the nodes. -/
def detProg (cf : CFacts) (globals : List Hd) (userInit : Option (List Hd × Nat)) (opts : List Opt) (sh : DShape) : Prog :=
  let c : Case := { globals := globals, userInit := userInit, opts := opts, units := dBaseUnits sh }
  let base := progOf cf c
  let shift := if userInit.isSome then 1 else 0
  let acc := ((List.range sh.nodes.length).zip sh.nodes).foldl
    (fun a kn => dNodeWork cf a (shift + 1 + kn.1) kn.2) (⟨base.arrays, base.units⟩ : DAcc)
  { base with arrays := acc.arrays, units := acc.units }

/-! ## who may hear what is fired below a detached context -/

/-- `j` is unit `i` or is derived from it through `AppendHandlers` / `ReuseHandlers` steps only -/
inductive Below (P : Prog) (i : Nat) : Nat → Prop where
  | self : Below P i i
  | step {j p : Nat} {d : UnitDecl} : P.units[j]? = some d → (∀ s, d.kind ≠ .init s) → d.parent = some p → p < j →
      Below P i p → Below P i j

end EinoV.C10
