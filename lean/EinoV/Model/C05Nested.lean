/-
  C05 / C06 — nested graphs: a node whose body is itself a compiled graph.

  `Model/C05.lean` is parametric in `X`, "what an interrupted nested graph hands to its parent".  Here
  `X` is tied to the run loop itself: a `SubCodec` packs the nested run's checkpoint and interrupt
  info into `X` (Go: `subGraphInterruptError{Info, CheckPoint}`; the parent stores the checkpoint under
  `checkpoint.SubGraphs[key]`, the info under `InterruptInfo.SubGraphs[key]`) and `subBody` is the body
  of a graph node: `runner.run` of the nested runner as a sub-graph (`isSubGraph = true`, no store),
  on the node's input or — when `forwardCheckPoint` handed a nested checkpoint down — resumed from it.
  `subBody` is the body `Oracle/C05GraphCase.lean` builds for a `"graph"` node (there written out as a
  lambda inside the `partial def parseNode`, with `Payload.mk` / `Payload.cp` as the codec; the keyed /
  stream case families wrap it in the `WithInputKey` input wrapper and the empty-stream result mapping,
  both the identity for a node without input key on values other than the empty-stream marker), so the
  correspondence check of C05 / C06 exercises exactly this definition on every nested case.

  Nesting of arbitrary depth is a depth-indexed family: `NR d` is a graph whose nodes are plain
  functions or graphs of `NR (d-1)` (each with its own completion order); `NR.toI` compiles it to the
  `IRunner` the run loop executes, `NR.deepPlain` switches the interrupt sets off at every level (the
  uninterrupted reference), `NR.leafLog` flattens the events of a run into the executions of the
  function nodes of all levels (node path, input after the pre-handler).
-/
import EinoV.Model.C05

namespace EinoV.Interrupt
open EinoV.Engine

/-- how a nested run's checkpoint and interrupt info travel through the parent (`SubGraphs[key]`) -/
structure SubCodec (V S X : Type) where
  pack : Checkpoint V S X → Info S X → X
  cp : X → Checkpoint V S X
  info : X → Info S X

/-- the body of a node that is a compiled graph: run the nested runner as a sub-graph, from the input
    or from the nested checkpoint handed down; the parent's state is not touched -/
def subBody {V S X} (ops : ValOps V) (cfg : Cfg) (cd : SubCodec V S X) (child : IRunner V S X)
    (sched : ISched V S X) : V → S → Option X → BodyOut V S X :=
  fun v st x =>
    let o := runI ops cfg child sched true false (match x with | some p => .inr (cd.cp p) | none => .inl v)
    match o.res with
    | .done out => { res := .done out st, evs := o.evs }
    | .interrupted cp info => { res := .subInt (cd.pack cp info) st, evs := o.evs }
    | .failed e => { res := .fail e st, evs := o.evs }

/-- the body of a function node: output or error, and the new state; never asks for an interrupt -/
def fnBody {V S X} (f : V → S → Except Err V × S) : V → S → Option X → BodyOut V S X :=
  fun v st _ =>
    match (f v st).1 with
    | .ok out => { res := .done out (f v st).2 }
    | .error e => { res := .fail e (f v st).2 }

/-- what a node of a nested graph is: a function, or a graph of the next level with its completion order -/
inductive NBody (V S X C : Type) where
  | fn (f : V → S → Except Err V × S)
  | graph (child : C) (sched : ISched V S X)

structure NNode (V S X C : Type) where
  key : Key
  pre : Option (V → S → V × S) := none
  body : NBody V S X C
  post : Option (V → S → V × S) := none

/-- one graph level over children of type `C` -/
structure NLevel (V S X C : Type) where
  base : Runner V
  nodes : List (NNode V S X C)
  intBefore : List Key := []
  intAfter : List Key := []
  initState : S

/-- graphs nested at most `d` deep -/
def NR (V S X : Type) : Nat → Type
  | 0 => NLevel V S X Empty
  | d + 1 => NLevel V S X (NR V S X d)

def NNode.toI {V S X C} (ops : ValOps V) (cfg : Cfg) (cd : SubCodec V S X) (toC : C → IRunner V S X)
    (n : NNode V S X C) : INode V S X :=
  { key := n.key, pre := n.pre, post := n.post,
    body := match n.body with
      | .fn f => fnBody f
      | .graph c sc => subBody ops cfg cd (toC c) sc }

def NLevel.toIWith {V S X C} (ops : ValOps V) (cfg : Cfg) (cd : SubCodec V S X) (toC : C → IRunner V S X)
    (l : NLevel V S X C) : IRunner V S X :=
  { base := l.base, inodes := l.nodes.map (NNode.toI ops cfg cd toC),
    intBefore := l.intBefore, intAfter := l.intAfter, initState := l.initState }

/-- the runner the loop executes (what `compile` of the nested graph gives) -/
def NR.toI {V S X} (ops : ValOps V) (cfg : Cfg) (cd : SubCodec V S X) : (d : Nat) → NR V S X d → IRunner V S X
  | 0, l => NLevel.toIWith ops cfg cd (fun e => nomatch e) l
  | d + 1, l => NLevel.toIWith ops cfg cd (NR.toI ops cfg cd d) l

def NLevel.plainWith {V S X C} (pc : C → C) (l : NLevel V S X C) : NLevel V S X C :=
  { l with intBefore := [], intAfter := [],
           nodes := l.nodes.map (fun n => { n with body := match n.body with
             | .fn f => .fn f
             | .graph c sc => .graph (pc c) sc }) }

/-- interrupt sets emptied at every level -/
def NR.deepPlain {V S X} : (d : Nat) → NR V S X d → NR V S X d
  | 0, l => NLevel.plainWith (fun e => e) l
  | d + 1, l => NLevel.plainWith (NR.deepPlain d) l

/-! ### executions of the function nodes of all levels -/

abbrev Log (V : Type) := List (List Key × V)

def NLevel.node? {V S X C} (l : NLevel V S X C) (k : Key) : Option (NNode V S X C) :=
  l.nodes.find? (·.key == k)

def NLevel.isFn {V S X C} (l : NLevel V S X C) (k : Key) : Bool :=
  match l.node? k with
  | some n => (match n.body with | .fn _ => true | .graph .. => false)
  | none => false

def NLevel.child? {V S X C} (l : NLevel V S X C) (k : Key) : Option C :=
  match l.node? k with
  | some n => (match n.body with | .fn _ => none | .graph c _ => some c)
  | none => none

/-- executions visible in the events of one level: a function node's start, and whatever `clog`
    finds in the block of a nested run -/
def levelLog {V S X} (isFn : Key → Bool) (clog : Key → List (Ev V S X) → Log V) : List (Ev V S X) → Log V
  | [] => []
  | .start k v :: rest => (if isFn k then [([k], v)] else []) ++ levelLog isFn clog rest
  | .nested k evs :: rest => clog k evs ++ levelLog isFn clog rest
  | _ :: rest => levelLog isFn clog rest

def pfxLog {V} (k : Key) (l : Log V) : Log V := l.map (fun p => (k :: p.1, p.2))

/-- all function-node executions (node path, input after the pre-handler) in the events of a run of a
    graph nested `d` deep -/
def NR.leafLog {V S X} : (d : Nat) → NR V S X d → List (Ev V S X) → Log V
  | 0, l, evs => levelLog l.isFn (fun _ _ => []) evs
  | d + 1, l, evs =>
    levelLog l.isFn (fun k e => match l.child? k with
      | some c => pfxLog k (NR.leafLog d c e)
      | none => []) evs

/-! ### a caller that keeps resuming, with the sub-graph / id flags explicit -/

/-- `resumeLoop` with the `isSub` / `hasID` flags as parameters (`resumeLoop = chain false true`) -/
def chain {V S X} (ops : ValOps V) (cfg : Cfg) (r : IRunner V S X) (sched : ISched V S X) (isSub hasID : Bool) :
    Nat → V ⊕ Checkpoint V S X → List (Out V S X)
  | 0, _ => []
  | n + 1, inp =>
    let o := runI ops cfg r sched isSub hasID inp
    match o.res with
    | .interrupted cp _ => o :: chain ops cfg r sched isSub hasID n (.inr cp)
    | _ => [o]

/-! ### one superstep seen through the completed (key, output) pairs -/

/-- the post-handlers over completed tasks given as (key, raw output), in completion order -/
def postDones {V S X} (r : IRunner V S X) : List (Done V) → S → List (Done V) × S
  | [], st => ([], st)
  | d :: rest, st =>
    match (r.inode? d.1).bind (·.post) with
    | none => let q := postDones r rest st; (d :: q.1, q.2)
    | some h => let q := postDones r rest (h d.2 st).2; ((d.1, (h d.2 st).1) :: q.1, q.2)

/-- post-handlers, then `calculateNextTasks` -/
def nextOf {V S X} (ops : ValOps V) (r : IRunner V S X) (cm : Chans V) (l : List (Done V)) (st : S) :
    Except Err (Chans V × Next V × S) :=
  match calcNext ops r.base cm (postDones r l st).1 with
  | .error e => .error e
  | .ok (cm', nx) => .ok (cm', nx, (postDones r l st).2)

/-- what `handleInterruptWithSubGraphAndRerunNodes` does to the channels with the other finished
    tasks: resolve, updateValues, updateDependencies — no `get` -/
def foldFin {V} (base : Runner V) (cm : Chans V) (dones : List (Done V)) : Except Err (Chans V) :=
  match resolve base cm dones with
  | .error e => .error e
  | .ok res => .ok (updateDeps base (updateValues base res.cm res.writes) res.deps)

end EinoV.Interrupt
