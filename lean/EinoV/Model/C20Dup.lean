/-
  C20 — one (predecessor, node) pair declared several times across the kinds of dependency a
  Workflow has.

  `addEdgeWithMappings(start, end, noControl, noData, …)` (compose/graph.go) records a control half
  (`g.controlEdges`) unless `noControl` and a data half (`g.dataEdges`) unless `noData`, and looks
  for the new edge among the control edges inside `if !noControl { … }` and among the data edges
  inside `if !noData { … }`: an edge is a duplicate exactly when one of the halves it carries is
  already there.  The Workflow API reaches the function with three combinations:
      AddInput                                          control + data
      AddDependency                                     control only
      AddInputWithOptions(…, WithNoDirectDependency())  data only
  so two declarations of one pair clash unless they are AddDependency + WithNoDirectDependency
  (either order), which together are one control + data connection.  The end node of a branch
  records neither half (`g.branches`).  The builder model (`addEdgeBody` / `addEdgeBodyK`) has the
  two scans where the source has them; this file names the table (`InKind.clash`) and, for the
  negation witness, the function with ONE scan "among the edges of the new edge's own kind" placed
  in front of the bookkeeping (`addEdgeBodyOwnKind`).
  Core Lean only.
-/
import EinoV.Model.C20Wf

namespace EinoV.Build

/-- the declaration records a control edge -/
def InKind.ctl : InKind → Bool
  | .indirect => false
  | _ => true

/-- the declaration records a data edge -/
def InKind.data : InKind → Bool
  | .dep => false
  | _ => true

/-- two declarations of one (predecessor, node) pair are a duplicate: they share a half -/
def InKind.clash (a b : InKind) : Bool := (a.ctl && b.ctl) || (a.data && b.data)

/-- `addEdgeWithMappings` with a single duplicate scan, before anything is recorded, among the
    control edges – or among the data edges when the edge carries no control -/
def addEdgeBodyOwnKind (im : Impl) (ord : Ord) (b : Builder) (s e : Key) (noControl noData : Bool)
    (mapped : Option Nat) : Except ErrKind Builder :=
  if s = END then .error .endAsStart
  else if e = START then .error .startAsEnd
  else if !b.hasNode s && s != START then .error .unknownStart
  else if !b.hasNode e && e != END then .error .unknownEnd
  else if noControl && b.dataEdges.contains (s, e) then .error .dupData
  else if !noControl && b.controlEdges.contains (s, e) then .error .dupControl
  else
    let b1 : Builder :=
      if noControl then b
      else { b with controlEdges := b.controlEdges ++ [(s, e)],
                    startNodes := if s = START then b.startNodes ++ [e] else b.startNodes,
                    endNodes := if e = END then b.endNodes ++ [s] else b.endNodes }
    if noData then .ok b1
    else
      match update im ord (b1.addToValidate s { dst := e, mapped }) with
      | .error k => .error k
      | .ok b2 => .ok { b2 with dataEdges := b2.dataEdges ++ [(s, e)] }

/-- a call sequence on the builder whose `addEdgeWithMappings` scans as the source does
    (`both = true`: the builder model's `step`) or by the edge's own kind only -/
def stepScan (both : Bool) (f : Facts) (im : Impl) (ord : Ord) (b : Builder) : Op → Builder × Outcome × Option Runner
  | .edge s e nc nd m =>
    if both then step f im ord b (.edge s e nc nd m)
    else
      match (if f.edgeG.checkErr then b.buildError else none) with
      | some k => (b, .stored k, none)
      | none =>
        if f.edgeG.checkCompiled && b.compiled then (b, .compiled, none)
        else if nc && nd then (b, .fresh .edgeBothNo, none)
        else
          let r := guarded { f.edgeG with checkErr := false, checkCompiled := false } b
                     (addEdgeBodyOwnKind im ord b s e nc nd m)
          (r.1, r.2, none)
  | op => step f im ord b op

def runScan (both : Bool) (f : Facts) (im : Impl) (ord : Ord) : Builder → List Op → List Outcome
  | _, [] => []
  | b, op :: ops =>
    let r := stepScan both f im ord b op
    r.2.1 :: runScan both f im ord r.1 ops

end EinoV.Build
