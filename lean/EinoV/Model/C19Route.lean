/-
  C19 — where every copy of a finished node's output stream ends up when the successors are
  reached in the ways a Workflow offers.

  `resolveCompletedTasks` (graph_run.go) makes the copies and addresses one to every entry of
  `selected ++ writeTo`; `channelManager.updateValues` (graph_manager.go) hands a copy to the
  target's channel when the sender is a *data* predecessor of the target and has to close it
  otherwise (a Workflow branch carries no data: `noDataFlow`); `dagChannel.reportValues`
  (dag.go) closes what a skipped channel is handed.  The model follows one producer `p` whose
  successors differ in how they are tied to `p` (data+control, data only, control only, end of a
  data-less branch) and in where their *own* data comes from (START, nothing at all, static
  values only, START without control, `p` without control).  The last dimension decides whether
  the target has an entry in `dataPredecessors` at all.

  Core Lean only (compiled into the oracle).  Source facts are the fields of `Facts`.
-/
import EinoV.Model.C19

namespace EinoV.C19.Route

/-- what `updateValues` does for a target that has no entry in `dataPredecessors` (no data edge
    ends at it): `emptySet` = it goes on with an empty predecessor set, so every value sent to the
    target takes the arm for non-data senders; `skipTarget` = it goes to the next target without
    looking at the values; `other` = anything else (nothing is claimed about it). -/
inductive Missing where
  | emptySet | skipTarget | other
  deriving DecidableEq, Repr

/-- the rendering of the fact `missingDpsArm` (tools/factgen/c19.go) -/
def Missing.ofFact : String → Missing
  | "empty-set" => .emptySet
  | "nil-map" => .emptySet     -- `dps := c.dataPredecessors[target]`: reading a nil map is an empty set
  | "skip-target" => .skipTarget
  | _ => .other

structure Facts where
  missing : Missing
  closesNonData : Bool     -- updateValues closes a stream whose sender is not a data predecessor
  skippedCloses : Bool     -- dagChannel.reportValues closes the streams a skipped channel is handed
  skipReleasesStored : Bool  -- dagChannel.reportSkip closes the streams the channel already holds when it turns skipped
  closesSurplus : Bool     -- resolveCompletedTasks closes the copies nobody got
  closesReplaced : Bool    -- resolveCompletedTasks closes the copy a later entry for the same target replaces
  deriving DecidableEq, Repr

/-- what becomes of one reader derived from the producer's output -/
inductive Fate where
  | drained                      -- its consumer reads it to the end (and closes it)
  | closedAfter (lo hi : Nat)    -- its consumer reads between `lo` and `hi` chunks, then closes it
  | closed                       -- closed unread by the framework
  | dropped                      -- neither read nor closed: the source can never be closed
  deriving DecidableEq, Repr

/-- when the target's channel turns skipped, relative to the arrival of the value -/
inductive SkipTime where
  | never     -- the node runs
  | before    -- the channel is already skipped when the value arrives (`reportValues` on a skipped channel)
  | after     -- the value is stored in `ch.Values` first, the skip comes later (`reportSkip`)
  | either    -- the two tasks complete in an order the run does not fix
  deriving DecidableEq, Repr

/-- what a channel that is (or turns) skipped does with the stream -/
def skipFate (f : Facts) : SkipTime → Fate → Fate
  | .never, consumer => consumer
  | .before, _ => if f.skippedCloses then .closed else .dropped
  | .after, _ => if f.skipReleasesStored then .closed else .dropped
  | .either, _ => if f.skippedCloses && f.skipReleasesStored then .closed else .dropped

/-- `updateValues` + `reportValues` (+ `reportSkip`) for one value sent by `sender` to a target
    whose `dataPredecessors` entry is `dps` (`none`: no entry), whose channel is skipped at time
    `skip` and whose node would do `consumer` with the stream. -/
def routeCopy (f : Facts) (dps : Option (List String)) (sender : String) (skip : SkipTime)
    (consumer : Fate) : Fate :=
  match dps with
  | none =>
    match f.missing with
    | .emptySet => if f.closesNonData then .closed else .dropped
    | .skipTarget => .dropped
    | .other => .dropped
  | some ds =>
    if ds.contains sender then skipFate f skip consumer
    else if f.closesNonData then .closed else .dropped

/-! ### the Workflow family -/

/-- how a successor is tied to the producer `p` -/
inductive Kind where
  | input      -- AddInput("p"): data + control
  | dataonly   -- AddInputWithOptions("p", WithNoDirectDependency()) + AddDependency(START)
  | dep        -- AddDependency("p"): control only
  | branchend  -- end node of a (data-less) branch on "p"
  deriving DecidableEq, Repr

/-- where a `dep` / `branchend` successor takes its own data from -/
inductive Data where
  | start      -- AddInput(START): data + control from START
  | none       -- no input at all (works on the zero value / the empty stream)
  | static     -- SetStaticValue only (a pre-node handler, not an edge)
  | indirect   -- AddInputWithOptions(START, WithNoDirectDependency()): data from START, no control
  | pdata      -- AddInputWithOptions("p", WithNoDirectDependency()): data from p, no control
  deriving DecidableEq, Repr

structure Succ where
  key : String
  kind : Kind
  data : Data
  deriving DecidableEq, Repr

inductive Cond where
  | none | value | pfx | multiValue | multiPfx
  deriving DecidableEq, Repr

structure Case where
  chunks : Nat              -- chunks the producer emits through an unbuffered pipe
  succ : List Succ
  cond : Cond
  select : List String      -- branch ends the condition selects
  endData : Bool            -- END takes p's output too
  consume : Option Nat      -- chunks the caller reads before closing; `none`: to the end
  deriving Repr

def isEnd (s : Succ) : Bool := s.kind == .branchend

/-- a branch is added only with a condition and at least one end -/
def hasBranch (c : Case) : Bool := c.cond != .none && c.succ.any isEnd

def isSelected (c : Case) (s : Succ) : Bool := hasBranch c && isEnd s && c.select.contains s.key

/-- `p` is a data predecessor of the successor -/
def dataFromP (s : Succ) : Bool :=
  match s.kind with
  | .input => true
  | .dataonly => true
  | _ => s.data == .pdata

/-- START is a data predecessor of the successor -/
def dataFromStart (s : Succ) : Bool :=
  (s.kind == .dep || s.kind == .branchend) && (s.data == .start || s.data == .indirect)

/-- the successor's entry in `dataPredecessors`: present only if some data edge ends at it -/
def dpsOf (s : Succ) : Option (List String) :=
  let l := (if dataFromP s then ["p"] else []) ++ (if dataFromStart s then ["start"] else [])
  if l.isEmpty then none else some l

/-- all-predecessor mode: a channel is skipped when all its control predecessors skipped it; a
    branch end has `p` (through the branch) as a control predecessor, and START only with
    `Data.start` -/
def skippedOf (c : Case) (s : Succ) : Bool := isEnd s && s.data != .start && !isSelected c s

/-- the branch is on the producer itself: `calculateBranch` reports the skip before
    `updateValues` distributes the copies of the same task -/
def skipOf (c : Case) (s : Succ) : SkipTime := if skippedOf c s then .before else .never

/-- one entry of `nextNodeKeys = selected ++ writeTo` of the producer's task -/
structure Entry where
  key : String
  dps : Option (List String)
  skip : SkipTime
  consumer : Fate
  replaced : Bool     -- a later entry names the same target: this copy is replaced
  deriving Repr

def endKey : String := "end"

def endFate : Option Nat → Fate
  | none => .drained
  | some k => .closedAfter 0 k

/-- the entries the branch selected (they come first) -/
def selectedEntries (c : Case) : List Entry :=
  (c.succ.filter (isSelected c)).map fun s =>
    { key := s.key, dps := dpsOf s, skip := .never, consumer := .drained, replaced := dataFromP s }

/-- the data successors of `p` (its `writeTo`): the nodes that take its data, and END -/
def writeToEntries (c : Case) : List Entry :=
  ((c.succ.filter dataFromP).map fun s =>
    ({ key := s.key, dps := dpsOf s, skip := skipOf c s, consumer := .drained, replaced := false } : Entry))
  ++ (if c.endData then
        [{ key := endKey, dps := some ("p" :: c.succ.map (·.key)), skip := .never,
           consumer := endFate c.consume, replaced := false }]
      else [])

def entries (c : Case) : List Entry := selectedEntries c ++ writeToEntries c

def entryFate (f : Facts) (e : Entry) : Fate :=
  if e.replaced then (if f.closesReplaced then .closed else .dropped)
  else routeCopy f e.dps "p" e.skip e.consumer

/-- number of branches on `p` -/
def nBranches (c : Case) : Nat := if hasBranch c then 1 else 0

/-- what a branch condition does with its copy: a value condition gets the concatenated stream,
    a stream condition of the family reads one chunk and closes -/
def condFate : Cond → Fate
  | .pfx => .closedAfter 1 1
  | .multiPfx => .closedAfter 1 1
  | _ => .drained

/-- readers in existence after both copy steps (`copyItem(out, W+2B)`, then the last spare reader
    is re-copied for the selected targets), as in `distribute` -/
def created (c : Case) : Nat :=
  let W := (writeToEntries c).length
  let B := nBranches c
  let next := (entries c).length
  if next = 0 then copyCount (W + 2 * B)
  else copyCount (W + 2 * B) - 1 + copyCount (next + 1 - (W + B))

/-- the fate of every reader derived from `p`'s output: the branch condition's, one per entry
    of `selected ++ writeTo`, and the spare ones nobody got -/
def fates (f : Facts) (c : Case) : List Fate :=
  List.replicate (nBranches c) (condFate c.cond)
  ++ (entries c).map (entryFate f)
  ++ List.replicate (created c - nBranches c - (entries c).length)
       (if f.closesSurplus then Fate.closed else Fate.dropped)

def Fate.isDropped : Fate → Bool
  | .dropped => true
  | _ => false

/-- the reader certainly takes every chunk the producer has -/
def Fate.takesAll (chunks : Nat) : Fate → Bool
  | .drained => true
  | .closedAfter lo _ => chunks ≤ lo
  | _ => false

/-- the reader may take every chunk -/
def Fate.mayTakeAll (chunks : Nat) : Fate → Bool
  | .drained => true
  | .closedAfter _ hi => chunks ≤ hi
  | _ => false

/-- The producer sends through an unbuffered pipe: it ends when all its chunks were taken (the
    parent of the copies reads the source on demand of the fastest copy) or when the source is
    closed, which the parent does when *every* copy has been closed.  It is certainly released
    when some reader takes everything or no reader is dropped. -/
def mustRelease (f : Facts) (c : Case) : Bool :=
  (fates f c).any (Fate.takesAll c.chunks) || (fates f c).all (fun x => !x.isDropped)

/-- it certainly stays blocked: a reader is dropped and no other can take all the chunks -/
def mustBlock (f : Facts) (c : Case) : Bool :=
  (fates f c).any Fate.isDropped && (fates f c).all (fun x => !x.mayTakeAll c.chunks)

/-- some reader reads to the end: the producer must get to send all its chunks (its stream must
    not be closed under that reader) -/
def mustFinish (f : Facts) (c : Case) : Bool := (fates f c).any (fun x => x == .drained)

/-! ### the cross family: the producer and the node that branches run side by side

    `START → A` (the streaming producer), `START → B`; the ends of a branch on `B` take `A`'s
    stream without control (`WithNoDirectDependency`), with control (`AddInput("A")`), or take no
    data from `A`; END may read `A` directly.  An end whose only control predecessor is the
    branch is skipped when the branch does not select it — before `A`'s copy arrives (`A` completes
    after the branch was resolved), after it was stored in the channel (`B` waits for `A`), or in
    an order the run does not fix. -/

inductive Order where
  | valueFirst   -- B depends on A by control: A's value is stored before the branch is resolved
  | skipFirst    -- A completes after the branch has been resolved
  | free         -- no constraint
  deriving DecidableEq, Repr

inductive XData where
  | adata    -- AddInputWithOptions("A", WithNoDirectDependency()): A's data, control from the branch only
  | ainput   -- AddInput("A"): A's data and control (the node runs whatever the branch selects)
  | start    -- AddInput(START)
  | none     -- no input at all
  | static   -- static values only
  deriving DecidableEq, Repr

structure XEnd where
  key : String
  data : XData
  drains : Bool     -- the node concatenates its input (true) / passes the stream on lazily to END (false)
  deriving DecidableEq, Repr

structure XCase where
  chunks : Nat
  order : Order
  ends : List XEnd
  select : List String
  endData : Bool
  consume : Option Nat
  deriving Repr

def xTakesA (e : XEnd) : Bool := e.data == .adata || e.data == .ainput

/-- only the branch controls the end (no control edge from START or A) -/
def xBranchOnly (e : XEnd) : Bool := e.data == .adata || e.data == .none || e.data == .static

def xSkip (c : XCase) (e : XEnd) : SkipTime :=
  if xBranchOnly e && !c.select.contains e.key then
    match c.order with
    | .valueFirst => .after
    | .skipFirst => .before
    | .free => .either
  else .never

/-- the data successors of `A` -/
def xEntries (c : XCase) : List Entry :=
  ((c.ends.filter xTakesA).map fun e =>
    ({ key := e.key, dps := some ["A"], skip := xSkip c e,
       consumer := if e.drains then .drained else endFate c.consume, replaced := false } : Entry))
  ++ (if c.endData then
        [{ key := endKey, dps := some ("A" :: c.ends.map (·.key)), skip := .never,
           consumer := endFate c.consume, replaced := false }]
      else [])

def xEntryFate (f : Facts) (e : Entry) : Fate :=
  if e.replaced then (if f.closesReplaced then .closed else .dropped)
  else routeCopy f e.dps "A" e.skip e.consumer

/-- `A` has no branch: `copyItem(out, W)`, every data successor gets one reader; the item itself
    is closed when there is no successor -/
def xCreated (c : XCase) : Nat := copyCount (xEntries c).length

def xFates (f : Facts) (c : XCase) : List Fate :=
  (xEntries c).map (xEntryFate f)
  ++ List.replicate (xCreated c - (xEntries c).length)
       (if f.closesSurplus then Fate.closed else Fate.dropped)

def xMustRelease (f : Facts) (c : XCase) : Bool :=
  (xFates f c).any (Fate.takesAll c.chunks) || (xFates f c).all (fun x => !x.isDropped)

def xMustBlock (f : Facts) (c : XCase) : Bool :=
  (xFates f c).any Fate.isDropped && (xFates f c).all (fun x => !x.mayTakeAll c.chunks)

/-- the property's precondition "every produced value has a consumer", decided on the case: the
    run cannot return before `A`'s completion has been processed — some node that runs (or END)
    waits for `A`'s data, or `B` (and with it every end and END) waits for `A` -/
def xInScope (c : XCase) : Bool :=
  c.order == .valueFirst || (xEntries c).any (fun e => e.skip == .never)

def xMustFinish (f : Facts) (c : XCase) : Bool := (xFates f c).any (fun x => x == .drained)

def Fate.name : Fate → String
  | .drained => "drained"
  | .closedAfter lo hi => s!"closed-after-{lo}..{hi}"
  | .closed => "closed"
  | .dropped => "dropped"

end EinoV.C19.Route
