/-
  C17 — ToolsNode model (compose/tool_node.go, compose/runnable.go packer derivations,
  schema/message.go concatMessageArray / ConcatMessages restricted to tool messages,
  compose/stream_concat.go concatStreamReader).

  Tool calls are indexed by position.  A tool is a pair of optional arbitrary functions
  (InvokableRun / StreamableRun) from the argument string to ok output | error | panic.
  `runAll` executes the tasks in an arbitrary completion order σ (a list of task indices),
  the task of index 0 inline on the caller's goroutine (no recover there), the others in
  goroutines (deferred recover = source fact).  How a result is stored (slot of the task's
  index vs appended in completion order), whether the goroutine gets its task as an
  argument, whether the unknown-tool handler is consulted are source facts, passed in the
  `Facts` parameter.
-/
namespace EinoV.C17

/-- Source facts the model is parametric in (regenerated from /repo: Gen/FactsC17.lean). -/
structure Facts where
  /-- results are written through the task pointer `&tasks[i]` and read back by index
      (not appended in completion order) -/
  storeByIndex : Bool
  /-- the goroutine body of `parallelRunToolCall` has a deferred `recover()` storing the error -/
  goroutineRecovers : Bool
  /-- the goroutine receives `&tasks[i]` as an argument evaluated at the `go` statement
      (go.mod says go 1.18: a captured loop variable would be shared by all iterations) -/
  taskPassedAsArg : Bool
  /-- `genToolCallTasks` consults `tn.unknownToolHandler` for a name missing in `indexes` -/
  handlerConsulted : Bool
  /-- `taskManager.executor` (graph_manager.go) has a deferred `recover()` -/
  executorRecovers : Bool
  deriving DecidableEq, Repr

inductive ToolErr where
  /-- an error value returned by the tool (identity = id) -/
  | user (id : Nat)
  /-- `safe.NewPanicErr(info, stack)` made by a deferred recover -/
  | panicked (p : Nat)
  /-- `emptyStreamConcatErr`: Invoke on a streamable-only tool whose stream has no chunk -/
  | emptyStream
  deriving DecidableEq, Repr

/-- What running user code gives. -/
inductive Out (α : Type) where
  | ok (a : α) | err (e : ToolErr) | panic (p : Nat)
  deriving DecidableEq, Repr

def Out.bind {α β : Type} : Out α → (α → Out β) → Out β
  | .ok a, f => f a
  | .err e, _ => .err e
  | .panic p, _ => .panic p

/-- A tool: `InvokableRun` and/or `StreamableRun` (a stream = the list of its chunks). -/
structure Tool where
  inv : Option (String → Out String)
  str : Option (String → Out (List String))

def joinS (l : List String) : String := l.foldr (· ++ ·) ""

/-- `concatStreamReader` on a string stream (stream_concat.go:51-85 + `concatStrings`). -/
def concatChunks : List String → Out String
  | [] => .err .emptyStream
  | [c] => .ok c
  | cs => .ok (joinS cs)

/-- `runnablePacker.Invoke`: the invokable if there is one, else `invokeByStream`. -/
def packInvoke (t : Tool) (a : String) : Out String :=
  match t.inv, t.str with
  | some f, _ => f a
  | none, some g => (g a).bind concatChunks
  | none, none => .err .emptyStream   -- not constructible: `convTools` rejects such a tool

/-- `runnablePacker.Stream`: the streamable if there is one, else `streamByInvoke`. -/
def packStream (t : Tool) (a : String) : Out (List String) :=
  match t.str, t.inv with
  | some g, _ => g a
  | none, some f => (f a).bind (fun s => .ok [s])
  | none, none => .err .emptyStream

structure Call where
  id : String
  name : String
  args : String
  deriving DecidableEq, Repr

/-- `toolCallTask` (in-fields). -/
structure Task where
  id : String
  arg : String
  tool : Tool

structure Msg where
  id : String
  content : String
  deriving DecidableEq, Repr

inductive Err where
  | notAssistant
  | noToolCalls
  /-- "tool %s not found in toolsNode indexes" -/
  | unknownTool (name : String)
  /-- "failed to invoke/stream tool call <id>: %w" for the task of index `i` -/
  | tool (i : Nat) (e : ToolErr)
  /-- a result slot that was never written (impossible with the shipped facts) -/
  | stale (i : Nat)
  /-- the graph executor recovered a panic of the node body -/
  | nodePanic (p : Nat)
  /-- `NewToolNode`: "tool %s is not invokable or streamable" -/
  | notRunnable (name : String)
  deriving DecidableEq, Repr

inductive Res (α : Type) where
  | ok (a : α)
  | err (e : Err)
  /-- the panic leaves `ToolsNode.Invoke/Stream` on the caller's goroutine -/
  | panicEscapes (p : Nat)
  /-- a panic in a goroutine without recover: the process dies -/
  | crash
  deriving DecidableEq, Repr

def Res.map {α β : Type} (f : α → β) : Res α → Res β
  | .ok a => .ok (f a)
  | .err e => .err e
  | .panicEscapes p => .panicEscapes p
  | .crash => .crash

/-! ### genToolCallTasks -/

/-- `tuple.indexes[name]`: a later tool with the same name overwrites an earlier one. -/
def lookup (tools : List (String × Tool)) (name : String) : Option Tool :=
  (tools.reverse.find? (fun p => p.1 == name)).map (·.2)

abbrev Handler := String → String → Out String

/-- `newUnknownToolTask`: an invokable-only pseudo tool calling the handler with the name. -/
def handlerTool (h : Handler) (name : String) : Tool := ⟨some (h name), none⟩

def genTask (F : Facts) (tools : List (String × Tool)) (handler : Option Handler) (c : Call) :
    Except Err Task :=
  match lookup tools c.name with
  | some t => .ok ⟨c.id, c.args, t⟩
  | none =>
    match (if F.handlerConsulted then handler else none) with
    | some h => .ok ⟨c.id, c.args, handlerTool h c.name⟩
    | none => .error (.unknownTool c.name)

def genTasks (F : Facts) (tools : List (String × Tool)) (handler : Option Handler)
    (assistant : Bool) (calls : List Call) : Except Err (List Task) :=
  if !assistant then .error .notAssistant
  else if calls.isEmpty then .error .noToolCalls
  else calls.mapM (genTask F tools handler)

/-! ### parallelRunToolCall -/

structure RunState (α : Type) where
  /-- `tasks[i].output / sOutput / err` after the run (`none` = never written) -/
  slots : List (Option (Except ToolErr α))
  /-- a panic that left the inline task (index 0) -/
  escaped : Option Nat
  crashed : Bool

def RunState.init (F : Facts) (α : Type) (n : Nat) : RunState α :=
  ⟨if F.storeByIndex then List.replicate n none else [], none, false⟩

/-- which task the goroutine started for index `i` works on.  With the task passed as an
    argument it is `i`; with a captured loop variable (go 1.18 semantics) it is whatever
    the variable holds when the goroutine reads it (`seen i`, chosen by the scheduler). -/
def target (F : Facts) (seen : Nat → Nat) (i : Nat) : Nat :=
  if F.taskPassedAsArg || i == 0 then i else seen i

def store {α : Type} (F : Facts) (j : Nat) (r : Except ToolErr α) (st : RunState α) : RunState α :=
  { st with slots := if F.storeByIndex then st.slots.set j (some r) else st.slots ++ [some r] }

/-- the runner of index `i` completes (its tool returned, failed or panicked) -/
def finish {α : Type} (F : Facts) (exec : Nat → Out α) (seen : Nat → Nat)
    (st : RunState α) (i : Nat) : RunState α :=
  let j := target F seen i
  match exec j with
  | .ok a => store F j (.ok a) st
  | .err e => store F j (.error e) st
  | .panic p =>
    if i == 0 then { st with escaped := st.escaped <|> some p }
    else if F.goroutineRecovers then store F j (.error (.panicked p)) st
    else { st with crashed := true }

/-- all runners complete, in the order σ -/
def runAll {α : Type} (F : Facts) (exec : Nat → Out α) (seen : Nat → Nat) (n : Nat)
    (σ : List Nat) : RunState α :=
  σ.foldl (finish F exec seen) (RunState.init F α n)

/-- the result loop of Invoke/Stream: by index, the first task with an error fails the call -/
def assemble {α β : Type} (mk : Nat → α → β) (slots : List (Option (Except ToolErr α))) :
    Except Err (List β) :=
  (List.range slots.length).mapM fun i =>
    match slots[i]? with
    | some (some (Except.ok a)) => .ok (mk i a)
    | some (some (Except.error e)) => .error (.tool i e)
    | _ => .error (.stale i)

def conclude {α β : Type} (mk : Nat → α → β) (st : RunState α) : Res (List β) :=
  if st.crashed then .crash else
  match st.escaped with
  | some p => .panicEscapes p
  | none =>
    match assemble mk st.slots with
    | .ok l => .ok l
    | .error e => .err e

/-- outcome of the task of index `i` (the index is always in range for the σ considered;
    the fallback is never reached) -/
def execWith {α : Type} (run : Tool → String → Out α) (tasks : List Task) (i : Nat) : Out α :=
  match tasks[i]? with
  | some t => run t.tool t.arg
  | none => .err .emptyStream

def idAt (tasks : List Task) (i : Nat) : String :=
  match tasks[i]? with
  | some t => t.id
  | none => ""

/-! ### Invoke -/

/-- `ToolsNode.Invoke` under completion order σ. -/
def invoke (F : Facts) (tools : List (String × Tool)) (handler : Option Handler)
    (assistant : Bool) (calls : List Call) (seen : Nat → Nat) (σ : List Nat) : Res (List Msg) :=
  match genTasks F tools handler assistant calls with
  | .error e => .err e
  | .ok tasks =>
    conclude (fun i s => (⟨idAt tasks i, s⟩ : Msg))
      (runAll F (execWith packInvoke tasks) seen tasks.length σ)

/-! ### Stream -/

/-- `ret := make([]*Message, n); ret[index] = m` -/
def sparse (n i : Nat) (m : Msg) : List (Option Msg) := (List.replicate n none).set i (some m)

/-- `ToolsNode.Stream` under completion order σ: on success the `n` converted source streams
    handed to `MergeStreamReaders` (source `i` = the chunks of tool `i`, each as a sparse
    array with the message at position `i`). -/
def stream (F : Facts) (tools : List (String × Tool)) (handler : Option Handler)
    (assistant : Bool) (calls : List Call) (seen : Nat → Nat) (σ : List Nat) :
    Res (List (List (List (Option Msg)))) :=
  match genTasks F tools handler assistant calls with
  | .error e => .err e
  | .ok tasks =>
    conclude (fun i (cs : List String) => cs.map fun s => sparse tasks.length i ⟨idAt tasks i, s⟩)
      (runAll F (execWith packStream tasks) seen tasks.length σ)

/-- `m` is what a reader of `MergeStreamReaders srcs` can receive: at each step the head of
    some non-exhausted source. -/
inductive Interleaving {β : Type} : List (List β) → List β → Prop where
  | done {srcs : List (List β)} : (∀ s ∈ srcs, s = []) → Interleaving srcs []
  | step {srcs : List (List β)} {m : List β} (i : Nat) (x : β) (rest : List β) :
      srcs[i]? = some (x :: rest) → Interleaving (srcs.set i rest) m → Interleaving srcs (x :: m)

/-- an executable merge: `sched` names the source to take from at each step (steps naming an
    exhausted or missing source are skipped); whatever is left is drained in source order. -/
def mergeBy {β : Type} : List Nat → List (List β) → List β
  | [], srcs => srcs.flatten
  | i :: sched, srcs =>
    match srcs[i]? with
    | some (x :: rest) => x :: mergeBy sched (srcs.set i rest)
    | _ => mergeBy sched srcs

/-! ### concatenation of the streamed form -/

inductive CErr where
  | emptyStream | lengthMismatch | idMismatch
  deriving DecidableEq, Repr

/-- `ConcatMessages`, tool-call-id rule: first non-empty id wins, a different one is an error -/
def mergeId (acc id : String) : Except CErr String :=
  if id = "" then .ok acc else if acc = "" then .ok id else if acc = id then .ok acc else .error .idMismatch

/-- `ConcatMessages` on tool messages (role Tool everywhere; contents appended in order) -/
def concatMsgs (ms : List Msg) : Except CErr Msg := do
  let id ← (ms.map (·.id)).foldlM mergeId ""
  pure ⟨id, joinS (ms.map (·.content))⟩

def concatSlot : List Msg → Except CErr (Option Msg)
  | [] => .ok none
  | [m] => .ok (some m)
  | ms => (concatMsgs ms).map some

/-- the non-nil messages at position `j`, in stream order -/
def column (mas : List (List (Option Msg))) (j : Nat) : List Msg :=
  mas.filterMap fun ma => (ma[j]?).join

/-- `concatMessageArray` (schema/message.go:44-80) -/
def concatArray (mas : List (List (Option Msg))) : Except CErr (List (Option Msg)) :=
  match mas with
  | [] => .error .emptyStream      -- Go: index panic on mas[0]; callers pass ≥ 2 arrays
  | ma0 :: _ =>
    if mas.all (fun ma => ma.length == ma0.length) then
      (List.range ma0.length).mapM fun j => concatSlot (column mas j)
    else .error .lengthMismatch

/-- `concatStreamReader` on the merged stream: 0 chunks → error, 1 → the chunk, else concat -/
def collect (chunks : List (List (Option Msg))) : Except CErr (List (Option Msg)) :=
  match chunks with
  | [] => .error .emptyStream
  | [c] => .ok c
  | _ => concatArray chunks


/-! ### the specification the runs are proved equal to (no completion order in it) -/

def panicOf {α : Type} : Out α → Option Nat
  | .panic p => some p
  | _ => none

/-- the result loop's view of task `i` -/
def specStep {α β : Type} (mk : Nat → α → β) (exec : Nat → Out α) (i : Nat) : Except Err β :=
  match exec i with
  | .ok a => .ok (mk i a)
  | .err e => .error (.tool i e)
  | .panic p => .error (.tool i (.panicked p))

/-- by index: the inline task's panic leaves the node; otherwise the first task (by index)
    that did not succeed fails the call with its error (a goroutine's panic as an error);
    otherwise one result per index. -/
def specRun {α β : Type} (mk : Nat → α → β) (exec : Nat → Out α) (n : Nat) : Res (List β) :=
  match (if n = 0 then none else panicOf (exec 0)) with
  | some p => .panicEscapes p
  | none =>
    match (List.range n).mapM (specStep mk exec) with
    | .ok l => .ok l
    | .error e => .err e

/-- the tool a call is answered by: the configured tool of that name, else the handler -/
def resolve (tools : List (String × Tool)) (handler : Option Handler) (c : Call) : Option Tool :=
  match lookup tools c.name with
  | some t => some t
  | none => handler.map (fun h => handlerTool h c.name)

/-- what call `c` evaluates to in the invokable / streamable form -/
def answerI (tools : List (String × Tool)) (handler : Option Handler) (c : Call) : Option (Out String) :=
  (resolve tools handler c).map (fun t => packInvoke t c.args)

def answerS (tools : List (String × Tool)) (handler : Option Handler) (c : Call) : Option (Out (List String)) :=
  (resolve tools handler c).map (fun t => packStream t c.args)

/-! ### the node inside a graph run -/

/-- `taskManager.executor`: a panic of the node body becomes the task's error -/
def inGraph {α : Type} (F : Facts) : Res α → Res α
  | .panicEscapes p => if F.executorRecovers then .err (.nodePanic p) else .crash
  | r => r

/-- `convTools`: every configured tool must be invokable or streamable -/
def newToolNode (tools : List (String × Tool)) : Except Err Unit :=
  tools.forM fun p => if p.2.inv.isSome || p.2.str.isSome then .ok () else .error (.notRunnable p.1)

end EinoV.C17
