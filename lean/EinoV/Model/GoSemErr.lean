/-
  Additions to the prelude for the translated error wrapping of compose/error.go (Gen/TransC13.lean; gotrans
  phase 6).  Core Lean only.  TRUSTED: this file is the meaning given to Go's `error` values and to the
  library functions `errors.As` / `errors.Is` over the `Unwrap` chain.

  * a Go `error` value is a `GoError`: nil, a comparable leaf value without `Unwrap` (errors.New, a sentinel,
    a user error), `fmt.Errorf("…%w", e)` (its `Unwrap` returns `e`), a `*internalError` (the four fields of
    the struct in compose/error.go; the extractor checks that the struct has exactly these fields), an error
    without `Unwrap` that carries data (`safe.NewPanicErr`), an interrupt error;
  * `errors.As(err, &ie)` with `ie *internalError`: the first `*internalError` on the `Unwrap` chain
    (`fmt.Errorf %w` layers are unwrapped; the search stops at the first match, at nil, and at errors without
    `Unwrap`);
  * `errors.Is(err, target)` for a leaf target: `==` along the chain; whether an `*internalError` is unwrapped
    is the parameter `unwraps` (the source fact that `(*internalError).Unwrap` returns `origError`).
-/
import EinoV.Model.GoSemC16
namespace EinoV.GoSem

inductive GoError where
  | nil
  | leaf (id : Nat)
  | wrapf (e : GoError)
  | internal (typ : String) (streamWrapperPath : List String) (nodePath : List String) (origError : GoError)
  | panicE (info : Nat)
  | interrupt
  deriving Repr, DecidableEq, Inhabited

/-- `errors.As(err, &ie)`, `ie *internalError`: the fields of the first internal error on the chain -/
def GoError.asInternal : GoError → Option (String × List String × List String × GoError)
  | .wrapf e => e.asInternal
  | .internal t sp np o => some (t, sp, np, o)
  | _ => none

/-- `errors.Is(err, leaf target)` -/
def GoError.is (unwraps : Bool) : GoError → Nat → Bool
  | .leaf i, t => i == t
  | .wrapf e, t => e.is unwraps t
  | .internal _ _ _ o, t => if unwraps then o.is unwraps t else false
  | _, _ => false

end EinoV.GoSem
