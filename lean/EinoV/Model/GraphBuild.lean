/-
  From a graph definition (what AddNode / AddEdge / AddBranch recorded) to the compiled
  `Runner` — the predecessor bookkeeping of `graph.compile` (graph.go).
-/
import EinoV.Model.Engine

namespace EinoV.Engine

structure GraphDef (V : Type) where
  dag : Bool := false
  eager : Bool := false
  maxSteps : Nat := 0                       -- 0: default (len(nodes) + slack)
  nodes : List (Key × (V → Except Err V))
  edges : List (Key × Key)                  -- AddEdge(from, to): control + data
  branches : List (Key × Branch V)          -- AddBranch(from, branch)

def addPred (m : List (Key × List Key)) (to from_ : Key) : List (Key × List Key) :=
  aset to ((alookup to m).getD [] ++ [from_]) m

/-- `graph.compile`: chanCalls, data/control predecessors, default step limit. -/
def compile {V} (stepSlack : Nat) (g : GraphDef V) : Runner V :=
  let outs (k : Key) : List Key := (g.edges.filter (·.1 == k)).map (·.2)
  let brs (k : Key) : List (Branch V) := (g.branches.filter (·.1 == k)).map (·.2)
  let mk (k : Key) (act : V → Except Err V) : Node V :=
    { key := k, act := act, writeTo := outs k, controls := outs k, branches := brs k }
  let nodes := g.nodes.map (fun p => mk p.1 p.2)
  let edgePreds := g.edges.foldl (fun m e => addPred m e.2 e.1) []
  let ctrlPreds := g.branches.foldl (fun m b => b.2.ends.foldl (fun m e => addPred m e b.1) m) edgePreds
  let dataPreds := g.branches.foldl (fun m b =>
    if b.2.noData then m else b.2.ends.foldl (fun m e => addPred m e b.1) m) edgePreds
  { nodes := nodes, start := mk START (fun v => .ok v),
    dataPreds := dataPreds, ctrlPreds := ctrlPreds,
    maxSteps := if g.maxSteps == 0 then g.nodes.length + stepSlack else g.maxSteps,
    dag := g.dag, eager := g.eager }

end EinoV.Engine
