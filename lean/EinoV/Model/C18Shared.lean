/-
  C18 — several runs of the ReAct agent started from ONE message slice of the caller and
  overlapping in time.

  `Agent.Generate(ctx, msgs)` / `Agent.Stream(ctx, msgs)` receive a Go slice: a header (backing
  array, length) whose backing array may have spare capacity (`cap > len`: the slice was built
  with `append`, or it is a prefix `history[:k]` of a longer one). The run keeps its history in
  the graph state (`state.Messages`, a slice too) and extends it with Go's `append`, which writes
  *in place* into the backing array whenever the capacity allows and allocates a new array
  otherwise. Whether two runs (or a run and its caller) can see each other's messages is therefore
  a question about which backing arrays the slices of the runs point into.

  This file models exactly that: a heap of backing arrays, slices as (array, length), Go's
  `append`, the state of each run as a slice into the heap, and an arbitrary interleaving
  (`sched`: which run performs its next node execution) of the node executions of the runs. One
  node execution is one `superstep` of Model/C18.lean; the messages it appends to the history
  are stored through `goAppend`.

  Source-fact parameters (`MemFacts`): the history is only ever extended by
  `state.Messages = append(state.Messages, …)`; the state generator allocates `Messages` inside
  the per-run closure. With both facts the theorem `react_runs_isolated` (Props/C18.lean) holds;
  with either one false the model exhibits the interference (examples there).

  Core Lean only; compiled into the oracle.
-/
import EinoV.Model.C18

namespace EinoV.C18

/-! ## Go slices over a heap of backing arrays -/

/-- a backing array: its cells (the length is the capacity); a cell holds a `*schema.Message` -/
abbrev Arr := List Msg

/-- the backing arrays allocated so far; array 0 is the caller's -/
abbrev Heap := List Arr

/-- a slice header with offset 0: backing array and length (`cap` = length of the array) -/
structure Slice where
  arr : Nat
  len : Nat
  deriving DecidableEq, Repr

/-- what a cell that was never written holds (a nil pointer; never inside any slice's length) -/
def nilMsg : Msg := { role := .user, content := "", calls := [], callId := "" }

def Heap.arrAt (h : Heap) (a : Nat) : Arr := (h[a]?).getD []

/-- the elements of a slice, as they are in memory now -/
def Heap.read (h : Heap) (s : Slice) : List Msg := (h.arrAt s.arr).take s.len

/-- Go `append(s, xs...)`: enough capacity ⇒ the cells `len .. len+|xs|` of the backing array are
    overwritten in place and the header grows; otherwise a new array is allocated (the old elements
    and `xs`, plus `slack n` spare cells — Go's growth policy, whatever it is) and the old one is
    left alone. -/
def goAppend (slack : Nat → Nat) (h : Heap) (s : Slice) (xs : List Msg) : Heap × Slice :=
  let a := h.arrAt s.arr
  if s.len + xs.length ≤ a.length then
    (h.set s.arr (a.take s.len ++ xs ++ a.drop (s.len + xs.length)),
     { arr := s.arr, len := s.len + xs.length })
  else
    let c := a.take s.len ++ xs
    (h ++ [c ++ List.replicate (slack c.length) nilMsg], { arr := h.length, len := c.length })

/-! ## source facts about who owns the history's memory -/

structure MemFacts where
  /-- every assignment to `state.Messages` in package react has the form
      `state.Messages = append(state.Messages, …)`: the history grows only by `append` from the
      slice the state generator made. (`false` is modelled as the usual way to break it: the model
      pre-handler adopts its input slice while the history is empty, `state.Messages = input`.) -/
  historyOnlyAppended : Bool
  /-- the state generator (`WithGenLocalState` closure) allocates `Messages` with `make` inside
      the closure, i.e. once per run. (`false`: one array allocated when the agent is built.) -/
  stateFreshPerRun : Bool
  deriving DecidableEq, Repr

/-! ## runs as small-step machines over the heap -/

/-- one run: its agent's configuration, the entry point used, the replies its model will give -/
structure RunSpec where
  cfg : Config
  mode : Mode
  script : List Reply

/-- where a run is: about to execute node `key` on `input` with `budget` steps left (`first`: the
    input is still the caller's slice), or finished -/
inductive Pc where
  | at (budget : Nat) (key : String) (input : Val) (first : Bool)
  | done (r : Except Err Msg)

/-- as `run` starts: refused, or at the successor of START with the caller's messages -/
def initPc (F : Facts) (cfg : Config) (orig : List Msg) : Pc :=
  match stepLimit F cfg with
  | none => .done (.error .badMaxSteps)
  | some limit =>
    match nextNodes (topoOf F cfg) keyStart none with
    | [n] => .at limit n (.msgs orig) true
    | _ => .done (.error .badTopology)

/-- a run in the shared memory: `sl` is `state.Messages`; `st.msgs` is only a cache of what the
    run last stored (the heap is authoritative: every step re-reads the history through `sl`) -/
structure HRun where
  sl : Slice
  st : St
  pc : Pc

/-- One node execution of a run (`graph_run.go`: step guard, state pre-handler, node, branch).
    The history is read from memory through the run's slice; what the pre-handler appends is
    stored with `goAppend`. On the first step the input is what the caller's slice holds now. -/
def hstep (F : Facts) (M : MemFacts) (slack : Nat → Nat) (p : RunSpec) (caller : Slice)
    (h : Heap) (r : HRun) : Heap × HRun :=
  match r.pc with
  | .done _ => (h, r)
  | .at 0 _ _ _ => (h, { r with pc := .done (.error .maxSteps) })
  | .at (b + 1) key input first =>
    let input' := if first then Val.msgs (h.read caller) else input
    let msgs := h.read r.sl
    let res := superstep F p.cfg p.mode (topoOf F p.cfg) key input' { r.st with msgs := msgs }
    let added := res.1.msgs.drop msgs.length
    let mem :=
      if first && !M.historyOnlyAppended && r.sl.len == 0 then (h, caller)   -- `state.Messages = input`
      else goAppend slack h r.sl added
    (mem.1, { sl := mem.2, st := res.1,
              pc := match res.2 with
                | .done out => .done out
                | .next k v => .at b k v false })

structure Shared where
  heap : Heap
  runs : List HRun

/-- run `i` performs its next node execution (nothing happens if it has finished) -/
def stepAt (F : Facts) (M : MemFacts) (slack : Nat → Nat) (specs : List RunSpec) (caller : Slice)
    (s : Shared) (i : Nat) : Shared :=
  match s.runs[i]?, specs[i]? with
  | some r, some p =>
    let o := hstep F M slack p caller s.heap r
    { heap := o.1, runs := s.runs.set i o.2 }
  | _, _ => s

/-- `make([]*schema.Message, 0, config.MaxStep+1)` -/
def stateCap (cfg : Config) : Nat := (cfg.maxStep + 1).toNat

/-- the runs as they start: run `i` owns array `a + stride * i` -/
def initRuns (F : Facts) (orig : List Msg) (stride : Nat) : Nat → List RunSpec → List HRun
  | _, [] => []
  | a, p :: ps =>
    { sl := { arr := a, len := 0 }, st := initSt p.script, pc := initPc F p.cfg orig }
      :: initRuns F orig stride (a + stride) ps

/-- memory when the runs start: array 0 is the caller's (`orig` and the spare cells behind it),
    then the arrays the state generator allocated -/
def initShared (F : Facts) (M : MemFacts) (orig spare : List Msg) (specs : List RunSpec) : Shared :=
  if M.stateFreshPerRun then
    { heap := (orig ++ spare) :: specs.map (fun p => List.replicate (stateCap p.cfg) nilMsg),
      runs := initRuns F orig 1 1 specs }
  else
    { heap := [orig ++ spare,
               List.replicate ((specs.head?.map (fun p => stateCap p.cfg)).getD 0) nilMsg],
      runs := initRuns F orig 0 1 specs }

/-- enough steps for every run to finish -/
def fuel (F : Facts) (specs : List RunSpec) : Nat :=
  (specs.map (fun p => (stepLimit F p.cfg).getD 0)).foldl max 0 + 2

/-- after the scheduled prefix the runs are driven round-robin until all have finished -/
def drain (n k : Nat) : List Nat := (List.replicate k (List.range n)).flatten

/-- The runs `specs`, all started from the caller's slice `orig` (backing array `orig ++ spare`),
    interleaved as `sched` says (a list of run numbers: that run executes its next node) and then
    driven to completion. -/
def runShared (F : Facts) (M : MemFacts) (slack : Nat → Nat) (orig spare : List Msg)
    (specs : List RunSpec) (sched : List Nat) : Shared :=
  (sched ++ drain specs.length (fuel F specs)).foldl
    (stepAt F M slack specs { arr := 0, len := orig.length }) (initShared F M orig spare specs)

/-- what a finished run has shown: model inputs, node executions, result -/
def HRun.out (r : HRun) : Option Run :=
  match r.pc with
  | .done res => some { seen := r.st.seen, evs := r.st.evs, result := res }
  | .at _ _ _ _ => none

/-- observables of the whole experiment: every run's `Run`, and the caller's backing array -/
structure SharedOut where
  runs : List (Option Run)
  callerArr : Arr
  deriving DecidableEq, Repr

def Shared.out (s : Shared) : SharedOut :=
  { runs := s.runs.map HRun.out, callerArr := s.heap.arrAt 0 }

end EinoV.C18
