/-
  Additions to the prelude `Model/GoSem.lean` for the translated step function
  (Gen/TransStep.lean, compose/graph_run.go: copyItem, calculateBranch, resolveCompletedTasks,
  createTasks, calculateNextTasks).  Core Lean only.

  * Go `int` is `Int` in this unit; a slice is a `List` (a value); every index / slice expression is
    bounds-checked explicitly — out of range is the explicit outcome `GoOutcome.panic`:
      `xs[i]`      ↦ `goIdx? xs i`            (`none` unless 0 ≤ i < len)
      `xs[i] = v`  ↦ guard `goInRange xs i`, then `goSetIdx xs i v`
      `xs[lo:hi]`  ↦ `goSlice? xs lo hi`      (`none` unless 0 ≤ lo ≤ hi ≤ len; Go allows hi ≤ cap —
                                               a slice beyond len is treated as the panic outcome, which
                                               the refinement theorems exclude)
      `make([]T, n)` ↦ guard 0 ≤ n, then `goMake n zero`
  * a slice that a callee assigns by element (`p[i] = v`) shares its array with the caller's slice
    expression: the callee returns the final elements and the caller writes them back (`goSliceBack`);
  * `for i, x := range xs` ↦ `for (i, x) in goEnum xs`, `for i := range xs` ↦ `for i in goIndices xs`
    (Go evaluates the range expression once: so does Lean);
  * `delete(m, k)` ↦ `GoMap.erase` (the entry disappears, the others keep their stored order).
-/
import EinoV.Model.GoSemKahn
namespace EinoV.GoSem
open EinoV.Engine

/-- `xs[i]`: `none` when the index is out of range (Go panics) -/
def goIdx? {α} (xs : List α) (i : Int) : Option α := if i < 0 then none else xs[i.toNat]?

/-- the bounds check of `xs[i] = v` -/
def goInRange {α} (xs : List α) (i : Int) : Bool := decide (0 ≤ i) && decide (i < (xs.length : Int))

/-- `xs[i] = v` (in range) -/
def goSetIdx {α} (xs : List α) (i : Int) (v : α) : List α := xs.set i.toNat v

/-- `xs[lo:hi]`: `none` unless 0 ≤ lo ≤ hi ≤ len(xs) -/
def goSlice? {α} (xs : List α) (lo hi : Int) : Option (List α) :=
  if 0 ≤ lo ∧ lo ≤ hi ∧ hi ≤ (xs.length : Int) then some ((xs.take hi.toNat).drop lo.toNat) else none

/-- the caller's view after a callee assigned elements of `xs[lo:…]`: the elements from `lo` on are the callee's -/
def goSliceBack {α} (xs : List α) (lo : Int) (new : List α) : List α :=
  xs.take lo.toNat ++ new ++ xs.drop (lo.toNat + new.length)

/-- `make([]T, n)` for 0 ≤ n: n zero values -/
def goMake {α} (n : Int) (zero : α) : List α := List.replicate n.toNat zero

def goEnumFrom {α} : Int → List α → List (Int × α)
  | _, [] => []
  | n, x :: xs => (n, x) :: goEnumFrom (n + 1) xs

/-- `for i, x := range xs` -/
def goEnum {α} (xs : List α) : List (Int × α) := goEnumFrom 0 xs

/-- `for i := range xs` -/
def goIndices {α} (xs : List α) : List Int := (goEnum xs).map (·.1)

/-- `delete(m, k)` -/
def GoMap.erase {α} (m : GoMap α) (k : String) : GoMap α := m.filter (fun p => !(p.1 == k))

/-- a callee left the translated semantics: pass its outcome on -/
def GoOutcome.failAs {α β} : GoOutcome α → GoOutcome β
  | .unspecified => .unspecified
  | _ => .panic

end EinoV.GoSem
