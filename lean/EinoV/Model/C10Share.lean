/-
  C10 — the run info of a Lambda node when one `*compose.Lambda` VALUE is added to graphs
  under several node keys (compose/component_to_graph_node.go `toLambdaNode`,
  compose/graph_node.go `compileIfNeeded`, compose/runnable.go
  `inputKeyedComposableRunnable` / `outputKeyedComposableRunnable`,
  compose/graph_manager.go `initNodeCallbacks(ctx, key, action.nodeInfo, action.meta, …)`).

  Mechanism.  A `Lambda` value owns one `*composableRunnable` (its `executor`).  Adding the
  Lambda as a node (`AddLambdaNode`, `Chain.AppendLambda`, `Parallel.AddLambda`,
  `Workflow.AddLambdaNode`) creates a `graphNode` whose `cr` is a runnable; compiling the
  node's graph runs `compileIfNeeded`, which STORES the node's `nodeInfo` (name, keys) in
  `gn.cr` and, if the node has an input / output key, wraps the runnable in a COPY
  (`wrapper := *r`) which becomes the node's action.  At run time the RunInfo of the node's
  callbacks is read from the action (`action.nodeInfo.name`, `action.meta`).

  The one source fact: does `toLambdaNode` give every graph node a runnable of its own
  (`owns = true`: `executor := *node.executor`), or does every node made from one Lambda get
  the Lambda's own executor pointer (`owns = false`)?  In the second case `compileIfNeeded`
  of any node overwrites the name every other unkeyed node of the same Lambda reports.

  The heap of runnables is a function `Nat → Cell` with an allocation counter; cells
  `0 … nLam-1` are the executors of the Lambda values of the case.
-/
import EinoV.Model.C10
import EinoV.Model.C10Runs

namespace EinoV.C10

/-- one `*compose.Lambda` value: native paradigm, `WithLambdaCallbackEnable`, `WithLambdaType` -/
structure LamD where
  lk : LK
  self : Bool
  type : String
  deriving Repr

/-- one declaration of a Lambda node: which Lambda value, `WithNodeName`, and whether
    `WithInputKey` / `WithOutputKey` is given (also implicitly, `Parallel.AddLambda`) -/
structure NodeD where
  lam : Nat
  name : String
  keyed : Bool
  deriving Repr

/-- the RunInfo a Lambda node's callbacks must carry: a function of the node's own
    declaration (its name) and of the Lambda value it names (type; component `Lambda`) -/
def declInfo (ls : List LamD) (d : NodeD) : String :=
  renderInfo d.name (((ls[d.lam]?).map (·.type)).getD "") "Lambda"

/-- a `composableRunnable`: whose function it runs, and the `nodeInfo.name` stored in it
    (`none` = nil, never compiled as a node) -/
structure Cell where
  lam : Nat
  name : Option String
  deriving Repr, DecidableEq

structure CState where
  cell : Nat → Cell
  next : Nat
  /-- `graphNode.cr` of node `i` -/
  ref : Nat → Nat
  /-- `chanCall.action` of node `i` in the runnable compiled last from its graph -/
  action : Nat → Option Nat

/-- the Lambda values of the case: cell `k` is Lambda `k`'s executor -/
def CState.init (nLam : Nat) : CState :=
  ⟨fun k => ⟨k, none⟩, nLam, fun _ => 0, fun _ => none⟩

/-- `toLambdaNode` for declaration number `i` -/
def addNode (owns : Bool) (st : CState) (i : Nat) (d : NodeD) : CState :=
  if owns then
    { st with cell := upd st.cell st.next (st.cell d.lam), next := st.next + 1, ref := upd st.ref i st.next }
  else
    { st with ref := upd st.ref i d.lam }

def addNodesFrom (owns : Bool) (st : CState) (i : Nat) : List NodeD → CState
  | [] => st
  | d :: ds => addNodesFrom owns (addNode owns st i d) (i + 1) ds

/-- all declarations are made (in any order relative to each other: they do not interact) -/
def addNodes (owns : Bool) (nLam : Nat) (ns : List NodeD) : CState :=
  addNodesFrom owns (CState.init nLam) 0 ns

/-- `compileIfNeeded` of node `i` -/
def compileNode (ns : List NodeD) (st : CState) (i : Nat) : CState :=
  match ns[i]? with
  | none => st
  | some d =>
    let r := st.ref i
    let cell' := upd st.cell r ⟨(st.cell r).lam, some d.name⟩
    if d.keyed then
      { st with cell := upd cell' st.next (cell' r), next := st.next + 1, action := upd st.action i (some st.next) }
    else
      { st with cell := cell', action := upd st.action i (some r) }

/-- `order`: the nodes in the order their `compileIfNeeded` runs — Go map iteration order
    inside one graph, the caller's order between graphs, a graph may be compiled again:
    ANY list of node indices -/
def compileAll (owns : Bool) (nLam : Nat) (ns : List NodeD) (order : List Nat) : CState :=
  order.foldl (compileNode ns) (addNodes owns nLam ns)

/-- the name `initNodeCallbacks` puts into the RunInfo of node `i`'s callbacks at run time -/
def runName (st : CState) (i : Nat) : Option String :=
  (st.action i).bind fun a => (st.cell a).name

/-- whose function node `i`'s action runs -/
def runLam (st : CState) (i : Nat) : Option Nat :=
  (st.action i).map fun a => (st.cell a).lam

/-- the rendered RunInfo (name | type | component) of node `i`'s callbacks at run time -/
def runInfo (ls : List LamD) (st : CState) (i : Nat) : Option String :=
  match runName st i, runLam st i with
  | some n, some l => some (renderInfo n (((ls[l]?).map (·.type)).getD "") "Lambda")
  | _, _ => none

/-! ## the units of a run of one graph of a `share` case -/

/-- an executed unit as the harness lists it: a node of the Lambda pool (`node = some i`,
    run info and callback program from the model) or a unit whose run info the harness
    knows (the graph itself, a nested graph, the join lambda) -/
structure ShareUnit where
  path : List String
  node : Option Nat
  info : String
  kind : UKind
  deriving Repr

def shareUnit (ls : List LamD) (ns : List NodeD) (st : CState) (u : ShareUnit) : UnitSpec :=
  match u.node with
  | none => ⟨u.path, false, u.info, u.kind, false⟩
  | some i =>
    let l := (ns[i]?).bind fun d => ls[d.lam]?
    ⟨u.path, false, (runInfo ls st i).getD "<not compiled>",
     match l with
     | some l => lamKind l.lk l.self false
     | none => .wrapped false .ok,
     (l.map (·.self)).getD false⟩

end EinoV.C10
