/-
  C03 — a batch step in which a node FAILS while its siblings are still running.

  In batch execution (`needAll`: Pregel graphs, all-predecessor graphs) the run loop collects a
  step with `taskManager.waitAll` (compose/graph_manager.go): a loop around `waitOne` that
  returns only when `waitOne` reports `num == 0`.  Only then does `runner.run` look at the
  errors of the collected tasks (`resolveInterruptCompletedTasks`) and return the first one.
  So a failing node does not cut the collection short: every execution of the step is
  received before `Invoke` returns the error.

  Part A (protocol level): `waitAllPath`, the collecting call consuming a schedule of executor
  and collector steps of the transition system of `Model/C03.lean`.  Source fact
  `waitAllLoops` (the loop of `waitAll` has no exit but `waitOne` reporting false).  The other
  value models a "fail fast" loop that also returns right after having received an execution
  that ended with an error.

  Part B (engine level, reference of the harness family "failstep"): the batch engine of
  `Model/C03.lean` part 3 with failing node bodies, under a completion priority: which
  supersteps are started, which error the run reports (the first failing node of the failing
  step in completion order), what has been started and what has been received when the run
  returns.
-/
import EinoV.Model.C03Loop

namespace EinoV.C03

/-! ## Part A: protocol level -/

/-- the execution `waitOne` handed back last ended with an error -/
def lastGotErr (s : St) : Bool :=
  match s.got.getLast? with
  | some t => s.errs.contains t
  | none => false

/-- does `waitAll` return in state `s`, after `k` receives of its own?  With the fact
    `waitAllLoops`: when `waitOne` reports `num == 0`.  Without it ("fail fast"): also right
    after a `waitOne` that handed back an erroring execution. -/
def waitAllReturns (loops : Bool) (k : Nat) (s : St) : Bool :=
  s.coll == .idle && (s.num == 0 || (!loops && decide (1 ≤ k) && lastGotErr s))

/-- `taskManager.waitAll` consuming a schedule of executor `finish` steps and its own
    collector steps: the state in which the call returns (the run loop then resolves the
    collected tasks and, when one of them failed, `Invoke` returns that error).  `none`: the
    schedule contains a `submit` / a step that is not enabled, or ends before the return. -/
def waitAllPath (F : Facts) (loops needAll : Bool) : Nat → St → List Ev → Option St
  | k, s, [] => if waitAllReturns loops k s then some s else none
  | k, s, e :: es =>
    if waitAllReturns loops k s then some s else
    if e.isSubmit then none else
    match step F needAll s e with
    | none => none
    | some s' => waitAllPath F loops needAll (if e.isRecv then k + 1 else k) s' es

/-! ## Part B: engine level — batch runs with failing nodes -/

structure FCfg where
  g : GCase
  /-- nodes whose body returns an error -/
  bad : List Key
  /-- completion priority (a permutation of the node keys): within a superstep the nodes
      finish in this order -/
  order : List Key

structure FRun where
  /-- the run returns a node error -/
  failed : Bool
  /-- the node whose error is returned: the first failing one of the step in completion order
      (`resolveInterruptCompletedTasks` walks the collected tasks in the order received) -/
  reported : Option Key
  /-- the supersteps that were started, each in completion order -/
  steps : List (List Key)
  /-- executions started -/
  started : List Key
  /-- executions received by the run loop when the run returns -/
  collected : List Key
  /-- END's value of a run that does not fail -/
  result : List (Key × String)
  deriving Repr

/-- what `waitAll` receives of a step that finishes in the order `batch`, the first failing
    node being `f` -/
def fDrained (loops : Bool) (bad : List Key) (batch : List Key) (f : Key) : List Key :=
  if loops then batch else batch.takeWhile (fun k => !bad.contains k) ++ [f]

def fLoop (c : FCfg) (loops : Bool) : Nat → GState → List (List Key) → FRun
  | 0, st, acc => ⟨false, none, acc, st.execs, st.execs, []⟩
  | n + 1, st, acc =>
    let fin : FRun := ⟨false, none, acc, st.execs, st.execs,
      c.g.endPreds.filterMap fun p => (lookupLast (endKey, p) st.cells).map fun v => (p, v)⟩
    if endReady c.g st then fin else
    let batch := prio c.order ((readyNodes c.g st).map (·.key))
    if batch.isEmpty then fin else
    match batch.find? c.bad.contains with
    | some f =>
      ⟨true, some f, acc ++ [batch], st.execs ++ batch, st.execs ++ fDrained loops c.bad batch f, []⟩
    | none => fLoop c loops n (gStep c.g st) (acc ++ [batch])

/-- the batch run of `c.g` where the nodes of `c.bad` fail -/
def fRun (c : FCfg) (loops : Bool) : FRun := fLoop c loops (c.g.nodes.length + 1) (gInit c.g) []

/-- started executions that have not been received when the run returns -/
def fUncollected (r : FRun) : List Key := r.started.filter fun k => !r.collected.contains k

end EinoV.C03
