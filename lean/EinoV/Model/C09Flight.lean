/-
  C09 — many runs in flight at once ("may be invoked from any number of goroutines at once";
  "runs do not share channels").

  A ToolsNode runs the tool calls of one message side by side (compose/tool_node.go
  `parallelRunToolCall`: the 2nd..n-th call on goroutines of their own – the *extra* calls –,
  the first one on the caller's goroutine, then `wg.Wait()`).  A tool may itself invoke a compiled
  runnable with a tools node of its own (agent-as-tool), whose calls are started the same way.
  Nothing in this is bounded by anything the runs share: any number of tool calls of any number
  of runs (of any compiled objects of the process) can be in flight together.

  The hazard this model is about is a PROCESS-WIDE bounded resource acquired on the run path (a
  package-level buffered channel used as a semaphore, a pool of worker slots …): `shared = true`
  with capacity `cap`.  Then runs that have nothing to do with each other are coupled in their
  liveness: a call that holds a slot while it waits for something that itself needs a slot
  never returns.

  The machine.  The calls of all concurrent runs are one array; call `c` is an outer call of a
  run's message (`parent = none`) or a leaf call of the inner activation made by outer call `p`
  (`parent = some p`); `extra` = it is started on a goroutine of its own (needs a slot when the
  resource exists).  Every call goes idle → running → done.  The harness's barrier is part of the
  semantics: every outer call waits until EVERY outer call of every run is in flight.

    start c    : c idle; an inner call needs its parent running and past the barrier;
                 an extra call needs a free slot when `shared`
    finish c   : c running; an outer call needs the barrier open and all its inner calls done;
                 gives the slot back

  One event = "advance call c" (start if it can start, else finish if it can finish, else
  nothing); a schedule is an arbitrary list of call indices.
-/
namespace EinoV.C09.Flight

inductive Ph where
  | idle | running | done
  deriving DecidableEq, Repr, Inhabited

structure Call where
  parent : Option Nat
  extra : Bool
  deriving DecidableEq, Repr

structure St where
  /-- slots of the process-wide resource in use -/
  held : Nat
  ph : Array Ph
  deriving DecidableEq, Repr

def St.init (n : Nat) : St := ⟨0, Array.replicate n .idle⟩

def St.get (st : St) (c : Nat) : Ph := st.ph.getD c .idle

/-- the barrier of the tool bodies: every outer call of every run is in flight (or already back) -/
def barrierOpen (cs : Array Call) (st : St) : Bool :=
  (List.range cs.size).all fun c =>
    match cs[c]? with
    | some k => k.parent.isSome || st.get c != .idle
    | none => true

/-- the inner activation of outer call `p` has returned -/
def childrenDone (cs : Array Call) (st : St) (p : Nat) : Bool :=
  (List.range cs.size).all fun c =>
    match cs[c]? with
    | some k => k.parent != some p || st.get c == .done
    | none => true

def needsSlot (shared : Bool) (k : Call) : Bool := shared && k.extra

def canStart (shared : Bool) (cap : Nat) (cs : Array Call) (st : St) (c : Nat) (k : Call) : Bool :=
  st.get c == .idle &&
  (match k.parent with
   | none => true
   | some p => st.get p == .running && barrierOpen cs st) &&
  (!needsSlot shared k || st.held < cap)

def canFinish (cs : Array Call) (st : St) (c : Nat) (k : Call) : Bool :=
  st.get c == .running &&
  (match k.parent with
   | none => barrierOpen cs st && childrenDone cs st c
   | some _ => true)

def step (shared : Bool) (cap : Nat) (cs : Array Call) (st : St) (c : Nat) : St :=
  match cs[c]? with
  | none => st
  | some k =>
    if canStart shared cap cs st c k then
      { held := if needsSlot shared k then st.held + 1 else st.held, ph := st.ph.setIfInBounds c .running }
    else if canFinish cs st c k then
      { held := if needsSlot shared k then st.held - 1 else st.held, ph := st.ph.setIfInBounds c .done }
    else st

def exec (shared : Bool) (cap : Nat) (cs : Array Call) : List Nat → St → St
  | [], st => st
  | c :: rest, st => exec shared cap cs rest (step shared cap cs st c)

def enabled (shared : Bool) (cap : Nat) (cs : Array Call) (st : St) (c : Nat) : Bool :=
  match cs[c]? with
  | some k => canStart shared cap cs st c k || canFinish cs st c k
  | none => false

def allDone (cs : Array Call) (st : St) : Bool :=
  (List.range cs.size).all fun c => st.get c == .done

/-- a state in which some call has not returned and no call can move -/
def stuck (shared : Bool) (cap : Nat) (cs : Array Call) (st : St) : Bool :=
  !allDone cs st && (List.range cs.size).all fun c => !enabled shared cap cs st c

/-- inner calls hang below outer calls -/
def WF (cs : Array Call) : Prop :=
  ∀ (c : Nat) (k : Call) (p : Nat), cs[c]? = some k → k.parent = some p →
    ∃ kp : Call, cs[p]? = some kp ∧ kp.parent = none

/-- `WF` as a check (the oracle runs it on every generated call array) -/
def wfb (cs : Array Call) : Bool :=
  (List.range cs.size).all fun c =>
    match cs[c]? with
    | some k =>
      (match k.parent with
       | none => true
       | some p => (match cs[p]? with | some kp => kp.parent.isNone | none => false))
    | none => true

/-! ### how much is left to do -/

def score : Ph → Nat
  | .idle => 0 | .running => 1 | .done => 2

def work (cs : Array Call) (st : St) : Nat :=
  ((List.range cs.size).map fun c => score (st.get c)).sum

/-- the first call that can move -/
def next (shared : Bool) (cap : Nat) (cs : Array Call) (st : St) : Option Nat :=
  (List.range cs.size).find? fun c => enabled shared cap cs st c

/-- let the calls that can move, move: `fuel` times the first enabled one -/
def drain (shared : Bool) (cap : Nat) (cs : Array Call) : Nat → St → St
  | 0, st => st
  | fuel + 1, st =>
    match next shared cap cs st with
    | none => st
    | some c => drain shared cap cs fuel (step shared cap cs st c)

/-! ### the case language of the correspondence check -/

/-- one run: `calls` tool calls in its message; every one of them delegates to an inner
    activation of `inner` leaf calls (`inner = 0`: plain tools) -/
structure Run where
  tok : String
  calls : Nat
  inner : Nat
  deriving Repr

def callsOfOuter (base j inner : Nat) : List Call :=
  ⟨none, j != 0⟩ :: (List.range inner).map fun l => ⟨some base, l != 0⟩

/-- layout: run after run; every outer call is followed by its inner calls -/
def buildFrom : List Run → Nat → List Call → List Call
  | [], _, acc => acc
  | r :: rest, base, acc =>
    let block := (List.range r.calls).foldl
      (fun (st : Nat × List Call) j => (st.1 + 1 + r.inner, st.2 ++ callsOfOuter st.1 j r.inner)) (base, [])
    buildFrom rest block.1 (acc ++ block.2)

def build (runs : List Run) : Array Call := (buildFrom runs 0 []).toArray

def joinWith (sep : String) : List String → String
  | [] => ""
  | [x] => x
  | x :: rest => x ++ sep ++ joinWith sep rest

/-- what run `r` returns: per tool call `id=answer`; a plain tool answers `met:<id>`, a
    delegating one the answers of its leaves -/
def runOut (r : Run) : String :=
  joinWith ";" ((List.range r.calls).map fun j =>
    let id := r.tok ++ "-" ++ toString j
    id ++ "=" ++
      (if r.inner = 0 then "met:" ++ id
       else joinWith "+" ((List.range r.inner).map fun l => "leaf:" ++ id ++ "-" ++ toString l)))

/-- number of entries of the call array a run occupies -/
def Run.span (r : Run) : Nat := r.calls * (1 + r.inner)

end EinoV.C09.Flight

/-
  A run PARKED inside user code of its own (the state generator of `WithGenLocalState`, a state
  pre/post handler, a node body, a callback handler) while the other runs of the same compiled
  object start and must complete.  Every run passes one section of user code: pc 0 = before it,
  1 = inside, 2 = returned.  `lock` = the section is entered under a lock that belongs to the
  COMPILED OBJECT (a field of the runner / graph, a local of compile() captured by a closure stored
  in the runner), as opposed to nothing or a per-run object.  The parked run leaves its section
  only when every other run has returned (that is the harness's barrier).
-/
namespace EinoV.C09.Hold

structure St where
  owner : Option Nat
  pc : Nat → Nat

def St.init : St := ⟨none, fun _ => 0⟩

def upd (f : Nat → Nat) (i v : Nat) : Nat → Nat := fun j => if j = i then v else f j

def othersBack (n parked : Nat) (st : St) : Bool :=
  (List.range n).all fun j => j == parked || 2 ≤ st.pc j

def step (lock : Bool) (n parked : Nat) (st : St) (i : Nat) : St :=
  if n ≤ i then st else
  match st.pc i with
  | 0 => if lock && st.owner.isSome then st
         else ⟨if lock then some i else st.owner, upd st.pc i 1⟩
  | 1 => if i == parked && !othersBack n parked st then st
         else ⟨if lock then none else st.owner, upd st.pc i 2⟩
  | _ => st

def exec (lock : Bool) (n parked : Nat) : List Nat → St → St
  | [], st => st
  | i :: rest, st => exec lock n parked rest (step lock n parked st i)

/-- the runs other than the parked one, each scheduled twice -/
def othersTwice (n parked : Nat) : List Nat :=
  let o := (List.range n).filter (· != parked)
  o ++ o

end EinoV.C09.Hold
