/-
  C16 — the option *value lists* as Go slices: capacity and sharing of backing arrays.

  Code: compose/utils.go `extractOption` builds `optMap map[string][]any`; the list of a component
  node grows by `optMap[k] = append(optMap[k], opt.options...)` (two sites: undesignated option,
  option designated to the component), the list of a graph / passthrough node by
  `optMap[k] = append(optMap[k], opt)` (the loop variable: a struct copy that still shares the
  `options` array of the caller's Option) or `append(optMap[k], nOpt)` (`nOpt := opt.deepCopy()`:
  `options` copied into a `make([]any, len)` array).  compose/graph_call_options.go
  `WithLambdaOption(opts ...any)` stores the caller's variadic slice as it is (`options: opts`), so
  the value list of an Option can have spare capacity (`cap > len`) and several Option values
  (`base.DesignateNode("a")`, `base.DesignateNode("b")`: value receiver) share one array; every
  other `With…Option` copies into an exact-capacity array.  compose/graph_run.go: the task of a
  node holds the slice header `optMap[nodeKey]`; the node body reads its cells when the node runs;
  a nested graph runs `extractOption` again – when its node runs – on the Options of its list.

  Model/C16.lean keeps `optMap` as the pure log of its appends.  Here the same run is told with
  Go's slice semantics: one heap of `[]any` backing arrays of option values (the caller's arrays,
  `deepCopy`'s arrays, the arrays `append` allocates), slice headers (array, len, cap), `append`
  writing in place when the capacity suffices, node bodies reading the cells at the time they
  run, the heap threaded through the whole nested run and through sequences of calls.  Whether
  a node's list starts from the map's own (nil) slot or from a slice of the caller is the source
  fact `SliceFacts.valsGrowFromMapSlot`.  Proofs/C16Slices.lean shows that with the value found
  in the source this run is the pure one (`runW`), for every capacity, every sharing of arrays,
  every growth rule, and that no array existing before the call is written.

  Deviation (counterfactual value of the fact only): a rejected `extractOption` is modelled as
  not having written anything; the Go loop has performed the appends of the options before the
  failing one.  With `valsGrowFromMapSlot = true` those appends touch only arrays that die with
  the call.
-/
import EinoV.Model.C16
import EinoV.Model.C16Keys
import EinoV.Model.C16Resume

namespace EinoV.C16

/-- Source facts about how `extractOption` grows a node's list of option values. -/
structure SliceFacts where
  /-- every write to `optMap` in `extractOption` has the form `optMap[k] = append(optMap[k], …)`:
      a node's list starts from the nil slot of the call's own fresh map, so its first `append`
      allocates an array that belongs to the map.  `false` = a node's first list is a slice that
      comes from elsewhere (`optMap[k] = opt.options`): the list then lives in the Option's array -/
  valsGrowFromMapSlot : Bool
  deriving DecidableEq, Repr

/-- The heap of `[]any` backing arrays that hold component option values: `cell a i` = cell `i`
    of array `a` (cells beyond a slice's `len`, within its `cap`, are the spare capacity);
    arrays with id `< next` exist. -/
structure VHeap where
  cell : Nat → Nat → Nat
  next : Nat

/-- `s[0:len]` -/
def VHeap.read (h : VHeap) (s : Hdr) : List Nat := (List.range s.len).map (h.cell s.arr)

/-- overwrite cells `[pos, pos+|xs|)` of array `a` -/
def VHeap.write (h : VHeap) (a pos : Nat) (xs : List Nat) : VHeap :=
  { cell := fun a' i => if a' = a ∧ pos ≤ i ∧ i < pos + xs.length then (xs[i - pos]?).getD 0 else h.cell a' i,
    next := h.next }

/-- a new array whose first cells are `xs` (the others 0); returns its id -/
def VHeap.alloc (h : VHeap) (xs : List Nat) : VHeap × Nat :=
  ({ cell := fun a' i => if a' = h.next then (xs[i]?).getD 0 else h.cell a' i, next := h.next + 1 }, h.next)

/-- the nil slice -/
def nilHdr : Hdr := ⟨0, 0, 0⟩

instance : Inhabited Hdr := ⟨nilHdr⟩

/-- Go's `append(cur, xs...)`: within capacity the cells behind `cur` are overwritten in the
    array `cur` points to; otherwise a new array (capacity by `grow`) gets `cur`'s elements and `xs`. -/
def sAppend (grow : Nat → Nat → Nat) (h : VHeap) (cur : Hdr) (xs : List Nat) : VHeap × Hdr :=
  let n := cur.len + xs.length
  if n ≤ cur.cap then (h.write cur.arr cur.len xs, ⟨cur.arr, n, cur.cap⟩)
  else
    let r := h.alloc (h.read cur ++ xs)
    (r.1, ⟨r.2, n, max n (grow cur.cap n)⟩)

/-- capacity chosen by `append` for a `[]any` that has to grow (small sizes: the needed length
    or twice the old capacity; for 16-byte elements every small length is a size class).  The
    theorems hold for every growth function. -/
def goGrowAny (oldCap needed : Nat) : Nat := if needed > 2 * oldCap then needed else 2 * oldCap

/-- `compose.Option` with its `options []any` as a slice header into the heap. -/
structure SOpt where
  ty : Nat
  vh : Hdr
  handlers : List Nat
  paths : List Path
  deriving DecidableEq, Repr, Inhabited

/-- the Option as Model/C16.lean sees it: the values are the cells `[0, len)` now -/
def SOpt.abs (h : VHeap) (o : SOpt) : Opt :=
  { ty := o.ty, vals := h.read o.vh, handlers := o.handlers, paths := o.paths }

/-- One `append` to a slot of `optMap`. -/
inductive SItem where
  /-- `append(optMap[k], opt.options...)`: the values of the slice `src` -/
  | vals (src : Hdr)
  /-- `append(optMap[k], opt)` (`copy = false`: shares `opt.options`) or `append(optMap[k], nOpt)`
      (`copy = true`: `nOpt := opt.deepCopy()`) -/
  | fwd (o : SOpt) (copy : Bool)
  deriving DecidableEq, Repr

abbrev SLog := List (Key × SItem)

/-! ### which appends `extractOption` performs (no heap involved): `extract` of Model/C16.lean,
    line by line, with slice headers in place of value lists -/

def sUndesignatedFor (F : Facts) (o : SOpt) : Node → SLog
  | .comp k ty => if !F.typeCmpIdentity || tyMatch F ty o.ty then [(k, .vals o.vh)] else []
  | .pass k => [(k, .fwd o false)]
  | .graph k _ => [(k, .fwd o false)]

def sUndesignatedEntries (F : Facts) (nodes : Nodes) (o : SOpt) : SLog :=
  if o.paths = [] ∧ o.vh.len ≠ 0 then nodes.toList.flatMap (sUndesignatedFor F o) else []

def sPathEntry (F : Facts) (nodes : Nodes) (o : SOpt) (p : Path) : Except Err SLog :=
  match p with
  | [] => .error .emptyPath
  | k :: rest =>
    match nodes.find k with
    | none => .error .unknownNode
    | some n =>
      if rest = [] then
        if o.vh.len = 0 then .ok []
        else
          match n with
          | .comp _ ty =>
            if F.typeCmpIdentity && !tyMatch F ty o.ty then .error .wrongType
            else .ok [(k, .vals o.vh)]
          | _ => .ok [(k, .fwd { o with paths := [] } true)]
      else
        match n with
        | .comp _ _ => .error .subPathOfComponent
        | .pass _ =>
          if F.passSubPathIsError then .error .subPathOfComponent
          else .ok [(k, .fwd { o with paths := [p.drop F.strip] } true)]
        | .graph _ _ => .ok [(k, .fwd { o with paths := [p.drop F.strip] } true)]

def sOptEntries (F : Facts) (nodes : Nodes) (o : SOpt) : Except Err SLog :=
  match mapE (sPathEntry F nodes o) o.paths with
  | .error e => .error e
  | .ok ds => .ok (sUndesignatedEntries F nodes o ++ ds.flatten)

def sExtract (F : Facts) (nodes : Nodes) (opts : List SOpt) : Except Err SLog :=
  match mapE (sOptEntries F nodes) opts with
  | .error e => .error e
  | .ok ls => .ok ls.flatten

/-! ### performing the appends on the heap -/

/-- `optMap` while `extractOption` runs: the slice header stored under each component key, and
    the Options appended to the lists of graph / passthrough keys (in order). -/
structure RState where
  h : VHeap
  vm : Key → Option Hdr
  gl : List (Key × SOpt)

def vmSet (vm : Key → Option Hdr) (k : Key) (hd : Hdr) : Key → Option Hdr :=
  fun k' => if k' = k then some hd else vm k'

/-- `optMap[k]` read by the task: an absent key is the nil slice -/
def vmGet (vm : Key → Option Hdr) (k : Key) : Hdr := (vm k).getD nilHdr

/-- the Options in the list of graph / passthrough key `k` -/
def glFor (gl : List (Key × SOpt)) (k : Key) : List SOpt :=
  gl.filterMap (fun e => if e.1 = k then some e.2 else none)

/-- One append.  `copies` = `Facts.nestedCopies` (`deepCopy` makes a new `options` array). -/
def replayStep (copies : Bool) (V : SliceFacts) (grow : Nat → Nat → Nat) (st : RState) :
    Key × SItem → RState
  | (k, .vals src) =>
    let xs := st.h.read src
    match st.vm k with
    | some cur =>
      let r := sAppend grow st.h cur xs
      { st with h := r.1, vm := vmSet st.vm k r.2 }
    | none =>
      if V.valsGrowFromMapSlot then
        let r := sAppend grow st.h nilHdr xs
        { st with h := r.1, vm := vmSet st.vm k r.2 }
      else
        -- `optMap[k] = opt.options`: the node's list is the Option's own slice
        { st with vm := vmSet st.vm k src }
  | (k, .fwd o copy) =>
    if copy && copies then
      let r := st.h.alloc (st.h.read o.vh)
      { st with h := r.1, gl := st.gl ++ [(k, { o with vh := ⟨r.2, o.vh.len, o.vh.len⟩ })] }
    else
      { st with gl := st.gl ++ [(k, o)] }

/-- what `extractOption` leaves: the value slice of every component key, the Options of every
    graph / passthrough key -/
structure LevelS where
  vm : Key → Option Hdr
  gl : List (Key × SOpt)

/-- `extractOption(nodes, opts...)` on the heap. -/
def extractS (F : Facts) (V : SliceFacts) (grow : Nat → Nat → Nat) (nodes : Nodes)
    (opts : List SOpt) (h : VHeap) : VHeap × Except Err LevelS :=
  match sExtract F nodes opts with
  | .error e => (h, .error e)
  | .ok sl =>
    let st := sl.foldl (replayStep F.nestedCopies V grow) { h := h, vm := fun _ => none, gl := [] }
    (st.h, .ok { vm := st.vm, gl := st.gl })

/-- the parts of an Option the callback selectors look at -/
def SOpt.shell (o : SOpt) : Opt := { ty := o.ty, vals := [], handlers := o.handlers, paths := o.paths }

mutual
/-- `runNodeWP` (Model/C16Resume.lean: `runNodeW` for the nodes that execute under `part`) on the
    heap: a component reads the cells of its slice when it runs; a nested graph extracts – on the
    heap as the nodes before it left it – from the Options of its list. -/
def runNodeSW (F : Facts) (K : KeyFacts) (R : ResumeFacts) (V : SliceFacts) (grow : Nat → Nat → Nat)
    (par : Paradigm) (pre : Path) (gH : List Nat) (opts : List SOpt) (lv : LevelS) (part : Part)
    (h : VHeap) : WNode → VHeap × Except RunErr (List Entry)
  | .comp k _ w =>
    if part.skips then (h, .ok []) else
    (h, .ok [{ path := pre ++ [k], isGraph := false,
               vals := if w.forwards K par then h.read (vmGet lv.vm k) else [],
               handlers := gH ++ nodeHandlers (opts.map SOpt.shell) k }])
  | .pass _ _ => (h, .ok [])
  | .graph k ch w =>
    if part.skips then (h, .ok []) else
    let sub := if w.forwards K par then glFor lv.gl k else []
    match extractS F V grow ch.erase sub h with
    | (h1, .error e) => (h1, .error (pre ++ [k], e))
    | (h1, .ok lv') =>
      let nH := if part.restored && !R.restoredTaskGetsNodeCallbacks then []
                else nodeHandlers (opts.map SOpt.shell) k
      let gH' := (gH ++ nH) ++ graphHandlers (sub.map SOpt.shell)
      match runNodesSW F K R V grow par (pre ++ [k]) gH' sub lv' part h1 ch with
      | (h2, .error e) => (h2, .error e)
      | (h2, .ok es) => (h2, .ok ({ path := pre ++ [k], isGraph := true, vals := [], handlers := gH' } :: es))
def runNodesSW (F : Facts) (K : KeyFacts) (R : ResumeFacts) (V : SliceFacts) (grow : Nat → Nat → Nat)
    (par : Paradigm) (pre : Path) (gH : List Nat) (opts : List SOpt) (lv : LevelS) (part : Part)
    (h : VHeap) : WNodes → VHeap × Except RunErr (List Entry)
  | .nil => (h, .ok [])
  | .cons n ns =>
    match runNodeSW F K R V grow par pre gH opts lv (part.node n.key) h n with
    | (h1, .error e) => (h1, .error e)
    | (h1, .ok a) =>
      match runNodesSW F K R V grow par pre gH opts lv (part.rest n.key) h1 ns with
      | (h2, .error e) => (h2, .error e)
      | (h2, .ok b) => (h2, .ok (a ++ b))
end

/-- One call of the outermost graph with the caller's Options, on the heap `h`; the nodes of
    `part` execute (`Part.full`: a call from START to END). -/
def runSW (F : Facts) (K : KeyFacts) (R : ResumeFacts) (V : SliceFacts) (grow : Nat → Nat → Nat)
    (par : Paradigm) (part : Part) (g : WNodes) (opts : List SOpt) (h : VHeap) :
    VHeap × Except RunErr (List Entry) :=
  match extractS F V grow g.erase opts h with
  | (h1, .error e) => (h1, .error ([], e))
  | (h1, .ok lv) =>
    let gH := graphHandlers (opts.map SOpt.shell)
    match runNodesSW F K R V grow par [] gH opts lv part h1 g with
    | (h2, .error e) => (h2, .error e)
    | (h2, .ok es) => (h2, .ok ({ path := [], isGraph := true, vals := [], handlers := gH } :: es))

def pickS (store : List SOpt) (ixs : List Nat) : List SOpt := ixs.filterMap (fun i => store[i]?)

/-- the caller's Option values after a call (`storeAfter` of Model/C16.lean: only `paths` can be
    affected, and only when the nested Option is not a deep copy) -/
def storeAfterS (F : Facts) (h : VHeap) (store : List SOpt) (c : Call) : List SOpt :=
  (store.zip (storeAfter F (store.map (SOpt.abs h)) c)).map (fun x => { x.1 with paths := x.2.paths })

/-- A sequence of calls – plain, interrupted, resuming (`CallP`) – over the caller's store of
    Option values, the one heap and the checkpoint store (`saved`). -/
def runCallsSW (F : Facts) (K : KeyFacts) (R : ResumeFacts) (V : SliceFacts) (grow : Nat → Nat → Nat) :
    Option Path → VHeap → List SOpt → List CallP → List (Except RunErr (List Entry)) × List SOpt × VHeap
  | _, h, store, [] => ([], store, h)
  | saved, h, store, c :: cs =>
    let r := runSW F K R V grow c.par (c.ask.part saved) c.g (pickS store c.ixs) h
    let rest := runCallsSW F K R V grow (c.ask.savedAfter saved r.2) r.1 (storeAfterS F r.1 store c.erase) cs
    (r.2 :: rest.1, rest.2)

/-! ### the caller's side: building the store of Option values -/

/-- How one Option value of the caller's store comes about. -/
inductive StoreOp where
  /-- `With…Option(vals...)` on a value list with `spare` unused cells behind it (`WithLambdaOption`
      keeps the caller's slice; for the copying constructors `spare = 0`) -/
  | fresh (ty : Nat) (vals : List Nat) (spare : Nat) (handlers : List Nat) (paths : List Path)
  /-- `store[src].DesignateNode…(…)`: value receiver – the derived Option shares `options` -/
  | derived (src : Nat) (paths : List Path)

/-- the store and heap a construction yields (paths are given; Model/C16.lean `builtPaths` says
    what they are) -/
def buildStore : List StoreOp → VHeap × List SOpt → VHeap × List SOpt
  | [], acc => acc
  | .fresh ty vals spare hs ps :: ops, (h, st) =>
    let r := h.alloc vals
    buildStore ops (r.1, st ++ [{ ty := ty, vh := ⟨r.2, vals.length, vals.length + spare⟩, handlers := hs, paths := ps }])
  | .derived src ps :: ops, (h, st) =>
    buildStore ops (h, st ++ [{ (st[src]?).getD default with paths := ps }])

def VHeap.empty : VHeap := { cell := fun _ _ => 0, next := 0 }

/-- cells `[0, cap)` of the array behind a slice: what the caller finds in its own array -/
def VHeap.cells (h : VHeap) (s : Hdr) : List Nat := (List.range s.cap).map (h.cell s.arr)

end EinoV.C16
