/-
  C19 — the stream copies made for callback handlers at one streaming timing
  (`On` + `OnWithStreamHandle`, internal/callbacks/inject.go).

  `On` keeps, in list order, every handler occurrence whose TimingChecker admits the timing (or
  that has no TimingChecker); the run's handlers come first, the global ones after them.  The same
  handler VALUE may be listed more than once (`WithCallbacks(h), WithCallbacks(h)`; a global
  handler that is also passed per call).  `OnWithStreamHandle` copies the stream once per kept
  occurrence plus once for the node, then walks the list and hands out copies.  Every copy must
  be handed to somebody (who closes it) — a copy that is made but not handed out can never be
  closed, and the fan-out parent then never closes the source.

  Core Lean only.  The two source facts are the parameters `CopyRule` / `HandRule`.
-/
namespace EinoV.C19.Cb

/-- one occurrence in the handler list: `id` identifies the handler value (equal ids = the same
    value listed again), `needs` = it is kept for this timing -/
structure Occ where
  id : Nat
  needs : Bool
  deriving DecidableEq, Repr

/-- how many copies are made: `perKept` = `len(handlers)+1` over the kept list -/
inductive CopyRule where
  | perKept | other
  deriving DecidableEq, Repr

/-- who is handed a copy: `everyKept` = the loop body is the single call
    `handle(ctx, handler, inOuts[i])` for every element; `skipRepeated` = a value seen earlier in
    the list is passed over -/
inductive HandRule where
  | everyKept | skipRepeated | other
  deriving DecidableEq, Repr

def CopyRule.ofFact : String → CopyRule
  | "len(handlers)+1" => .perKept
  | _ => .other

def HandRule.ofFact : String → HandRule
  | "range handlers: ctx=handle(ctx,V,inOuts[K])" => .everyKept
  | _ => .other

def kept (hs : List Occ) : List Occ := hs.filter (·.needs)

/-- readers in existence after the copy step (no kept handler: the stream itself, no copy) -/
def copies (r : CopyRule) (hs : List Occ) : Option Nat :=
  match r with
  | .perKept => some (if (kept hs).isEmpty then 1 else (kept hs).length + 1)
  | .other => none

/-- the occurrences the loop hands a copy to: position in the kept list -/
def handedAux : HandRule → List Nat → List Occ → Nat → List Nat
  | _, _, [], _ => []
  | .everyKept, seen, o :: rest, i => i :: handedAux .everyKept (o.id :: seen) rest (i + 1)
  | .skipRepeated, seen, o :: rest, i =>
      if seen.contains o.id then handedAux .skipRepeated seen rest (i + 1)
      else i :: handedAux .skipRepeated (o.id :: seen) rest (i + 1)
  | .other, _, _ :: _, _ => []

def handed (h : HandRule) (hs : List Occ) : List Nat := handedAux h [] (kept hs) 0

/-- copies nobody was handed: all but the node's own and the handed ones -/
def leaked (r : CopyRule) (h : HandRule) (hs : List Occ) : Option Nat :=
  (copies r hs).map fun n => n - 1 - (handed h hs).length

end EinoV.C19.Cb
