/-
  Additions to the prelude for the translated `concatToolCalls` (schema/message.go; Gen/TransC14.lean,
  gotrans phase 7).  Core Lean only.  TRUSTED statements of library behaviour:

  * `sort.SliceStable(xs, less)`: a stable sort by the comparator — elements that compare equal keep their
    order.  Given the meaning "stable insertion sort": `goSortSliceStable` (the result of any stable sort by a
    strict weak order is unique; for a comparator that is not one, package sort promises nothing and neither
    does this).  Which pairs the library compares is unspecified: if the comparator can leave the translated
    semantics (panic) on some pair of elements of `xs`, the call is `none` (`goSortSliceStable?`).
  * `strings.Builder`: a String accumulator (`Reset` = "", `WriteString` appends and returns a nil error,
    `String` reads it) — the translator emits these directly.
  * `*int` is `Option Int`.
-/
import EinoV.Model.GoSemReg
namespace EinoV.GoSem

def goInsStable {α} (less : α → α → Bool) (x : α) : List α → List α
  | [] => [x]
  | y :: ys => if less y x then y :: goInsStable less x ys else x :: y :: ys

/-- `sort.SliceStable(xs, less)` -/
def goSortSliceStable {α} (xs : List α) (less : α → α → Bool) : List α := xs.foldr (goInsStable less) []

/-- the comparator is defined on the pair -/
def GoOutcome.isRet {α} : GoOutcome α → Bool
  | .ret _ => true
  | _ => false

def GoOutcome.getD {α} (d : α) : GoOutcome α → α
  | .ret a => a
  | _ => d

/-- `sort.SliceStable(xs, less)` for a comparator that may panic: defined when it is defined on every pair -/
def goSortSliceStable? {α} (xs : List α) (less : α → α → GoOutcome Bool) : Option (List α) :=
  if xs.all (fun a => xs.all (fun b => (less a b).isRet)) then
    some (goSortSliceStable xs (fun a b => (less a b).getD false))
  else none

end EinoV.GoSem
