/-
  C04, family "erritem": the ERROR VALUE of an error item on a stream.

  A stream ends when `Recv` returns the bare `io.EOF`. Everything else that is non-nil is an error
  item a producer sent (`sw.Send(zero, err)`) — also when the error's `Unwrap` chain reaches io.EOF
  (`*url.Error{Err: io.EOF}` from a dropped connection, `fmt.Errorf("recv: %w", io.EOF)`,
  `errors.Join(e, io.EOF)`, an `Is` method answering for io.EOF), when it is `io.ErrUnexpectedEOF`, or
  wraps `context.Canceled`. A reader loop must therefore end on `err == io.EOF`, not on
  `errors.Is(err, io.EOF)`: source fact `composeEOFComparedByIdentity` for the loop behind every
  derived paradigm, `concatStreamReader` (compose/stream_concat.go).

  `view byIdentity items` is what a reader loop sees of a stream whose writer sent `items` and closed:
  an `LStream` (chunks + the error item that ended the reading, `Model/C04Lazy.lean`).
-/
import EinoV.Model.C04Lazy
namespace EinoV.C04
open EinoV.Engine

/-- how an error value relates to io.EOF -/
inductive EOFRel where
  | identical   -- the value is io.EOF itself
  | reaches     -- errors.Is(err, io.EOF) holds, err != io.EOF (wrapped, joined, custom Is)
  | unrelated   -- errors.Is(err, io.EOF) does not hold
  deriving Repr, DecidableEq, Inhabited

/-- what a writer sends -/
inductive Item (V : Type) where
  | chunk (v : V)
  | fail (rel : EOFRel) (e : Err)

/-- does a reader loop take an error of this relation for the end of the stream? -/
def endsStream (byIdentity : Bool) : EOFRel → Bool
  | .identical => true
  | .reaches => !byIdentity
  | .unrelated => false

/-- the stream as a reader loop sees it: the chunks up to the first error, which either ends the
    stream silently (taken for EOF) or is the error item the loop reports -/
def view {V} (byIdentity : Bool) : List (Item V) → LStream V
  | [] => { chunks := [] }
  | .chunk v :: rest => let s := view byIdentity rest; { chunks := v :: s.chunks, err := s.err }
  | .fail rel e :: _ => if endsStream byIdentity rel then { chunks := [] } else { chunks := [], err := some e }

end EinoV.C04
