/-
  C05 / C06, stream paradigms: the one value the stream paradigms have and the value paradigm has
  not — the stream that is closed without any chunk — and how a checkpoint carries streams.

  * `Chunks V` = a stream as the list of its chunks. `concatS` / `restoreS` mirror
    compose/generic_helper.go `defaultStreamConvertPair[T]` (`concatStream` / `restoreStream`), the
    converter every pending input and channel content goes through when a checkpoint is written /
    read in a stream paradigm (compose/checkpoint.go `convertCheckPoint` / `restoreCheckPoint`).
    What `concatStream` answers for a stream without chunks is a source fact
    (`emptyStreamStoredAsNil`: `nil, nil` under `errors.Is(err, emptyStreamConcatErr)`), an explicit
    parameter here.
  * `absS`: what the case language observes of a stream: "no chunk" (`e`), or the chunks merged
    (chunk boundaries other than "none" are not observed).
  * `emptyV` / `mergeE`: the graph case language's value universe extended by that one value
    (used by Oracle/C05GraphCase.lean): a fan-in drops it (a merged stream has the chunks of the
    others), a fan-in of only such streams is one again.
  * `histLoop`: `resumeLoop` of Model/C05.lean with a runner per call (a call runs the graph in value
    mode or in stream mode, by the calling paradigm).
  Core Lean only.
-/
import EinoV.Model.FlatMap
import EinoV.Model.C05

namespace EinoV.Interrupt.Streams
open EinoV EinoV.Engine EinoV.Interrupt

/-- a stream, as the list of its chunks -/
abbrev Chunks (V : Type) := List V

/-- `concatStream`: what the checkpoint stores for a stream. Inner `none` = Go's untyped `nil`; outer
    `none` = the concatenation failed. `storeNil` is the source fact `emptyStreamStoredAsNil`; when it
    is false the typed zero value is stored for a stream without chunks. -/
def concatS {V} (storeNil : Bool) (ops : ValOps V) : Chunks V → Option (Option V)
  | [] => some (if storeNil then none else some ops.zero)
  | [v] => some (some v)
  | vs => (ops.merge vs).map some

/-- `restoreStream`: `nil` comes back as a stream without chunks, a value as a one-chunk stream -/
def restoreS {V} : Option V → Chunks V
  | none => []
  | some v => [v]

/-- one checkpoint round trip of a stream (write in a stream paradigm, read in a stream paradigm) -/
def roundTrip {V} (storeNil : Bool) (ops : ValOps V) (s : Chunks V) : Option (Chunks V) :=
  (concatS storeNil ops s).map restoreS

/-- what is observed of a stream: `e` for "no chunk at all", else the chunks merged
    (`none`: they cannot be merged) -/
def absS {V} (ops : ValOps V) (e : V) : Chunks V → Option V
  | [] => some e
  | [v] => some v
  | vs => ops.merge vs

/-! ### the value universe of the graph case language, extended -/

/-- the stream without chunks as a value of the case language (rendered `<empty>=;`) -/
def emptyV : FlatMap := [("<empty>", "")]

def isE (v : FlatMap) : Bool := v == emptyV

/-- fan-in (`mergeValues` of streams = one stream with the chunks of all): chunk-less streams
    contribute nothing; only chunk-less streams give a chunk-less stream -/
def mergeE (vs : List FlatMap) : Option FlatMap :=
  let ne := vs.filter (fun v => !isE v)
  if ne.isEmpty && !vs.isEmpty then some emptyV else FlatMap.merge ne

/-! ### a history with a runner per call -/

/-- `resumeLoop` with the runner chosen per call (`rOf i` runs call number `i`) -/
def histLoop {V S X} (ops : ValOps V) (cfg : Cfg) (rOf : Nat → IRunner V S X) (sched : ISched V S X) :
    Nat → Nat → V ⊕ Checkpoint V S X → List (Out V S X)
  | 0, _, _ => []
  | n + 1, i, inp =>
    let o := runI ops cfg (rOf i) sched false true inp
    match o.res with
    | .interrupted cp _ => o :: histLoop ops cfg rOf sched n (i + 1) (.inr cp)
    | _ => [o]

end EinoV.Interrupt.Streams
