/-
  C07 — the concrete types of the universe seen structurally, and Go's own assignability
  (`reflect.Type.AssignableTo`, Go spec "Assignability") next to eino's rule
  (compose/utils.go checkAssignable = EinoV.Build.checkAssignable).

  In the builder model a concrete type is an opaque id (`Ty.conc id`) and two concrete types
  are connected iff the ids are equal.  That is exactly what the source does
  (`arg == input` on reflect.Type, then only interface cases), and it is what the receiving
  side needs: every node, branch condition and state handler takes its input by a type
  assertion `input.(T)`, which for a concrete `T` succeeds only when the dynamic type is
  identical to `T` (`dynOk`).  Go's assignability is weaker between concrete types: it also
  accepts

  * a defined (named) type and the unnamed type literal with the identical underlying type, in
    both directions (`type MyMap map[string]any` ↔ `map[string]any`, `type Ints []int` ↔
    `[]int`, a named func type ↔ its literal);
  * a bidirectional channel where a directional channel of the same element type is expected
    (`chan int` → `<-chan int`), if one of the two is not a named type.

  `Desc` carries what these rules look at; `goAssignable` is the rule.  The harness compares
  `goAssignable menuUniv` with reflect over the whole menu (oracle query "universe"), so the
  description below is checked, not trusted.  Core Lean only.
-/
import EinoV.Model.C20Builder
import EinoV.Model.C07

namespace EinoV.C07
open EinoV.Build

inductive ChanDir where
  | both | recv | send
  deriving DecidableEq, Repr, Inhabited

/-- what Go's assignability rules read off a concrete (non-interface) type -/
structure Desc where
  /-- a named type: defined by a type declaration, or predeclared (`string`, `int`);
      false for a type literal (`map[string]any`, `[]int`, `func(int) int`, `chan int`) -/
  named : Bool
  /-- identity class of the underlying type: two types have identical underlying types iff
      these are equal -/
  under : Nat
  /-- for a channel type: direction and identity class of the element type -/
  chan : Option (ChanDir × Nat)
  deriving DecidableEq, Repr, Inhabited

/-- description of every concrete type id -/
abbrev Univ := Nat → Desc

/-- Go spec, Assignability, for a value of concrete type `v` and a concrete target `t`:
    identical types; or identical underlying types and at least one of the two is not a named
    type; or `v` is a bidirectional channel, `t` a channel type with the identical element type
    and at least one of the two is not a named type. -/
def goAssignableConc (u : Univ) (v t : Nat) : Bool :=
  v == t ||
  ((!(u v).named || !(u t).named) &&
    ((u v).under == (u t).under ||
      match (u v).chan, (u t).chan with
      | some (.both, ev), some (_, et) => ev == et
      | _, _ => false))

/-- `V.AssignableTo(T)` over the universe: the rule above between concrete types, `Implements`
    into an interface, identity otherwise (an interface value is assignable to a concrete type
    never, to an interface iff its method set suffices – part of `implements`). -/
def goAssignable (u : Univ) (im : Impl) : Ty → Ty → Bool
  | .conc v, .conc t => goAssignableConc u v t
  | V, T => V == T || (T.isIface && implements im V T)

/-- the relaxed rule a maintainer might write: "assignable for sure whenever Go says the types
    are assignable, otherwise as before" -/
def relaxedCheck (u : Univ) (im : Impl) (i a : Option Ty) : Asg :=
  match i, a with
  | some x, some y => if goAssignable u im x y then .must else checkAssignable im i a
  | _, _ => .mustNot

/-- the harness menu (harness/props/c20types.go c0…c5, c07_types.go c6…c13) -/
def menuUniv : Univ
  | 0 => { named := true, under := 0, chan := none }      -- string
  | 1 => { named := true, under := 1, chan := none }      -- int
  | 2 => { named := true, under := 2, chan := none }      -- type c20S struct{X int}
  | 3 => { named := true, under := 3, chan := none }      -- type c20ImplA struct{N int}
  | 4 => { named := true, under := 3, chan := none }      -- type c20ImplB struct{N int}
  | 5 => { named := false, under := 5, chan := none }     -- map[string]any
  | 6 => { named := true, under := 5, chan := none }      -- type c07MyMap map[string]any
  | 7 => { named := false, under := 7, chan := none }     -- []int
  | 8 => { named := true, under := 7, chan := none }      -- type c07Ints []int
  | 9 => { named := true, under := 0, chan := none }      -- type c07MyStr string
  | 10 => { named := false, under := 10, chan := none }   -- func(int) int
  | 11 => { named := true, under := 10, chan := none }    -- type c07Fn func(int) int
  | 12 => { named := false, under := 12, chan := some (.both, 1) }   -- chan int
  | 13 => { named := false, under := 13, chan := some (.recv, 1) }   -- <-chan int
  | n => { named := true, under := n, chan := none }

/-- number of concrete types of the menu -/
def menuConcrete : Nat := 14

end EinoV.C07
