/-
  C08 — handing a reader WITH HISTORY over to a new consumer (family `late` of the harness).

  A `StreamReader` may be passed to a constructor (`MergeStreamReaders`, `StreamReaderWithConvert`,
  `Copy`) at any time, not only when it is fresh.  Two kinds of reader keep state OUTSIDE the
  underlying channel, so that "what this reader still owes" is not "what the channel still holds":

  * a copy (`childStreamReader`): its cursor into the shared list of its `Copy` cell.  Items that a
    sibling has already read from the source exist only in that list, at this copy's cursor — also
    when that sibling has been closed since, and also when this copy is the only one still open;
  * an array reader (`arrayReader`): its index.

  `takeOver` is what the new consumer reads to the end when it is handed copy `i` of a cell in ANY
  state (`CopySys` of Model/C08.lean over a list source: any interleaving of `Recv` / `Close` of the
  copies before).  How `MergeStreamReaders` takes a copy is a source fact (`LateFacts.childViaRecv`:
  `case readerTypeChild: ss = append(ss, sr.csr.toStream())`, the forwarding goroutine of which
  calls `csr.recv`, i.e. `parent.peek(own index)`); with the other value the new consumer reads the
  cell's source itself.  The forwarding goroutine is `fwdLoop` of Model/C08.lean.
-/
import EinoV.Model.C08

namespace EinoV.C08

/-- source facts of the hand-over in `MergeStreamReaders` -/
structure LateFacts where
  childViaRecv : Bool     -- a copy is merged through `csr.toStream()`, whose loop reads `csr.recv` = `parent.peek(csr.index)`
  arrayFromIndex : Bool   -- an array reader is merged as `sr.ar.arr[sr.ar.index:]`
  deriving DecidableEq, Repr

/-- items that wait for copy `idx` in the shared list: read from the source by a sibling, not yet by
    this copy (0 for a closed copy) -/
def listedFor (c : CopyCore) (idx : Nat) : Nat :=
  match c.cursors[idx]? with
  | some (some k) => c.log.length - k
  | _ => 0

/-- one `Recv` of copy `i` with its result: the `.recv i` step of `CopySys.step` (`recv1_is_step`) -/
def CopySys.recv1 {σ : Type} (f : CopyFacts) (S : Src σ) (y : CopySys σ) (i : Nat) : Option (Res × CopySys σ) :=
  match y.core.peekLocal f i with
  | .closed => none
  | .have r c' => some (r, { y with core := c', outs := y.outs ++ [(i, r)] })
  | .fill k =>
    match S.recv y.src with
    | none => none
    | some (r, s') =>
      some (r, { core := y.core.fill i k r, src := s', pulled := y.pulled ++ [r], outs := y.outs ++ [(i, r)] })

theorem CopySys.recv1_is_step {σ : Type} (f : CopyFacts) (S : Src σ) (y : CopySys σ) (i : Nat) :
    (y.recv1 f S i).map (·.2) = y.step f S (.recv i) := by
  simp only [CopySys.recv1, CopySys.step]
  cases y.core.peekLocal f i with
  | closed => rfl
  | «have» r c' => rfl
  | fill k =>
    cases S.recv y.src with
    | none => rfl
    | some rs => rfl

/-- copy `i` read until io.EOF (over the list source, which never blocks): the items delivered -/
def drainChild (f : CopyFacts) : Nat → CopySys (List Item) → Nat → Option (List Item)
  | 0, _, _ => none
  | fuel + 1, y, i =>
    match y.recv1 f listSrc i with
    | none => none
    | some (.eof, _) => some []
    | some (.item x, y') => (drainChild f fuel y' i).map (x :: ·)

/-- What the consumer that takes over copy `i` (a merged reader, through the forwarding goroutine
    `fwdLoop`) reads until the end of the stream.  `childViaRecv`: through the copy's own receive
    path, i.e. from its cursor; otherwise from the source of the cell directly. -/
def takeOver (lf : LateFacts) (ident : Bool) (wraps : Nat → Bool) (f : CopyFacts)
    (y : CopySys (List Item)) (i : Nat) : Option (List Item) :=
  (if lf.childViaRecv then drainChild f (listedFor y.core i + y.src.length + 1) y i
   else match y.core.cursors[i]? with
     | some (some _) => some y.src
     | _ => none).map (fwdLoop ident wraps)

/-- an array reader `arrayReader{arr, index}` handed over: the unread rest, or the whole array -/
def arrTakeOver (lf : LateFacts) (arr : List Item) (index : Nat) : List Item :=
  if lf.arrayFromIndex then arr.drop index else arr

end EinoV.C08
